"""Shared generators. Every random choice derives from the rng passed in."""
import math, random


def spell_number(rng, allow_sign=True, small=False, nonneg=False):
    """A numeric spelling conforming to the SVG/CSS number grammar; returns (text, float(text))."""
    kind = rng.random()
    if kind < 0.15:
        body = str(rng.randint(0, 9))
    elif kind < 0.35:
        body = str(rng.randint(0, 999 if not small else 20))
    elif kind < 0.6:
        body = "%d.%s" % (rng.randint(0, 99 if not small else 9), rng.choice(["5", "25", "125", "0", "75", "3", "001"]))
    elif kind < 0.75:
        body = ".%s" % rng.choice(["5", "25", "125", "75", "05"])
    elif kind < 0.9:
        mant = rng.choice(["1", "2.5", "12", ".5", "7.25"])
        e = rng.choice(["e0", "e1", "E1", "e-1", "e+1", "E-2", "e2" if not small else "e0"])
        body = mant + e
    else:
        body = "0" + str(rng.randint(0, 99))  # leading zero
    sign = ""
    if allow_sign and not nonneg:
        r = rng.random()
        if r < 0.35:
            sign = "-"
        elif r < 0.45:
            sign = "+"
    elif allow_sign and rng.random() < 0.1:
        sign = "+"
    text = sign + body
    return text, float(text)


def coord(rng):
    """a coordinate: exactly 0, or magnitude 1e-3..1e5 with random sign"""
    r = rng.random()
    if r < 0.08:
        return 0.0
    if r < 0.5:
        return round(rng.uniform(-100, 100), rng.choice([0, 1, 2, 3]))
    mag = 10 ** rng.uniform(-3, 5)
    return mag * rng.choice([-1, 1])


def matrix_invertible(rng, cond_max=400.0):
    """R(alpha) diag(sx, sy) Sh(k) R(beta) + T with bounded condition number; det of either sign"""
    if rng.random() < 0.04:
        # the identity with exactly one entry changed (pure skewX/skewY/scaleX/scaleY/translateX/translateY): what a
        # shortcut for "nothing to do" must not swallow
        m = [1.0, 0.0, 0.0, 1.0, 0.0, 0.0]
        i = rng.randrange(6)
        m[i] = rng.choice([0.5, -1.0, 2.0]) if i in (0, 3) else rng.choice([0.75, -2.0, 1.0])
        return m
    kind = rng.random()
    al = rng.uniform(0, 2 * math.pi) if rng.random() < 0.7 else rng.choice([0, math.pi / 2, math.pi, math.pi / 6])
    be = rng.uniform(0, 2 * math.pi) if rng.random() < 0.5 else 0.0
    ratio = 10 ** rng.uniform(0, math.log10(cond_max) * 0.9)
    base = 10 ** rng.uniform(-1.5, 1.5)
    sx, sy = base, base / ratio
    if kind < 0.15:
        sx = sy = base  # similarity
        k = 0.0
    elif kind < 0.3:
        k = 0.0
    else:
        k = rng.uniform(-1.5, 1.5)
    if rng.random() < 0.35:
        sy = -sy
    ca, sa, cb, sb = math.cos(al), math.sin(al), math.cos(be), math.sin(be)

    def mul(m, s):  # first m then s, svgelements convention (a,b,c,d,e,f)
        return (
            s[0] * m[0] + s[2] * m[1], s[1] * m[0] + s[3] * m[1],
            s[0] * m[2] + s[2] * m[3], s[1] * m[2] + s[3] * m[3],
            s[0] * m[4] + s[2] * m[5] + s[4], s[1] * m[4] + s[3] * m[5] + s[5],
        )
    m = (ca, sa, -sa, ca, 0, 0)
    m = mul(m, (sx, 0, 0, sy, 0, 0))
    m = mul(m, (1, 0, k, 1, 0, 0))
    m = mul(m, (cb, sb, -sb, cb, 0, 0))
    tx = coord(rng) if rng.random() < 0.7 else 0.0
    ty = coord(rng) if rng.random() < 0.7 else 0.0
    if abs(tx) > 1e4:
        tx /= 100
    if abs(ty) > 1e4:
        ty /= 100
    return [m[0], m[1], m[2], m[3], tx, ty]


def mat_mul(m, s):
    """first m then s (svgelements Matrix.matrix_multiply(m, s)), entries a,b,c,d,e,f"""
    return [
        s[0] * m[0] + s[2] * m[1], s[1] * m[0] + s[3] * m[1],
        s[0] * m[2] + s[2] * m[3], s[1] * m[2] + s[3] * m[3],
        s[0] * m[4] + s[2] * m[5] + s[4], s[1] * m[4] + s[3] * m[5] + s[5],
    ]


def mat_apply(m, p):
    return (p[0] * m[0] + p[1] * m[2] + m[4], p[0] * m[1] + p[1] * m[3] + m[5])


IDENT = [1.0, 0.0, 0.0, 1.0, 0.0, 0.0]
