"""
Core of the verification harness.

One run of a property check (see DESIGN.md §2.2):
  1. regenerate Generated/*.lean tables from /repo's current working tree (properties with tables)
  2. proofs: `lake build SvgVerif.Props.<id>`; forbidden-construct grep; `#print axioms` audit
  3. correspondence: real implementation (in-process) vs Lean model (Driver.lean) on the same cases
  4. property oracle evaluated directly on the implementation's outputs (failing-input search)
  5. decide: failing input -> VIOLATION with replay; broken proof/correspondence without failing
     input -> VIOLATION ... no-failing-input-found; known findings -> KNOWN-FINDING lines, exit 0
  6. evidence/<id>.json
Exit codes: 0 held, 1 violation, 2 infrastructure failure.
"""
import sys, os, json, time, re, struct, subprocess, random, hashlib, fcntl, math, traceback

VERIF = os.path.dirname(os.path.dirname(os.path.abspath(__file__)))
LEAN = os.path.join(VERIF, "lean")
REPO = os.environ.get("SVGELEMENTS_REPO", "/repo")
if REPO not in sys.path:
    sys.path.insert(0, REPO)

ALLOWED_AXIOMS = {"propext", "Classical.choice", "Quot.sound"}
FORBIDDEN = re.compile(
    r"\bsorry\b|\badmit\b|^\s*axiom\s|native_decide|bv_decide|implemented_by|\bunsafe\s|maxHeartbeats\s+0\b"
)

# ----------------------------------------------------------------------------- wire helpers

def fhex(x):
    """float -> 16 hex digits of the IEEE-754 bit pattern"""
    return struct.pack(">d", float(x)).hex()


def hexf(s):
    return struct.unpack(">d", bytes.fromhex(s))[0]


def shex(s):
    """str -> hex-encoded UTF-8"""
    return s.encode("utf-8", "surrogatepass").hex()


def parse_floats(out):
    """'OK h h h' -> [floats]; anything else -> the string"""
    parts = out.split()
    if parts and parts[0] == "OK":
        return [hexf(p) for p in parts[1:]]
    return out


def close(a, b, tol, scale=1.0):
    if a is None or b is None:
        return a is b
    if isinstance(a, float) and isinstance(b, float) and (math.isnan(a) or math.isnan(b)):
        return math.isnan(a) and math.isnan(b)
    if math.isinf(a) or math.isinf(b):
        return a == b
    return abs(a - b) <= tol * max(1.0, scale)


def exc_name(e):
    n = type(e).__name__
    return n if n in (
        "ValueError", "TypeError", "IndexError", "AttributeError", "ZeroDivisionError",
        "RecursionError", "KeyError", "OverflowError",
    ) else "other:" + n


# ----------------------------------------------------------------------------- Lean side

class LeanError(Exception):
    pass


def _run(cmd, cwd=None, timeout=3600, input=None):
    p = subprocess.run(cmd, cwd=cwd, input=input, capture_output=True, text=True, timeout=timeout)
    return p.returncode, p.stdout, p.stderr


def lake_build(targets):
    """Build the given lake targets under a lock. Returns (ok, log)."""
    lock = open(os.path.join(LEAN, ".build.lock"), "w")
    fcntl.flock(lock, fcntl.LOCK_EX)
    try:
        rc, out, err = _run(["lake", "build"] + list(targets), cwd=LEAN)
        return rc == 0, out + err
    finally:
        fcntl.flock(lock, fcntl.LOCK_UN)
        lock.close()


def theorem_names(path):
    """theorem names (with namespace) declared in a Props file"""
    src = open(path, encoding="utf-8").read()
    src_nc = strip_comments(src)
    ns = []
    names = []
    for line in src_nc.splitlines():
        m = re.match(r"\s*namespace\s+(\S+)", line)
        if m:
            ns.append(m.group(1))
            continue
        m = re.match(r"\s*end\s+(\S+)\s*$", line)
        if m and ns and ns[-1] == m.group(1):
            ns.pop()
            continue
        m = re.match(r"\s*(?:@\[[^\]]*\]\s*)?(?:private\s+|protected\s+)?theorem\s+(\S+)", line)
        if m:
            names.append(".".join(ns + [m.group(1)]))
    return names


def strip_comments(src):
    # remove block comments (nested) and line comments
    out = []
    i = 0
    depth = 0
    n = len(src)
    while i < n:
        if src.startswith("/-", i):
            depth += 1
            i += 2
            continue
        if depth and src.startswith("-/", i):
            depth -= 1
            i += 2
            continue
        if depth:
            if src[i] == "\n":
                out.append("\n")
            i += 1
            continue
        if src.startswith("--", i):
            while i < n and src[i] != "\n":
                i += 1
            continue
        out.append(src[i])
        i += 1
    return "".join(out)


def lean_sources_of(module, seen=None):
    """transitive SvgVerif.* sources of a module (for the forbidden-construct grep)"""
    if seen is None:
        seen = {}
    if module in seen:
        return seen
    path = os.path.join(LEAN, *module.split(".")) + ".lean"
    if not os.path.exists(path):
        return seen
    seen[module] = path
    for line in open(path, encoding="utf-8"):
        m = re.match(r"\s*import\s+(SvgVerif\.\S+|Generated\.\S+)", line)
        if m:
            lean_sources_of(m.group(1), seen)
    return seen


def audit(prop_id, extra_modules=()):
    """
    Build Props/<id>, grep for forbidden constructs, run `#print axioms` on every theorem.
    Returns dict(ok, obligations, discharged, theorems, broken:[...], log).
    """
    module = "SvgVerif.Props.%s" % prop_id
    path = os.path.join(LEAN, "SvgVerif", "Props", prop_id + ".lean")
    res = {"ok": True, "obligations": 0, "discharged": 0, "theorems": [], "broken": [], "log": "",
           "axioms": {}, "helpers": []}
    if not os.path.exists(path):
        res["ok"] = False
        res["broken"].append("missing " + path)
        return res
    all_names = theorem_names(path)
    # the property theorems are the ones named Cxx_…; helper lemmas kept beside them are audited for axioms as well
    # but are not counted as obligations
    names = [n for n in all_names if n.split(".")[-1].startswith(prop_id + "_")] or all_names
    helpers = [n for n in all_names if n not in names]
    res["obligations"] = len(names)
    res["theorems"] = names
    res["helpers"] = helpers
    ok, log = lake_build([module] + list(extra_modules))
    res["log"] = log[-6000:]
    if not ok:
        res["ok"] = False
        # which theorems failed? report names mentioned in error lines, else the module
        bad = set()
        for m in re.finditer(r"error: (\S+?\.lean):(\d+):", log):
            bad.add("%s:%s" % (os.path.basename(m.group(1)), m.group(2)))
        res["broken"].append("lake build %s failed at %s" % (module, sorted(bad) or "?"))
        return res
    # forbidden constructs in all transitive sources
    for mod, p in lean_sources_of(module).items():
        for ln, line in enumerate(strip_comments(open(p, encoding="utf-8").read()).splitlines(), 1):
            if FORBIDDEN.search(line):
                res["ok"] = False
                res["broken"].append("forbidden construct in %s:%d: %s" % (mod, ln, line.strip()[:80]))
    # axioms
    os.makedirs(os.path.join(LEAN, ".lake", "audit"), exist_ok=True)
    apath = os.path.join(LEAN, ".lake", "audit", "Audit_%s.lean" % prop_id)
    with open(apath, "w") as f:
        f.write("import %s\n" % module)
        for n in names + helpers:
            f.write("#print axioms %s\n" % n)
    rc, out, err = _run(["lake", "env", "lean", apath], cwd=LEAN)
    if rc != 0:
        res["ok"] = False
        res["broken"].append("axiom audit failed: " + (out + err)[-500:])
        return res
    # parse: "'Name' depends on axioms: [a, b]" or "'Name' does not depend on any axioms"
    text = out.replace("\n ", " ")
    found = {}
    for m in re.finditer(r"'([^']+)' (does not depend on any axioms|depends on axioms: \[([^\]]*)\])", text):
        axs = set() if m.group(3) is None else {a.strip() for a in m.group(3).replace("\n", " ").split(",") if a.strip()}
        found[m.group(1)] = sorted(axs)
    res["axioms"] = found
    for n in names + helpers:
        if n not in found:
            res["ok"] = False
            res["broken"].append("no axiom report for " + n)
            continue
        extra = set(found[n]) - ALLOWED_AXIOMS
        if extra:
            res["ok"] = False
            res["broken"].append("theorem %s depends on %s" % (n, sorted(extra)))
        elif n in names:
            res["discharged"] += 1
    return res


def run_driver(lines, timeout=3600):
    """Feed lines to the Lean model driver, return output lines (same count)."""
    if not lines:
        return []
    data = "\n".join(lines) + "\n"
    rc, out, err = _run(["lake", "env", "lean", "--run", "Driver.lean"], cwd=LEAN, input=data, timeout=timeout)
    outs = out.split("\n")
    if outs and outs[-1] == "":
        outs.pop()
    if rc != 0 or len(outs) != len(lines):
        raise LeanError("driver rc=%s, %d outputs for %d inputs: %s" % (rc, len(outs), len(lines), err[-2000:]))
    return outs


def leanchecker(modules):
    rc, out, err = _run(["lake", "env", "leanchecker"] + list(modules), cwd=LEAN, timeout=7200)
    return rc == 0, (out + err)[-2000:]


# ----------------------------------------------------------------------------- findings

def load_findings():
    p = os.path.join(VERIF, "known_findings.json")
    if not os.path.exists(p):
        return {"open": [], "fixed": []}
    return json.load(open(p))


# ----------------------------------------------------------------------------- result types

class Failure(dict):
    """A property failure found on the real implementation.
    keys: what (str), case (json-able), observed, expected, finding (optional known-finding id)"""


class Mismatch(dict):
    """A disagreement between implementation and model (correspondence).
    keys: stream, case, impl, model"""


class Prop:
    """Base class of a property module."""
    id = "C00"
    trusted_base = []
    assumptions = []
    rule = ""
    generated_modules = ()

    def regenerate(self, ctx):
        """rewrite lean/Generated/<id>_*.lean from the working tree; return list of problems"""
        return []

    def cases(self, rng, tier):
        """yield json-able cases (corpus first)"""
        return []

    def impl(self, case):
        """run the real code on the case; return a json-able observation"""
        raise NotImplementedError

    def model_ops(self, case):
        """driver lines for this case"""
        return []

    def compare(self, case, obs, model_out):
        """return list of Mismatch"""
        return []

    def oracle(self, case, obs):
        """evaluate the property on the implementation's observation; return list of Failure"""
        return []

    def nontrivial(self, case, obs):
        return True

    def describe(self, case):
        return case

    def extra_search(self, rng, ctx):
        """extended failing-input search when a proof or correspondence broke; yields cases"""
        return self.cases(rng, "thorough")


def canon_hash(case):
    return hashlib.sha1(json.dumps(case, sort_keys=True, default=str).encode()).hexdigest()


def jsonable(x):
    try:
        json.dumps(x)
        return x
    except Exception:
        return repr(x)


# ----------------------------------------------------------------------------- runner

def run_property(prop, tier, seed, replay=None, max_seconds=None):
    t0 = time.time()
    pid = prop.id
    os.makedirs(os.path.join(VERIF, "evidence"), exist_ok=True)
    os.makedirs(os.path.join(VERIF, "replays"), exist_ok=True)
    rng = random.Random("%s-%s-%s" % (pid, seed, tier))
    ctx = {"tier": tier, "seed": seed}
    broken = []          # proof obligations / correspondence streams that no longer check
    failures = []        # failing inputs on the implementation
    mismatches = []

    # 1. regenerate tables from the working tree
    try:
        broken += ["regenerate: " + b for b in (prop.regenerate(ctx) or [])]
    except Exception as e:
        traceback.print_exc()
        print("INFRA: regenerate failed: %r" % e)
        return 2

    # 2. proofs
    try:
        aud = audit(pid, prop.generated_modules)
    except Exception as e:
        traceback.print_exc()
        print("INFRA: lean build/audit failed to run: %r" % e)
        return 2
    if not aud["ok"]:
        broken += ["proof: " + b for b in aud["broken"]]
        print(aud["log"][-3000:])
    lc_note = None
    if tier == "thorough" and aud["ok"]:
        mods = sorted(lean_sources_of("SvgVerif.Props.%s" % pid).keys())
        ok, log = leanchecker(mods)
        lc_note = "leanchecker %s: %s" % (" ".join(mods), "ok" if ok else "FAILED")
        if not ok:
            broken.append("proof: leanchecker rejected: " + log[-500:])

    # 3/4. correspondence + oracle
    def explore(case_iter, budget_s):
        stats = {"n": 0, "nontrivial": set(), "samples": [], "dist": {}}
        batch = []
        tstart = time.time()

        def flush():
            nonlocal batch
            if not batch:
                return
            lines = []
            spans = []
            for case, obs in batch:
                ops = prop.model_ops2(case, obs) if hasattr(prop, 'model_ops2') else prop.model_ops(case)
                spans.append((len(lines), len(ops)))
                lines += ops
            try:
                outs = run_driver(lines) if lines else []
            except LeanError as e:
                # find the culprit by bisecting is overkill: report as correspondence break
                broken.append("correspondence: model driver failed: %s" % str(e)[:300])
                outs = None
            for (case, obs), (start, cnt) in zip(batch, spans):
                if outs is not None:
                    try:
                        ms = prop.compare(case, obs, outs[start:start + cnt])
                    except Exception as e:
                        traceback.print_exc()
                        ms = [Mismatch(stream="compare-crash", case=case, impl=jsonable(obs), model=repr(e))]
                    mismatches.extend(ms)
            if hasattr(prop, "drain_failures"):
                # failures established with the help of the driver (Lean spec oracle on impl outputs)
                failures.extend(prop.drain_failures())
            batch = []

        for case in case_iter:
            if budget_s is not None and time.time() - tstart > budget_s:
                break
            try:
                obs = prop.impl(case)
            except Exception as e:
                traceback.print_exc()
                obs = {"harness_exception": repr(e)}
                failures.append(Failure(what="harness could not observe the implementation: %r" % e, case=case))
            stats["n"] += 1
            try:
                fs = prop.oracle(case, obs)
            except Exception as e:
                traceback.print_exc()
                fs = [Failure(what="oracle crashed: %r" % e, case=case, observed=jsonable(obs))]
            failures.extend(fs)
            try:
                if prop.nontrivial(case, obs):
                    stats["nontrivial"].add(canon_hash(case))
            except Exception:
                pass
            tag = prop.tag(case) if hasattr(prop, "tag") else None
            if tag is not None:
                for tg in (tag if isinstance(tag, (list, tuple)) else [tag]):
                    stats["dist"][tg] = stats["dist"].get(tg, 0) + 1
            if len(stats["samples"]) < 5 and (stats["n"] % 97 == 1 or stats["n"] <= 2):
                stats["samples"].append({"case": jsonable(prop.describe(case)), "observed": jsonable(obs)})
            batch.append((case, obs))
            if len(batch) >= 4000:
                flush()
        flush()
        return stats

    if replay:
        rp = json.load(open(replay))
        case_list = [f["case"] for f in rp.get("failures", [])] or [m["case"] for m in rp.get("mismatches", [])]
        stats = explore(case_list, None)
    else:
        stats = explore(prop.cases(rng, tier), max_seconds)

    # 5. when something broke and no failing input yet: extended search
    searched_more = 0
    _open_ids = {f["id"] for f in load_findings().get("open", []) if f["property"] == pid}

    def _unknown(fl):
        return [f for f in fl if f.get("finding") not in _open_ids]
    if (broken or mismatches) and not _unknown(failures) and not replay:
        # mismatching cases are the first candidates: the model satisfies the spec by theorem, so a
        # mismatch on a spec-determined observable is evaluated by prop.judge_mismatch if present
        if hasattr(prop, "judge_mismatch"):
            for m in mismatches:
                f = prop.judge_mismatch(m)
                if f:
                    failures.append(f)
        if not _unknown(failures):
            rng2 = random.Random("%s-%s-search" % (pid, seed))
            st2 = explore(prop.extra_search(rng2, ctx), 240 if tier == "quick" else 1200)
            searched_more = st2["n"]
            if hasattr(prop, "judge_mismatch"):
                for m in mismatches:
                    f = prop.judge_mismatch(m)
                    if f:
                        failures.append(f)

    # 6. known findings
    kf = load_findings()
    open_f = {f["id"]: f for f in kf.get("open", []) if f["property"] == pid}
    known_hits = {}
    new_failures = []
    for f in failures:
        fid = f.get("finding")
        if fid and fid in open_f:
            known_hits.setdefault(fid, []).append(f)
        else:
            new_failures.append(f)
    # mismatches that the property module attributes to a known finding
    live_mismatches = []
    for m in mismatches:
        fid = m.get("finding")
        if fid and fid in open_f:
            known_hits.setdefault(fid, []).append(m)
        else:
            live_mismatches.append(m)
    for fid, hits in sorted(known_hits.items()):
        print("KNOWN-FINDING: property=%s %s [%s; %d case(s) this run]" % (pid, open_f[fid]["what"], fid, len(hits)))
    # open findings whose witness no longer fails are reported as information
    if hasattr(prop, "replay_findings") and not replay:
        for fid, f in sorted(open_f.items()):
            try:
                still = prop.replay_findings(f)
            except Exception as e:
                still = "witness replay crashed: %r" % e
            if still is True:
                if fid not in known_hits:
                    print("KNOWN-FINDING: property=%s %s [%s; stored witness]" % (pid, f["what"], fid))
            elif still is False:
                print("NOTE: known finding %s of %s no longer reproduces on its stored witness" % (fid, pid))
            elif still is not None:
                print("NOTE: known finding %s: %s" % (fid, still))

    rc = 0
    replay_path = None
    if new_failures or broken or live_mismatches:
        rc = 1
        k = 0
        while True:
            replay_path = os.path.join(VERIF, "replays", "%s-%s-%d.json" % (pid, seed, k))
            if not os.path.exists(replay_path):
                break
            k += 1
        kind = "failing-input" if new_failures else "no-failing-input-found"
        with open(replay_path, "w") as f:
            json.dump({
                "property": pid, "kind": kind, "tier": tier, "seed": seed,
                "failures": [dict(x) for x in new_failures[:20]],
                "broken": broken,
                "mismatches": [dict(x) for x in live_mismatches[:20]],
                "n_failures": len(new_failures), "n_mismatches": len(live_mismatches),
                "searched_more": searched_more,
            }, f, indent=1, default=str)
        rel = os.path.relpath(replay_path, VERIF)
        for x in new_failures[:5]:
            print("  failing input: %s" % json.dumps(dict(x), default=str)[:600])
        for b in broken[:5]:
            print("  broken: %s" % b[:600])
        for m in live_mismatches[:5]:
            print("  model/impl disagreement: %s" % json.dumps(dict(m), default=str)[:600])
        if new_failures:
            print("VIOLATION property=%s replay=%s" % (pid, rel))
        else:
            print("VIOLATION property=%s replay=%s no-failing-input-found" % (pid, rel))

    # 7. evidence
    wall = time.time() - t0
    tb = [
        "Lean 4.33.0 kernel; axioms allowed: propext, Classical.choice, Quot.sound (audited by #print axioms on every run)",
        "Mathlib v4.33.0 modules imported by SvgVerif/Props and SvgVerif/Proofs",
        "correspondence check harness/ (generators, impl drivers, tolerances) and lean/Driver.lean",
        "IEEE-754 rounding and libm: theorems are over exact fields; deviation measured by the correspondence tolerance",
    ] + list(prop.trusted_base)
    ev = {
        "property_id": pid, "tier": tier, "seed": int(seed), "level": "proof",
        "coverage": {
            "obligations": aud["obligations"], "discharged": aud["discharged"],
            "checker_cmd": "cd lean && lake build SvgVerif.Props.%s && lake env lean .lake/audit/Audit_%s.lean  # #print axioms" % (pid, pid),
            "trusted_base": tb,
            "theorems": aud["theorems"],
            "helper_lemmas_audited": len(aud.get("helpers", [])),
            "axioms": aud.get("axioms", {}),
            "evaluations": stats["n"],
            "distinct_nontrivial": len(stats["nontrivial"]),
            "rule": prop.rule,
            "samples": stats["samples"] or [{"note": "no cases"}],
            "distribution": stats["dist"],
            "correspondence_mismatches": len(mismatches),
            "oracle_failures": len(failures),
            "known_finding_hits": {k: len(v) for k, v in known_hits.items()},
            "broken": broken,
            "extended_search_cases": searched_more,
        },
        "assumptions": list(prop.assumptions),
        "wall_s": round(wall, 2),
        "violations": 0 if rc == 0 else max(1, len(new_failures)),
    }
    if lc_note:
        ev["coverage"]["leanchecker"] = lc_note
    if getattr(prop, "exhaustive", False):
        ev["coverage"]["exhaustive"] = True
        ev["coverage"]["exhaustive_note"] = getattr(prop, "exhaustive_note", "")
    if replay_path:
        ev["coverage"]["replay"] = os.path.relpath(replay_path, VERIF)
    with open(os.path.join(VERIF, "evidence", pid + ".json"), "w") as f:
        json.dump(ev, f, indent=1, default=str)
    print("%s %s: theorems %d/%d, cases %d (%d distinct non-trivial), mismatches %d, failures %d, known %d, %.1fs -> %s" % (
        pid, tier, aud["discharged"], aud["obligations"], stats["n"], len(stats["nontrivial"]),
        len(mismatches), len(failures), sum(len(v) for v in known_hits.values()), wall,
        "OK" if rc == 0 else "VIOLATION"))
    return rc
