"""Shared helpers of the path-stack properties (C01, C07, C09, C17): command ASTs, conforming
renderings with arbitrary layout, observation of a live Path through public fields, the wire form
of ASTs for the Lean specification interpreter, and parsing of the model's segment lists."""
import math
from core import fhex, hexf, shex
import gen
from svgelements import (Path, Move, Line, Close, QuadraticBezier, CubicBezier, Arc, Point)

LETTERS = "MmZzLlHhVvCcSsQqTtAa"
# number of numeric operands per argument group (arc: rx ry rot fa fs x y)
ARITY = {"M": 2, "L": 2, "H": 1, "V": 1, "C": 6, "S": 4, "Q": 4, "T": 2, "A": 7, "Z": 0}
# number of leading numbers that may remain when the final pair is replaced by a segment-completing z
ZPREFIX = {"L": 0, "Q": 2, "T": 0, "C": 4, "S": 2, "A": 5}


# ----------------------------------------------------------------------------- AST generation

def rand_num(rng, small=False):
    t, v = gen.spell_number(rng, small=small)
    return {"t": t, "v": v}


def lit(v):
    """a literal for a given float (repr round-trips in Python; value re-read from the text)"""
    t = repr(float(v))
    if t.endswith(".0"):
        t = t[:-2]
    return {"t": t, "v": float(t)}


def rand_group(rng, letter):
    """one argument group: list of number literals (flags as '0'/'1' literals)"""
    L = letter.upper()
    if L == "A":
        rx, ry = rand_num(rng), rand_num(rng)
        if rng.random() < 0.7:          # mostly positive, occasionally negative/zero radii
            rx = {"t": rx["t"].lstrip("+-"), "v": abs(rx["v"])}
            ry = {"t": ry["t"].lstrip("+-"), "v": abs(ry["v"])}
        fa, fs = rng.choice("01"), rng.choice("01")
        return [rx, ry, rand_num(rng), {"t": fa, "v": float(fa), "flag": True}, {"t": fs, "v": float(fs), "flag": True},
                rand_num(rng), rand_num(rng)]
    return [rand_num(rng) for _ in range(ARITY[L])]


def rand_ast(rng, ncmd=None, allow_z_complete=True, first=None):
    """a conforming command list: [{'c': letter, 'groups': [[lit,...],...], 'zc': bool}] beginning with a move.
    'zc': the last group's final coordinate pair is replaced by a segment-completing z (SVG 2);
    a close command then follows immediately (it is the same z)."""
    n = ncmd if ncmd is not None else rng.choice([1, 2, 2, 3, 3, 4, 5, 6, 8, 12])
    cmds = []
    letter = first or rng.choice("Mm")
    prev = None
    for i in range(n):
        if i > 0:
            r = rng.random()
            if prev is not None and prev.upper() in "QT" and r < 0.3:
                letter = rng.choice("TtSs")
            elif prev is not None and prev.upper() in "CS" and r < 0.3:
                letter = rng.choice("SsTt")
            elif prev is not None and prev.upper() == "Z" and r < 0.5:
                letter = rng.choice("LlHhVvCcSsQqTtAa")      # close followed by a non-move
            elif prev is not None and prev.upper() == "M" and r < 0.2:
                letter = rng.choice("Mm")                    # consecutive moves
            else:
                letter = rng.choice(LETTERS)
        L = letter.upper()
        if L == "Z":
            cmds.append({"c": letter, "groups": [], "zc": False})
            prev = letter
            continue
        reps = 1 if rng.random() < 0.6 else rng.choice([2, 2, 3, 4])
        groups = [rand_group(rng, letter) for _ in range(reps)]
        zc = False
        if allow_z_complete and L in ZPREFIX and (reps == 1 or ZPREFIX[L] > 0) and rng.random() < 0.08:
            zc = True
            groups[-1] = groups[-1][:ZPREFIX[L]]
        cmds.append({"c": letter, "groups": groups, "zc": zc})
        prev = letter
        if zc:
            z = rng.choice("Zz")
            cmds.append({"c": z, "groups": [], "zc": False, "completes": True})
            prev = z
    return cmds


# ----------------------------------------------------------------------------- rendering

SEPS = [" ", " ", " ", ",", ", ", " ,", "  ", "\t", "\n", " \r\n", ", \t"]
WSPS = [" ", " ", "", "", "\t", "\n", "  "]


def _needs_sep(prev_text, prev_flag, nxt_text):
    """may the two literals be written with nothing in between? (maximal munch of the number grammar)"""
    if prev_flag:
        return False                     # a flag is a single character
    c = nxt_text[0]
    if c in "+-":
        return False
    if c == "." and ("." in prev_text or "e" in prev_text.lower()):
        return False
    return True


def render(cmds, rng=None, tight=None, marks=None):
    """path-data text for an AST. rng=None: canonical single-space layout.
    marks (optional list) receives (offset just after an argument group / close letter, number of
    segments the text up to there draws)."""
    out = []
    pos = 0
    nseg = 0

    def emit(t):
        nonlocal pos
        out.append(t)
        pos += len(t)

    for ci, cmd in enumerate(cmds):
        if ci > 0:
            emit(" " if rng is None else rng.choice(WSPS))
        emit(cmd["c"])
        if cmd["c"] in "Zz":
            nseg += 2 if cmd.get("completes") else 1
            if marks is not None:
                marks.append((pos, nseg))
        prev = None
        ng = len(cmd["groups"])
        for gi, group in enumerate(cmd["groups"]):
            for l in group:
                if prev is None:
                    emit("" if rng is None else rng.choice(WSPS))
                else:
                    need = _needs_sep(prev["t"], prev.get("flag", False), l["t"])
                    if rng is None:
                        emit(" ")
                    elif not need and rng.random() < (0.6 if tight is None else tight):
                        emit("")
                    else:
                        emit(rng.choice(SEPS))
                emit(l["t"])
                prev = l
            if not (cmd["zc"] and gi == ng - 1):
                nseg += 1
                if marks is not None:
                    marks.append((pos, nseg))
    return "".join(out)


def render_marks(cmds, rng=None):
    marks = []
    return render(cmds, rng, marks=marks), marks


def render_piece(cmds, rng=None):
    return render(cmds, rng)


# ----------------------------------------------------------------------------- AST -> Lean wire (one Cmd per group)

def ast_wire(cmds):
    """the grammar's grouping, expanded: one spec command per argument group"""
    items = []
    for cmd in cmds:
        c = cmd["c"]
        L = c.upper()
        r = "1" if c.islower() else "0"
        if L == "Z":
            items.append("Z " + r)
            continue
        ng = len(cmd["groups"])
        for gi, g in enumerate(cmd["groups"]):
            vals = [l["v"] for l in g]
            zc = cmd["zc"] and gi == ng - 1
            letter = L
            if L == "M" and gi > 0:
                letter = "L"
            if zc:
                if L == "A":
                    items.append("Az %s %s %s %s %d %d" % (r, fhex(vals[0]), fhex(vals[1]), fhex(vals[2]), int(vals[3]), int(vals[4])))
                else:
                    items.append(" ".join([letter + "z", r] + [fhex(v) for v in vals]))
            elif L == "A":
                items.append("A %s %s %s %s %d %d %s %s" % (r, fhex(vals[0]), fhex(vals[1]), fhex(vals[2]), int(vals[3]), int(vals[4]),
                                                          fhex(vals[5]), fhex(vals[6])))
            else:
                items.append(" ".join([letter, r] + [fhex(v) for v in vals]))
    return " | ".join(items)


def ast_size(cmds):
    return sum(max(1, len(c["groups"])) for c in cmds)


# ----------------------------------------------------------------------------- observing a live path

def _p(p):
    if p is None:
        return None
    x, y = p[0], p[1]
    return [None if x is None else float(x), None if y is None else float(y)]


ARC_TS = [0.0, 1.0, 0.5, 0.25, 0.8]


def observe_seg(seg):
    k = type(seg).__name__
    d = {"k": k, "rel": bool(getattr(seg, "relative", False)), "smooth": bool(getattr(seg, "smooth", False))}
    d["start"] = _p(seg.start)
    d["end"] = _p(seg.end)
    if isinstance(seg, QuadraticBezier):
        d["c"] = _p(seg.control)
    elif isinstance(seg, CubicBezier):
        d["c1"] = _p(seg.control1)
        d["c2"] = _p(seg.control2)
    elif isinstance(seg, Arc):
        try:
            d["pts"] = [_p(seg.point(t)) for t in ARC_TS]
            d["sweep"] = float(seg.sweep)
        except Exception as e:            # an arc that cannot be evaluated is reported by the oracles
            d["pts"] = None
            d["pts_exc"] = type(e).__name__
    return d


def observe_path(path):
    return [observe_seg(s) for s in path]


# ----------------------------------------------------------------------------- model output

KIND = {"M": "Move", "L": "Line", "Z": "Close", "Q": "QuadraticBezier", "C": "CubicBezier", "A": "Arc"}


def _optpt(a, b):
    if a == "-":
        return None
    return [hexf(a), hexf(b)]


def parse_model_segs(text):
    """'M r sx sy ex ey | ...' -> list of dicts like observe_seg (arcs: endpoint parameters)"""
    segs = []
    for item in text.split("|"):
        t = item.split()
        if not t:
            continue
        k = t[0]
        d = {"k": KIND[k], "rel": t[1] == "1"}
        if k in "MLZ":
            d["start"] = _optpt(t[2], t[3])
            d["end"] = _optpt(t[4], t[5])
        elif k == "Q":
            d["smooth"] = t[2] == "1"
            d["start"] = _optpt(t[3], t[4])
            d["c"] = _optpt(t[5], t[6])
            d["end"] = _optpt(t[7], t[8])
        elif k == "C":
            d["smooth"] = t[2] == "1"
            d["start"] = _optpt(t[3], t[4])
            d["c1"] = _optpt(t[5], t[6])
            d["c2"] = _optpt(t[7], t[8])
            d["end"] = _optpt(t[9], t[10])
        elif k == "A":
            d["start"] = [hexf(t[2]), hexf(t[3])]
            d["rx"], d["ry"], d["rot"] = hexf(t[4]), hexf(t[5]), hexf(t[6])
            d["fa"], d["fs"] = t[7] == "1", t[8] == "1"
            d["end"] = [hexf(t[9]), hexf(t[10])]
        segs.append(d)
    return segs


def parse_model(out):
    """'OK\\tsegs' | 'ERR X\\tsegs' | 'NONE\\t' -> (status, segs)"""
    head, _, body = out.partition("\t")
    if head == "OK":
        return "ok", parse_model_segs(body)
    if head.startswith("ERR "):
        return head[4:], parse_model_segs(body)
    if head == "NONE":
        return "none", []
    return "bad:" + out[:80], []


def _pt_close(a, b, tol):
    if a is None or b is None:
        return a is None and b is None
    for u, v in zip(a, b):
        if u is None or v is None:
            if not (u is None and v is None):
                return False
            continue
        if math.isnan(u) or math.isnan(v):
            if not (math.isnan(u) and math.isnan(v)):
                return False
            continue
        if math.isinf(u) or math.isinf(v):
            if u != v:
                return False
            continue
        if abs(u - v) > tol * max(1.0, abs(u), abs(v)):
            return False
    return True


def arc_samples(m):
    """sample the arc a model/spec segment denotes with the F.6.5 evaluator written from the
    specification text (harness/props/c05.py: f6, f6_point) - independent of the library's Arc"""
    from props.c05 import f6, f6_point
    s, e = m["start"], m["end"]
    g = f6(s, m["rx"], m["ry"], m["rot"], m["fa"], m["fs"], e)
    if g is None:
        if s[0] == e[0] and s[1] == e[1]:
            return [list(map(float, s)) for _ in ARC_TS], 0.0
        return [[s[0] + t * (e[0] - s[0]), s[1] + t * (e[1] - s[1])] for t in ARC_TS], 0.0
    return [f6_point(g, t) for t in ARC_TS], g["dth"]


def _nopoint(v):
    return None if (isinstance(v, (list, tuple)) and len(v) == 2 and v[0] is None and v[1] is None) else v


def seg_diff(obs, mod, tol=1e-9, flags=False):
    """first difference between an observed segment and a model/spec segment, or None"""
    if obs["k"] != mod["k"]:
        return "kind %s vs %s" % (obs["k"], mod["k"])
    # Point(None, None) (a control point of a move-less fragment whose coordinates were skipped) is "no point"
    obs = {k: _nopoint(v) for k, v in obs.items()}
    for f in ("start", "end", "c", "c1", "c2"):
        if f in mod or f in obs:
            if not _pt_close(obs.get(f), mod.get(f), tol):
                return "%s %r vs %r" % (f, obs.get(f), mod.get(f))
    if obs["k"] == "Arc":
        rxa, rya = abs(mod["rx"]), abs(mod["ry"])
        chord0 = math.hypot(mod["end"][0] - mod["start"][0], mod["end"][1] - mod["start"][1])
        mags = [rxa, rya] + [abs(v) for v in mod["start"] + mod["end"]]
        if rxa != 0 and rya != 0 and (max(rxa, rya) > 1e8 * min(rxa, rya) or chord0 > 1e8 * min(rxa, rya) or max(mags) > 1e100
                                      or abs(mod.get("rot", 0.0)) > 1e15):
            # an ellipse 10^8 times longer than wide, radii 10^8 times too small for the chord, coordinates beyond 1e100, or a
            # rotation beyond 1e15 degrees (no fractional turn left in a double): the centre form of such an arc carries no
            # significant digit in double precision (cancellation of the order ratio^2 * 2^-53; range reduction of the angle),
            # so its interior is not compared - kind, start and end were compared above
            return None
        try:
            want, sweep = arc_samples(mod)
        except Exception as e:
            return "model arc cannot be built: %r" % e
        if obs.get("pts") is None:
            return "arc cannot be evaluated (%s)" % obs.get("pts_exc")
        scale = max([1.0, abs(mod["rx"]), abs(mod["ry"])] + [abs(v) for v in mod["start"] + mod["end"]])
        if mod["rx"] != 0 and mod["ry"] != 0:
            scale *= max(1.0, min(100.0, max(abs(mod["rx"] / mod["ry"]), abs(mod["ry"] / mod["rx"]))))
        chord = math.hypot(mod["end"][0] - mod["start"][0], mod["end"][1] - mod["start"][1])
        scale = max(scale, chord)
        # radii far too small for the chord are scaled up (F.6.6), on thin ellipses by orders of magnitude: the points of
        # the arc, not the attribute values, are the magnitudes the comparison is relative to
        scale = max([scale] + [abs(c) for q in want for c in q if c == c and abs(c) != float("inf")])
        # near the exact half turn the centre is ill-conditioned (acos at +-1): wider tolerance, as in C05
        half = abs(abs(sweep) - math.pi) < 1e-6
        for p, q in zip(obs["pts"], want):
            if math.hypot(p[0] - q[0], p[1] - q[1]) > (1e-5 if half else 1e-7) * scale:
                return "arc point %r vs %r" % (p, q)
    if flags:
        if obs["rel"] != mod["rel"]:
            return "relative flag %r vs %r" % (obs["rel"], mod["rel"])
        if "smooth" in mod and obs["smooth"] != mod["smooth"]:
            return "smooth flag %r vs %r" % (obs["smooth"], mod["smooth"])
    return None


def segs_diff(obs, mod, tol=1e-9, flags=False):
    if len(obs) != len(mod):
        return "length %d vs %d" % (len(obs), len(mod))
    for i, (o, m) in enumerate(zip(obs, mod)):
        d = seg_diff(o, m, tol, flags)
        if d:
            return "segment %d: %s" % (i, d)
    return None


def connectivity(obs):
    """Path._is_valid()-equivalent recomputed from public fields: every segment starts where its
    predecessor ended; every close ends at the end of the last preceding move (else of the first segment)"""
    z = None
    last = None
    for i, s in enumerate(obs):
        if z is None or s["k"] == "Move":
            z = s["end"]
        if last is not None:
            if s["start"] is None or last["end"] is None:
                return "segment %d: missing start/previous end" % i
            if not _pt_close(s["start"], last["end"], 1e-12):
                return "segment %d starts at %r, predecessor ended at %r" % (i, s["start"], last["end"])
        if s["k"] == "Close" and z is not None and not _pt_close(s["end"], z, 1e-12):
            return "close %d returns to %r, subpath started at %r" % (i, s["end"], z)
        last = s
    return None


def obs_seg_diff(a, b, tol=1e-9, arc_tol=1e-7, arc_abs=0.0):
    """difference between two observed segments (both from live paths); arc points may differ by arc_tol relative to the
    arc's own coordinates or by arc_abs absolutely, whichever is larger"""
    if a["k"] != b["k"]:
        return "kind %s vs %s" % (a["k"], b["k"])
    for f in ("start", "end", "c", "c1", "c2"):
        if f in a or f in b:
            if not _pt_close(a.get(f), b.get(f), tol):
                return "%s %r vs %r" % (f, a.get(f), b.get(f))
    if a["k"] == "Arc":
        pa, pb = a.get("pts"), b.get("pts")
        if (pa is None) != (pb is None):
            return "arc evaluability differs"
        if pa is not None:
            scale = max([1.0] + [abs(v) for q in pa + pb for v in q])
            for p, q in zip(pa, pb):
                if math.hypot(p[0] - q[0], p[1] - q[1]) > max(arc_tol * scale, arc_abs):
                    return "arc point %r vs %r" % (p, q)
    return None


def obs_segs_diff(a, b, tol=1e-9, arc_tol=1e-7, arc_abs=0.0):
    if len(a) != len(b):
        return "length %d vs %d" % (len(a), len(b))
    for i, (x, y) in enumerate(zip(a, b)):
        d = obs_seg_diff(x, y, tol, arc_tol, arc_abs)
        if d:
            return "segment %d: %s" % (i, d)
    return None


# ----------------------------------------------------------------------------- reference interpreter (pure Python)
# Written from the SVG 2 path grammar and chapter 9 (not from the library). Used only to *judge*
# a disagreement between the library and the Lean model: if this reference sides with the model,
# the disagreeing input is a failing input of the property ("the longest valid prefix is retained").
import re as _re

_NUM = _re.compile(r"[-+]?(?:[0-9]*\.[0-9]+|[0-9]+)(?:[eE][-+]?[0-9]+)?")
_SEP = " ,\t\n\x0c\r"
_NARGS = {"M": 2, "L": 2, "H": 1, "V": 1, "C": 6, "S": 4, "Q": 4, "T": 2, "A": 7}


def ref_parse(s):
    """segments (as observe_seg-like dicts without flags) of the longest valid prefix of s"""
    pos, n = 0, len(s)
    segs = []
    cur = start = None
    ctrl = None          # (degree, point)

    def skip():
        nonlocal pos
        while pos < n and s[pos] in _SEP:
            pos += 1

    def number():
        nonlocal pos
        skip()
        m = _NUM.match(s, pos)
        if not m:
            return None
        pos = m.end()
        v = float(m.group())
        if math.isinf(v):
            raise ValueError
        return v

    def flag():
        nonlocal pos
        skip()
        if pos < n and s[pos] in "01":
            pos += 1
            return float(s[pos - 1])
        return None

    def at_close():
        skip()
        return pos < n and s[pos] in "Zz"

    def has_number():
        skip()
        return _NUM.match(s, pos) is not None

    try:
        while True:
            skip()
            if pos >= n or s[pos] not in LETTERS:
                break
            c = s[pos]
            pos += 1
            L, rel = c.upper(), c.islower()
            if L == "Z":
                if has_number():
                    break
                segs.append({"k": "Close", "start": cur, "end": start})
                cur, ctrl = start, None
                continue
            first = True
            stop = False
            while True:
                if not first and not has_number():
                    break
                if first and not has_number() and not (at_close() and L in ZPREFIX):
                    stop = True
                    break
                vals = []
                zc = False
                for i in range(_NARGS[L]):
                    v = flag() if (L == "A" and i in (3, 4)) else number()
                    if v is None:
                        if at_close() and L in ZPREFIX and len(vals) % 2 == (1 if L == "A" else 0) and cur is not None:
                            zc = True
                            break
                        raise ValueError
                    vals.append(v)
                if zc and L == "A" and len(vals) != 5:
                    raise ValueError
                if zc and start is None:
                    raise ValueError

                def P(i):
                    x, y = vals[i], vals[i + 1]
                    if rel and cur is not None:
                        return [x + cur[0], y + cur[1]]
                    return [x, y]
                kind = L
                if L == "M" and not first:
                    kind = "L"
                if kind == "M":
                    e = P(0)
                    segs.append({"k": "Move", "start": cur, "end": e})
                    cur = start = e
                    ctrl = None
                elif kind == "L":
                    e = list(start) if zc else P(0)
                    segs.append({"k": "Line", "start": cur, "end": e})
                    cur, ctrl = e, None
                    if start is None:
                        start = e
                elif kind in "HV":
                    if cur is None:
                        raise ValueError
                    v = vals[0]
                    e = [(cur[0] + v if rel else v), cur[1]] if kind == "H" else [cur[0], (cur[1] + v if rel else v)]
                    segs.append({"k": "Line", "start": cur, "end": e})
                    cur, ctrl = e, None
                elif kind in "QT":
                    if kind == "T":
                        if cur is None:
                            raise ValueError
                        c1 = [2 * cur[0] - ctrl[1][0], 2 * cur[1] - ctrl[1][1]] if ctrl and ctrl[0] == 2 else list(cur)
                        k = 0
                    else:
                        if zc and len(vals) < 2:
                            c1 = list(start)
                        else:
                            c1 = P(0)
                        k = 2
                    e = list(start) if zc else P(k)
                    segs.append({"k": "QuadraticBezier", "start": cur, "c": c1, "end": e})
                    cur, ctrl = e, (2, c1)
                    if start is None:
                        start = e
                elif kind in "CS":
                    if kind == "S":
                        if cur is None:
                            raise ValueError
                        c1 = [2 * cur[0] - ctrl[1][0], 2 * cur[1] - ctrl[1][1]] if ctrl and ctrl[0] == 3 else list(cur)
                        k = 0
                    else:
                        c1 = P(0) if len(vals) >= 2 else list(start)
                        k = 2
                    c2 = P(k) if len(vals) >= k + 2 else list(start)
                    e = list(start) if zc else P(k + 2)
                    segs.append({"k": "CubicBezier", "start": cur, "c1": c1, "c2": c2, "end": e})
                    cur, ctrl = e, (3, c2)
                    if start is None:
                        start = e
                elif kind == "A":
                    if cur is None:
                        raise ValueError
                    e = list(start) if zc else P(5)
                    segs.append({"k": "Arc", "start": cur, "end": e, "rx": abs(vals[0]), "ry": abs(vals[1]), "rot": vals[2],
                                 "fa": bool(vals[3]), "fs": bool(vals[4])})
                    cur, ctrl = e, None
                first = False
                if zc:
                    break
            if stop:
                break
    except ValueError:
        pass
    return segs


# ----------------------------------------------------------------------------- the 6-digit arc printing of Arc.d() (known finding D7)

def g6(v):
    return float("%G" % v)


def arc_params6(arc):
    """the parameters Arc.d() prints: radii and rotation with 6 significant digits, flags from the sweep"""
    return [g6(arc.rx), g6(arc.ry), g6(arc.get_rotation().as_degrees), int(abs(arc.sweep) > math.pi), int(arc.sweep >= 0)]


def arc_pred_from(params, s, e, ts):
    """points of the arc with the given printed parameters between s and e, by the F.6.5 evaluator
    written from the specification"""
    from props.c05 import f6, f6_point
    rx, ry, rot, fa, fs = params
    s, e = [float(s[0]), float(s[1])], [float(e[0]), float(e[1])]
    g = f6(s, rx, ry, rot, fa, fs, e)
    if g is None:
        if s == e:
            return [list(s) for _ in ts]
        return [[s[0] + t * (e[0] - s[0]), s[1] + t * (e[1] - s[1])] for t in ts]
    return [f6_point(g, t) for t in ts]


def arc_pred6(arc, ts):
    """points of the arc that Arc.d() *prints* (radii and rotation with 6 significant digits, flags
    re-derived from the sweep), evaluated with the F.6.5 evaluator written from the specification"""
    return arc_pred_from(arc_params6(arc), arc.start, arc.end, ts)
