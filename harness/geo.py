"""Geometry helpers shared by the segment/path/shape properties."""
import math
from core import fhex, hexf
import gen
from svgelements import (Move, Line, Close, QuadraticBezier, CubicBezier, Arc, Point, Matrix, Path)


def pt(rng, scale=None):
    return [gen.coord(rng), gen.coord(rng)] if scale is None else [round(rng.uniform(-scale, scale), 3), round(rng.uniform(-scale, scale), 3)]


def near(p, rng, s):
    return [p[0] + round(rng.uniform(-s, s), 3), p[1] + round(rng.uniform(-s, s), 3)]


def rand_seg(rng, start=None, kinds="LQCA", local=None):
    """a segment description (json-able): kind + defining data; coordinates 0 or 1e-3..1e5"""
    k = rng.choice(kinds)
    if start is None:
        start = pt(rng)
    s = local if local is not None else 10 ** rng.uniform(-2, 3.5)
    r = rng.random()
    if k == "L":
        end = list(start) if r < 0.05 else near(start, rng, s)
        return {"k": "L", "p": [start, end]}
    if k == "Q":
        end = near(start, rng, s)
        c = near(start, rng, s)
        if r < 0.05:
            c = list(start)
        elif r < 0.1:
            c = [(start[0] + end[0]) / 2, (start[1] + end[1]) / 2]     # collinear
        elif r < 0.13:
            end = list(start)
        return {"k": "Q", "p": [start, c, end]}
    if k == "C":
        end = near(start, rng, s)
        c1, c2 = near(start, rng, s), near(start, rng, s)
        if r < 0.05:
            c1 = list(start)
        elif r < 0.1:
            c2 = list(c1)
        elif r < 0.14:
            c1 = [start[0] + (end[0] - start[0]) / 3, start[1] + (end[1] - start[1]) / 3]
            c2 = [start[0] + 2 * (end[0] - start[0]) / 3, start[1] + 2 * (end[1] - start[1]) / 3]
        elif r < 0.17:
            c1, c2, end = list(start), list(start), list(start)
        return {"k": "C", "p": [start, c1, c2, end]}
    # arc in endpoint form
    end = near(start, rng, s)
    chord = math.hypot(end[0] - start[0], end[1] - start[1]) or s
    ratio = 10 ** rng.uniform(-0.5, 1.5) if rng.random() < 0.85 else 10 ** rng.uniform(-3, 3)
    rx = chord * ratio
    ry = rx * (1.0 if rng.random() < 0.25 else 10 ** rng.uniform(-1.5, 1.5))
    rot = rng.choice([0, 0, 90, 180, 270, 45, 30, -60, 400, -725]) if rng.random() < 0.5 else round(rng.uniform(-360, 360), 2)
    return {"k": "A", "p": [start, end], "rx": rx, "ry": ry, "rot": float(rot), "fa": rng.randint(0, 1), "fs": rng.randint(0, 1)}


def build(desc):
    k = desc["k"]
    p = desc["p"]
    if k == "M":
        return Move(Point(*p[0]) if p[0] is not None else None, Point(*p[1]))
    if k == "L":
        return Line(Point(*p[0]), Point(*p[1]))
    if k == "Z":
        return Close(Point(*p[0]), Point(*p[1]))
    if k == "Q":
        return QuadraticBezier(Point(*p[0]), Point(*p[1]), Point(*p[2]))
    if k == "C":
        return CubicBezier(Point(*p[0]), Point(*p[1]), Point(*p[2]), Point(*p[3]))
    if k == "A":
        return Arc(Point(*p[0]), desc["rx"], desc["ry"], desc["rot"], desc["fa"], desc["fs"], Point(*p[1]))
    raise KeyError(k)


def fx(p):
    return "%s %s" % (fhex(p[0]), fhex(p[1]))


def wire(seg):
    """wire form of a live segment, from public fields only"""
    if isinstance(seg, Arc):
        return "A %s %s %s %s %s %s" % (fx(seg.start), fx(seg.end), fx(seg.center), fx(seg.prx), fx(seg.pry), fhex(seg.sweep))
    if isinstance(seg, CubicBezier):
        return "C %s %s %s %s" % (fx(seg.start), fx(seg.control1), fx(seg.control2), fx(seg.end))
    if isinstance(seg, QuadraticBezier):
        return "Q %s %s %s" % (fx(seg.start), fx(seg.control), fx(seg.end))
    letter = "M" if isinstance(seg, Move) else "Z" if isinstance(seg, Close) else "L"
    s = fx(seg.start) if seg.start is not None else "- -"
    return "%s %s %s" % (letter, s, fx(seg.end))


def kind(seg):
    return type(seg).__name__


def pts(out):
    """'OK h h h h' -> [[x,y],...]"""
    parts = out.split()
    if not parts or parts[0] != "OK":
        return None
    v = [hexf(x) for x in parts[1:]]
    return [[v[i], v[i + 1]] for i in range(0, len(v), 2)]


def seg_scale(seg):
    m = 1.0
    for i in range(len(seg)):
        p = seg[i]
        if p is not None:
            m = max(m, abs(p[0]), abs(p[1]))
    return m


def mat_norm(m):
    return max(1.0, abs(m[0]) + abs(m[2]), abs(m[1]) + abs(m[3]))


def pdist(a, b):
    return math.hypot(a[0] - b[0], a[1] - b[1])


TS = [0.0, 1.0, 0.5, 0.25, 0.75, 0.1, 0.9, 1.0 / 3.0, 0.0078125, 0.99]


def sample(seg, ts=TS):
    return [[float(q[0]), float(q[1])] for q in (seg.point(t) for t in ts)]
