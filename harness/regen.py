"""Rewrite every generated Lean table (lean/Generated/*.lean) from /repo's current working tree."""
import sys, os, importlib
HERE = os.path.dirname(os.path.abspath(__file__))
sys.path.insert(0, HERE)
import core  # noqa: E402  (puts /repo on sys.path)

rc = 0
for name in ("c13", "c18"):
    prop = importlib.import_module("props." + name).PROP
    try:
        problems = prop.regenerate({"tier": "quick", "seed": 0}) or []
        print("regenerated %s%s" % (", ".join(prop.generated_modules) or name, (" (problems: %s)" % problems) if problems else ""))
    except Exception as e:
        print("could not regenerate %s: %r" % (name, e))
        rc = 1
sys.exit(rc)
