"""
Documents for the document-level properties (C03, C10, C14, C20).

A document is a JSON-able tree of nodes
    {"tag": str, "attrs": [[name, text], ...], "sem": {...}, "text": str, "kids": [node, ...]}
`attrs` is what is written into the XML (and sent to the Lean model, character for character);
`sem` is the meaning the generator intended (transform = list of [function, [numbers]], lengths =
[amount, unit], paint sources), which only the independent specification evaluator below reads.

  xml_text(doc)      the XML text given to SVG.parse
  wire(doc)          the same tree as tokens for the Lean driver (doc.render)
  observe(svg)       public observables of every Shape of a parsed document
  spec_render(doc)   SVG 2 / CSS semantics evaluated on `sem` (CTM product, nearest viewport,
                     use expansion, cascade, inheritance) — written from the specifications
"""
import io, math, copy as _copy
from xml.sax.saxutils import quoteattr, escape
from core import fhex, hexf, shex
import pathlib_ as pl

XLINK = "{http://www.w3.org/1999/xlink}href"
SHAPES = ["rect", "circle", "ellipse", "line", "polyline", "polygon", "path"]
UNIT_PX = {"": 1.0, "px": 1.0, "pt": 4.0 / 3.0, "pc": 16.0}


# ----------------------------------------------------------------------------- spelling

def num(v):
    v = float(v)
    if v == int(v) and abs(v) < 1e15:
        return str(int(v))
    return repr(v)


def spell_len(l):
    return num(l[0]) + l[1]


def spell_tf(tf, rng=None):
    parts = []
    for name, args in tf:
        sep = ", " if rng is None else rng.choice([",", " ", ", "])
        parts.append("%s(%s)" % (name, sep.join(num(a) for a in args)))
    return " ".join(parts)


# ----------------------------------------------------------------------------- matrices (first m then s)

IDENT = (1.0, 0.0, 0.0, 1.0, 0.0, 0.0)


def mmul(m, s):
    a, b, c, d, e, f = m
    A, B, C, D, E, F = s
    return (A * a + C * b, B * a + D * b, A * c + C * d, B * c + D * d, A * e + C * f + E, B * e + D * f + F)


def mapply(m, p):
    return (p[0] * m[0] + p[1] * m[2] + m[4], p[0] * m[1] + p[1] * m[3] + m[5])


def mdet(m):
    return m[0] * m[3] - m[2] * m[1]


def tf_matrix(tf):
    """SVG 1.1 7.6: the list denotes the product, the right-most function acting on a point first"""
    M = IDENT
    for name, args in reversed(tf):
        M = mmul(M, fn_matrix(name, args))
    return M


def about(x, y, E):
    return mmul(mmul((1, 0, 0, 1, -x, -y), E), (1, 0, 0, 1, x, y))


def fn_matrix(name, a):
    if name == "matrix":
        return tuple(float(v) for v in a)
    if name == "translate":
        return (1, 0, 0, 1, a[0], a[1] if len(a) > 1 else 0.0)
    if name == "scale":
        return (a[0], 0, 0, a[1] if len(a) > 1 else a[0], 0, 0)
    if name == "rotate":
        t = math.radians(a[0])
        R = (math.cos(t), math.sin(t), -math.sin(t), math.cos(t), 0, 0)
        return about(a[1], a[2], R) if len(a) == 3 else R
    if name == "skewX":
        return (1, 0, math.tan(math.radians(a[0])), 1, 0, 0)
    if name == "skewY":
        return (1, math.tan(math.radians(a[0])), 0, 1, 0, 0)
    raise ValueError(name)


# ----------------------------------------------------------------------------- generation

def nice(rng, lo=-60, hi=60):
    r = rng.random()
    if r < 0.5:
        return float(rng.randint(lo, hi))
    if r < 0.8:
        return rng.randint(lo * 2, hi * 2) / 2.0
    return round(rng.uniform(lo, hi), 2)


def pos(rng, hi=80):
    return float(rng.choice([1, 2, 3, 5, 8, 10, 12.5, 20, 30, 40, 50, 64, hi]))


def rand_tf(rng, n=None):
    n = n if n is not None else rng.choice([1, 1, 1, 2, 2, 3])
    out = []
    for _ in range(n):
        k = rng.choice(["translate", "translate", "scale", "scale", "rotate", "skewX", "skewY", "matrix"])
        if k == "translate":
            out.append([k, [nice(rng)] if rng.random() < 0.2 else [nice(rng), nice(rng)]])
        elif k == "scale":
            s = [rng.choice([0.5, 2.0, 1.5, 3.0, -1.0, 0.25, -2.0, 1.25])]
            if rng.random() < 0.6:
                s.append(rng.choice([0.5, 2.0, 1.5, 3.0, -1.0, 0.75, 4.0]))
            out.append([k, s])
        elif k == "rotate":
            a = [float(rng.choice([15, 30, 45, 60, 90, 120, 180, 270, -30, -90, 10, 33]))]
            if rng.random() < 0.3:
                a += [nice(rng), nice(rng)]
            out.append([k, a])
        elif k in ("skewX", "skewY"):
            out.append([k, [float(rng.choice([10, 15, 30, 45, -20, -45]))]])
        else:
            while True:
                m = [rng.choice([1, 2, 0.5, -1, 0, 1.5]) for _ in range(4)] + [nice(rng), nice(rng)]
                if abs(m[0] * m[3] - m[2] * m[1]) > 0.2:
                    break
            out.append([k, [float(v) for v in m]])
    return out


def rand_len(rng, positive=False, pct=True, units=True):
    v = pos(rng) if positive else nice(rng)
    r = rng.random()
    if r < 0.55 or not units:
        return [v, ""]
    if r < 0.75 and pct:
        return [float(rng.choice([5, 10, 25, 50, 75, 100, 12.5])) * (1 if positive or rng.random() < 0.8 else -1), "%"]
    return [rng.choice([0.5, 1.0, 2.0, 3.0, 10.0, 0.25]) if rng.random() < 0.5 else v, rng.choice(["px", "pt", "pc", "in"])]


COLORS = ["red", "blue", "#0f0", "#123456", "rgb(10,20,30)", "none", "black", "#ff000080", "orange", "currentColor",
          "rgb(50%,0%,100%)", "hsl(120,100%,50%)", "White", "#33445500", "rgba(9,8,7,0)", "#abc0"]


def node(tag, sem=None, kids=None, text=""):
    return {"tag": tag, "attrs": [], "sem": sem or {}, "text": text, "kids": kids or []}


GEOM_KEYS = {"rect": ["x", "y", "width", "height", "rx", "ry"], "circle": ["cx", "cy", "r"], "ellipse": ["cx", "cy", "rx", "ry"],
             "line": ["x1", "y1", "x2", "y2"]}


def rand_shape(rng, opts):
    tag = rng.choice(SHAPES if opts.get("paths", True) else SHAPES[:-1])
    sem = {}
    units = opts.get("units", True)
    if tag == "rect":
        for k in ("x", "y"):
            if rng.random() < 0.7:
                sem[k] = rand_len(rng, units=units)
        sem["width"] = rand_len(rng, True, units=units)
        sem["height"] = rand_len(rng, True, units=units)
        r = rng.random()
        if r < 0.3:
            sem["rx"] = [float(rng.choice([1, 2, 5, 100])), ""]
        if 0.2 < r < 0.45:
            sem["ry"] = [float(rng.choice([1, 3, 4, 100])), ""]
    elif tag == "circle":
        for k in ("cx", "cy"):
            if rng.random() < 0.7:
                sem[k] = rand_len(rng, units=units)
        if rng.random() < 0.9:
            sem["r"] = rand_len(rng, True, pct=False, units=units)
    elif tag == "ellipse":
        for k in ("cx", "cy"):
            if rng.random() < 0.7:
                sem[k] = rand_len(rng, units=units)
        for k in ("rx", "ry"):
            if rng.random() < 0.9:
                sem[k] = rand_len(rng, True, units=units)
    elif tag == "line":
        for k in ("x1", "y1", "x2", "y2"):
            if rng.random() < 0.85:
                sem[k] = rand_len(rng, units=units)
    elif tag in ("polyline", "polygon"):
        sem["points"] = [[nice(rng), nice(rng)] for _ in range(rng.randint(2, 5))]
    else:
        ast = pl.rand_ast(rng, ncmd=rng.randint(1, 4), allow_z_complete=False, first="M")
        sem["d"] = pl.render(ast, rng)
    return node(tag, sem)


def decorate(rng, n, opts, ids):
    """transform, id, paint sources on any element"""
    sem = n["sem"]
    if rng.random() < opts.get("p_tf", 0.45):
        sem["transform"] = rand_tf(rng)
    if rng.random() < 0.35 and n["tag"] != "svg":
        i = "e%d" % len(ids)
        ids.append(i)
        sem["id"] = i
    pp = opts.get("p_paint", 0.3)
    paint = {}
    for prop in ("fill", "stroke"):
        if rng.random() < pp:
            paint[prop] = rng.choice(COLORS)
    if rng.random() < pp * 0.7:
        paint["stroke-width"] = rng.choice(["2", "0.5", "3px", "1.5", "4", "2pt"])
    if rng.random() < pp * 0.5:
        paint[rng.choice(["fill-opacity", "stroke-opacity"])] = rng.choice(["0.5", "0.25", "1", "0", ".75"])
    if rng.random() < pp * 0.4:
        paint["color"] = rng.choice(["green", "#808080", "purple"])
    if paint:
        sem["attr_paint"] = paint
    if rng.random() < pp * 0.6:
        st = {}
        for prop in ("fill", "stroke", "stroke-width", "color"):
            if rng.random() < (0.45 if prop != "color" else 0.2):
                st[prop] = (rng.choice(COLORS[:10]) if prop in ("fill", "stroke") else
                            rng.choice(["2.5", "6", "1"]) if prop == "stroke-width" else rng.choice(["maroon", "#00f", "olive"]))
        if st:
            sem["inline"] = st
    cl = opts.get("classes", [])
    if cl and rng.random() < 0.5:
        sem["class"] = rng.sample(cl, 1 if rng.random() < 0.85 or len(cl) < 2 else 2)
    if n["tag"] in SHAPES and rng.random() < opts.get("p_nss", 0.12):
        sem["vector-effect"] = "non-scaling-stroke"
    if rng.random() < opts.get("p_hidden", 0.06) and n["tag"] != "svg":
        sem["display"] = "none"


def rand_children(rng, depth, opts, ids, budget):
    kids = []
    n = rng.randint(1, 4)
    for _ in range(n):
        if budget[0] <= 0:
            break
        budget[0] -= 1
        r = rng.random()
        if depth > 0 and r < 0.22:
            k = node("g")
            k["kids"] = rand_children(rng, depth - 1, opts, ids, budget)
        elif depth > 0 and r < 0.32 and opts.get("nested_svg", True):
            k = node("svg")
            sem = k["sem"]
            for a in ("x", "y"):
                if rng.random() < 0.5 and opts.get("svg_xy", True):
                    sem[a] = rand_len(rng, units=False)
            if rng.random() < 0.75:
                sem["width"] = rand_len(rng, True)
                sem["height"] = rand_len(rng, True)
            if rng.random() < opts.get("p_viewbox", 0.7):
                sem["viewBox"] = [nice(rng, -20, 20), nice(rng, -20, 20), pos(rng, 200), pos(rng, 200)]
                if rng.random() < 0.5:
                    sem["par"] = rng.choice(["none", "xMinYMin", "xMidYMid slice", "xMaxYMax meet", "xMidYMax", "xMinYMid slice"])
            k["kids"] = rand_children(rng, depth - 1, opts, ids, budget)
        elif depth > 0 and r < 0.40:
            k = node("defs")
            k["kids"] = rand_children(rng, depth - 1, opts, ids, budget)
        elif r < 0.55 and ids and opts.get("use", True):
            k = node("use")
            k["sem"]["href"] = rng.choice(ids)
            k["sem"]["href_attr"] = rng.choice(["href", XLINK])
            for a in ("x", "y"):
                if rng.random() < 0.5:
                    k["sem"][a] = [nice(rng), ""]
        else:
            k = rand_shape(rng, opts)
        decorate(rng, k, opts, ids)
        kids.append(k)
    return kids


def rand_sheet(rng, classes, ids_hint):
    rules = []
    for _ in range(rng.randint(1, 5)):
        sels = []
        for _ in range(1 if rng.random() < 0.75 else 2):
            k = rng.random()
            if k < 0.15:
                sels.append("*")
            elif k < 0.4:
                sels.append(rng.choice(SHAPES + ["g"]))
            elif k < 0.65 and classes:
                sels.append("." + rng.choice(classes))
            elif k < 0.8 and classes:
                sels.append(rng.choice(SHAPES) + "." + rng.choice(classes))
            else:
                sels.append("#e%d" % rng.randint(0, ids_hint))
        decls = {}
        for prop in ("fill", "stroke", "stroke-width", "fill-opacity", "color", "stroke-opacity"):
            if rng.random() < (0.4 if prop in ("fill", "stroke", "stroke-width") else 0.15):
                decls[prop] = (rng.choice(COLORS[:10]) if prop in ("fill", "stroke") else
                               rng.choice(["3", "0.75", "5"]) if prop == "stroke-width" else
                               rng.choice(["navy", "#f0f", "gray"]) if prop == "color" else rng.choice(["0.5", "0.2"]))
        if not decls:
            decls["fill"] = rng.choice(COLORS[:5])
        rules.append([sorted(set(sels), key=sels.index), decls])
    return rules


def sheet_text(rules, rng=None):
    out = []
    for sels, decls in rules:
        body = ";".join("%s:%s" % kv for kv in decls.items())
        if rng is not None and rng.random() < 0.3:
            body += ";"
        if rng is not None and rng.random() < 0.25:
            out.append("/* %s */" % rng.choice(["note", "rect{fill:red}", "x"]))
        out.append("%s { %s }" % (", ".join(sels) if rng is None or rng.random() < 0.5 else ",".join(sels), body))
    return "\n".join(out)


def gen_doc(rng, **opts):
    """a random document + configuration"""
    opts.setdefault("classes", ["a", "b", "c"] if opts.get("css", False) else [])
    ids = []
    budget = [opts.get("max_elems", 22)]
    root = node("svg")
    sem = root["sem"]
    r = rng.random()
    if r < 0.6:
        sem["width"] = rand_len(rng, True, pct=False) if rng.random() < 0.7 else [float(rng.choice([50, 100, 150])), "%"]
        sem["height"] = rand_len(rng, True, pct=False) if rng.random() < 0.7 else [float(rng.choice([50, 100])), "%"]
    if rng.random() < 0.6:
        sem["viewBox"] = [nice(rng, -20, 20), nice(rng, -20, 20), pos(rng, 200), pos(rng, 200)]
        if rng.random() < 0.4:
            sem["par"] = rng.choice(["none", "xMinYMin", "xMidYMid slice", "xMaxYMax meet", "xMidYMin"])
    kids = []
    if opts.get("css", False):
        rules = rand_sheet(rng, opts["classes"], 6)
        st = node("style", {"rules": rules}, text=sheet_text(rules, rng))
        kids.append(st)
    kids += rand_children(rng, opts.get("depth", 4), opts, ids, budget)
    root["kids"] = kids
    decorate(rng, root, dict(opts, p_hidden=0.0), ids)
    cfg = {"ppi": rng.choice([96.0, 96.0, 72.0, 1000.0]), "reify": True, "color": rng.choice(["black", "black", "teal"]),
           "width": None, "height": None, "transform": None}
    r = rng.random()
    if r < 0.4:
        cfg["width"] = rng.choice([500.0, 1000.0, 320.0, ["10", "in"], ["200", "pt"]])
        cfg["height"] = rng.choice([500.0, 800.0, 240.0, ["5", "in"]])
    elif r < 0.5:       # only one of the two is given by the caller
        cfg["width"] = rng.choice([500.0, 320.0, ["10", "in"]])
    elif r < 0.6:
        cfg["height"] = rng.choice([800.0, 240.0, ["5", "in"]])
    if rng.random() < 0.25:
        cfg["transform"] = rand_tf(rng, 1)
    doc = {"root": root, "cfg": cfg}
    finish(doc, rng)
    return doc


def finish(doc, rng=None):
    """(re)write the textual attributes of every node from its `sem`"""
    def go(n):
        sem = n["sem"]
        at = []
        for k in ("id",):
            if k in sem:
                at.append([k, sem[k]])
        if "class" in sem:
            at.append(["class", " ".join(sem["class"])])
        for k in ("x", "y", "width", "height", "rx", "ry", "cx", "cy", "r", "x1", "y1", "x2", "y2"):
            if k in sem:
                at.append([k, spell_len(sem[k])])
        if "viewBox" in sem:
            at.append(["viewBox", " ".join(num(v) for v in sem["viewBox"])])
        if "par" in sem:
            at.append(["preserveAspectRatio", sem["par"]])
        if "points" in sem:
            at.append(["points", " ".join("%s,%s" % (num(p[0]), num(p[1])) for p in sem["points"])])
        if "d" in sem:
            at.append(["d", sem["d"]])
        if "transform" in sem:
            at.append(["transform", spell_tf(sem["transform"], rng)])
        if "href" in sem:
            at.append([sem.get("href_attr", "href"), "#" + sem["href"]])
        for k, v in sem.get("attr_paint", {}).items():
            at.append([k, v])
        if "inline" in sem:
            at.append(["style", ";".join("%s:%s" % kv for kv in sem["inline"].items())])
        if "vector-effect" in sem:
            at.append(["vector-effect", sem["vector-effect"]])
        if "display" in sem:
            at.append(["display", sem["display"]])
        for k, v in sem.get("raw", []):      # fault injection: raw attribute text, overriding
            at = [p for p in at if p[0] != k] + [[k, v]]
        n["attrs"] = at
        for c in n["kids"]:
            go(c)
    go(doc["root"])


# ----------------------------------------------------------------------------- XML and wire

def xml_text(doc):
    def go(n, top):
        a = ""
        if top:
            a += ' xmlns="http://www.w3.org/2000/svg" xmlns:xlink="http://www.w3.org/1999/xlink"'
        for k, v in n["attrs"]:
            a += " %s=%s" % ("xlink:href" if k == XLINK else k, quoteattr(v))
        inner = escape(n["text"]) + "".join(go(c, False) for c in n["kids"])
        return "<%s%s>%s</%s>" % (n["tag"], a, inner, n["tag"])
    return go(doc["root"], True)


def _h(s):
    return shex(s) if s else "-"


def wire_tree(n):
    toks = ["N", _h(n["tag"]), str(len(n["attrs"]))]
    for k, v in n["attrs"]:
        toks += [_h(k), _h(v)]
    toks += [_h(n["text"]), str(len(n["kids"]))]
    for c in n["kids"]:
        toks += wire_tree(c)
    return toks


def _dim(v):
    if v is None:
        return "-"
    if isinstance(v, (list, tuple)):
        return "s:" + shex("".join(v))
    return "n:" + fhex(v)


def wire(doc):
    cfg = doc["cfg"]
    tf = cfg.get("transform")
    tft = None if tf is None else (tf if isinstance(tf, str) else spell_tf(tf))
    return "doc.render\t%s\t%s\t%s\t%s\t%s\t%s" % (fhex(cfg["ppi"]), _h(cfg.get("color", "black")), shex(tft) if tft else "-",
                                                   _dim(cfg.get("width")), _dim(cfg.get("height")), " ".join(wire_tree(doc["root"])))


def parse_kwargs(doc, reify=None):
    cfg = doc["cfg"]
    kw = {"reify": cfg.get("reify", True) if reify is None else reify, "ppi": cfg["ppi"], "color": cfg.get("color", "black")}
    for k in ("width", "height"):
        v = cfg.get(k)
        if v is not None:
            kw[k] = "".join(v) if isinstance(v, (list, tuple)) else v
    tf = cfg.get("transform")
    if tf is not None:
        kw["transform"] = tf if isinstance(tf, str) else spell_tf(tf)
    return kw


# ----------------------------------------------------------------------------- observation of the implementation

KIND_OF = {"Rect": "rect", "Circle": "circle", "Ellipse": "ellipse", "SimpleLine": "line", "Polyline": "polyline",
           "Polygon": "polygon", "Path": "path"}


def colour_obs(c):
    if c is None:
        return "unset"
    if c.value is None:
        return "none"
    return int(c.value)


def observe_shape(e):
    from svgelements import Path
    o = {"kind": KIND_OF.get(type(e).__name__, type(e).__name__), "id": e.id, "fill": colour_obs(e.fill), "stroke": colour_obs(e.stroke)}
    try:
        o["sw"] = float(e.stroke_width)
    except Exception:
        o["sw"] = repr(e.stroke_width)
    m = e.transform
    o["m"] = [float(m.a), float(m.b), float(m.c), float(m.d), float(m.e), float(m.f)]
    try:
        k = o["kind"]
        if k == "rect":
            o["fields"] = [float(e.x), float(e.y), float(e.width), float(e.height), float(e.rx), float(e.ry)]
        elif k in ("circle", "ellipse"):
            o["fields"] = [float(e.cx), float(e.cy), float(e.rx), float(e.ry)]
        elif k == "line":
            o["fields"] = [float(e.x1), float(e.y1), float(e.x2), float(e.y2)]
        elif k in ("polyline", "polygon"):
            o["fields"] = [float(v) for p in e.points for v in (p.x, p.y)]
    except Exception:
        o["fields"] = None
    if isinstance(e, Path):
        try:
            o["segs"] = pl.observe_path(e)       # the path's own segments (untransformed when parsed with reify=False)
        except Exception as ex:
            o["segs"] = None
    try:
        o["abs"] = pl.observe_path(abs(Path(e)))
    except Exception as ex:
        o["abs"] = None
        o["abs_exc"] = type(ex).__name__ + ": " + str(ex)[:80]
    return o


def observe(svg):
    from svgelements import Shape
    if svg is None:
        return []
    return [observe_shape(e) for e in svg.elements() if isinstance(e, Shape)]


def parse_impl(doc, reify=None, text=None):
    from svgelements import SVG
    svg = SVG.parse(io.StringIO(text if text is not None else xml_text(doc)), **parse_kwargs(doc, reify))
    return svg


# ----------------------------------------------------------------------------- model output

def parse_model(out):
    """'OK\\tshape\\tshape...' | 'ERR kind' -> (status, [shape dict])"""
    parts = out.split("\t")
    if parts[0] != "OK":
        return parts[0], []
    shapes = []
    for sh in parts[1:]:
        if not sh:
            continue
        t = sh.split(" ")
        i = 0
        d = {"kind": bytes.fromhex(t[0]).decode()}
        d["id"] = None if t[1] == "-" else bytes.fromhex(t[1][1:]).decode()
        d["fill"] = t[2] if t[2] in ("unset", "none") else int(t[2])
        d["stroke"] = t[3] if t[3] in ("unset", "none") else int(t[3])
        d["sw"] = hexf(t[4])
        d["nss"] = t[5] == "1"
        d["m"] = [hexf(x) for x in t[6:12]]
        d["vt"] = [hexf(x) for x in t[12:18]]
        n = int(t[18])
        i = 19
        d["nums"] = [hexf(x) for x in t[i:i + n]]
        i += n
        rest = t[i:]
        k = [j for j, x in enumerate(rest) if x.startswith("D:")][0]
        d["opts"] = [None if x == "-" else hexf(x) for x in rest[:k] if x != ""]
        d["d"] = bytes.fromhex(rest[k][2:]).decode()
        after = [x for x in rest[k + 1:]]
        kp = after.index("P:") if "P:" in after else len(after)
        rt = [x for x in after[:kp] if x != ""]
        if rt and rt[0] == "R:":
            nr = int(rt[1])
            d["reified"] = {"nums": [hexf(x) for x in rt[2:2 + nr]], "m": [hexf(x) for x in rt[2 + nr:8 + nr]], "sw": hexf(rt[8 + nr])}
        ptoks = after[kp:]
        d["psegs"] = pl.parse_model_segs(" ".join(ptoks[1:])) if d["kind"] == "path" and ptoks and ptoks[0] == "P:" else None
        shapes.append(d)
    return "OK", shapes


def reference_shape(ms, geom_only=False):
    """the svgelements object that has the numbers the model (or the specification) computed"""
    from svgelements import Rect, Circle, Ellipse, SimpleLine, Polyline, Polygon, Path, Matrix
    k, n = ms["kind"], ms["nums"]
    if k == "rect":
        rx, ry = (ms["opts"] + [None, None])[:2]
        s = Rect(n[0], n[1], n[2], n[3], rx, ry)
    elif k in ("circle", "ellipse"):
        s = Ellipse(n[0], n[1], n[2], n[3])
    elif k == "line":
        s = SimpleLine(n[0], n[1], n[2], n[3])
    elif k == "polyline":
        s = Polyline(*[(n[i], n[i + 1]) for i in range(0, len(n), 2)])
    elif k == "polygon":
        s = Polygon(*[(n[i], n[i + 1]) for i in range(0, len(n), 2)])
    else:
        s = Path()
        try:
            s.parse(ms["d"])
        except ValueError:
            pass
    p = Path(s)
    p.transform = Matrix(*ms["m"])
    return p


def ref_abs(ms):
    return pl.observe_path(abs(reference_shape(ms)))


def path_data_diff(obs_shape, ms):
    """a path element parsed with reify=False: its stored segments against the Lean character-level parse of its `d`
    (independent of the library's own path parser, unlike the absolute-geometry reference)"""
    if ms.get("psegs") is None or obs_shape.get("segs") is None:
        return None
    if any(v != w for v, w in zip(obs_shape["m"], ms["m"])) and False:
        return None
    return pl.segs_diff(obs_shape["segs"], ms["psegs"], 1e-9)


def reified_diff(obs_t, ms, tol=1e-9, geometry=True, stroke=True, impl_m=None):
    """a shape parsed with reify=True against the Lean model of reify(): the shape's own numbers, its residual matrix and
    its stroke width"""
    r = ms.get("reified")
    if r is None or obs_t.get("fields") is None or ms["kind"] == "path":
        return None
    if ms["kind"] in ("rect", "circle", "ellipse"):
        # Rect/round-shape reify folds the matrix in only when its skew entries are EXACTLY zero. After a chain of rotations
        # they may be zero in one evaluation order and 1e-17 in another; the absolute geometry is the same either way (theorems
        # C03_reify_*), so the comparison of the folded numbers is skipped when the decision hangs on rounding
        for mm in (ms["m"], impl_m or ms["m"]):
            big = max(abs(mm[0]), abs(mm[3]), 1e-300)
            if (mm[1] != 0 or mm[2] != 0) and abs(mm[1]) <= 1e-9 * big and abs(mm[2]) <= 1e-9 * big:
                return None          # neither the folded numbers nor the rescaled stroke width are comparable
    scale = max([1.0] + [abs(v) for v in r["nums"] + r["m"]])
    if geometry:
        if len(obs_t["fields"]) != len(r["nums"]):
            return "reified %s has %d numbers, model %d" % (ms["kind"], len(obs_t["fields"]), len(r["nums"]))
        for i, (a, b) in enumerate(zip(obs_t["fields"], r["nums"])):
            if abs(a - b) > tol * scale:
                return "reified %s: number %d is %r, model %r" % (ms["kind"], i, a, b)
        for i, (a, b) in enumerate(zip(obs_t["m"], r["m"])):
            if abs(a - b) > tol * scale:
                return "reified %s: residual matrix entry %d is %r, model %r" % (ms["kind"], i, a, b)
    if stroke and isinstance(obs_t["sw"], float) and abs(obs_t["sw"] - r["sw"]) > 1e-9 * max(1.0, abs(r["sw"])):
        return "reified %s: stroke width %r, model %r" % (ms["kind"], obs_t["sw"], r["sw"])
    return None


def geom_diff(obs_abs, ms, tol=1e-7):
    """difference between an observed absolute path and the reference for the computed numbers"""
    if obs_abs is None:
        return "abs(Path(shape)) could not be evaluated"
    try:
        want = ref_abs(ms)
    except Exception as e:
        return "reference could not be built: %r" % (e,)
    scale = max([1.0] + [abs(v) for s in want for f in ("start", "end") if s.get(f) for v in s[f] if v is not None])
    return pl.obs_segs_diff(obs_abs, want, tol * scale if scale > 1e3 else tol)


# ----------------------------------------------------------------------------- the specification evaluator

def px(l, ppi, rel):
    """CSS absolute units and percentages of `rel`"""
    a, u = l
    if u in UNIT_PX:
        return a * UNIT_PX[u]
    if u == "in":
        return a * ppi
    if u == "mm":
        return a * ppi / 25.4
    if u == "cm":
        return a * ppi / 2.54
    if u == "%":
        return None if rel is None else a / 100.0 * rel
    raise ValueError(u)


def text_len(v, ppi, rel):
    """caller width/height: a number or [amount, unit]"""
    if v is None:
        return None
    if isinstance(v, (list, tuple)):
        return px([float(v[0]), v[1]], ppi, rel)
    return float(v)


def vp_transform(e, vb, par):
    """SVG 2 section 8.2"""
    ex, ey, ew, eh = e
    vx, vy, vw, vh = vb
    parts = (par or "xMidYMid meet").split()
    align = parts[0]
    mos = parts[1] if len(parts) > 1 else "meet"
    sx, sy = ew / vw, eh / vh
    if align != "none":
        s = max(sx, sy) if mos == "slice" else min(sx, sy)
        sx = sy = s
    tx, ty = ex - vx * sx, ey - vy * sy
    if align != "none":
        fx = {"Min": 0.0, "Mid": 0.5, "Max": 1.0}[align[1:4]]
        fy = {"Min": 0.0, "Mid": 0.5, "Max": 1.0}[align[5:8]]
        tx += fx * (ew - vw * sx)
        ty += fy * (eh - vh * sy)
    return (sx, 0.0, 0.0, sy, tx, ty)


SPEC = {"*": 0, "type": 1, "class": 10, "typeclass": 11, "id": 100}


def matches(sel, n):
    sem = n["sem"]
    if sel == "*":
        return 0
    if sel.startswith("#"):
        return 100 if sem.get("id") == sel[1:] else None
    if sel.startswith("."):
        return 10 if sel[1:] in sem.get("class", []) else None
    if "." in sel:
        t, c = sel.split(".", 1)
        return 11 if n["tag"] == t and c in sem.get("class", []) else None
    return 1 if n["tag"] == sel else None


PAINT_PROPS = ["fill", "stroke", "stroke-width", "fill-opacity", "stroke-opacity", "color"]
INITIAL = {"fill": "black", "stroke": "none", "stroke-width": "1", "fill-opacity": None, "stroke-opacity": None}


def cascade(n, rules, inherited):
    """specified values of the paint properties of one element; returns (computed, flags)"""
    sem = n["sem"]
    own = {}
    multi = {}
    for prop in PAINT_PROPS:
        if prop in sem.get("attr_paint", {}):
            own[prop] = sem["attr_paint"][prop]
        best = None
        hits = 0
        for order, (sels, decls) in enumerate(rules):
            if prop not in decls:
                continue
            sp = [s for s in (matches(sel, n) for sel in sels) if s is not None]
            if sp:
                hits += 1
                key = (max(sp), order)
                if best is None or key > best[0]:
                    best = (key, decls[prop])
        if best is not None:
            own[prop] = best[1]
        multi[prop] = hits
        if prop in sem.get("inline", {}):
            own[prop] = sem["inline"][prop]
    comp = dict(inherited)
    if "color" in own:
        comp["color"] = own["color"]
    for prop in PAINT_PROPS:
        if prop == "color" or prop not in own:
            continue
        v = own[prop]
        if prop in ("fill", "stroke") and v == "currentColor":
            v = comp["color"]
        comp[prop] = v
    return comp, multi


def colour_value(text, opacity):
    """CSS colour -> RGBA int through the library's Color (C13 verifies that parser separately)"""
    from svgelements import Color
    if text is None:
        return "unset"
    c = Color(text)
    if c.value is None:
        return "none"
    if opacity is not None:
        try:
            o = float(opacity)
            c.opacity = o
        except ValueError:
            pass
    return int(c.value)


def spec_render(doc):
    """[{kind, ctm, vt, nums, opts, d, id, fill, stroke, sw, nss, flags}] in document order, or
    ('halt', why) where the specification gives no single answer the property pins down"""
    root = doc["root"]
    cfg = doc["cfg"]
    ppi = cfg["ppi"]
    ids = {}

    def collect(n):
        if "id" in n["sem"]:
            ids[n["sem"]["id"]] = n
        for c in n["kids"]:
            collect(c)
    collect(root)
    rules = []
    out = []
    flags = set()

    def lenp(sem, k, rel, dflt=0.0):
        if k not in sem:
            return dflt
        return px(sem[k], ppi, rel)

    def go(n, ctm, vt, vp, inh, active, top=False):
        sem = n["sem"]
        tag = n["tag"]
        if tag == "style":
            rules.extend(sem.get("rules", []))
            return
        if sem.get("display") == "none":
            return
        if tag == "defs":
            return
        paint, multi = cascade(n, rules, inh)
        if len(sem.get("class", [])) > 1 and any(v > 1 for v in multi.values()):
            flags.add("multi-class")
        own = tf_matrix(sem["transform"]) if "transform" in sem else IDENT
        m = mmul(own, ctm)
        if tag == "svg":
            ow, oh = vp
            vb = sem.get("viewBox")
            if top:
                ow = text_len(cfg.get("width"), ppi, None)
                oh = text_len(cfg.get("height"), ppi, None)
                if ow is None:
                    ow = vb[2] if vb else 1000.0
                if oh is None:
                    oh = vb[3] if vb else 1000.0
            w = lenp(sem, "width", ow, ow)
            h = lenp(sem, "height", oh, oh)
            x = lenp(sem, "x", ow)
            y = lenp(sem, "y", oh)
            if vb:
                if w == 0 or h == 0 or vb[2] == 0 or vb[3] == 0:
                    flags.add("zero-viewport")
                    return
                m = mmul(vp_transform((x, y, w, h), vb, sem.get("par")), m)
                vt2 = m
                vp2 = (vb[2], vb[3])
            else:
                if (x != 0 or y != 0) and not top:
                    m = mmul((1, 0, 0, 1, x, y), m)
                vt2 = vt
                vp2 = (w, h)
            for c in n["kids"]:
                go(c, m, vt2, vp2, paint, active)
            return
        if tag == "g":
            for c in n["kids"]:
                go(c, m, vt, vp, paint, active)
            return
        if tag == "use":
            x = lenp(sem, "x", vp[0])
            y = lenp(sem, "y", vp[1])
            m = mmul((1, 0, 0, 1, x, y), m)
            for c in n["kids"]:
                go(c, m, vt, vp, paint, active)
            t = ids.get(sem.get("href"))
            if t is not None and sem.get("href") not in active:
                go(t, m, vt, vp, paint, active + [sem["href"]])
            return
        if tag not in SHAPES:
            return
        w, h = vp
        o = {"kind": tag, "m": list(m), "vt": list(vt), "id": sem.get("id"), "opts": [], "d": "", "nums": []}
        if tag == "rect":
            o["nums"] = [lenp(sem, "x", w), lenp(sem, "y", h), lenp(sem, "width", w, 1.0), lenp(sem, "height", h, 1.0)]
            o["opts"] = [lenp(sem, "rx", w, None), lenp(sem, "ry", h, None)]
            if o["nums"][2] == 0 or o["nums"][3] == 0:
                return
        elif tag == "circle":
            r = lenp(sem, "r", w, 1.0)
            o["nums"] = [lenp(sem, "cx", w), lenp(sem, "cy", h), r, r]
            if r == 0:
                return
        elif tag == "ellipse":
            o["nums"] = [lenp(sem, "cx", w), lenp(sem, "cy", h), lenp(sem, "rx", w, 1.0), lenp(sem, "ry", h, 1.0)]
            if o["nums"][2] == 0 or o["nums"][3] == 0:
                return
        elif tag == "line":
            o["nums"] = [lenp(sem, "x1", w), lenp(sem, "y1", h), lenp(sem, "x2", w), lenp(sem, "y2", h)]
        elif tag in ("polyline", "polygon"):
            o["nums"] = [v for p in sem.get("points", []) for v in p]
            if not o["nums"]:
                return
        else:
            o["d"] = sem.get("d", "")
        if any(v is None for v in o["nums"]):
            flags.add("unresolved-percentage")
        o["fill"] = colour_value(paint.get("fill"), paint.get("fill-opacity"))
        o["stroke"] = colour_value(paint.get("stroke"), paint.get("stroke-opacity"))
        o["sw"] = px(_split_len(paint.get("stroke-width", "1")), ppi, None)
        o["nss"] = sem.get("vector-effect") == "non-scaling-stroke"
        out.append(o)

    inh = {"fill": "black", "stroke": "none", "color": cfg.get("color", "black")}
    ctm = tf_matrix(cfg["transform"]) if cfg.get("transform") and not isinstance(cfg["transform"], str) else IDENT
    go(root, ctm, IDENT, (None, None), inh, [], top=True)
    return out, flags


def _split_len(t):
    i = len(t)
    while i > 0 and not (t[i - 1].isdigit() or t[i - 1] == "."):
        i -= 1
    return [float(t[:i]), t[i:]]


def count_nodes(n):
    return 1 + sum(count_nodes(c) for c in n["kids"])


def tags_of(n, acc=None):
    acc = acc if acc is not None else {}
    acc[n["tag"]] = acc.get(n["tag"], 0) + 1
    for c in n["kids"]:
        tags_of(c, acc)
    return acc
