"""C19 — arc-to-Bezier conversion keeps endpoints, continuity and a bounded error."""
import math
from core import Prop, Failure, Mismatch, fhex, hexf, exc_name
import gen, geo
from svgelements import Arc, Path, Point, Move, Line, Close, QuadraticBezier, CubicBezier

TAU = 2 * math.pi
FINDING_MOVELESS = "C19-moveless-close"
# the property's bounds on the distance from the ellipse, relative to the larger radius
RHO = {"c": 1e-3, "q": 1e-2}
SAMPLES = [i / 10.0 for i in range(11)]


def centre_arc(rng):
    """an arc given in centre form: any extent from 1e-3 to beyond a turn, either direction"""
    c = geo.pt(rng)
    s = 10 ** rng.uniform(-2, 3.5)
    rx = s
    ry = s * (1.0 if rng.random() < 0.25 else 10 ** rng.uniform(-2, 2))
    if max(rx, ry) / min(rx, ry) > 100:
        ry = rx
    th = rng.choice([0, math.pi / 2, math.pi, math.pi / 6, -math.pi / 3]) if rng.random() < 0.4 else rng.uniform(-TAU, TAU)
    t0 = rng.uniform(-TAU, TAU) if rng.random() < 0.7 else rng.choice([0, math.pi / 2, math.pi, -math.pi / 2])
    r = rng.random()
    if r < 0.15:
        sw = 10 ** rng.uniform(-3, -1)
    elif r < 0.75:
        sw = rng.uniform(0.1, TAU)
    elif r < 0.85:
        sw = rng.choice([math.pi / 2, math.pi, TAU, TAU / 12, TAU / 6])
    else:
        sw = rng.uniform(TAU, 2.5 * TAU)
    if rng.random() < 0.5:
        sw = -sw
    ct, st = math.cos(th), math.sin(th)

    def E(t):
        return [c[0] + rx * math.cos(t) * ct - ry * math.sin(t) * st, c[1] + rx * math.cos(t) * st + ry * math.sin(t) * ct]
    return {"k": "AC", "start": E(t0), "end": E(t0 + sw), "center": c, "prx": [c[0] + rx * ct, c[1] + rx * st],
            "pry": [c[0] - ry * st, c[1] + ry * ct], "sweep": sw}


def endpoint_arc(rng, start=None, local=None):
    while True:
        d = geo.rand_seg(rng, start=start, kinds="A", local=local)
        q = rng.random()
        if q < 0.03:
            d["rx"] = 0.0
        elif q < 0.06:
            d["p"][1] = list(d["p"][0])
        if d["rx"] == 0 or d["ry"] == 0 or max(d["rx"], d["ry"]) / min(d["rx"], d["ry"]) <= 100:
            return d


def build_arc(d):
    if d["k"] == "AC":
        return Arc(Point(*d["start"]), Point(*d["end"]), Point(*d["center"]), Point(*d["prx"]), Point(*d["pry"]), d["sweep"])
    return geo.build(d)


def P(p):
    return [float(p[0]), float(p[1])]


def seg_pts(seg):
    if isinstance(seg, CubicBezier):
        return ["C", P(seg.start), P(seg.control1), P(seg.control2), P(seg.end)]
    if isinstance(seg, QuadraticBezier):
        return ["Q", P(seg.start), P(seg.control), P(seg.end)]
    if isinstance(seg, Arc):
        return ["A", P(seg.start), P(seg.end), P(seg.center), P(seg.prx), P(seg.pry), float(seg.sweep)]
    k = "M" if isinstance(seg, Move) else "Z" if isinstance(seg, Close) else "L"
    return [k, P(seg.start) if seg.start is not None else None, P(seg.end)]


def parse_segs(out):
    """'OK\tC h.. | C h..' -> [[kind, pts...]]"""
    if not out.startswith("OK"):
        return None
    body = out.split("\t", 1)[1] if "\t" in out else ""
    res = []
    for part in body.split("|"):
        tk = part.split()
        if not tk:
            continue
        k = tk[0]
        vals = tk[1:]
        if k in "MLZ":
            st = None if vals[0] == "-" else [hexf(vals[0]), hexf(vals[1])]
            res.append([k, st, [hexf(vals[2]), hexf(vals[3])]])
        elif k == "A":
            v = [hexf(x) for x in vals]
            res.append(["A"] + [[v[i], v[i + 1]] for i in range(0, 10, 2)] + [v[10]])
        else:
            v = [hexf(x) for x in vals]
            res.append([k] + [[v[i], v[i + 1]] for i in range(0, len(v), 2)])
    return res


def bez(seg, t):
    n = 1 - t
    if seg[0] == "C":
        p0, p1, p2, p3 = seg[1:5]
        return [n ** 3 * p0[i] + 3 * n * n * t * p1[i] + 3 * n * t * t * p2[i] + t ** 3 * p3[i] for i in (0, 1)]
    p0, p1, p2 = seg[1:4]
    return [n * n * p0[i] + 2 * n * t * p1[i] + t * t * p2[i] for i in (0, 1)]


def ellipse_frame(arcobs):
    """(center, U, V) of the ellipse from the arc's public fields"""
    c = arcobs["center"]
    U = [arcobs["prx"][0] - c[0], arcobs["prx"][1] - c[1]]
    V = [arcobs["pry"][0] - c[0], arcobs["pry"][1] - c[1]]
    return c, U, V


def rel_dist_to_ellipse(p, c, U, V):
    """distance from p to the ellipse {c + U cos + V sin} divided by the larger radius.
    First the cheap upper bound | |L^-1(p-c)| - 1 | (L has norm max radius); if that exceeds nothing it is returned, the
    caller asks for the exact distance only when the bound is not enough."""
    det = U[0] * V[1] - U[1] * V[0]
    dx, dy = p[0] - c[0], p[1] - c[1]
    qx = (dx * V[1] - dy * V[0]) / det
    qy = (-dx * U[1] + dy * U[0]) / det
    return abs(math.hypot(qx, qy) - 1.0), math.atan2(qy, qx)


def exact_rel_dist(p, c, U, V, t0):
    """true distance by Newton iterations on the parameter, from the radial foot point"""
    R = max(math.hypot(*U), math.hypot(*V))
    best = None
    for start in (t0, t0 + 0.05, t0 - 0.05):
        t = start
        for _ in range(60):
            ex, ey = c[0] + U[0] * math.cos(t) + V[0] * math.sin(t), c[1] + U[1] * math.cos(t) + V[1] * math.sin(t)
            dx, dy = -U[0] * math.sin(t) + V[0] * math.cos(t), -U[1] * math.sin(t) + V[1] * math.cos(t)
            ddx, ddy = -(ex - c[0]), -(ey - c[1])
            g = (ex - p[0]) * dx + (ey - p[1]) * dy
            h = dx * dx + dy * dy + (ex - p[0]) * ddx + (ey - p[1]) * ddy
            if h == 0:
                break
            step = g / h
            t -= step
            if abs(step) < 1e-14:
                break
        ex, ey = c[0] + U[0] * math.cos(t) + V[0] * math.sin(t), c[1] + U[1] * math.cos(t) + V[1] * math.sin(t)
        d = math.hypot(ex - p[0], ey - p[1]) / R
        best = d if best is None else min(best, d)
    return best


def chain_dev(chain, c, U, V):
    """max over sampled points of the relative distance to the ellipse"""
    worst = 0.0
    for seg in chain:
        for t in SAMPLES:
            p = bez(seg, t)
            ub, ang = rel_dist_to_ellipse(p, c, U, V)
            worst = max(worst, ub)
    return worst


def chain_dev_exact(chain, c, U, V):
    worst = 0.0
    for seg in chain:
        for t in SAMPLES:
            p = bez(seg, t)
            ub, ang = rel_dist_to_ellipse(p, c, U, V)
            worst = max(worst, min(ub, exact_rel_dist(p, c, U, V, ang)))
    return worst


def default_count(sweep, limit=TAU / 12.0):
    return int(math.ceil(abs(sweep) / limit))


class C19(Prop):
    id = "C19"
    rule = ("(arc) arcs in endpoint form (radius ratio <= 100, any rotation, four flag pairs, radii too small, zero radius, coincident "
            "endpoints) and centre form (extent 1e-3 .. 2.5 turns, either direction, any start angle), coordinates 0 or 1e-3..1e5, "
            "converted by as_cubic_curves / as_quad_curves with the default and explicit counts 1..64; (path) random paths of "
            "L/Q/C/A/Z segments with 1-4 arcs at any position, approximate_arcs_with_cubics/_with_quads at error 0.1, 1/12, 0.05, "
            "0.02. Oracle on the implementation: chain non-empty iff the arc draws something, first start = arc start and last end = "
            "arc end exactly, joins exact, every sampled curve point within 1e-3 (cubic) / 1e-2 (quadratic) of the ellipse relative to "
            "the larger radius at the default count or finer, deviation not growing when the count doubles, other segments of the "
            "path identical, path connected, no arc left. non-trivial = non-zero extent; distinct by canonical JSON")
    trusted_base = [
        "the unit-circle error bound of one slice (|B(t)|-1 for slice angle <= 30 degrees) is measured by the oracle, not proved; "
        "theorems reduce the ellipse case to it (affine reduction, radial bound)",
        "KL (t_at_point inversion giving the start parameter) validated by correspondence only; libm; IEEE rounding",
    ]

    def cases(self, rng, tier):
        # corpus: zero-radius arc inside a path (vanished before the fix), multi-slice negative rotated eccentric arcs
        yield {"k": "path", "kind": "c", "err": 0.1, "d": "M0,0 L 5,5 A 0,5 0 0 1 20,25 L 30,30"}
        yield {"k": "path", "kind": "q", "err": 0.1, "d": "M0,0 L 5,5 A 0,5 0 0 1 20,25 L 30,30 z"}
        yield {"k": "path", "kind": "c", "err": 0.1, "d": "M0,0 L 5,5 A 7,5 0 0 1 5,5 L 30,30"}
        yield {"k": "path", "kind": "c", "err": 0.1, "d": "M10,10 A 30,20 25 1 0 40,10 A 5,50 -60 0 1 0,0 z A 3 3 0 0 0 4 4"}
        # a closepath followed directly by a drawing command (a subpath that begins where the previous one was closed), closed again
        for kind in "cq":
            for d in ("M0,0 L10,0 A5,5 0 0 1 10,10 Z L5,5 L5,0 Z", "M0,0 A5,5 0 0 1 10,10 Z L20,20 A3,3 0 0 0 25,25 Z",
                      "M1,1 L4,1 Z Q5,5 6,1 A2,2 0 0 1 8,1 Z M20,20 A5,5 0 1 1 30,20 Z", "M0,0 L4,0 L4,3 Z L9,9 A4,2 30 1 0 2,7 Z L1,1",
                      "M5,5 A3,3 0 0 1 8,8 Z A4,4 0 0 0 12,12 L0,9 Z"):
                yield {"k": "path", "kind": kind, "err": 0.1, "d": d}
        n = 1200 if tier == "quick" else 60000
        for i in range(n):
            arc = centre_arc(rng) if rng.random() < 0.55 else endpoint_arc(rng)
            r = rng.random()
            cnt = None if r < 0.5 else rng.choice([1, 2, 3, 4, 5, 7, 12, 13, 24, 64]) if r < 0.8 else rng.randint(1, 64)
            yield {"k": "arc", "kind": rng.choice("cq"), "arc": arc, "n": cnt}
        for i in range(n // 3):
            nseg = rng.randint(1, 7)
            cur = geo.pt(rng, 500)
            start = cur
            loc = 10 ** rng.uniform(0, 2.5)
            segs = []
            arcs_at = set(rng.sample(range(nseg), min(nseg, rng.randint(1, 3))))
            for j in range(nseg):
                if j in arcs_at:
                    d = endpoint_arc(rng, start=cur, local=loc)
                else:
                    d = geo.rand_seg(rng, start=cur, kinds="LQC", local=loc)
                segs.append(d)
                cur = d["p"][-1]
            nomove = rng.random() < 0.2
            if nomove and rng.random() < 0.7 and segs[0]["k"] != "A":
                segs[0] = endpoint_arc(rng, start=start, local=loc)
                if len(segs) > 1:
                    # keep the chain connected: the next segment starts at the new end
                    segs[1]["p"][0] = list(segs[0]["p"][-1])
            yield {"k": "pathsegs", "kind": rng.choice("cq"), "err": rng.choice([0.1, 0.1, 1 / 12.0, 0.05, 0.02]),
                   "start": start, "segs": segs, "close": rng.random() < 0.4, "second": rng.random() < 0.3, "nomove": nomove}

    def tag(self, case):
        if case["k"] == "arc":
            return ["arc." + case["kind"], "form." + case["arc"]["k"], "count." + ("default" if case["n"] is None else "explicit")]
        return ["path." + case["kind"]] + (["path.nomove"] if case.get("nomove") else [])

    def nontrivial(self, case, obs):
        return "exc" not in obs and (obs.get("sweep", 1.0) != 0.0)

    # ------------------------------------------------------------ implementation
    def _path(self, case):
        if case["k"] == "path":
            return Path(case["d"])
        body = [build_arc(d) if d["k"] in ("A", "AC") else geo.build(d) for d in case["segs"]]
        if case.get("nomove"):
            # a fragment without a leading move: the library's convention closes to the first segment's end
            segs = body
            if case["close"]:
                segs.append(Close(Point(*case["segs"][-1]["p"][-1]), Point(*case["segs"][0]["p"][-1])))
        else:
            segs = [Move(Point(*case["start"]))] + body
            if case["close"]:
                segs.append(Close(Point(*case["segs"][-1]["p"][-1]), Point(*case["start"])))
        if case.get("second"):
            q = case["segs"][0]["p"][-1]
            segs += [Move(Point(q[0] + 1, q[1] + 1)), Line(Point(q[0] + 1, q[1] + 1), Point(q[0] + 5, q[1] - 3)),
                     Arc(Point(q[0] + 5, q[1] - 3), 4, 2, 30, 1, 0, Point(q[0] + 9, q[1]))]
        return Path(*segs)

    def impl(self, case):
        try:
            if case["k"] == "arc":
                arc = build_arc(case["arc"])
                f = arc.as_cubic_curves if case["kind"] == "c" else arc.as_quad_curves
                chain = [seg_pts(s) for s in (f() if case["n"] is None else f(case["n"]))]
                obs = {"arc": geo.wire(arc), "start": P(arc.start), "end": P(arc.end), "center": P(arc.center), "prx": P(arc.prx),
                       "pry": P(arc.pry), "sweep": float(arc.sweep), "chain": chain}
                # the same arc at twice the count (for the 'shrinking' clause)
                if arc.sweep != 0:
                    nn = case["n"] if case["n"] is not None else default_count(arc.sweep)
                    if 1 <= nn <= 64:
                        obs["chain2"] = [seg_pts(s) for s in f(2 * nn)]
                return obs
            p = self._path(case)
            before = [seg_pts(s) for s in p]
            wire = " | ".join(geo.wire(s) for s in p)
            if case["kind"] == "c":
                p.approximate_arcs_with_cubics(case["err"])
            else:
                p.approximate_arcs_with_quads(case["err"])
            return {"wire": wire, "before": before, "after": [seg_pts(s) for s in p]}
        except Exception as e:
            return {"exc": exc_name(e)}

    def model_ops2(self, case, obs):
        if "exc" in obs:
            return []
        if case["k"] == "arc":
            return ["c19.arc\t%s\t%s\t%s" % (case["kind"], "-" if case["n"] is None else case["n"], obs["arc"])]
        return ["c19.path\t%s\t%s\t%s" % (case["kind"], fhex(case["err"]), obs["wire"])]

    @staticmethod
    def _scale(segs):
        m = 1.0
        for s in segs:
            for q in s[1:]:
                if isinstance(q, list):
                    m = max(m, abs(q[0]), abs(q[1]))
        return m

    def _segs_close(self, a, b, tol):
        if a is None or b is None or len(a) != len(b):
            return False
        for x, y in zip(a, b):
            if x[0] != y[0]:
                return False
            for p, q in zip(x[1:], y[1:]):
                if p is None or q is None:
                    if p is not q:
                        return False
                elif isinstance(p, list):
                    if geo.pdist(p, q) > tol:
                        return False
                elif abs(p - q) > 1e-9:
                    return False
        return True

    def compare(self, case, obs, outs):
        if "exc" in obs:
            return []
        got = obs["chain"] if case["k"] == "arc" else obs["after"]
        mod = parse_segs(outs[0])
        if case["k"] == "arc":
            R = max(geo.pdist(obs["center"], obs["prx"]), geo.pdist(obs["center"], obs["pry"]), 1e-300)
            tol = 1e-7 * max(self._scale(got), R) * max(1.0, abs(obs["sweep"]))
        else:
            tol = 1e-7 * self._scale(obs["before"]) * 10
        if not self._segs_close(got, mod, tol):
            return [Mismatch(stream="c19." + case["k"], case=case, impl=got, model=mod if mod is not None else outs[0])]
        return []

    # ------------------------------------------------------------ oracle
    def _chain_shape(self, what, chain, start, end, kind, case, fs):
        want = "C" if kind == "c" else "Q"
        if any(s[0] != want for s in chain):
            fs.append(Failure(what=what + ": wrong curve kind in chain", case=case, observed=[s[0] for s in chain]))
            return False
        if chain[0][1] != start:
            fs.append(Failure(what=what + ": chain does not start exactly at the arc's start", case=case, observed=chain[0][1], expected=start))
        if chain[-1][-1] != end:
            fs.append(Failure(what=what + ": chain does not end exactly at the arc's end", case=case, observed=chain[-1][-1], expected=end))
        for a, b in zip(chain, chain[1:]):
            if a[-1] != b[1]:
                fs.append(Failure(what=what + ": consecutive curves do not join", case=case, observed=[a[-1], b[1]]))
                break
        return True

    def oracle(self, case, obs):
        fs = []
        if "exc" in obs:
            return [Failure(what="conversion raised %s" % obs["exc"], case=case)]
        kind = case["kind"]
        if case["k"] == "arc":
            chain = obs["chain"]
            draws = obs["sweep"] != 0 or geo.pdist(obs["start"], obs["end"]) > 1e-12
            if not draws:
                if chain:
                    fs.append(Failure(what="an arc of zero extent yields curves", case=case, observed=chain))
                return fs
            if not chain:
                return [Failure(what="an arc that draws something yields no curves", case=case)]
            self._chain_shape("arc", chain, obs["start"], obs["end"], kind, case, fs)
            if case["n"] is not None and obs["sweep"] != 0 and len(chain) != case["n"]:
                fs.append(Failure(what="%d curves for requested count %d" % (len(chain), case["n"]), case=case))
            if obs["sweep"] == 0:
                # zero radius: the straight segment
                for s in chain:
                    for t in SAMPLES:
                        p = bez(s, t)
                        a, b = obs["start"], obs["end"]
                        L = geo.pdist(a, b)
                        cross = abs((p[0] - a[0]) * (b[1] - a[1]) - (p[1] - a[1]) * (b[0] - a[0])) / L
                        if cross > 1e-9 * max(1.0, L):
                            fs.append(Failure(what="zero-radius arc converts to a curve off the chord", case=case, observed=p))
                            return fs
                return fs
            c, U, V = ellipse_frame(obs)
            nn = len(chain)
            dflt = default_count(obs["sweep"])
            dev = chain_dev(chain, c, U, V)
            if nn >= dflt:
                if dev > RHO[kind]:
                    dev = chain_dev_exact(chain, c, U, V)
                if dev > RHO[kind]:
                    fs.append(Failure(what="curve points %.3g of the larger radius away from the ellipse (bound %g, %d curves, default %d)"
                                      % (dev, RHO[kind], nn, dflt), case=case, observed=chain))
            if "chain2" in obs and nn >= dflt:
                c2 = obs["chain2"]
                if len(c2) != 2 * nn:
                    fs.append(Failure(what="doubling the count gives %d curves for %d" % (len(c2), 2 * nn), case=case))
                else:
                    self._chain_shape("arc(2n)", c2, obs["start"], obs["end"], kind, case, fs)
                    dev2 = chain_dev(c2, c, U, V)
                    if dev2 > dev * 1.0000001 + 1e-9 and dev2 > RHO[kind] * 1e-3:
                        fs.append(Failure(what="deviation grows when the subdivision is refined: %.3g at %d, %.3g at %d"
                                          % (dev, nn, dev2, 2 * nn), case=case))
            return fs
        # paths
        before, after = obs["before"], obs["after"]
        if any(s[0] == "A" for s in after):
            fs.append(Failure(what="an arc is left after approximation", case=case))
        i = 0
        last_end = None
        zstart = None
        for s in before:
            if s[0] != "A":
                same = i < len(after) and (after[i] == s or (s[0] == "M" and after[i][0] == "M" and after[i][2] == s[2]))
                if not same:
                    f = Failure(what="a segment other than an arc was changed by the approximation", case=case,
                                observed=after[i] if i < len(after) else None, expected=s)
                    # known finding: fragment beginning with an arc (no move); its close is re-targeted to the end of the
                    # FIRST SEGMENT left after the conversion - the first curve of the chain or, when the arc has zero extent
                    # and vanishes, the segment that followed it (the library closes a move-less fragment to its first
                    # segment's end)
                    if (case.get("nomove") and before[0][0] == "A" and s[0] == "Z" and i < len(after) and after[i][0] == "Z"
                            and after[i][1] == s[1] and after[0][0] != "M" and after[i][2] == after[0][-1]):
                        f["finding"] = FINDING_MOVELESS
                        fs.append(f)
                        i += 1
                        continue
                    fs.append(f)
                    return fs
                i += 1
                continue
            start, end, sweep = s[1], s[2], s[6]
            draws = sweep != 0 or geo.pdist(start, end) > 1e-12
            want = "C" if kind == "c" else "Q"
            j = i
            if draws:
                lim = TAU * case["err"]
                cnt = max(1, int(math.ceil(abs(sweep) / lim))) if sweep != 0 else 1
                chain = after[i:i + cnt]
                if len(chain) < cnt or any(x[0] != want for x in chain):
                    fs.append(Failure(what="arc not replaced by the expected chain of %d curves" % cnt, case=case, observed=after[i:i + cnt]))
                    return fs
                self._chain_shape("path", chain, start, end, kind, case, fs)
                if sweep != 0:
                    c, U, V = s[3], [s[4][0] - s[3][0], s[4][1] - s[3][1]], [s[5][0] - s[3][0], s[5][1] - s[3][1]]
                    if abs(U[0] * V[1] - U[1] * V[0]) > 0 and case["err"] <= 1 / 12.0 + 1e-12:
                        dev = chain_dev(chain, c, U, V)
                        if dev > RHO[kind]:
                            dev = chain_dev_exact(chain, c, U, V)
                        if dev > RHO[kind]:
                            fs.append(Failure(what="path: curve points %.3g of the larger radius away from the ellipse" % dev, case=case))
                i += cnt
        if i != len(after):
            fs.append(Failure(what="segment count after approximation %d, expected %d" % (len(after), i), case=case))
        # connectivity
        prev = None
        for s in after:
            st = s[1]
            if prev is not None and st is not None and geo.pdist(st, prev) > 1e-12 * max(1.0, abs(prev[0]), abs(prev[1])):
                fs.append(Failure(what="path not connected after approximation", case=case, observed=[prev, st]))
                break
            prev = s[-1] if s[0] != "A" else s[2]
        return fs


    def replay_findings(self, f):
        if f["id"] != FINDING_MOVELESS:
            return None
        a = Arc(Point(0, 0), 10, 10, 0, 1, 1, Point(10, 10))
        p = Path(a, Line(Point(10, 10), Point(20, 0)), Close(Point(20, 0), Point(10, 10)))
        p.approximate_arcs_with_cubics()
        return P(p[-1].end) != [10.0, 10.0]


PROP = C19()
