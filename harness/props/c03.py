"""C03 — parsed documents give each shape its spec-defined absolute geometry."""
import json
from core import Prop, Failure, Mismatch, exc_name
import docgen as dg

TOL = 1e-7

CORPUS = [
    # a nested svg without viewBox still places its viewport at x, y (fix in /repo)
    ('<svg width="200" height="100"><svg x="10" y="20" width="50" height="40"><rect width="5" height="5"/></svg></svg>', {}),
    # percentages after a nested svg resolve against the enclosing viewport (fix 40a588d)
    ('<svg width="1000" height="1000" viewBox="0 0 1000 1000"><svg width="100" height="100" viewBox="0 0 10 10">'
     '<rect width="50%" height="50%"/></svg><rect width="50%" height="50%"/></svg>', {}),
    # geometry attributes of an svg are not inherited (fix 19b07e0)
    ('<svg width="200" height="100"><svg x="10" y="20" width="50" height="40" viewBox="0 0 50 40"><rect height="5"/></svg></svg>', {}),
    # use: x/y as trailing translate, nested use, use of a group
    ('<svg><defs><g id="a"><rect id="r" x="1" y="2" width="3" height="4"/><use href="#r" x="10"/></g></defs>'
     '<use href="#a" x="5" y="7" transform="scale(2)"/><use href="#a" transform="rotate(90)"/></svg>', {}),
    ('<svg viewBox="0 0 10 10" width="100" height="50" preserveAspectRatio="xMaxYMid slice"><circle r="2" cx="50%" cy="50%"/></svg>', {}),
    ('<svg><g transform="translate(10,10)"><g transform="scale(2)" display="none"><rect width="5" height="5"/></g>'
     '<defs><rect id="q" width="5" height="5"/></defs><line x2="5" y2="5"/></g></svg>', {"transform": "scale(3)"}),
    ('<svg width="4in" height="2in"><rect x="1in" y="10%" width="50%" height="1cm"/><ellipse rx="10mm" ry="5pt" cx="1pc"/></svg>', {"ppi": 72.0}),
]


def corpus_case(text, cfg):
    c = {"ppi": 96.0, "reify": True, "color": "black", "width": None, "height": None, "transform": None}
    c.update(cfg)
    return {"k": "text", "text": text.replace("<svg", '<svg xmlns="http://www.w3.org/2000/svg"', 1), "cfg": c}


def tree_of_text(text):
    """the XML tree of a literal corpus document, in the shape docgen uses (no `sem`)"""
    import xml.etree.ElementTree as ET
    root = ET.fromstring(text)

    def go(e):
        tag = e.tag
        if tag.startswith("{http://www.w3.org/2000/svg}"):
            tag = tag[28:]
        return {"tag": tag, "attrs": [[k, v] for k, v in e.attrib.items()], "sem": {}, "text": e.text or "", "kids": [go(c) for c in e]}
    return go(root)


PROFILES = [
    {},                                                      # everything
    {"p_tf": 0.9, "nested_svg": False, "units": False},      # transform chains
    {"p_viewbox": 1.0, "p_tf": 0.3},                         # viewports
    {"use": True, "p_tf": 0.6, "depth": 5, "max_elems": 30}, # deep nesting and references
    {"paths": False, "p_tf": 0.2},                           # lengths and percentages
]


class C03(Prop):
    id = "C03"
    rule = ("documents: root svg (size from attributes with units/percentages, caller width/height, viewBox default; viewBox and "
            "preserveAspectRatio), nested svg (x/y/width/height/viewBox), g, defs, use (href/xlink:href to shapes, groups, other uses; "
            "x/y), the seven shape kinds with unit-bearing and percentage attributes, transforms on any element (1-3 functions of "
            "translate/scale/rotate(about a point)/skewX/skewY/matrix), display:none, ids; configurations ppi in {72,96,1000}, caller "
            "width/height (number, length text, absent), caller transform, reify in {False, True}. Observed per Shape of "
            "SVG.parse(...).elements(): kind, order, count, abs(Path(shape)) segment by segment. Compared with (1) the Lean model "
            "(doc.render: event loop + shape constructors, character-level attribute parsers), (2) the specification evaluator of "
            "harness/docgen.py (CTM product, nearest viewport, use expansion), (3) reify=True against reify=False. "
            "non-trivial = the document renders at least one shape under a non-identity accumulated transform")
    trusted_base = [
        "xml.etree.ElementTree.iterparse: the element tree and attribute dictionaries it delivers (the model starts from the tree)",
        "shape -> path -> transformed segments (Path(shape), abs): the subject of C06/C02; here only used to compare geometry pointwise",
        "the accumulated transform string is modelled as its list of pieces; lexing the joined string equals lexing the pieces for "
        "attribute texts that are complete function lists (validated by this correspondence, not proved)",
        "number printing of the generated translate(..)/scale(..) strings ('%s' of a float; Length.str '%.12f'): modelled as exact",
    ]
    assumptions = [
        "root svg carries no x/y; percentages on r are not generated (the code resolves them against the width)",
        "em/ex/vw/vh lengths stay symbolic in the library and are not generated; mm/cm are not generated here (their constants are the known finding C12-mm-cm-constant)",
    ]

    def cases(self, rng, tier):
        for text, cfg in CORPUS:
            yield corpus_case(text, cfg)
        n = 1200 if tier == "quick" else 30000
        for i in range(n):
            prof = PROFILES[i % len(PROFILES)]
            doc = dg.gen_doc(rng, **prof)
            yield {"k": "doc", "doc": doc}

    def _doc(self, case):
        if case["k"] == "text":
            return {"root": tree_of_text(case["text"]), "cfg": case["cfg"]}
        return case["doc"]

    def tag(self, case):
        if case["k"] == "text":
            return ["corpus"]
        d = case["doc"]
        t = ["tag=" + k for k in dg.tags_of(d["root"])]
        t.append("size=%d" % (min(dg.count_nodes(d["root"]) // 5 * 5, 30)))
        cfg = d["cfg"]
        t.append("ppi=%g" % cfg["ppi"])
        t.append("caller=%s" % ("none" if cfg["width"] is None else type(cfg["width"]).__name__))
        if cfg["transform"]:
            t.append("caller-transform")
        return t

    def describe(self, case):
        doc = self._doc(case)
        return {"xml": case["text"] if case["k"] == "text" else dg.xml_text(doc), "cfg": doc["cfg"]}

    def nontrivial(self, case, obs):
        return isinstance(obs.get("f"), list) and any(s["m"] != [1.0, 0.0, 0.0, 1.0, 0.0, 0.0] for s in obs["f"])

    # ---------------------------------------------------------------- implementation
    def impl(self, case):
        doc = self._doc(case)
        text = case["text"] if case["k"] == "text" else dg.xml_text(doc)
        obs = {}
        for key, reify in (("f", False), ("t", True)):
            try:
                obs[key] = dg.observe(dg.parse_impl(doc, reify=reify, text=text))
            except Exception as e:
                obs[key] = {"exc": exc_name(e), "msg": str(e)[:120]}
        return obs

    # ---------------------------------------------------------------- model
    def model_ops(self, case):
        return [dg.wire(self._doc(case))]

    def compare(self, case, obs, outs):
        status, shapes = dg.parse_model(outs[0])
        if status == "ERR deferred":
            return []
        f = obs["f"]
        if isinstance(f, dict):
            if status == "ERR " + f["exc"]:
                return []
            return [Mismatch(stream="c03.doc", case=case, impl=f, model=outs[0][:200])]
        if status != "OK":
            return [Mismatch(stream="c03.doc", case=case, impl="%d shapes" % len(f), model=outs[0][:200])]
        d = shapes_diff(f, shapes, path_data=True)
        if d:
            return [Mismatch(stream="c03.doc", case=case, impl=d, model="see impl: first difference")]
        # reify(): the numbers and the residual matrix of every reified shape against Model/Reify
        t = obs["t"]
        if isinstance(t, list) and len(t) == len(shapes):
            for i, (o, w) in enumerate(zip(t, shapes)):
                d = dg.reified_diff(o, w, stroke=False, impl_m=f[i]["m"])      # the stroke width is C14's observable
                if d:
                    return [Mismatch(stream="c03.reify", case=case, impl="shape %d: %s" % (i, d), model="see impl")]
        return []

    # ---------------------------------------------------------------- oracle
    def oracle(self, case, obs):
        fs = []
        f, t = obs["f"], obs["t"]
        for key, o in (("reify=False", f), ("reify=True", t)):
            if isinstance(o, dict):
                fs.append(Failure(what="SVG.parse(%s) raised %s" % (key, o["exc"]), case=case, observed=o))
        if fs:
            return fs
        # reification must not change absolute geometry, order or count
        if len(f) != len(t):
            return [Failure(what="reify=True yields %d shapes, reify=False %d" % (len(t), len(f)), case=case)]
        for i, (a, b) in enumerate(zip(f, t)):
            if a["kind"] != b["kind"]:
                return [Failure(what="shape %d kind differs with reify (%s vs %s)" % (i, a["kind"], b["kind"]), case=case)]
            if a["abs"] is None or b["abs"] is None:
                return [Failure(what="shape %d: abs(Path(shape)) not evaluable (%s)" % (i, a.get("abs_exc") or b.get("abs_exc")), case=case)]
            d = dg.pl.obs_segs_diff(a["abs"], b["abs"], TOL)
            if d:
                return [Failure(what="shape %d (%s): absolute geometry differs between reify=False and reify=True: %s" % (i, a["kind"], d),
                                case=case, observed=b["abs"][:3], expected=a["abs"][:3])]
        if case["k"] == "text":
            return fs
        # the specification
        try:
            spec, flags = dg.spec_render(case["doc"])
        except Exception as e:
            return [Failure(what="specification evaluator failed: %r" % (e,), case=case)]
        if flags & {"zero-viewport", "unresolved-percentage", "multi-class"} - {"multi-class"}:
            return fs
        d = shapes_diff(f, spec)
        if d:
            fs.append(Failure(what="differs from the SVG specification: " + d, case=case, flags=sorted(flags)))
        return fs

    def judge_mismatch(self, m):
        return None

    def replay_findings(self, f):
        return None


def shapes_diff(obs, want, path_data=False):
    """first difference in count / order / kind / id / absolute geometry, or None"""
    if len(obs) != len(want):
        return "%d shapes rendered, expected %d (%s vs %s)" % (len(obs), len(want), [s["kind"] for s in obs][:12],
                                                              [s["kind"] for s in want][:12])
    for i, (o, w) in enumerate(zip(obs, want)):
        wk = "ellipse" if w["kind"] == "circle" and o["kind"] == "ellipse" else w["kind"]
        if o["kind"] != wk:
            return "shape %d is a %s, expected %s" % (i, o["kind"], w["kind"])
        if o["id"] != w["id"]:
            return "shape %d has id %r, expected %r" % (i, o["id"], w["id"])
        d = dg.geom_diff(o["abs"], w, TOL)
        if d:
            return "shape %d (%s%s): %s" % (i, o["kind"], " id=%s" % o["id"] if o["id"] else "", d)
        if path_data and o["kind"] == "path":
            d = dg.path_data_diff(o, w)
            if d:
                return "shape %d (path%s): stored segments differ from the parse of its d attribute: %s" % (i, " id=%s" % o["id"] if o["id"] else "", d)
    return None


PROP = C03()
