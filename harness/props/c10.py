"""C10 — document parsing never aborts on a bad element; siblings are unaffected."""
import copy, itertools
from core import Prop, Failure, Mismatch, exc_name
import docgen as dg

FAULTS = {
    "transform": ["rotate(abc)", "matrix(1,2)", "scale(1,2,3,4,5)", "rotate(10px)", "translate(", "foo(1)", "skewX()",
                  "scale(2px)", "rotate(1turn 2 3)", "matrix(1 0 0 1 0 q)", "skewY(5%)", "translate(3) rotate(x) scale(2)",
                  "scale(1e400)", "matrix(1,0,0,1,0,0,7)", "translateX(a)", "rotate(10,5)", ")("],
    "d": ["M 0 0 L", "M0,0 A 1", "L", "garbage", "M 1e400,0", "M0 0 1", "z", "M 0 0 h", "m 1 1 a 1 1 0 0", "M0,0 L 1,1 Q", "M0,0 L5,5 X 3",
          "M0,0 L10,10 L5 z", "M0,0 H z", "M z", "M20,20 L30,20 L30,30 L", "M1,1 C 1,2 3,4 z", "M 5,5 T"],
    "fill": ["notacolor", "rgb(1,2", "#12", "url(#x)", "hsl(a,b,c)", "rgb(1e400,0,0)", "rgb(300,-5,0)", "", "#gggggg", "rgb(10%,20%)",
             "rgb(1e999%,0%,0%)", "hsl(1e400,50%,50%)", "hsl(10,1e400%,50%)", "rgba(1,2,3,1e400)", "rgb(1e400%,1e400%,1e400%,1e400)"],
    "stroke": ["nope", "rgb(", "#1", "rgb(1e999,1e999,1e999)"],
    "width": ["abc", "--5", "", "10 px", "50%%", "-5", "0", "1e400"],
    "height": ["abc", "", "0", "-3"],
    "points": ["1,2,3", "a,b", "", "1,,2", "1 2 3 4 5", "1e400,1"],
    "viewBox": ["0 0", "a b c d", "0 0 0 0", "", "0,0,10", "0 0 10 0"],
    "preserveAspectRatio": ["bogus", "xMidYMid bogus", "", " ", "none none none", "slice"],
    "fill-opacity": ["abc", "50%", "", "1e400", "-1"],
    "stroke-opacity": ["x", "1e999"],
    "stroke-width": ["abc", "-1", "", "1e400"],
    "r": ["abc", "-5", "", "0"],
    "rx": ["abc", "-2", ""],
    "x": ["abc", "", "5%%"],
    "cx": ["q", ""],
    "x1": ["q"],
    "display": ["bogus", ""],
    "style": ["fill", ":::", "fill:red:blue", ";;;", "fill:;stroke:", "transform:rotate(abc)"],
    "class": ["  ", "a  b", ""],
    "href": ["", "#", "#nope", "nohash", "##x"],
}

HOSTS = ["rect", "circle", "ellipse", "line", "polyline", "polygon", "path", "g", "svg", "use", "defs", "root", "text", "unknown"]


def host_doc(host, attr, value):
    """a small document with one faulty element `a` (kind = host) between two healthy siblings"""
    n = dg.node
    target = n("rect", {"id": "t", "width": [6.0, ""], "height": [4.0, ""]})
    before = n("rect", {"id": "b", "x": [1.0, ""], "width": [3.0, ""], "height": [2.0, ""], "attr_paint": {"fill": "red"}})
    after = n("circle", {"id": "c", "r": [3.0, ""], "cx": [20.0, ""], "transform": [["translate", [5.0, 5.0]]]})
    # a sibling whose size is a percentage of the viewport: whatever the faulty element does to the viewport must be undone
    pct = n("rect", {"id": "p", "x": [10.0, "%"], "y": [5.0, ""], "width": [50.0, "%"], "height": [25.0, "%"]})
    inner = n("polygon", {"id": "i", "points": [[0.0, 0.0], [5.0, 5.0], [5.0, 0.0]]})
    sems = {
        "rect": {"width": [5.0, ""], "height": [5.0, ""]}, "circle": {"r": [2.0, ""]}, "ellipse": {"rx": [2.0, ""], "ry": [1.0, ""]},
        "line": {"x2": [5.0, ""], "y2": [5.0, ""]}, "polyline": {"points": [[0.0, 0.0], [4.0, 4.0]]},
        "polygon": {"points": [[0.0, 0.0], [4.0, 4.0], [4.0, 0.0]]}, "path": {"d": "M0,0 L5,5"},
        "g": {}, "svg": {"width": [10.0, ""], "height": [10.0, ""], "viewBox": [0.0, 0.0, 20.0, 20.0]}, "use": {"href": "t"}, "defs": {},
        "text": {}, "unknown": {},
    }
    if host == "root":
        root = n("svg", {"width": [100.0, ""], "height": [100.0, ""], "viewBox": [0.0, 0.0, 50.0, 50.0], "raw": [[attr, value]]}, [before, after, pct])
        faulty = []
    else:
        tag = {"unknown": "foo"}.get(host, host)
        a = n(tag, dict(sems[host], id="a", raw=[[attr, value]]))
        if host in ("g", "svg", "defs"):
            a["kids"] = [inner]
        root = n("svg", {"width": [100.0, ""], "height": [100.0, ""]}, [n("defs", {}, [target]), before, a, after, pct])
        faulty = ["a"]
    doc = {"root": root, "cfg": {"ppi": 96.0, "reify": True, "color": "black", "width": None, "height": None, "transform": None}}
    dg.finish(doc)
    return doc, faulty


def all_nodes(n, acc=None, parents=None):
    acc = acc if acc is not None else []
    acc.append(n)
    for c in n["kids"]:
        all_nodes(c, acc)
    return acc


def subtree_ids(n):
    return {m["sem"]["id"] for m in all_nodes(n) if "id" in m["sem"]}


def give_ids(doc):
    k = [0]
    for m in all_nodes(doc["root"]):
        if "id" not in m["sem"] and m["tag"] not in ("style",) and m is not doc["root"]:
            m["sem"]["id"] = "u%d" % k[0]
            k[0] += 1


def remove_ids(doc, ids):
    d = copy.deepcopy(doc)

    def go(n):
        n["kids"] = [c for c in n["kids"] if c["sem"].get("id") not in ids]
        for c in n["kids"]:
            go(c)
    go(d["root"])
    dg.finish(d)
    return d


def applicable(tag):
    common = ["transform", "fill", "stroke", "fill-opacity", "stroke-opacity", "stroke-width", "display", "style", "class"]
    geom = {"rect": ["width", "height", "x", "rx"], "circle": ["r", "cx"], "ellipse": ["rx", "cx"], "line": ["x1"],
            "polyline": ["points"], "polygon": ["points"], "path": ["d"], "svg": ["width", "height", "viewBox", "preserveAspectRatio", "x"],
            "use": ["href", "x"], "g": [], "defs": []}
    return common + geom.get(tag, [])


class C10(Prop):
    id = "C10"
    exhaustive = True
    exhaustive_note = "14 element kinds (7 shapes, g, nested svg, use, defs, root svg, text, unknown) x every listed fault value of 21 attributes"
    rule = ("(grid) every element kind x every fault value: one faulty element between healthy siblings; (random) generated documents "
            "(C03's generator with ids on every element) with 1-3 attribute values replaced by malformed text on graphics, container "
            "and use elements, and use references retargeted (missing id, self, ancestor, mutual cycle). Observed: SVG.parse raises or "
            "not (reify False/True); shapes (kind, id, absolute geometry, paint) of the faulted document and of the document with the "
            "faulty elements removed. Oracle: no exception; shapes outside the faulty subtrees identical in both. The Lean model runs "
            "on the faulted text (exception kind and shapes compared). non-trivial = the faulted document still renders a shape")
    trusted_base = [
        "xml.etree.ElementTree; the documents are well-formed XML by construction",
        "float(text) for opacity values: modelled for PATTERN_FLOAT spellings with surrounding white space only",
        "shape -> absolute path is C06/C02's subject (used for comparison only)",
    ]
    assumptions = [
        "em/ex/vw/vh lengths and percentages inside transform functions are valid values the library keeps symbolic, not faults",
        "display faults are not placed on the root element (a root with display:none yields no document)",
        "faults are not placed in style sheet text",
    ]

    def cases(self, rng, tier):
        for host in HOSTS:
            for attr, vals in FAULTS.items():
                for v in vals:
                    if attr == "display" and host == "root":
                        continue
                    doc, faulty = host_doc(host, attr, v)
                    yield {"k": "grid", "host": host, "attr": attr, "doc": doc, "faulty": faulty}
        # two faulty path siblings, every ordered pair of path-data faults: a fault must not leak into the next element
        for v1, v2 in itertools.product(FAULTS["d"], repeat=2):
            yield self._pair("path", "d", v1, "path", "d", v2)
        pool = [(h, a, v) for h in ("rect", "g", "use", "svg", "path", "circle") for a in applicable(h) if a in FAULTS for v in FAULTS[a]]
        for _ in range(150 if tier == "quick" else 5000):
            (h1, a1, v1), (h2, a2, v2) = rng.choice(pool), rng.choice(pool)
            yield self._pair(h1, a1, v1, h2, a2, v2)
        n = 300 if tier == "quick" else 20000
        for i in range(n):
            yield self._random(rng)
        for c in self._cycles():
            yield c

    def _pair(self, h1, a1, v1, h2, a2, v2):
        d1, _ = host_doc(h1, a1, v1)
        d2, _ = host_doc(h2, a2, v2)
        first = d1["root"]["kids"][2]
        second = d2["root"]["kids"][2]
        first["sem"]["id"] = "a1"
        second["sem"]["id"] = "a2"
        for m in all_nodes(second):
            if m["sem"].get("id") == "i":
                m["sem"]["id"] = "i2"
        root = d1["root"]
        root["kids"] = root["kids"][:3] + [second] + root["kids"][3:]
        dg.finish(d1)
        return {"k": "pair", "doc": d1, "faulty": ["a1", "a2"], "kinds": [a1, a2]}

    def _cycles(self):
        n = dg.node
        cfg = {"ppi": 96.0, "reify": True, "color": "black", "width": None, "height": None, "transform": None}
        docs = []
        sib = lambda: n("circle", {"id": "c", "r": [3.0, ""]})
        docs.append(n("svg", {}, [n("use", {"id": "u", "href": "u"}), sib()]))
        docs.append(n("svg", {}, [n("g", {"id": "g"}, [n("rect", {"id": "r", "width": [2.0, ""], "height": [2.0, ""]}), n("use", {"id": "u", "href": "g"})]), sib()]))
        docs.append(n("svg", {}, [n("defs", {}, [n("g", {"id": "a"}, [n("use", {"id": "ua", "href": "b"})]), n("g", {"id": "b"}, [n("use", {"id": "ub", "href": "a"})])]),
                                  n("use", {"id": "u", "href": "a"}), sib()]))
        docs.append(n("svg", {}, [n("defs", {}, [n("use", {"id": "a", "href": "b"}), n("use", {"id": "b", "href": "c3"}), n("use", {"id": "c3", "href": "a"})]),
                                  n("use", {"id": "u", "href": "a"}), sib()]))
        docs.append(n("svg", {}, [n("defs", {}, [n("g", {"id": "a"}, [n("rect", {"id": "r", "width": [2.0, ""], "height": [2.0, ""]}), n("use", {"id": "ua", "href": "a"})])]),
                                  n("use", {"id": "u1", "href": "a"}), n("use", {"id": "u2", "href": "a", "x": [5.0, ""]}), sib()]))
        for r in docs:
            d = {"root": r, "cfg": dict(cfg)}
            dg.finish(d)
            yield {"k": "cycle", "doc": d, "faulty": ["u", "u1", "u2", "g"]}

    def _random(self, rng):
        doc = dg.gen_doc(rng, p_tf=0.4, p_paint=0.25, depth=3, max_elems=16, p_hidden=0.03)
        give_ids(doc)
        nodes = [m for m in all_nodes(doc["root"]) if m is not doc["root"] and m["tag"] != "style"]
        faulty = []
        kinds = []
        for _ in range(rng.choice([1, 1, 2, 3])):
            if not nodes:
                break
            m = rng.choice(nodes)
            if m["tag"] == "use" and rng.random() < 0.5:
                # retarget the reference
                anc = [a for a in all_nodes(doc["root"]) if m in all_nodes(a) and "id" in a["sem"] and a is not m]
                choice = rng.choice(["missing", "self", "ancestor"])
                if choice == "ancestor" and anc:
                    m["sem"]["href"] = rng.choice(anc)["sem"]["id"]
                elif choice == "self":
                    m["sem"]["href"] = m["sem"]["id"]
                else:
                    m["sem"]["href"] = "nope"
                kinds.append("use-" + choice)
            else:
                attrs = [a for a in applicable(m["tag"]) if a in FAULTS]
                a = rng.choice(attrs)
                m["sem"].setdefault("raw", []).append([a, rng.choice(FAULTS[a])])
                kinds.append(a)
            faulty.append(m["sem"]["id"])
        dg.finish(doc)
        return {"k": "doc", "doc": doc, "faulty": sorted(set(faulty)), "kinds": kinds}

    def tag(self, case):
        if case["k"] == "grid":
            return ["grid", "host=" + case["host"], "fault=" + case["attr"]]
        if case["k"] == "cycle":
            return ["cycle"]
        if case["k"] == "pair":
            return ["pair"] + ["fault=" + k for k in case["kinds"]]
        return ["doc"] + ["fault=" + k for k in case["kinds"]]

    def describe(self, case):
        return {"xml": dg.xml_text(case["doc"]), "faulty": case["faulty"]}

    _judged = 0
    _judge_t = 0.0

    def judge_mismatch(self, m):
        """a model/implementation disagreement on a faulted document: decide the property on the implementation alone, each
        document parsed in a fresh interpreter (so state left behind by one parse cannot hide a leak between elements)"""
        case = m["case"]
        import time
        if self._judged >= 200 or self._judge_t > 150.0 or not case.get("faulty"):
            return None
        self._judged += 1
        t0 = time.time()
        try:
            return self._judge(case)
        finally:
            self._judge_t += time.time() - t0

    def _judge(self, case):
        doc = case["doc"]
        F = fresh_observe(doc)
        if isinstance(F, dict):
            return Failure(what="SVG.parse raised %s (fresh interpreter)" % F["exc"], case=case)
        for fid in case["faulty"]:
            R = fresh_observe(remove_ids(doc, {fid}))
            if isinstance(R, dict):
                continue
            S1 = faulty_ids(dict(case, faulty=[fid]))
            use1 = any(x["tag"] == "use" for mm in all_nodes(doc["root"]) if mm["sem"].get("id") == fid for x in all_nodes(mm))
            F1 = [s for s in F if s["id"] not in S1]
            R1 = [s for s in R if s["id"] not in S1]
            d = subsequence_diff(R1, F1) if use1 else seq_diff(F1, R1)
            if d:
                return Failure(what="with only the faulty element %s removed (each document parsed in a fresh interpreter), a shape "
                                    "outside its subtree differs: %s" % (fid, d), case=case)
        return None

    def nontrivial(self, case, obs):
        return isinstance(obs.get("t"), list) and len(obs["t"]) > 0

    # ---------------------------------------------------------------- implementation
    def impl(self, case):
        doc = case["doc"]
        text = dg.xml_text(doc)
        obs = {}
        if case["faulty"]:
            # the healthy remainder, parsed BEFORE the faulted document (and again after it, below): a fault must not
            # leave anything behind in the process either
            try:
                obs["before"] = dg.observe(dg.parse_impl(remove_ids(doc, set(case["faulty"])), reify=True))
            except Exception as e:
                obs["before"] = {"exc": exc_name(e), "msg": str(e)[:120]}
        for key, reify in (("f", False), ("t", True)):
            try:
                obs[key] = dg.observe(dg.parse_impl(doc, reify=reify, text=text))
            except RecursionError as e:
                obs[key] = {"exc": "RecursionError", "msg": ""}
            except Exception as e:
                obs[key] = {"exc": exc_name(e), "msg": str(e)[:120]}
        if case["faulty"]:
            removed = remove_ids(doc, set(case["faulty"]))
            try:
                obs["removed"] = dg.observe(dg.parse_impl(removed, reify=True))
            except Exception as e:
                obs["removed"] = {"exc": exc_name(e), "msg": str(e)[:120]}
            if len(case["faulty"]) > 1 and case["k"] != "cycle":
                # each faulty element alone removed: the other faulty elements must come out the same as well
                obs["removed1"] = {}
                for fid in case["faulty"]:
                    try:
                        obs["removed1"][fid] = dg.observe(dg.parse_impl(remove_ids(doc, {fid}), reify=True))
                    except Exception as e:
                        obs["removed1"][fid] = {"exc": exc_name(e), "msg": str(e)[:120]}
        return obs

    # ---------------------------------------------------------------- model
    def model_ops(self, case):
        return [dg.wire(case["doc"])]

    def compare(self, case, obs, outs):
        status, shapes = dg.parse_model(outs[0])
        if status == "ERR deferred":
            return []
        f = obs["f"]
        if isinstance(f, dict):
            if status == "ERR " + f["exc"]:
                return []
            return [Mismatch(stream="c10.doc", case=case, impl=f, model=outs[0][:200])]
        if status != "OK":
            return [Mismatch(stream="c10.doc", case=case, impl="%d shapes" % len(f), model=outs[0][:200])]
        from props.c03 import shapes_diff
        from props.c14 import paint_diff
        # inside a faulty element's subtree only presence (kind, id, order) is compared: how far an element in error is
        # rendered is not pinned down by the property; outside it everything is
        S = faulty_ids(case, with_targets=True)
        if case.get("host") == "root":
            return []
        if case["k"] in ("grid", "pair") and all(k == "d" for k in case.get("kinds", [case.get("attr")])) and \
                all(m["tag"] == "path" for m in all_nodes(case["doc"]["root"]) if m["sem"].get("id") in case["faulty"]):
            S = set()      # path data on a path element: "rendered up to the error" is exactly what the model (C09) predicts
        fo = [x for x in f if x["id"] not in S]
        mo = [x for x in shapes if x["id"] not in S]
        d = presence_diff(fo, mo) or shapes_diff(fo, mo, path_data=True) or paint_diff(fo, mo)
        if d:
            return [Mismatch(stream="c10.doc", case=case, impl=d, model="first difference")]
        return []

    # ---------------------------------------------------------------- oracle
    def oracle(self, case, obs):
        fs = []
        for key, name in (("f", "reify=False"), ("t", "reify=True")):
            if isinstance(obs[key], dict):
                fs.append(Failure(what="SVG.parse(%s) raised %s: %s" % (name, obs[key]["exc"], obs[key]["msg"]), case=case, observed=obs[key]))
        if fs or "removed" not in obs:
            return fs
        rem = obs["removed"]
        if isinstance(rem, dict):
            return [Failure(what="the document without the faulty elements raised %s" % rem["exc"], case=case)]
        doc = case["doc"]
        if isinstance(obs.get("before"), list) and seq_diff(rem, obs["before"]):
            return [Failure(what="the healthy remainder of the document renders differently after the faulted document was parsed "
                                 "than before: " + seq_diff(rem, obs["before"]), case=case)]
        S = faulty_ids(case)
        has_use = any(x["tag"] == "use" for m in all_nodes(doc["root"]) if m["sem"].get("id") in case["faulty"] for x in all_nodes(m))
        F = [s for s in obs["t"] if s["id"] not in S]
        R = [s for s in rem if s["id"] not in S]
        if has_use:
            d = subsequence_diff(R, F)
        else:
            d = seq_diff(F, R)
        if d:
            fs.append(Failure(what="a shape outside the faulty element's subtree changed: " + d, case=case))
            return fs
        for fid, rem1 in obs.get("removed1", {}).items():
            if isinstance(rem1, dict):
                fs.append(Failure(what="the document without the faulty element %s raised %s" % (fid, rem1["exc"]), case=case))
                return fs
            one = dict(case, faulty=[fid])
            S1 = faulty_ids(one)
            use1 = any(x["tag"] == "use" for m in all_nodes(doc["root"]) if m["sem"].get("id") == fid for x in all_nodes(m))
            F1 = [s for s in obs["t"] if s["id"] not in S1]
            R1 = [s for s in rem1 if s["id"] not in S1]
            d = subsequence_diff(R1, F1) if use1 else seq_diff(F1, R1)
            if d:
                fs.append(Failure(what="with only the faulty element %s removed, a shape outside its subtree differs: %s" % (fid, d), case=case))
                return fs
        return fs


def faulty_ids(case, with_targets=False):
    S = set()
    nodes = all_nodes(case["doc"]["root"])
    by_id = {m["sem"]["id"]: m for m in nodes if "id" in m["sem"]}
    for m in nodes:
        if m["sem"].get("id") in case["faulty"]:
            S |= subtree_ids(m)
            if with_targets:
                # instances made by a use inside the faulty subtree belong to it as well
                todo = [x for x in all_nodes(m) if x["tag"] == "use"]
                seen = set()
                while todo:
                    u = todo.pop()
                    t = by_id.get(u["sem"].get("href"))
                    if t is None or id(t) in seen:
                        continue
                    seen.add(id(t))
                    S |= subtree_ids(t)
                    todo += [x for x in all_nodes(t) if x["tag"] == "use"]
    return S


def presence_diff(obs, want):
    if len(obs) != len(want):
        return "%d shapes rendered, model %d (%s vs %s)" % (len(obs), len(want), [s["id"] for s in obs][:12], [s["id"] for s in want][:12])
    for i, (o, w) in enumerate(zip(obs, want)):
        wk = "ellipse" if w["kind"] == "circle" and o["kind"] == "ellipse" else w["kind"]
        if o["kind"] != wk or o["id"] != w["id"]:
            return "shape %d is %s id=%s, model %s id=%s" % (i, o["kind"], o["id"], w["kind"], w["id"])
    return None


_FRESH = r"""
import sys, json, io
sys.path.insert(0, %r); sys.path.insert(0, %r)
import docgen as dg
doc = json.load(sys.stdin)
try:
    print(json.dumps(dg.observe(dg.parse_impl(doc, reify=True))))
except Exception as e:
    print(json.dumps({"exc": type(e).__name__}))
"""


def fresh_observe(doc):
    """parse a document in a fresh interpreter: nothing an earlier parse left behind in the process can mask or cause a difference"""
    import subprocess, sys, os, json, core
    here = os.path.dirname(os.path.dirname(os.path.abspath(__file__)))
    p = subprocess.run([sys.executable, "-c", _FRESH % (core.REPO, here)], input=json.dumps(doc), capture_output=True, text=True, timeout=120)
    return json.loads(p.stdout.strip().splitlines()[-1])


def same_shape(a, b):
    if a["kind"] != b["kind"] or a["id"] != b["id"] or a["fill"] != b["fill"] or a["stroke"] != b["stroke"]:
        return False
    if isinstance(a["sw"], float) and isinstance(b["sw"], float):
        if abs(a["sw"] - b["sw"]) > 1e-9 * max(1.0, abs(b["sw"])):
            return False
    elif a["sw"] != b["sw"]:
        return False
    if a["abs"] is None or b["abs"] is None:
        return a["abs"] is None and b["abs"] is None
    return dg.pl.obs_segs_diff(a["abs"], b["abs"], 1e-9) is None


def seq_diff(F, R):
    if len(F) != len(R):
        return "%d shapes outside the faulty subtree, %d when the faulty element is removed (%s vs %s)" % (
            len(F), len(R), [s["id"] for s in F][:10], [s["id"] for s in R][:10])
    for i, (a, b) in enumerate(zip(F, R)):
        if not same_shape(a, b):
            return "shape %d (%s id=%s) differs from the same shape in the document without the faulty element" % (i, a["kind"], a["id"])
    return None


def subsequence_diff(R, F):
    i = 0
    for s in F:
        if i < len(R) and same_shape(R[i], s):
            i += 1
    if i < len(R):
        return "shape %s (id=%s) of the document without the faulty element is missing or changed" % (R[i]["kind"], R[i]["id"])
    return None


PROP = C10()
