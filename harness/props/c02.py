"""C02 — affine maps commute with geometry for every segment, path and shape."""
import math
from copy import copy
from core import Prop, Failure, Mismatch, fhex, exc_name
import gen, geo
from svgelements import (Matrix, Point, Path, Move, Line, Close, Arc, Rect, Circle, Ellipse, SimpleLine, Polyline, Polygon)

FINDING_ROUND = "C02-roundshape-segments"


def M_apply(m, p):
    return list(gen.mat_apply(m, p))


def tol(scale, m, arc):
    return (1e-7 if arc else 1e-9) * scale * geo.mat_norm(m) + 1e-9


def orth_images(m):
    """images of the unit vectors are orthogonal (relative test)"""
    dot = m[0] * m[2] + m[1] * m[3]
    return abs(dot) <= 1e-9 * (math.hypot(m[0], m[1]) * math.hypot(m[2], m[3]) + 1e-300)


def closed_outline(sampled, kinds):
    """the round-shape finding in its own terms: the segments still chain into one outline that the arcs close by themselves
    (start of each = end of its predecessor, back at the first point, closepath of no length); otherwise it is something else"""
    if not sampled:
        return False
    tolc = 1e-7 * max([1.0] + [abs(v) for sg in sampled for p in sg for v in p])
    prev = None
    for i, sg in enumerate(sampled):
        if prev is not None and geo.pdist(sg[0], prev) > tolc:
            return False
        prev = sg[1]
        if kinds and i < len(kinds) and kinds[i] == "Close" and geo.pdist(sg[0], sg[1]) > tolc:
            return False
    return geo.pdist(prev, sampled[0][0]) <= tolc


def rand_shape(rng, k=None):
    k = k or rng.choice(["rect", "rrect", "circle", "ellipse", "line", "polyline", "polygon"])
    c = lambda: round(rng.uniform(-200, 200), 2)
    sz = lambda: round(rng.uniform(0.5, 300), 2)
    if k == "rect":
        return {"k": k, "a": [c(), c(), sz(), sz()]}
    if k == "rrect":
        w, h = sz(), sz()
        return {"k": k, "a": [c(), c(), w, h, round(rng.uniform(0.1, w), 2), round(rng.uniform(0.1, h), 2)]}
    if k == "circle":
        return {"k": k, "a": [c(), c(), sz()]}
    if k == "ellipse":
        return {"k": k, "a": [c(), c(), sz(), sz()]}
    if k == "line":
        return {"k": k, "a": [c(), c(), c(), c()]}
    n = rng.randint(2, 8)
    return {"k": k, "a": [c() for _ in range(2 * n)]}


def build_shape(d):
    k, a = d["k"], d["a"]
    if k == "rect":
        return Rect(a[0], a[1], a[2], a[3])
    if k == "rrect":
        return Rect(a[0], a[1], a[2], a[3], a[4], a[5])
    if k == "circle":
        return Circle(a[0], a[1], a[2])
    if k == "ellipse":
        return Ellipse(a[0], a[1], a[2], a[3])
    if k == "line":
        return SimpleLine(a[0], a[1], a[2], a[3])
    ptsl = [(a[i], a[i + 1]) for i in range(0, len(a), 2)]
    return Polyline(*ptsl) if k == "polyline" else Polygon(*ptsl)


class C02(Prop):
    id = "C02"
    rule = ("(seg) every segment kind incl. degenerate (zero length, coincident/collinear controls, arcs with any rotation, flags, "
            "radius ratio 1e-3..1e3) x invertible matrix (cond<=400, negative det, shear, anisotropic) x 10 parameters; composition "
            "(X*A)*B vs X*(A*B); in-place and copying routes; (path) paths of 1-8 segments built by constructor, +, extend and append, "
            "abs(path*M) and in-place *= then reify; (shape) the seven basic shapes x matrices through (shape*M).segments() and "
            "abs(Path(shape)*M). Oracle: |(X*M).point(t) - M(X.point(t))| <= tol on the implementation itself. "
            "non-trivial = matrix is not a pure translation; distinct by canonical JSON")
    trusted_base = [
        "KL: the trigonometric inversion t_at_point(point_at_t(t)) = t (mod turn) is not carried by a theorem; exercised by stream seg.A",
        "cos/sin/atan2/tan/sqrt of libm; IEEE rounding (tolerance 1e-9 relative, arcs 1e-7)",
    ]

    def _near_identity(self, rng):
        """matrices that differ from the identity in exactly one entry (a pure skewX, skewY, scaleX, scaleY, translateX,
        translateY): the classes the shortcuts for 'nothing to do' (is_identity and friends) must not swallow"""
        for idx in range(6):
            for val in ((0.5, -1.0) if idx in (0, 3) else (0.75, -2.0)):
                M = [1.0, 0.0, 0.0, 1.0, 0.0, 0.0]
                M[idx] = val
                yield M

    def cases(self, rng, tier):
        for M in self._near_identity(rng):
            segs = []
            cur = geo.pt(rng, 100)
            for _ in range(3):
                d = geo.rand_seg(rng, start=cur, local=30.0)
                segs.append(d)
                cur = d["p"][-1]
            yield {"k": "path", "start": segs[0]["p"][0], "segs": segs, "M": M, "route": "ctor", "close": True, "submove": False,
                   "nostart": False}
            for k in ("rect", "rrect", "circle", "ellipse", "line", "polyline", "polygon"):
                yield {"k": "shape", "shape": rand_shape(rng, k), "M": M, "pre": None}
            yield {"k": "seg", "seg": geo.rand_seg(rng), "M": M, "B": gen.matrix_invertible(rng)}
        n = 1500 if tier == "quick" else 90000
        for i in range(n):
            d = geo.rand_seg(rng)
            yield {"k": "seg", "seg": d, "M": gen.matrix_invertible(rng), "B": gen.matrix_invertible(rng)}
        for i in range(n // 4):
            nseg = rng.randint(1, 8)
            segs = []
            cur = geo.pt(rng, 500)
            loc = 10 ** rng.uniform(0, 2.5)
            for _ in range(nseg):
                d = geo.rand_seg(rng, start=cur, local=loc)
                segs.append(d)
                cur = d["p"][-1]
            yield {"k": "path", "start": segs[0]["p"][0], "segs": segs, "M": gen.matrix_invertible(rng),
                   "route": rng.choice(["ctor", "add", "extend", "append", "iadd"]), "close": rng.random() < 0.3,
                   "submove": rng.random() < 0.5, "nostart": rng.random() < 0.3}
        for i in range(n // 4):
            if i % 5 == 4:
                # axis-aligned scale + translation (what Rect/Circle/Ellipse.reify fold into the shape's own numbers), both signs
                sx = rng.choice([0.5, 2.0, 3.0, 1.25]) * rng.choice([1, 1, 1, -1])
                sy = rng.choice([0.25, 1.5, 4.0, 0.8]) * rng.choice([1, 1, 1, -1])
                M = [sx, 0.0, 0.0, sy, round(rng.uniform(-40, 40), 2), round(rng.uniform(-40, 40), 2)]
                yield {"k": "shape", "shape": rand_shape(rng), "M": M, "pre": None}
                continue
            yield {"k": "shape", "shape": rand_shape(rng), "M": gen.matrix_invertible(rng),
                   "pre": gen.matrix_invertible(rng) if rng.random() < 0.3 else None}

    def tag(self, case):
        if case["k"] == "seg":
            return ["seg." + case["seg"]["k"], "det" + ("<0" if case["M"][0] * case["M"][3] - case["M"][2] * case["M"][1] < 0 else ">0")]
        if case["k"] == "path":
            return ["path." + case["route"]]
        return ["shape." + case["shape"]["k"]]

    def nontrivial(self, case, obs):
        m = case["M"]
        return not (m[0] == 1 and m[1] == 0 and m[2] == 0 and m[3] == 1)

    # ---------------------------------------------------------------- implementation
    def _build_path(self, case):
        segs = [geo.build(d) for d in case["segs"]]
        mv = Move(Point(*case["start"]))
        route = case["route"]
        tail = [Close(Point(*case["segs"][-1]["p"][-1]), Point(*case["start"]))] if case["close"] else []
        # a second subpath with its own move (start unknown), as a parser or a user would build it
        h = max(1, len(segs) // 2)
        if case.get("submove") and len(segs) > 1:
            segs = segs[:h] + [Move(Point(*case["segs"][h]["p"][0]))] + segs[h:]
            h2 = h
        else:
            h2 = None
        if case.get("nostart") and route in ("append", "iadd"):
            for sg in segs:
                if isinstance(sg, Line):
                    sg.start = None
        if route == "ctor":
            return Path(mv, *segs, *tail)
        if route == "add":
            k = h2 if h2 is not None else h
            return Path(mv, *segs[:k]) + Path(*segs[k:], *tail)
        if route == "iadd":
            p = Path(mv)
            for sg in segs + tail:
                p += sg
            return p
        if route == "extend":
            p = Path(mv)
            p.extend(segs + tail)
            return p
        p = Path(mv)
        for sg in segs + tail:
            p.append(sg)
        return p

    def impl(self, case):
        k = case["k"]
        try:
            M = Matrix(*case["M"])
            if k == "seg":
                s = geo.build(case["seg"])
                before = geo.wire(s)
                p0 = geo.sample(s)
                s2 = s * M
                untouched = geo.wire(s) == before
                p1 = geo.sample(s2)
                s3 = copy(s)
                s3 *= M
                p1b = geo.sample(s3)
                B = Matrix(*case["B"])
                pc1 = geo.sample((s * M) * B)
                pc2 = geo.sample(s * (M * B))
                return {"wire": before, "p0": p0, "p1": p1, "p1b": p1b, "pc1": pc1, "pc2": pc2, "untouched": untouched,
                        "scale": geo.seg_scale(s)}
            if k == "path":
                p = self._build_path(case)
                kinds = [geo.kind(x) for x in p]
                p0 = [geo.sample(x, geo.TS[:5]) for x in p]
                q = abs(p * M)
                p1 = [geo.sample(x, geo.TS[:5]) for x in q]
                r = self._build_path(case)
                r *= M
                r.reify()
                p2 = [geo.sample(x, geo.TS[:5]) for x in r]
                sub = self._build_path(case)
                sp = sub.subpath(0)
                n0 = len(sp)
                sp *= M
                p3 = [geo.sample(x, geo.TS[:5]) for x in sub]
                return {"kinds": kinds, "p0": p0, "p1": p1, "p2": p2, "p3": p3, "kinds1": [geo.kind(x) for x in q], "n0": n0,
                        "scale": max(geo.seg_scale(x) for x in p)}
            if k == "shape":
                sh = build_shape(case["shape"])
                if case["pre"] is not None:
                    sh *= Matrix(*case["pre"])
                base = abs(Path(sh))
                p0 = [geo.sample(x, geo.TS[:5]) for x in base]
                via_path = abs(Path(sh) * M)
                p1 = [geo.sample(x, geo.TS[:5]) for x in via_path]
                segs = (sh * M).segments()
                p2 = [geo.sample(x, geo.TS[:5]) for x in segs]
                reif = Path(sh) * M
                reif.reify()
                p3 = [geo.sample(x, geo.TS[:5]) for x in reif]
                # the shape's own reify(): abs(shape*M) keeps what it cannot fold into its numbers in a residual matrix
                p4 = [geo.sample(x, geo.TS[:5]) for x in abs(Path(abs(sh * M)))]
                return {"p0": p0, "p1": p1, "p2": p2, "p3": p3, "p4": p4, "kinds": [geo.kind(x) for x in base],
                        "kinds2": [geo.kind(x) for x in segs], "scale": max([1.0] + [geo.seg_scale(x) for x in base])}
        except Exception as e:
            import traceback
            return {"exc": exc_name(e), "tb": traceback.format_exc()[-400:]}

    # ---------------------------------------------------------------- model
    def model_ops(self, case):
        return []

    def model_ops2(self, case, obs):
        if case["k"] == "seg" and "wire" in obs:
            ts = " ".join(fhex(t) for t in geo.TS)
            m = " ".join(fhex(x) for x in case["M"])
            return ["seg.points\t%s\t%s" % (obs["wire"], ts), "seg.mulpoints\t%s\t%s\t%s" % (obs["wire"], m, ts)]
        return []

    def compare(self, case, obs, outs):
        if case["k"] != "seg" or not outs:
            return []
        ms = []
        arc = case["seg"]["k"] == "A"
        t0 = tol(obs["scale"], gen.IDENT, arc)
        t1 = tol(obs["scale"], case["M"], arc)
        m0, m1 = geo.pts(outs[0]), geo.pts(outs[1])
        if m0 is None or max(geo.pdist(a, b) for a, b in zip(m0, obs["p0"])) > t0:
            ms.append(Mismatch(stream="seg.points." + case["seg"]["k"], case=case, impl=obs["p0"], model=m0))
        if m1 is None or max(geo.pdist(a, b) for a, b in zip(m1, obs["p1"])) > t1:
            ms.append(Mismatch(stream="seg.mulpoints." + case["seg"]["k"], case=case, impl=obs["p1"], model=m1))
        return ms

    # ---------------------------------------------------------------- oracle
    def oracle(self, case, obs):
        if "exc" in obs:
            return [Failure(what="raised %s" % obs["exc"], case=case, observed=obs)]
        fs = []
        M = case["M"]
        k = case["k"]
        if k == "seg":
            arc = case["seg"]["k"] == "A"
            t1 = tol(obs["scale"], M, arc)
            want = [M_apply(M, p) for p in obs["p0"]]
            for name in ("p1", "p1b"):
                d = max(geo.pdist(a, b) for a, b in zip(obs[name], want))
                if d > t1:
                    fs.append(Failure(what="(seg*M).point(t) != M(seg.point(t)) [%s], deviation %.3g" % ("copy" if name == "p1" else "in-place", d),
                                      case=case, observed=obs[name], expected=want))
                    break
            MB = gen.mat_mul(M, case["B"])
            t2 = tol(obs["scale"], MB, arc) * geo.mat_norm(case["B"])
            want2 = [M_apply(MB, p) for p in obs["p0"]]
            for name in ("pc1", "pc2"):
                d = max(geo.pdist(a, b) for a, b in zip(obs[name], want2))
                if d > t2:
                    fs.append(Failure(what="composition (X*A)*B / X*(A*B) [%s], deviation %.3g" % (name, d), case=case,
                                      observed=obs[name], expected=want2))
                    break
            if not obs["untouched"]:
                fs.append(Failure(what="seg * M modified seg", case=case))
        elif k == "path":
            arc = any(d["k"] == "A" for d in case["segs"])
            t1 = tol(obs["scale"], M, arc)
            if obs["kinds"] != obs["kinds1"]:
                fs.append(Failure(what="abs(path*M) changed segment kinds", case=case, observed=obs["kinds1"]))
                return fs
            want = [[M_apply(M, p) for p in seg] for seg in obs["p0"]]
            for name, what in (("p1", "abs(path*M)"), ("p2", "path *= M; reify()"), ("p3", "subpath *= M")):
                got = obs[name]
                if len(got) != len(want):
                    fs.append(Failure(what="%s changed the number of segments" % what, case=case))
                    continue
                wantx = want
                if name == "p3":
                    # only the first subpath is transformed; the rest of the backing path must be untouched
                    wantx = want[:obs["n0"]] + obs["p0"][obs["n0"]:]
                d = max(geo.pdist(a, b) for sg, sw in zip(got, wantx) for a, b in zip(sg, sw))
                if d > t1:
                    fs.append(Failure(what="%s is not the matrix image of the path, deviation %.3g" % (what, d), case=case,
                                      observed=got, expected=want))
        elif k == "shape":
            t1 = tol(obs["scale"], M, True)
            want = [[M_apply(M, p) for p in seg] for seg in obs["p0"]]
            for name, what in (("p1", "abs(Path(shape)*M)"), ("p3", "Path(shape)*M reify"), ("p4", "abs(shape*M)"),
                               ("p2", "(shape*M).segments()")):
                got = obs[name]
                bad = None
                if len(got) != len(want):
                    bad = "%s has %d segments, expected %d" % (what, len(got), len(want))
                else:
                    d = max([0.0] + [geo.pdist(a, b) for sg, sw in zip(got, want) for a, b in zip(sg, sw)])
                    if d > t1:
                        bad = "%s is not the matrix image of the shape, deviation %.3g" % (what, d)
                if bad:
                    f = Failure(what=bad, case=case, observed=got, expected=want)
                    if name == "p2" and case["shape"]["k"] in ("circle", "ellipse"):
                        tot = gen.mat_mul(case["pre"], M) if case["pre"] is not None else M
                        det = tot[0] * tot[3] - tot[2] * tot[1]
                        if ((not orth_images(tot)) or det < 0) and closed_outline(got, obs.get("kinds2")):
                            f["finding"] = FINDING_ROUND
                    fs.append(f)
        return fs

    def replay_findings(self, finding):
        if finding["id"] != FINDING_ROUND:
            return None
        c = Circle(5, 6, 10) * Matrix("skewX(30)")
        segs = c.segments()
        base = abs(Path(Circle(5, 6, 10)) * Matrix("skewX(30)"))
        d = max(geo.pdist(a, b) for x, y in zip(segs, base) for a, b in zip(geo.sample(x, geo.TS[:5]), geo.sample(y, geo.TS[:5])))
        return d > 1e-3


PROP = C02()
