"""C20 — writing a document and parsing it back preserves shapes and paint."""
import io, math, os, tempfile, gzip, shutil
import xml.etree.ElementTree as ET
from core import Prop, Failure, Mismatch, exc_name, fhex, hexf
import docgen as dg
from svgelements import SVG, Group, Rect, Circle, Ellipse, SimpleLine, Polyline, Polygon, Path, Matrix, Color, Shape, Use

SCRATCH = os.environ.get("VERIF_SCRATCH") or tempfile.gettempdir()


# ----------------------------------------------------------------------------- constructor-built trees

def built_tree(rng):
    """an SVG/Group tree made through the constructors, with transforms of both determinant signs"""
    spec = {"viewbox": rng.choice([None, None, [0.0, 0.0, 100.0, 50.0], [-10.0, 5.0, 40.0, 40.0]]),
            "size": rng.choice([[200.0, 100.0], [80.0, 80.0], [300.0, 300.0]]), "items": []}

    def shape():
        k = rng.choice(["rect", "rect", "circle", "ellipse", "line", "polyline", "polygon", "path"])
        tf = dg.spell_tf(dg.rand_tf(rng, rng.choice([1, 1, 2]))) if rng.random() < 0.7 else None
        s = {"k": k, "tf": tf, "id": "s%d" % rng.randrange(10 ** 6)}
        if k == "rect":
            s["a"] = [dg.nice(rng), dg.nice(rng), dg.pos(rng), dg.pos(rng)] + ([rng.choice([1.0, 2.0, 4.0])] * 2 if rng.random() < 0.4 else [])
        elif k == "circle":
            s["a"] = [dg.nice(rng), dg.nice(rng), dg.pos(rng)]
        elif k == "ellipse":
            s["a"] = [dg.nice(rng), dg.nice(rng), dg.pos(rng), dg.pos(rng)]
        elif k == "line":
            s["a"] = [dg.nice(rng), dg.nice(rng), dg.nice(rng), dg.nice(rng)]
        elif k in ("polyline", "polygon"):
            s["a"] = [[dg.nice(rng), dg.nice(rng)] for _ in range(rng.randint(2, 5))]
        else:
            s["a"] = no_arc_path(rng)
        if rng.random() < 0.6:
            s["fill"] = rng.choice(["red", "#12345680", "none", "blue", "#33445500", "rgba(9,8,7,0)"])
        if rng.random() < 0.6:
            s["stroke"] = rng.choice(["green", "rgba(10,20,30,0.25)", "none", "black", "#00ff0000"])
        if rng.random() < 0.5:
            s["sw"] = rng.choice([0.5, 2.0, 3.0])
        return s

    def group(depth):
        g = {"k": "g", "id": "g%d" % rng.randrange(10 ** 6), "tf": dg.spell_tf(dg.rand_tf(rng, 1)) if rng.random() < 0.5 else None, "kids": []}
        for _ in range(rng.randint(1, 3)):
            g["kids"].append(group(depth - 1) if depth > 0 and rng.random() < 0.3 else shape())
        return g
    for _ in range(rng.randint(1, 4)):
        spec["items"].append(group(1) if rng.random() < 0.4 else shape())
    return spec


SHAPE_TAGS = ("rect", "circle", "ellipse", "line", "polyline", "polygon", "path")
DIM_ATTRS = {"rect": ["x", "y", "width", "height", "rx", "ry"], "circle": ["cx", "cy", "r"], "ellipse": ["cx", "cy", "rx", "ry"],
             "line": ["x1", "y1", "x2", "y2"]}


def written_shapes(xroot):
    """the shape elements of the written XML in document order: tag, whether the nearest svg ancestor is the root, the six
    numbers of the transform attribute (None when absent), the dimension attributes present"""
    out = []

    def local(t):
        return t.split("}")[-1]

    def go(e, depth_svg):
        t = local(e.tag)
        if t == "svg":
            depth_svg += 1
        if t in SHAPE_TAGS:
            tf = e.attrib.get("transform")
            nums = None
            if tf is not None and tf.startswith("matrix(") and tf.endswith(")"):
                nums = [float(v) for v in tf[7:-1].split(",")]
            dims = {k: e.attrib[k] for k in DIM_ATTRS.get(t, []) if k in e.attrib}
            paint = {k: e.attrib.get(k) for k in ("fill", "fill-opacity", "stroke", "stroke-opacity")}
            out.append({"tag": t, "top": depth_svg <= 1, "tf": nums, "has_tf": tf is not None, "dims": dims, "paint": paint})
        for c in e:
            go(c, depth_svg)
    go(xroot, 0)
    return out


def no_arc_path(rng):
    """path data without arc commands: arc radii are printed with 6 digits (known finding C07-arc-d-6digits)"""
    while True:
        ast = dg.pl.rand_ast(rng, ncmd=rng.randint(1, 4), allow_z_complete=False, first="M")
        if not any(c["c"] in "Aa" for c in ast):
            return dg.pl.render(ast, rng)


def strip_arcs(n, rng):
    if n["tag"] == "path" and "d" in n["sem"]:
        n["sem"]["d"] = no_arc_path(rng)
    for c in n["kids"]:
        strip_arcs(c, rng)


def build(spec):
    svg = SVG()
    svg.width, svg.height = spec["size"]
    svg.x = svg.y = 0
    if spec["viewbox"]:
        from svgelements import Viewbox
        svg.viewbox = Viewbox("%r %r %r %r" % tuple(spec["viewbox"]))

    def mk(s):
        if s["k"] == "g":
            g = Group()
            g.id = s["id"]
            for c in s["kids"]:
                g.append(mk(c))
            if s["tf"]:
                g *= Matrix(s["tf"])
            return g
        a = s["a"]
        k = s["k"]
        o = (Rect(*a) if k == "rect" else Circle(*a) if k == "circle" else Ellipse(*a) if k == "ellipse" else SimpleLine(*a) if k == "line"
             else Polyline(*[tuple(p) for p in a]) if k == "polyline" else Polygon(*[tuple(p) for p in a]) if k == "polygon" else Path(a))
        o.id = s["id"]
        if "fill" in s:
            o.fill = Color(s["fill"])
        if "stroke" in s:
            o.stroke = Color(s["stroke"])
        if "sw" in s:
            o.stroke_width = s["sw"]
        if s["tf"]:
            o *= Matrix(s["tf"])
        return o
    for it in spec["items"]:
        svg.append(mk(it))
    return svg


# ----------------------------------------------------------------------------- comparison

def eff_paint(v):
    """an unset paint and its initial value are the same rendered paint (DESIGN: stated interpretation)"""
    return v


def local_extent(s):
    """largest |coordinate| of the shape in the user space its written matrix is applied to (absolute points mapped back
    through the shape's own matrix), plus 1"""
    pts = [q for sg in (s["abs"] or []) for f in ("start", "end", "c", "c1", "c2") if sg.get(f) for q in [sg[f]] if None not in q]
    pts += [q for sg in (s["abs"] or []) for q in (sg.get("pts") or [])]
    m = s["m"]
    det = dg.mdet(m)
    out = 1.0
    for x, y in pts:
        if abs(det) > 1e-12:
            X, Y = x - m[4], y - m[5]
            x, y = (m[3] * X - m[2] * Y) / det, (-m[1] * X + m[0] * Y) / det
        out = max(out, abs(x) + abs(y) + 1.0)
    return out


def written_delta(a, vinv):
    """how far the matrix the writer prints for this shape (t * inverse viewport transform, six decimals) can be from the
    one it means: the largest distance of an entry to its six-decimal rounding (0 for the identity, at most 5e-7)"""
    W = dg.mmul(tuple(a["m"]), tuple(vinv)) if vinv else tuple(a["m"])
    return max(abs(w - round(w, 6)) for w in W)


def shape_diff(a, b, tol, vscale=1.0, vinv=None):
    if a["kind"] != b["kind"] and {a["kind"], b["kind"]} != {"circle", "ellipse"}:
        return "kind %s vs %s" % (a["kind"], b["kind"])
    if a["id"] != b["id"]:
        return "id %r vs %r" % (a["id"], b["id"])
    if a["abs"] is None or b["abs"] is None:
        return "geometry not evaluable"
    # each written matrix entry is off by at most 5e-7: a point moves by at most 5e-7 (|x|+|y|+1) in the written user space,
    # times the scale of the viewport transform applied on reading (factor 2 for the source's own rounding)
    eps = 2 * (written_delta(a, vinv) + 1e-12) * max(local_extent(a), local_extent(b)) * max(1.0, vscale)
    big = max([1.0] + [abs(v) for sg in a["abs"] for f in ("start", "end") if sg.get(f) for v in sg[f] if v is not None])
    # a point of an arc is the image of a point of the source ellipse like any other point: the same absolute bound (x2 for the
    # re-derived parameterisation), not a bound relative to the corner arc's own small coordinates
    d = dg.pl.obs_segs_diff(a["abs"], b["abs"], max(tol, eps), arc_tol=max(4 * tol, 4 * eps / big), arc_abs=2 * max(tol, eps))
    if d:
        return "geometry: " + d
    fa, fb = a["fill"], b["fill"]
    if fa == "unset":
        fa = 255            # black, the initial value
    if fb == "unset":
        fb = 255
    if fa != fb:
        return "fill %s vs %s" % (dg_fmt(a["fill"]), dg_fmt(b["fill"]))
    sa, sb = a["stroke"], b["stroke"]
    if sa == "unset":
        sa = "none"
    if sb == "unset":
        sb = "none"
    if sa != sb:
        return "stroke %s vs %s" % (dg_fmt(a["stroke"]), dg_fmt(b["stroke"]))
    if sa != "none":
        wa = eff_width(a)
        wb = eff_width(b)
        # the residual matrix entries are of the order 1/vscale and carry an absolute error of 5e-7 each: relative 5e-7 * vscale
        if wa is not None and wb is not None and abs(wa - wb) > max(2e-4, 4 * 5e-7 * vscale) * max(1.0, abs(wa)):
            return "stroke width %r vs %r" % (wa, wb)
    return None


def eff_width(s):
    """rendered stroke width: stroke_width times sqrt|det residual transform|"""
    if not isinstance(s["sw"], float):
        return None
    return s["sw"] * math.sqrt(abs(dg.mdet(s["m"])))


def dg_fmt(v):
    return "#%08x" % v if isinstance(v, int) else v


def shapes_diff(A, B, tol, where=None, vscale=1.0, vinv=None):
    if len(A) != len(B):
        return "%d shapes vs %d (%s vs %s)" % (len(A), len(B), [s["kind"] for s in A][:10], [s["kind"] for s in B][:10])
    for i, (a, b) in enumerate(zip(A, B)):
        d = shape_diff(a, b, tol, vscale, vinv)
        if d:
            if where is not None:
                where.append((a["id"], d))
            return "shape %d (%s id=%s): %s" % (i, a["kind"], a["id"], d)
    return None


class C20(Prop):
    id = "C20"
    rule = ("(doc) C03's generated documents parsed with reify in {False, True}; (built) SVG/Group trees made through the constructors "
            "with every shape kind, transforms of both determinant signs, viewBox present or absent. Each tree is written with "
            "string_xml (and, for a subset, write_xml plain and .svgz in a scratch directory), checked to be well-formed XML, parsed "
            "back, and the rendered shapes are compared with the source tree's: count, order, kind, id, absolute geometry within the "
            "six-decimal precision of the written matrices, fill and stroke (unset = initial value), rendered stroke width; then the "
            "re-parsed tree is written and parsed again and compared with the first re-parse (second-generation stability). The "
            "writer model (Lean: written matrix = t * inverse viewport transform; truthiness-guarded dimensions; paint = '#rrggbb' of the opaque colour "
            "plus alpha/255 unless 1.0, 'none', or nothing) is compared with the attributes found in the written XML for every shape. non-trivial = the tree has a shape with a non-identity transform or a viewBox")
    trusted_base = [
        "xml.etree.ElementTree serialisation and escaping; gzip",
        "'%f' formatting: modelled by its contract (absolute deviation <= 5e-7 per matrix entry)",
        "str(float) is the shortest round-trip spelling (exact)",
        "paint theorems are over an exact field with round(n) = n on integers; float: (a/255.0)*255.0 rounds to a for the 256 bytes (checked by the oracle's round trip)",
    ]
    assumptions = ["an unset fill/stroke and its initial value (black/none) are the same rendered paint",
                   "documents are re-parsed with the same ppi; the written width/height make caller sizes unnecessary"]

    def cases(self, rng, tier):
        # zero-sized shapes (not rendered) built through the constructors: known finding C20-zero-dimension
        for a, k in (([0.0, 0.0, 0.0, 5.0], "rect"), ([1.0, 2.0, 4.0, 0.0], "rect"), ([3.0, 3.0, 0.0], "circle"), ([3.0, 3.0, 0.0, 2.0], "ellipse")):
            yield {"k": "built", "spec": {"viewbox": None, "size": [100.0, 100.0], "items": [
                {"k": "rect", "tf": None, "id": "ok", "a": [1.0, 1.0, 2.0, 2.0]}, {"k": k, "tf": None, "id": "zero", "a": a}]}, "files": False, "zero": True}
        n = 600 if tier == "quick" else 8000
        for i in range(n):
            if i % 3 == 2:
                yield {"k": "built", "spec": built_tree(rng), "files": i % 9 == 2}
            else:
                prof = [{}, {"p_tf": 0.8, "nested_svg": False}, {"use": False, "p_viewbox": 1.0}, {"paths": False}][i % 4]
                doc = dg.gen_doc(rng, **prof)
                strip_arcs(doc["root"], rng)
                from props.c10 import give_ids
                give_ids(doc)
                dg.finish(doc)
                yield {"k": "doc", "doc": doc, "reify": i % 2 == 0, "files": i % 10 == 0}

    def tag(self, case):
        t = [case["k"]]
        if case["k"] == "doc":
            t += ["reify=%s" % case["reify"]] + ["tag=" + k for k in dg.tags_of(case["doc"]["root"])]
        else:
            t.append("viewbox=%s" % (case["spec"]["viewbox"] is not None))
        if case.get("files"):
            t.append("write_xml")
        return t

    def describe(self, case):
        if case["k"] == "doc":
            return {"xml": dg.xml_text(case["doc"]), "cfg": case["doc"]["cfg"], "reify": case["reify"]}
        return case["spec"]

    def nontrivial(self, case, obs):
        return isinstance(obs.get("src"), list) and any(s["m"] != [1.0, 0.0, 0.0, 1.0, 0.0, 0.0] for s in obs["src"]) or case["k"] == "built"

    # ---------------------------------------------------------------- implementation
    def impl(self, case):
        obs = {}
        try:
            if case["k"] == "doc":
                svg = dg.parse_impl(case["doc"], reify=case["reify"])
                ppi = case["doc"]["cfg"]["ppi"]
            else:
                svg = build(case["spec"])
                ppi = 96.0
            if svg is None:
                return {"skip": "no document"}
            obs["src"] = dg.observe(svg)
        except Exception as e:
            return {"skip": "source could not be built: %s" % exc_name(e)}
        try:
            text = svg.string_xml()
            obs["text"] = text
        except Exception as e:
            obs["write_exc"] = exc_name(e) + ": " + str(e)[:100]
            return obs
        try:
            xroot = ET.fromstring(text)
            obs["wellformed"] = True
            obs["written"] = written_shapes(xroot)
            try:
                vm = Matrix(svg.viewbox_transform) if getattr(svg, "viewbox", None) is not None and svg.viewbox_transform else None
                obs["src_vt"] = None if vm is None else [float(vm.a), float(vm.b), float(vm.c), float(vm.d), float(vm.e), float(vm.f)]
            except Exception:
                obs["src_vt"] = "unknown"
        except Exception as e:
            obs["wellformed"] = False
            obs["xml_error"] = str(e)[:100]
            return obs
        try:
            svg2 = SVG.parse(io.StringIO(text), reify=True, ppi=ppi)
            obs["gen1"] = dg.observe(svg2)
            try:
                vm = Matrix(svg2.viewbox_transform)
                obs["vscale"] = max(abs(vm.a) + abs(vm.c), abs(vm.b) + abs(vm.d), 1.0)
                vi = ~vm
                obs["vinv"] = [float(vi.a), float(vi.b), float(vi.c), float(vi.d), float(vi.e), float(vi.f)]
            except Exception:
                obs["vscale"] = 1.0
                obs["vinv"] = None
            text2 = svg2.string_xml()
            svg3 = SVG.parse(io.StringIO(text2), reify=True, ppi=ppi)
            obs["gen2"] = dg.observe(svg3)
        except Exception as e:
            obs["reparse_exc"] = exc_name(e) + ": " + str(e)[:100]
        if case.get("files"):
            d = tempfile.mkdtemp(prefix="c20_", dir=SCRATCH)
            try:
                for name in ("a.svg", "b.svgz"):
                    p = os.path.join(d, name)
                    svg.write_xml(p)
                    import gc
                    gc.collect()
                    data = gzip.open(p, "rb").read() if name.endswith("z") else open(p, "rb").read()
                    s3 = SVG.parse(io.BytesIO(data), reify=True, ppi=ppi)
                    obs["file_" + name] = dg.observe(s3)
            except Exception as e:
                obs["file_exc"] = exc_name(e) + ": " + str(e)[:100]
            finally:
                shutil.rmtree(d, ignore_errors=True)
        return obs

    # ---------------------------------------------------------------- writer model (Model/Write.lean)
    def model_ops2(self, case, obs):
        """for every written shape directly under the root svg: the matrix the model says is written, and which of its
        dimensions the truthiness guard lets through"""
        plan = obs["plan"] = []
        ops = []
        if "written" not in obs or "src" not in obs or obs.get("src_vt") == "unknown" or len(obs["written"]) != len(obs["src"]):
            return ops
        vt = obs["src_vt"]
        for i, (w, s) in enumerate(zip(obs["written"], obs["src"])):
            for pk in ("fill", "stroke"):
                if s.get(pk) in ("unset", "none") or isinstance(s.get(pk), int):
                    ops.append("c20.paint\t%s" % s[pk])
                    plan.append(("paint." + pk, i))
            if not w["top"]:
                continue
            ops.append("c20.written\t%s\t%s" % (" ".join(fhex(v) for v in s["m"]), "-" if vt is None else " ".join(fhex(v) for v in vt)))
            plan.append(("tf", i))
            if s.get("fields") is not None and w["tag"] in DIM_ATTRS and s["kind"] in DIM_ATTRS:
                ops.append("c20.dims\t%s" % " ".join(fhex(v) for v in s["fields"]))
                plan.append(("dims", i))
        return ops

    def model_ops(self, case):
        return []

    def compare(self, case, obs, outs):
        ms = []
        for (what, i), out in zip(obs.get("plan", []), outs):
            w, s = obs["written"][i], obs["src"][i]
            toks = out.split()
            if toks[0] != "OK":
                ms.append(Mismatch(stream="c20.write", case=case, impl=w, model=out))
                break
            if what.startswith("paint."):
                pk = what[6:]
                text, op = toks[1], toks[2]
                have_t, have_o = w["paint"].get(pk), w["paint"].get(pk + "-opacity")
                if (have_t or "-") != text:
                    ms.append(Mismatch(stream="c20.paint", case=case, impl="shape %d (%s): %s=%r written for %r" % (i, w["tag"], pk, have_t, s[pk]), model=text))
                    break
                if op != "-":
                    # the writer's own number; a stale attribute copied from the source values is overwritten by it
                    try:
                        ok = have_o is not None and float(have_o) == hexf(op)
                    except ValueError:
                        ok = False
                    if not ok:
                        ms.append(Mismatch(stream="c20.paint", case=case, impl="shape %d (%s): %s-opacity=%r written for %r" % (i, w["tag"], pk, have_o, s[pk]), model=hexf(op)))
                        break
                elif have_o is not None and isinstance(s[pk], int):
                    # nothing written by the paint section: what is there was copied from the source values and must
                    # still denote an opaque colour for the reader
                    try:
                        x = float(have_o)
                        ok = min(255, max(0, int(round(min(1.0, max(0.0, x)) * 255.0)))) == 255
                    except ValueError:
                        ok = True
                    if not ok:
                        ms.append(Mismatch(stream="c20.paint", case=case, impl="shape %d (%s): stale %s-opacity=%r beside an opaque colour" % (i, w["tag"], pk, have_o), model="-"))
                        break
            elif what == "tf":
                W = [hexf(t) for t in toks[1:7]]
                ident = all(abs(a - b) <= 5e-7 for a, b in zip(W, [1, 0, 0, 1, 0, 0]))
                if w["tf"] is None:
                    if w["has_tf"] or not ident:
                        # is_identity() is exact: a matrix within 5e-7 of the identity may legitimately be written
                        if not all(abs(a - b) <= 1e-12 for a, b in zip(W, [1, 0, 0, 1, 0, 0])) and not w["has_tf"]:
                            ms.append(Mismatch(stream="c20.write", case=case, impl="shape %d (%s): no transform written" % (i, w["tag"]), model=W))
                            break
                elif any(abs(a - b) > 5.1e-7 + 1e-12 * abs(b) for a, b in zip(w["tf"], W)):
                    ms.append(Mismatch(stream="c20.write", case=case, impl="shape %d (%s): transform written %r" % (i, w["tag"], w["tf"]), model=W))
                    break
            else:
                names = DIM_ATTRS[s["kind"]]
                vals = toks[1:]
                if s["kind"] == "circle" and w["tag"] == "circle":
                    vals = vals[:3]
                elif s["kind"] == "circle" and w["tag"] == "ellipse":
                    names = DIM_ATTRS["ellipse"]
                for nme, mv in zip(names, vals):
                    have = w["dims"].get(nme)
                    if mv == "-":
                        if have is not None and float(have) != 0.0:
                            ms.append(Mismatch(stream="c20.write", case=case, impl="shape %d (%s): %s=%s written, model omits it" % (i, w["tag"], nme, have), model=mv))
                            break
                    elif have is None or abs(float(have) - hexf(mv)) > 1e-9 * max(1.0, abs(hexf(mv))):
                        ms.append(Mismatch(stream="c20.write", case=case, impl="shape %d (%s): %s=%r written" % (i, w["tag"], nme, have), model=hexf(mv)))
                        break
                if ms:
                    break
        return ms

    # ---------------------------------------------------------------- oracle
    def oracle(self, case, obs):
        if "skip" in obs:
            return []
        if "write_exc" in obs:
            return [Failure(what="string_xml raised " + obs["write_exc"], case=case)]
        if not obs.get("wellformed"):
            return [Failure(what="the written text is not well-formed XML: %s" % obs.get("xml_error"), case=case)]
        if "reparse_exc" in obs:
            return [Failure(what="parsing the written text raised " + obs["reparse_exc"], case=case)]
        fs = []
        src = obs["src"]
        where = []
        d = shapes_diff(src, obs["gen1"], 1e-9, where, obs.get("vscale", 1.0), obs.get("vinv"))
        if d and case.get("zero") and not where:
            where.append(("zero", d))
        if d:
            fs.append(self.classify(Failure(what="parse(write(x)) differs from x: " + d, case=case), case, where))
            return fs
        d = shapes_diff(obs["gen1"], obs["gen2"], 1e-9, where, obs.get("vscale", 1.0), obs.get("vinv"))
        if d:
            fs.append(self.classify(Failure(what="second generation differs from the first: " + d, case=case), case, where))
            return fs
        if "file_exc" in obs:
            fs.append(Failure(what="write_xml / read back raised " + obs["file_exc"], case=case))
        for k in ("file_a.svg", "file_b.svgz"):
            if k in obs:
                d = shapes_diff(src, obs[k], 1e-9, None, obs.get("vscale", 1.0), obs.get("vinv"))
                if d:
                    fs.append(Failure(what="write_xml(%s) read back differs: %s" % (k[5:], d), case=case))
        return fs

    def classify(self, f, case, where):
        """attribute a failure to a recorded finding only when the first differing shape is in that finding's input class"""
        if case.get("zero") and where and where[0][0] == "zero":
            f["finding"] = "C20-zero-dimension"
            return f
        if case["k"] != "doc" or not where:
            return f
        sid, msg = where[0]
        root = case["doc"]["root"]
        from props.c10 import all_nodes
        nodes = all_nodes(root)
        target = [n for n in nodes if n["sem"].get("id") == sid]
        if not target:
            return f
        t = target[0]
        nested = [n for n in nodes if n["tag"] == "svg" and n is not root]
        in_nested = any(t in all_nodes(n) or any(x["tag"] == "use" for x in all_nodes(n)) for n in nested)
        if msg.startswith("stroke width") and t["sem"].get("vector-effect") == "non-scaling-stroke":
            f["finding"] = "C20-non-scaling-stroke-reified"
        elif in_nested:
            f["finding"] = "C20-nested-svg"
        return f


PROP = C20()
