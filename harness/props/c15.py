"""C15 — lengths are true arc lengths, isometry-invariant, and drive point(t)."""
import math
from copy import copy
from decimal import Decimal as D, getcontext
from core import Prop, Failure, Mismatch, fhex, hexf, exc_name
import gen, geo
from svgelements import (Arc, Path, Point, Move, Line, Close, QuadraticBezier, CubicBezier, Matrix, Rect, Circle, Ellipse,
                         Polygon, Polyline, SimpleLine)

FINDING_CHORD = "C15-chord-error-per-interval"
ERRORS = [1e-4, 1e-5, 1e-6, 1e-7, 1e-8, 1e-9]
MIN_DEPTH = 5

GL_X = [-0.9894009349916499, -0.9445750230732326, -0.8656312023878318, -0.755404408355003, -0.6178762444026438,
        -0.45801677765722737, -0.2816035507792589, -0.09501250983763744, 0.09501250983763744, 0.2816035507792589,
        0.45801677765722737, 0.6178762444026438, 0.755404408355003, 0.8656312023878318, 0.9445750230732326, 0.9894009349916499]
GL_W = [0.027152459411754037, 0.062253523938647706, 0.09515851168249259, 0.12462897125553403, 0.14959598881657676,
        0.16915651939500262, 0.18260341504492361, 0.18945061045506859, 0.18945061045506859, 0.18260341504492361,
        0.16915651939500262, 0.14959598881657676, 0.12462897125553403, 0.09515851168249259, 0.062253523938647706,
        0.027152459411754037]


def _gl(f, a, b):
    m, h = (a + b) / 2, (b - a) / 2
    return h * sum(w * f(m + h * x) for x, w in zip(GL_X, GL_W))


def _adapt(f, a, b, whole, scale, depth=0):
    m = (a + b) / 2
    l, r = _gl(f, a, m), _gl(f, m, b)
    if abs(l + r - whole) <= 1e-14 * scale or depth > 30:
        return l + r
    return _adapt(f, a, m, l, scale, depth + 1) + _adapt(f, m, b, r, scale, depth + 1)


def integrate(speed, breaks):
    bs = sorted(set([0.0, 1.0] + [b for b in breaks if 0 < b < 1]))
    rough = sum(_gl(speed, a, b) for a, b in zip(bs, bs[1:]))
    scale = max(rough, 1e-300)
    tot = 0.0
    for a, b in zip(bs, bs[1:]):
        for i in range(4):
            x0, x1 = a + (b - a) * i / 4, a + (b - a) * (i + 1) / 4
            tot += _adapt(speed, x0, x1, _gl(speed, x0, x1), scale)
    return tot


def _qroots(a, b, c):
    if a == 0:
        return [-c / b] if b else []
    d = b * b - 4 * a * c
    if d < 0:
        return []
    r = math.sqrt(d)
    return [(-b - r) / (2 * a), (-b + r) / (2 * a)]


def true_cubic(p):
    (x0, y0), (x1, y1), (x2, y2), (x3, y3) = p

    def s(t):
        n = 1 - t
        dx = 3 * (n * n * (x1 - x0) + 2 * n * t * (x2 - x1) + t * t * (x3 - x2))
        dy = 3 * (n * n * (y1 - y0) + 2 * n * t * (y2 - y1) + t * t * (y3 - y2))
        return math.hypot(dx, dy)
    br = []
    for i in (0, 1):
        a0, a1, a2 = p[1][i] - p[0][i], p[2][i] - p[1][i], p[3][i] - p[2][i]
        br += _qroots(a0 - 2 * a1 + a2, 2 * (a1 - a0), a0)
    return integrate(s, br)


def true_quad(p):
    """the closed form evaluated with 60 digits (exactly collinear cases: the 1-D integral)"""
    getcontext().prec = 60
    (x0, y0), (x1, y1), (x2, y2) = [(D(repr(float(a))), D(repr(float(b)))) for a, b in p]
    ax, ay = x0 - 2 * x1 + x2, y0 - 2 * y1 + y2
    bx, by = 2 * (x1 - x0), 2 * (y1 - y0)
    A = 4 * (ax * ax + ay * ay)
    B = 4 * (ax * bx + ay * by)
    C = bx * bx + by * by
    if A == 0:
        return float(C.sqrt())
    cross = ax * by - ay * bx
    if cross == 0:
        # collinear: speed |b + 2 a t|, sign change at t0 = -B/(2A)... integrate piecewise
        a = (ax * ax + ay * ay).sqrt()
        dot = ax * bx + ay * by
        # along the common direction: velocity v(t) = (dot/a) + 2 a t
        v0 = dot / a
        v1 = v0 + 2 * a
        if v0 * v1 >= 0:
            return float(abs((v0 + v1) / 2))
        t0 = -v0 / (2 * a)
        return float(abs(v0) * t0 / 2 + abs(v1) * (1 - t0) / 2)
    Sabc = 2 * (A + B + C).sqrt()
    A2 = A.sqrt()
    A32 = 2 * A * A2
    C2 = 2 * C.sqrt()
    BA = B / A2
    return float((A32 * Sabc + A2 * B * (Sabc - C2) + (4 * C * A - B * B) * ((2 * A2 + BA + Sabc) / (BA + C2)).ln()) / (4 * A32))


def true_arc(rx, ry, sweep, start_t):
    if rx == ry:
        return abs(rx * sweep)

    def s(u):
        t = start_t + sweep * u
        return abs(sweep) * math.hypot(rx * math.sin(t), ry * math.cos(t))
    n = max(1, int(abs(sweep) / (math.pi / 2)) + 1)
    return integrate(s, [i / n for i in range(1, n)])


def rand_seg15(rng, start=None, local=None):
    d = geo.rand_seg(rng, start=start, kinds="LQCCA", local=local)
    if d["k"] == "A":
        # radius ratio bounded (the chord recursion on needle ellipses is a separate conditioning question)
        if d["rx"] and d["ry"] and max(d["rx"], d["ry"]) / min(d["rx"], d["ry"]) > 100:
            d["ry"] = d["rx"]
    elif d["k"] == "C" and rng.random() < 0.08:
        # closed loops and spikes: the end coincides with the start, the control points do not
        d["p"][3] = list(d["p"][0])
        if rng.random() < 0.4:
            d["p"][2] = list(d["p"][1])
    elif d["k"] == "Q" and rng.random() < 0.05:
        d["p"][2] = list(d["p"][0])
    elif d["k"] == "C" and rng.random() < 0.12:
        # collinear control points: cusps and turn-backs
        s, e = d["p"][0], d["p"][3]
        l1, l2 = rng.uniform(-1.5, 2.5), rng.uniform(-1.5, 2.5)
        d["p"][1] = [s[0] + l1 * (e[0] - s[0]), s[1] + l1 * (e[1] - s[1])]
        d["p"][2] = [s[0] + l2 * (e[0] - s[0]), s[1] + l2 * (e[1] - s[1])]
    elif d["k"] == "Q" and rng.random() < 0.3:
        s, e = d["p"][0], d["p"][2]
        lam = rng.uniform(-2, 3)
        eps = 0.0 if rng.random() < 0.5 else 10 ** rng.uniform(-14, -5)
        d["p"][1] = [s[0] + lam * (e[0] - s[0]) - eps * (e[1] - s[1]), s[1] + lam * (e[1] - s[1]) + eps * (e[0] - s[0])]
    return d


def isometry(rng):
    th = rng.uniform(0, 2 * math.pi) if rng.random() < 0.7 else rng.choice([math.pi / 2, math.pi, -math.pi / 2])
    c, s = math.cos(th), math.sin(th)
    refl = rng.random() < 0.4
    tx, ty = round(rng.uniform(-500, 500), 2), round(rng.uniform(-500, 500), 2)
    if refl:
        return [c, s, s, -c, tx, ty]
    return [c, s, -s, c, tx, ty]


def P(p):
    return [float(p[0]), float(p[1])]


class C15(Prop):
    id = "C15"
    rule = ("(seg) every segment kind incl. degenerate Beziers (collinear/coincident controls, cusps, zero length), circular and "
            "eccentric arcs (ratio <= 100) of any extent, error 1e-4..1e-9 and the default: length vs the model (same recursion), vs "
            "the true length (60-digit closed form for quadratics, adaptive Gauss-Legendre for cubics and elliptical arcs, exact for "
            "lines and circles), and vs the same call on the rotated/translated/reflected, reversed and uniformly scaled segment; "
            "(path) paths of 1-8 segments with moves, zero-length closes and several subpaths, shapes with identity transform: "
            "length = sum of segment lengths (moves 0), point(t) at 0, 1, interior, boundary and nextafter(1,0) parameters vs the "
            "segment selected from the cumulative fractions. non-trivial = positive length; distinct by canonical JSON")
    trusted_base = [
        "accuracy of the chord recursion against the true length is NOT proved (and false as stated: known finding "
        "C15-chord-error-per-interval); the oracle's reference integrals (adaptive 16-point Gauss-Legendre, 60-digit Decimal) are trusted",
        "log/sqrt of libm; hypot vs sqrt(x*x+y*y) (1 ulp); float cumulative sums (fall-through branch of point(t) exercised, not proved)",
    ]

    def __init__(self):
        self.spec_failures = []

    def drain_failures(self):
        fs, self.spec_failures = self.spec_failures, []
        return fs

    def cases(self, rng, tier):
        # the witness of the known finding
        yield {"k": "seg", "seg": {"k": "C", "p": [[0.000201467208, -0.000417999709], [0.0, 29.016025641462], [0.0, -5.221532497467], [0.0, 0.0]]},
               "err": 1e-6, "M": isometry(rng), "s": 2.0}
        n = 260 if tier == "quick" else 2000
        for i in range(max(40, n // 6)):
            # gently bowed quadratics: the control point a fraction r of the chord away from the chord's midpoint, in any
            # direction. The closed form is accurate to a few 1e-12 of the length here (measured), the chord is short by
            # (2/3) r^2 - so a shortcut that returns the chord too early shows
            L = 10 ** rng.uniform(-1, 5)
            th = rng.uniform(0, 2 * math.pi)
            s0 = [round(rng.uniform(-500, 500), 3), round(rng.uniform(-500, 500), 3)]
            e0 = [s0[0] + L * math.cos(th), s0[1] + L * math.sin(th)]
            r = 10 ** rng.uniform(-5, -3)
            ph = rng.uniform(0, 2 * math.pi)
            c0 = [(s0[0] + e0[0]) / 2 + r * L * math.cos(ph), (s0[1] + e0[1]) / 2 + r * L * math.sin(ph)]
            yield {"k": "seg", "seg": {"k": "Q", "p": [s0, c0, e0]}, "err": None, "M": isometry(rng), "s": 2.0, "bowed": r}
        for i in range(n):
            # the recursion's cost grows like (size/error)^(1/3) per call and each case makes four calls: small errors on
            # small curves only, the default error (1e-12) only on lines and quadratics (closed forms)
            e = rng.choices(ERRORS, weights=[30, 25, 20, 12, 8, 5])[0]
            d = rand_seg15(rng, local=(10 ** rng.uniform(-2, 1.5) if e <= 1e-7 else None))
            if d["k"] in "LQ" and rng.random() < 0.3:
                e = None
            yield {"k": "seg", "seg": d, "err": e, "M": isometry(rng), "s": round(10 ** rng.uniform(-1.5, 1.5), 3) * rng.choice([1, -1])}
        for i in range(n // 2):
            nseg = rng.randint(1, 8)
            cur = geo.pt(rng, 500)
            start = cur
            loc = 10 ** rng.uniform(0, 2.0)
            segs = []
            for j in range(nseg):
                r = rng.random()
                if r < 0.12 and j > 0:
                    nxt = geo.near(cur, rng, loc)
                    segs.append({"k": "M", "p": [cur, nxt]})
                    cur = nxt
                    continue
                if r < 0.2 and j > 0:
                    segs.append({"k": "Z", "p": [cur, start if rng.random() < 0.7 else cur]})
                    cur = segs[-1]["p"][1]
                    continue
                d = rand_seg15(rng, start=cur, local=loc)
                segs.append(d)
                cur = d["p"][-1]
            ts = [0.0, 1.0, math.nextafter(1.0, 0.0), rng.random(), rng.random(), rng.random(), 0.5, 1e-9, -0.25, 1.5]
            curved = any(d["k"] in "CA" for d in segs)
            yield {"k": "path", "start": start, "segs": segs, "err": rng.choice(ERRORS[:4] if curved else ERRORS + [None]), "ts": ts,
                   "bnd": rng.random() < 0.5}
        for i in range(max(30, n // 8)):
            # paths of segments whose length is exact (lines, quadratics, zero-radius and zero-extent arcs), transformed IN PLACE
            # by a similarity: the length must scale by exactly the factor, whatever the object shares internally
            cur = geo.pt(rng, 200)
            start = cur
            segs = []
            for j in range(rng.randint(1, 5)):
                nxt = geo.near(cur, rng, 40.0)
                r = rng.random()
                if r < 0.4:
                    segs.append({"k": "A", "p": [cur, nxt], "rx": rng.choice([0.0, 7.5]), "ry": rng.choice([0.0, 0.0, 3.0]),
                                 "rot": float(rng.choice([0, 30, 90])), "fa": rng.randint(0, 1), "fs": rng.randint(0, 1)})
                    if segs[-1]["rx"] and segs[-1]["ry"]:
                        segs[-1]["p"][1] = list(cur)          # zero extent instead
                        nxt = cur
                elif r < 0.7:
                    segs.append({"k": "L", "p": [cur, nxt]})
                else:
                    segs.append({"k": "Q", "p": [cur, geo.near(cur, rng, 40.0), nxt]})
                cur = nxt
            f = round(10 ** rng.uniform(-0.7, 0.7), 3)
            th = rng.uniform(0, 2 * math.pi)
            sg = rng.choice([1.0, -1.0])
            hist = [f * math.cos(th), f * math.sin(th), -sg * f * math.sin(th), sg * f * math.cos(th), round(rng.uniform(-30, 30), 2), round(rng.uniform(-30, 30), 2)]
            # built the way a document is: parsed from path data (the constructor route copies every segment first)
            d = "M%r,%r" % tuple(start)
            for sg in segs:
                if sg["k"] == "L":
                    d += " L%r,%r" % tuple(sg["p"][1])
                elif sg["k"] == "Q":
                    d += " Q%r,%r %r,%r" % (tuple(sg["p"][1]) + tuple(sg["p"][2]))
                else:
                    d += " A%r %r %r %d %d %r,%r" % ((sg["rx"], sg["ry"], sg["rot"], sg["fa"], sg["fs"]) + tuple(sg["p"][1]))
            yield {"k": "path", "start": start, "segs": segs, "err": None, "ts": [0.0, 1.0, 0.5], "bnd": False, "hist": hist, "sim": f,
                   "d": d if rng.random() < 0.7 else None}
        for i in range(n // 5):
            yield {"k": "shape", "shape": rng.choice(["rect", "rrect", "circle", "ellipse", "polygon", "polyline", "line"]),
                   "a": [round(rng.uniform(-200, 200), 2) for _ in range(4)] + [round(rng.uniform(0.5, 300), 2) for _ in range(4)],
                   "ts": [0.0, 1.0, rng.random(), rng.random(), 0.25, 0.5, 0.125], "err": rng.choice([1e-4, 1e-5, 1e-6])}
        # all-zero-length shapes
        yield {"k": "path", "start": [1.0, 2.0], "segs": [{"k": "L", "p": [[1.0, 2.0], [1.0, 2.0]]}, {"k": "Z", "p": [[1.0, 2.0], [1.0, 2.0]]}],
               "err": None, "ts": [0.0, 0.3, 0.5, 0.7, 1.0], "bnd": False}

    def tag(self, case):
        if case["k"] == "seg":
            return ["seg." + case["seg"]["k"], "err=%s" % case["err"]]
        return [case["k"]]

    def nontrivial(self, case, obs):
        return "exc" not in obs and obs.get("length", 0) > 0

    # ---------------------------------------------------------------- implementation
    @staticmethod
    def _len(seg, e):
        return float(seg.length() if e is None else seg.length(error=e))

    def impl(self, case):
        try:
            if case["k"] == "seg":
                seg = geo.build(case["seg"])
                e = case["err"]
                obs = {"wire": geo.wire(seg), "length": self._len(seg, e)}
                m = Matrix(*case["M"])
                si = seg * m
                obs["iso"] = self._len(si, e)
                r = copy(seg)
                r.reverse()
                obs["rev"] = self._len(r, e)
                s = case["s"]
                ss = seg * Matrix.scale(s)
                obs["scaled"] = self._len(ss, None if e is None else e * abs(s))
                obs["wires"] = [geo.wire(si), geo.wire(r), geo.wire(ss)]
                if isinstance(seg, Arc):
                    obs["arc"] = {"rx": float(seg.rx), "ry": float(seg.ry), "sweep": float(seg.sweep), "t0": float(seg.get_start_t())}
                return obs
            if case["k"] == "path":
                segs = [Move(Point(*case["start"]))] + [geo.build(d) for d in case["segs"]]
                p = Path(case["d"]) if case.get("d") else Path(*segs)
            else:
                a = case["a"]
                k = case["shape"]
                sh = {"rect": lambda: Rect(a[0], a[1], a[4], a[5]), "rrect": lambda: Rect(a[0], a[1], a[4], a[5], min(a[6], a[4] / 2), min(a[7], a[5] / 2)),
                      "circle": lambda: Circle(a[0], a[1], a[4]), "ellipse": lambda: Ellipse(a[0], a[1], a[4], a[5]),
                      "polygon": lambda: Polygon((a[0], a[1]), (a[2], a[3]), (a[4], a[5]), (a[6], a[7])),
                      "polyline": lambda: Polyline((a[0], a[1]), (a[2], a[3]), (a[4], a[5]), (a[6], a[7])),
                      "line": lambda: SimpleLine(a[0], a[1], a[2], a[3])}[k]()
                p = sh
            e = case.get("err")
            segl = list(p.segments(False))
            lens = [self._len(s, e) for s in segl]
            total = float(p.length() if e is None else p.length(error=e))
            ts = list(case["ts"])
            if case.get("bnd") and total > 0:
                acc = 0.0
                for l in lens[:-1]:
                    acc += l / total
                    ts.append(acc)
            pts = []
            for t in ts:
                q = p.point(t) if e is None else p.point(t, error=e)
                pts.append(P(q))
            out = {"lens": lens, "length": total, "ts": ts, "pts": pts,
                   "segs": [geo.wire(s) for s in segl], "kinds": [geo.kind(s) for s in segl]}
            # a history on the SAME object: it has been measured (above); now transform it in place, reify, measure again -
            # the result must be that of a freshly built equal object (no stale cached lengths)
            from copy import copy as _copy
            M = Matrix(*case.get("hist", [2.0, 0.0, 0.0, 3.0, 5.0, -7.0]))
            p *= M
            p.reify()
            again = float(p.length() if e is None else p.length(error=e))
            fresh_obj = Path(*[_copy(sg) for sg in p]) if isinstance(p, Path) else type(p)(p)
            fresh = float(fresh_obj.length() if e is None else fresh_obj.length(error=e))
            tq = 0.37
            pa = p.point(tq) if e is None else p.point(tq, error=e)
            pf = fresh_obj.point(tq) if e is None else fresh_obj.point(tq, error=e)
            out["hist"] = {"again": again, "fresh": fresh, "pt_again": P(pa), "pt_fresh": P(pf)}
            return out
        except Exception as ex:
            import traceback
            return {"exc": exc_name(ex), "tb": traceback.format_exc()[-400:]}

    def model_ops2(self, case, obs):
        if "exc" in obs:
            return []
        if case["k"] == "seg":
            e = 1e-12 if case["err"] is None else case["err"]
            es = [e, e, e, 1e-12 if case["err"] is None else e * abs(case["s"])]
            return ["c15.len\t%s\t%s\t%d" % (w, fhex(x), MIN_DEPTH) for w, x in zip([obs["wire"]] + obs["wires"], es)]
        ops = ["c15.select\t%s\t%s" % (" ".join(fhex(l) for l in obs["lens"]), " ".join(fhex(t) for t in obs["ts"]))]
        return ops

    # ---------------------------------------------------------------- compare (model vs code) + model-aided oracle
    def compare(self, case, obs, outs):
        if "exc" in obs:
            return []
        ms = []
        if case["k"] == "seg":
            parts = outs[0].split()
            if parts[0] != "OK":
                return [Mismatch(stream="c15.len", case=case, impl=obs["length"], model=outs[0])]
            ml, leaves = hexf(parts[1]), int(parts[2])
            L = obs["length"]
            e = 1e-12 if case["err"] is None else case["err"]
            agree = abs(ml - L) <= 1e-9 * max(1.0, abs(L)) + (leaves * e if case["seg"]["k"] in "CA" else 0) * 1e-3
            if not agree:
                ms.append(Mismatch(stream="c15.len", case=case, impl=L, model=ml))
            # the three variants: same model, their own wire form
            var = []
            for nm, o in zip(["iso", "rev", "scaled"], outs[1:4]):
                pp = o.split()
                if pp[0] != "OK":
                    ms.append(Mismatch(stream="c15.len." + nm, case=case, impl=obs[nm], model=o))
                    var.append(1)
                    continue
                vl, vleaves = hexf(pp[1]), int(pp[2])
                ee = e * abs(case["s"]) if (nm == "scaled" and case["err"] is not None) else e
                if abs(vl - obs[nm]) > 1e-9 * max(1.0, abs(vl)) + vleaves * ee * 1e-3:
                    ms.append(Mismatch(stream="c15.len." + nm, case=case, impl=obs[nm], model=vl))
                var.append(vleaves)
            self._seg_oracle(case, obs, leaves, agree, var)
            return ms
        # paths / shapes: the selection model against the observed points
        from svgelements import Path as _P
        parts = outs[0].split()
        if parts[0] != "OK":
            return [Mismatch(stream="c15.select", case=case, impl=obs["pts"], model=outs[0])]
        sel = [(int(parts[1 + 2 * i]), hexf(parts[2 + 2 * i])) for i in range(len(obs["ts"]))]
        segl = self._rebuild(case)
        total = obs["length"]
        cum = [0.0]
        for l in obs["lens"]:
            cum.append(cum[-1] + (l / total if total > 0 else 0.0))
        for (i, pos), q, t in zip(sel, obs["pts"], obs["ts"]):
            if 0 < t < 1 and min(abs(t - c) for c in cum) <= 1e-12:
                continue    # within rounding of an interval boundary either neighbour is right (judged by the oracle)
            want = P(segl[i].point(pos))
            scale = max(1.0, abs(want[0]), abs(want[1]))
            if geo.pdist(want, q) > 1e-9 * scale:
                # a parameter within rounding of an interval boundary may legitimately select the neighbour
                ms.append(Mismatch(stream="c15.select", case=case, impl={"t": t, "pt": q}, model={"index": i, "pos": pos, "pt": want}))
                break
        return ms

    def _rebuild(self, case):
        if case["k"] == "path":
            return [Move(Point(*case["start"]))] + [geo.build(d) for d in case["segs"]]
        return list(self._shape(case).segments(False))

    def _shape(self, case):
        a = case["a"]
        k = case["shape"]
        return {"rect": lambda: Rect(a[0], a[1], a[4], a[5]), "rrect": lambda: Rect(a[0], a[1], a[4], a[5], min(a[6], a[4] / 2), min(a[7], a[5] / 2)),
                "circle": lambda: Circle(a[0], a[1], a[4]), "ellipse": lambda: Ellipse(a[0], a[1], a[4], a[5]),
                "polygon": lambda: Polygon((a[0], a[1]), (a[2], a[3]), (a[4], a[5]), (a[6], a[7])),
                "polyline": lambda: Polyline((a[0], a[1]), (a[2], a[3]), (a[4], a[5]), (a[6], a[7])),
                "line": lambda: SimpleLine(a[0], a[1], a[2], a[3])}[k]()

    def _seg_oracle(self, case, obs, leaves, model_agrees, var):
        d = case["seg"]
        k = d["k"]
        e = 1e-12 if case["err"] is None else case["err"]
        L = obs["length"]
        p = d["p"]
        size = max([1.0] + [abs(c) for q in p for c in q])
        fl = (4e-9 if k == "Q" else 1e-9) * max(size, L)            # float noise on the inputs' scale
        if case.get("bowed"):
            fl = 2e-11 * max(size, L)                               # no cancellation in this family (control near the midpoint)
        fs = self.spec_failures
        if L != L or L < 0 or math.isinf(L):
            fs.append(Failure(what="length is %r" % L, case=case))
            return
        # --- accuracy
        if k == "L":
            T = math.hypot(p[1][0] - p[0][0], p[1][1] - p[0][1])
        elif k == "Q":
            T = true_quad(p)
        elif k == "C":
            T = true_cubic(p)
        else:
            a = obs["arc"]
            if a["sweep"] == 0:
                T = math.hypot(p[1][0] - p[0][0], p[1][1] - p[0][1])
            else:
                T = true_arc(a["rx"], a["ry"], a["sweep"], a["t0"])
        err = abs(L - T)
        chord_based = k == "C" or (k == "A" and obs["arc"]["sweep"] != 0 and abs(obs["arc"]["rx"] - obs["arc"]["ry"]) >= 1e-12)
        if err > max(e, fl) + 1e-12 * T:
            f = Failure(what="length %r deviates from the true arc length %r by %.3g (requested error %g, %d accepted intervals)"
                        % (L, T, err, e, leaves), case=case, observed=L, expected=T)
            if chord_based and model_agrees:
                # the reference recursion (per-interval threshold, 3-point chord test) predicts exactly this value
                f["finding"] = FINDING_CHORD
            fs.append(f)
        # --- invariance (the subdivision may flip on rounding noise in up to `leaves` intervals)
        # (a circular arc leaves the |r*sweep| shortcut when rounding separates rx from ry: then that side is chord based)
        own = leaves * e if leaves > 1 else 0.0
        slack = own + fl
        if abs(obs["iso"] - L) > slack + (var[0] * e if var[0] > 1 else 0.0):
            fs.append(Failure(what="length changes under an isometry: %r vs %r" % (obs["iso"], L), case=case))
        if abs(obs["rev"] - L) > slack + (var[1] * e if var[1] > 1 else 0.0):
            fs.append(Failure(what="length changes under reversal: %r vs %r" % (obs["rev"], L), case=case))
        s = abs(case["s"])
        if abs(obs["scaled"] - s * L) > s * slack + (var[2] * e * s if var[2] > 1 else 0.0) + 1e-9 * max(1.0, s * L, s * size):
            fs.append(Failure(what="length under uniform scaling by %r is %r, expected %r" % (case["s"], obs["scaled"], s * L), case=case))

    # ---------------------------------------------------------------- oracle on the implementation alone
    def oracle(self, case, obs):
        if "exc" in obs:
            return [Failure(what="raised %s" % obs["exc"], case=case, observed=obs.get("tb"))]
        if case["k"] == "seg":
            return []
        fs = []
        h = obs.get("hist")
        if h is not None:
            if abs(h["again"] - h["fresh"]) > 1e-9 * max(1.0, abs(h["fresh"])):
                fs.append(Failure(what="after an in-place transform and reify, length() of the object that had been measured before is "
                                       "%r; a freshly built equal object gives %r" % (h["again"], h["fresh"]), case=case))
            elif case.get("sim") and abs(h["again"] - case["sim"] * obs["length"]) > 1e-9 * max(1.0, case["sim"] * obs["length"]):
                fs.append(Failure(what="length %r, after an in-place similarity of factor %r and reify, is %r instead of %r"
                                       % (obs["length"], case["sim"], h["again"], case["sim"] * obs["length"]), case=case))
            elif h["pt_again"] is not None and h["pt_fresh"] is not None and \
                    max(abs(a - b) for a, b in zip(h["pt_again"], h["pt_fresh"])) > 1e-9 * max(1.0, abs(h["fresh"])):
                fs.append(Failure(what="after an in-place transform and reify, point(0.37) is %r; a freshly built equal object gives %r"
                                       % (h["pt_again"], h["pt_fresh"]), case=case))
        lens, total = obs["lens"], obs["length"]
        if any(k == "Move" and l != 0 for k, l in zip(obs["kinds"], lens)):
            fs.append(Failure(what="a move contributes to the length", case=case, observed=lens))
        ssum = math.fsum(lens)
        if abs(total - ssum) > 1e-12 * max(1.0, ssum):
            fs.append(Failure(what="length %r is not the sum of the segments' lengths %r" % (total, ssum), case=case))
        segl = self._rebuild(case)
        # cumulative fractions
        cum = [0.0]
        for l in lens:
            cum.append(cum[-1] + (l / total if total > 0 else 0.0))
        n = len(segl)
        for t, q in zip(obs["ts"], obs["pts"]):
            cands = []
            if t <= 0:
                cands = [P(segl[0].point(t))]
            elif t >= 1:
                cands = [P(segl[-1].point(t))]
            elif total == 0:
                cands = [P(s.point(0.0)) for s in segl]
            else:
                for j in range(n):
                    lo, hi = cum[j], cum[j + 1]
                    if lo - 1e-12 <= t <= hi + 1e-12:
                        if hi > lo:
                            u = min(1.0, max(0.0, (t - lo) / (hi - lo)))
                            cands.append(P(segl[j].point(u)))
                        else:
                            cands.append(P(segl[j].point(0.0)))
                            cands.append(P(segl[j].point(1.0)))
                if t > cum[-1] - 1e-12:
                    cands.append(P(segl[-1].point(1.0)))
            scale = max([1.0] + [abs(c) for c in q])
            loc = max([1e-300] + lens)
            tol = 1e-9 * scale + 4e-12 * loc * n
            if not any(geo.pdist(c, q) <= tol for c in cands):
                fs.append(Failure(what="point(%r) = %r is not on the segment whose cumulative-length interval contains t" % (t, q),
                                  case=case, observed=q, expected=cands[:3]))
                break
        return fs

    def replay_findings(self, f):
        if f["id"] != FINDING_CHORD:
            return None
        c = CubicBezier(Point(0.000201467208, -0.000417999709), Point(0, 29.016025641462), Point(0, -5.221532497467), Point(0, 0))
        return abs(c.length(error=1e-6) - 24.728225) > 1e-3


PROP = C15()
