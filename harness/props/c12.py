"""C12 — length units resolve by CSS ratios; length arithmetic agrees with the resolved values."""
import math, itertools
from fractions import Fraction as Fr
from core import Prop, Failure, Mismatch, fhex, shex, hexf, exc_name
from svgelements import Length

UNITS = ["", "px", "pt", "pc", "in", "cm", "mm", "%", "em", "ex", "vw", "vh", "vmin", "vmax"]
PXFAM = {"", "px", "pt", "pc"}
INFAM = {"in", "cm", "mm"}
MMCM_RATIO = {"mm": 0.0393701 * 25.4, "cm": 0.393701 * 2.54}   # library value / CSS value = 1.00000054
FINDING = "C12-mm-cm-constant"
REL = 1e-11


def family(u):
    return 1 if u in PXFAM else 2 if u in INFAM else 0


def css_factor(u, ppi):
    ppi = Fr(ppi)
    return {"": Fr(1), "px": Fr(1), "pt": Fr(4, 3), "pc": Fr(16), "in": ppi,
            "cm": ppi * Fr(100, 254), "mm": ppi * Fr(10, 254)}.get(u)


def lib_factor(u, ppi):
    ppi = Fr(ppi)
    return {"": Fr(1), "px": Fr(1), "pt": Fr(4, 3), "pc": Fr(16), "in": ppi,
            "cm": ppi * Fr(393701, 1000000), "mm": ppi * Fr(393701, 10000000)}.get(u)


def amount_spelling(rng):
    r = rng.random()
    if r < 0.08:
        return "0"
    body = rng.choice(["1", "2", "3", "4", "12", "16", "2.54", "25.4", "10", "0.5", ".25", "7.5", "100", "1e1",
                       "2.5e-1", "1E2", "3.75", "96", "72", "1.6", "0.1", "33.3", "1000", "6"])
    if r < 0.35:
        body = "%s" % round(rng.uniform(0.001, 2000), rng.choice([0, 1, 2, 3]))
    sign = rng.choice(["", "", "", "-", "+"])
    return sign + body


def css_value(spelling, unit, ctx):
    """exact CSS value as a Fraction, or None when the context cannot resolve it"""
    a = Fr(spelling.lstrip("+")) if "e" not in spelling.lower() else Fr(float(spelling)).limit_denominator(10 ** 9)
    f = css_factor(unit, ctx.get("ppi", 96)) if ctx.get("ppi") is not None or unit in PXFAM else None
    if unit in PXFAM or unit in INFAM:
        return None if f is None else a * f
    if unit == "%":
        rel = ctx.get("rel")
        if rel is None:
            return None
        if rel[0] == "num":
            return a / 100 * Fr(rel[1])
        # reference given as a length (object or string): fraction of the resolved reference
        sp, ru = rel[1], rel[2]
        rv = css_value(sp, ru, dict(ctx, rel=None))
        return None if rv is None else a / 100 * rv
    if unit == "em":
        return None if ctx.get("fs") is None else a * Fr(ctx["fs"])
    if unit == "ex":
        return None if ctx.get("fh") is None else a * Fr(ctx["fh"])
    vb = ctx.get("vb")
    if vb is None:
        return None
    w, h = Fr(vb[0]), Fr(vb[1])
    return a * {"vw": w, "vh": h, "vmin": min(w, h), "vmax": max(w, h)}[unit] / 100


def uses_mmcm(*units):
    return any(u in ("mm", "cm") for u in units)


def approx(x, y, rel=REL):
    return abs(x - y) <= rel * max(1.0, abs(x), abs(y))


class C12(Prop):
    id = "C12"
    exhaustive = True
    exhaustive_note = "all 14x14 ordered unit pairs x {add, sub, div, lt, eq} x 6 amount pairs; all 14 units x context present/absent for value()"
    rule = ("value(): every unit x {context present, absent} x amounts (sign, fractions, exponents) x ppi in {72,96,1000}, "
            "references as number/string/Length, viewBoxes with w<h and w>h; binary ops: exhaustive over ordered unit pairs with "
            "amount pairs incl. exactly-equal-by-CSS pairs (3pt/4px, 12pt/1pc, 2.54cm/1in, 10mm/1cm) and zero amounts; "
            "expected values are exact rationals (fractions.Fraction) from the CSS ratios. non-trivial = units differ or the "
            "unit needs context; distinct by canonical JSON")
    trusted_base = [
        "float(str) of the amount (Lean OfScientific Float in the model, Fraction in the oracle)",
        "REGEX_LENGTH transcribed as a scanner (Model/Length.lean scanLength), validated by this stream",
        "Viewbox(viewbox) construction is taken as (width, height) in the model (C11 covers it)",
    ]
    assumptions = ["ppi > 0; comparisons within 1e-9 relative of a tie are not judged (IEEE rounding)"]

    # ---------------------------------------------------------------- cases
    def cases(self, rng, tier):
        # exhaustive unit x context for value()
        ctx_full = {"ppi": 96, "rel": ["num", 200], "fs": 12, "fh": 7, "vb": [50, 200]}
        for u in UNITS:
            for sp in ("10", "-2.5", "0", "1e1"):
                yield {"k": "value", "s": sp, "u": u, "ctx": ctx_full}
                yield {"k": "value", "s": sp, "u": u, "ctx": {}}
        for u in UNITS:
            yield {"k": "value", "s": "10", "u": u, "ctx": {"ppi": 72, "vb": [500, 200]}}
            yield {"k": "value", "s": "25", "u": u, "ctx": {"ppi": 1000, "rel": ["str", "2", "in"], "vb": [30, 30]}}
            yield {"k": "value", "s": "25", "u": u, "ctx": {"ppi": 96, "rel": ["obj", "4", "cm"]}}
        # exhaustive unit pairs x ops x amount pairs
        special = {("pt", "px"): ("3", "4"), ("px", "pt"): ("4", "3"), ("pt", "pc"): ("12", "1"), ("pc", "pt"): ("1", "12"),
                   ("pc", "px"): ("1", "16"), ("px", "pc"): ("16", "1"), ("", "pt"): ("4", "3"), ("pt", ""): ("3", "4"),
                   ("cm", "in"): ("2.54", "1"), ("in", "cm"): ("1", "2.54"), ("mm", "in"): ("25.4", "1"),
                   ("in", "mm"): ("1", "25.4"), ("mm", "cm"): ("10", "1"), ("cm", "mm"): ("1", "10"),
                   ("", "px"): ("7", "7"), ("px", ""): ("7", "7"), ("", "pc"): ("16", "1"), ("pc", ""): ("1", "16")}
        amount_pairs = [("3", "5"), ("5", "3"), ("-2.5", "1e1"), ("0", "4"), ("4", "0"), ("7.25", "7.25")]
        for ua, ub in itertools.product(UNITS, UNITS):
            pairs = list(amount_pairs)
            if (ua, ub) in special:
                pairs.append(special[(ua, ub)])
            for op in ("add", "sub", "div", "lt", "eq"):
                for a, b in pairs:
                    yield {"k": "op", "op": op, "a": a + ua, "b": b + ub}
        # the same operators with a string or a plain number on either side (reflected operators, number equality)
        for ua, ub in itertools.product(UNITS, UNITS):
            for op in ("add", "sub", "eq", "lt"):
                for a, b in (("3", "5"), ("7.25", "7.25"), ("0", "4")) + ((special[(ua, ub)],) if (ua, ub) in special else ()):
                    yield {"k": "op", "op": op, "a": a + ua, "b": b + ub, "form": "sL"}
                    yield {"k": "op", "op": op, "a": a + ua, "b": b + ub, "form": "Ls"}
                    if ua == "":
                        yield {"k": "op", "op": op, "a": a, "b": b + ub, "form": "nL"}
                    if ub == "":
                        yield {"k": "op", "op": op, "a": a + ua, "b": b, "form": "Ln"}
        for u in UNITS:
            for a, x in (("0", "0"), ("0", "0.0"), ("0", "2"), ("3", "0")):
                yield {"k": "op", "op": "eq", "a": a + u, "b": x, "form": "Ln"}
                yield {"k": "op", "op": "eq", "a": x, "b": a + u, "form": "nL"}
        n = 1500 if tier == "quick" else 150000
        for _ in range(n):
            ua = rng.choice(UNITS)
            # mostly commensurable
            if rng.random() < 0.8:
                ub = rng.choice([u for u in UNITS if family(u) == family(ua) and (family(ua) != 0 or u == ua)])
            else:
                ub = rng.choice(UNITS)
            yield {"k": "op", "op": rng.choice(["add", "sub", "div", "lt", "eq", "le", "gt"]),
                   "a": amount_spelling(rng) + ua, "b": amount_spelling(rng) + ub}
        for _ in range(n):
            u = rng.choice(UNITS) if rng.random() < 0.7 else "%"
            ctx = {}
            if rng.random() < 0.8:
                ctx["ppi"] = rng.choice([72, 96, 1000, 90, 25.4])
            if rng.random() < (0.9 if u == "%" else 0.4):
                r = rng.random()
                if r < 0.5:
                    ctx["rel"] = ["num", rng.choice([100, 200, 0.5, 1e3, -40])]
                else:
                    ctx["rel"] = [rng.choice(["str", "obj"]), rng.choice(["2", "10", "0.5", "96"]), rng.choice(["in", "px", "pt", "cm", "", "mm", "em", "ex", "vw", "vh", "vmin", "vmax", "pc"])]
            if rng.random() < 0.7:
                ctx["fs"] = rng.choice([12, 16, 10.5])
            if rng.random() < 0.7:
                ctx["fh"] = rng.choice([6, 8.25])
            if rng.random() < 0.7:
                ctx["vb"] = rng.choice([[50, 200], [500, 200], [30, 30], [1e-2, 3], [1e4, 20]])
            yield {"k": "value", "s": amount_spelling(rng), "u": u, "ctx": ctx}
        for _ in range(n // 5):
            u = rng.choice(["", "px", "pt", "pc", "in", "cm", "mm"])
            yield {"k": "conv", "s": amount_spelling(rng), "u": u, "ppi": rng.choice([72, 96, 1000]),
                   "to": rng.choice(["to_mm", "to_cm", "to_inch"])}

    def tag(self, case):
        if case["k"] == "value":
            return ["value", "value.unit=" + (case["u"] or "none") + (".ctx" if case["ctx"] else ".noctx")]
        if case["k"] == "op":
            return ["op." + case["op"], "form." + case.get("form", "LL")]
        return case["k"]

    def nontrivial(self, case, obs):
        if case["k"] == "op":
            ua, ub = Length(case["a"]).units, Length(case["b"]).units
            return ua != ub
        return True

    # ---------------------------------------------------------------- implementation
    def _ctx_kwargs(self, ctx):
        kw = {}
        if "ppi" in ctx:
            kw["ppi"] = ctx["ppi"]
        if "rel" in ctx and ctx["rel"] is not None:
            r = ctx["rel"]
            kw["relative_length"] = r[1] if r[0] == "num" else (r[1] + r[2] if r[0] == "str" else Length(r[1] + r[2]))
        if "fs" in ctx:
            kw["font_size"] = ctx["fs"]
        if "fh" in ctx:
            kw["font_height"] = ctx["fh"]
        if "vb" in ctx:
            kw["viewbox"] = "0 0 %r %r" % (ctx["vb"][0], ctx["vb"][1])
        return kw

    @staticmethod
    def _enc(v):
        if isinstance(v, Length):
            return {"len": [v.amount, v.units]}
        if isinstance(v, bool):
            return {"bool": v}
        if isinstance(v, (int, float)):
            return {"num": float(v)}
        return {"other": repr(v)}

    def impl(self, case):
        k = case["k"]
        try:
            if k == "value":
                l = Length(case["s"] + case["u"])
                parsed = [l.amount, l.units]
                v = l.value(**self._ctx_kwargs(case["ctx"]))
                r = self._enc(v)
                r["parsed"] = parsed
                return r
            if k == "op":
                a, b = Length(case["a"]), Length(case["b"])
                a0, b0 = (a.amount, a.units), (b.amount, b.units)
                op = case["op"]
                form = case.get("form", "LL")
                x = a if form[0] == "L" else (case["a"] if form[0] == "s" else float(case["a"]))
                y = b if form[1] == "L" else (case["b"] if form[1] == "s" else float(case["b"]))
                v = {"add": lambda: x + y, "sub": lambda: x - y, "div": lambda: x / y, "lt": lambda: x < y,
                     "le": lambda: x <= y, "gt": lambda: x > y, "eq": lambda: x == y}[op]()
                r = self._enc(v)
                r["untouched"] = (a.amount, a.units) == a0 and (b.amount, b.units) == b0
                if isinstance(v, Length):
                    r["resolved96"] = self._enc(v.value(ppi=96))
                return r
            if k == "conv":
                l = Length(case["s"] + case["u"])
                v = getattr(l, case["to"])(ppi=case["ppi"])
                return self._enc(v)
        except Exception as e:
            return {"exc": exc_name(e)}

    # ---------------------------------------------------------------- model
    def model_ops(self, case):
        k = case["k"]
        if k == "value":
            c = case["ctx"]
            ppi = fhex(c["ppi"]) if "ppi" in c else "-"
            rel = "-"
            if c.get("rel"):
                r = c["rel"]
                rel = "num:" + fhex(r[1]) if r[0] == "num" else "%s:%s" % (r[0], shex(r[1] + r[2]))
            fs = fhex(c["fs"]) if "fs" in c else "-"
            fh = fhex(c["fh"]) if "fh" in c else "-"
            vb = "%s:%s" % (fhex(c["vb"][0]), fhex(c["vb"][1])) if "vb" in c else "-"
            return ["c12.parse\t" + shex(case["s"] + case["u"]),
                    "c12.value\t%s\t%s\t%s\t%s\t%s\t%s" % (shex(case["s"] + case["u"]), ppi, rel, fs, fh, vb)]
        if k == "op":
            form, op = case.get("form", "LL"), case["op"]
            a, b = case["a"], case["b"]
            if form in ("nL", "Ln") and op == "eq":
                # Length == number (either order): the Length operand first
                return ["c12.op\teqnum\t%s\t%s" % ((shex(b), shex(a)) if form == "nL" else (shex(a), shex(b)))]
            if form in ("sL", "nL") and op in ("add", "sub"):
                return ["c12.op\t%s\t%s\t%s" % ("r" + op, shex(a), shex(b))]
            if form in ("sL", "nL") and op == "lt":
                # str < Length is decided by Length.__gt__(str): b > a
                return ["c12.op\tgt\t%s\t%s" % (shex(b), shex(a))]
            return ["c12.op\t%s\t%s\t%s" % (op, shex(a), shex(b))]
        return []

    @staticmethod
    def _dec(out):
        p = out.split()
        if p[0] == "ERR":
            return {"exc": p[1]}
        if p[1] == "N":
            return {"num": hexf(p[2])}
        if p[1] == "B":
            return {"bool": p[2] == "1"}
        if p[1] == "L":
            return {"len": [hexf(p[2]), bytes.fromhex(p[3]).decode() if len(p) > 3 else ""]}
        return {"other": out}

    @staticmethod
    def _same(a, b):
        if "exc" in a or "exc" in b:
            return a.get("exc") == b.get("exc")
        if "num" in a and "num" in b:
            return approx(a["num"], b["num"], 1e-12)
        if "bool" in a and "bool" in b:
            return a["bool"] == b["bool"]
        if "len" in a and "len" in b:
            return a["len"][1] == b["len"][1] and approx(a["len"][0], b["len"][0], 1e-12)
        return False

    def compare(self, case, obs, outs):
        ms = []
        k = case["k"]
        if k == "value":
            mp = self._dec(outs[0])
            if "parsed" in obs and not self._same({"len": obs["parsed"]}, mp):
                ms.append(Mismatch(stream="c12.parse", case=case, impl=obs.get("parsed"), model=mp))
            mv = self._dec(outs[1])
            if not self._same(obs, mv):
                ms.append(Mismatch(stream="c12.value", case=case, impl=obs, model=mv))
        elif k == "op":
            mv = self._dec(outs[0])
            if not self._same(obs, mv):
                # near-tie comparisons may legitimately differ by rounding order
                if case["op"] in ("lt", "le", "gt", "eq") and self._near_tie(case):
                    return ms
                ms.append(Mismatch(stream="c12.op." + case["op"], case=case, impl=obs, model=mv))
        return ms

    def _near_tie(self, case):
        a, b = Length(case["a"]), Length(case["b"])
        fa, fb = css_factor(a.units, 96), css_factor(b.units, 96)
        if fa is None or fb is None:
            return False
        x, y = a.amount * float(fa), b.amount * float(fb)
        return x != y and abs(x - y) <= 1e-9 * max(1.0, abs(x), abs(y))

    # ---------------------------------------------------------------- oracle
    def oracle(self, case, obs):
        fs = []
        k = case["k"]
        if "exc" in obs and k != "op":
            fs.append(Failure(what="%s raised %s" % (k, obs["exc"]), case=case, observed=obs))
            return fs
        if k == "value":
            u = case["u"]
            exp = css_value(case["s"], u, case["ctx"])
            if exp is None:
                if u == "%" and float(case["s"]) == 0 and obs.get("num") == 0.0:
                    return fs      # 0% of anything is 0: nothing is guessed
                if "len" not in obs or obs["len"][1] != u or not approx(obs["len"][0], float(Fr(float(case["s"]))), 1e-12):
                    # percentage of a string/Length reference legitimately returns the reference's unit symbolically
                    if u == "%" and case["ctx"].get("rel") and case["ctx"]["rel"][0] != "num" and "len" in obs:
                        return fs
                    fs.append(Failure(what="unresolvable length did not stay symbolic", case=case, observed=obs))
                return fs
            if "num" not in obs:
                if u == "%" and case["ctx"].get("rel") and case["ctx"]["rel"][0] != "num" and float(exp) == 0:
                    return fs
                fs.append(Failure(what="resolvable length was not resolved", case=case, observed=obs, expected=float(exp)))
                return fs
            got, want = obs["num"], float(exp)
            if not approx(got, want):
                units = [u] + ([case["ctx"]["rel"][2]] if u == "%" and case["ctx"].get("rel") and case["ctx"]["rel"][0] != "num" else [])
                f = Failure(what="value() of %s%s is %r, CSS ratio gives %r" % (case["s"], u, got, want), case=case, observed=got, expected=want)
                mm = [x for x in units if x in MMCM_RATIO]
                if mm and approx(got, want * MMCM_RATIO[mm[0]], 1e-12):
                    f["finding"] = FINDING
                fs.append(f)
        elif k == "op":
            a, b = Length(case["a"]), Length(case["b"])
            ua, ub = a.units, b.units
            op = case["op"]
            comm = (family(ua) == family(ub) and family(ua) != 0) or ua == ub
            if obs.get("untouched") is False:
                fs.append(Failure(what="operator %s modified an operand" % op, case=case))
            if op == "eq" and case.get("form") in ("nL", "Ln") and a.amount == 0 and b.amount == 0 and "bool" in obs and not obs["bool"]:
                fs.append(Failure(what="a zero length does not equal the number 0 (every unit resolves 0 to 0)", case=case, observed=obs))
                return fs
            if not comm:
                return fs      # incommensurable pairs: the property states nothing (ValueError or symbolic both fine)
            if "exc" in obs:
                if op == "div" and b.amount == 0:
                    return fs
                fs.append(Failure(what="%s on commensurable lengths raised %s" % (op, obs["exc"]), case=case, observed=obs))
                return fs
            ppi = 96
            if family(ua) == 0:
                x, y = Fr(a.amount), Fr(b.amount)          # same unit: compare amounts
                xl, yl = x, y
            else:
                x, y = Fr(a.amount) * css_factor(ua, ppi), Fr(b.amount) * css_factor(ub, ppi)
                xl, yl = Fr(a.amount) * lib_factor(ua, ppi), Fr(b.amount) * lib_factor(ub, ppi)
            mmcm = uses_mmcm(ua, ub) and ua != ub

            def judge(got, want_css, want_lib, what):
                if approx(got, float(want_css)):
                    return
                f = Failure(what=what, case=case, observed=got, expected=float(want_css))
                if mmcm and approx(got, float(want_lib), 1e-10):
                    f["finding"] = FINDING
                fs.append(f)
            if op in ("add", "sub"):
                sgn = 1 if op == "add" else -1
                if "len" not in obs:
                    fs.append(Failure(what="sum is not a Length", case=case, observed=obs))
                    return fs
                ru = obs["len"][1]
                if family(ua) == 0:
                    if not approx(obs["len"][0], float(x + sgn * y)) or ru != ua:
                        fs.append(Failure(what="same-unit %s wrong" % op, case=case, observed=obs))
                else:
                    got = obs["len"][0] * float(css_factor(ru, ppi)) if css_factor(ru, ppi) is not None else float("nan")
                    gotl = Fr(obs["len"][0]) * lib_factor(ru, ppi) if lib_factor(ru, ppi) is not None else None
                    if not approx(got, float(x + sgn * y)):
                        f = Failure(what="(a %s b) does not resolve to the %s of the resolved values" % (op, "sum" if sgn > 0 else "difference"),
                                    case=case, observed=got, expected=float(x + sgn * y))
                        if uses_mmcm(ua, ub, ru) and gotl is not None and approx(float(gotl), float(xl + sgn * yl), 1e-10):
                            f["finding"] = FINDING
                        fs.append(f)
            elif op == "div":
                if y == 0:
                    return fs
                if "num" not in obs:
                    fs.append(Failure(what="ratio is not a number", case=case, observed=obs))
                    return fs
                judge(obs["num"], x / y, xl / yl, "a/b is not the ratio of the resolved values")
            elif op in ("lt", "le", "gt"):
                if "bool" not in obs:
                    fs.append(Failure(what="comparison is not a bool", case=case, observed=obs))
                    return fs
                if abs(float(x) - float(y)) <= 1e-9 * max(1.0, abs(float(x)), abs(float(y))):
                    if x != y or mmcm:
                        return fs      # near tie: not judged
                want = {"lt": x < y, "le": x <= y, "gt": x > y}[op]
                if obs["bool"] != want:
                    fs.append(Failure(what="a %s b disagrees with the numeric order" % op, case=case, observed=obs["bool"], expected=want))
            elif op == "eq":
                if "bool" not in obs:
                    fs.append(Failure(what="== is not a bool", case=case, observed=obs))
                    return fs
                if x != y and abs(float(x) - float(y)) <= 1e-9 * max(1.0, abs(float(x)), abs(float(y))):
                    return fs
                want = x == y
                if obs["bool"] != want:
                    f = Failure(what="a == b disagrees with equality of the resolved values", case=case, observed=obs["bool"], expected=want)
                    if mmcm and obs["bool"] == (abs(float(xl) - float(yl)) <= 1e-12 * ppi):
                        f["finding"] = FINDING
                    fs.append(f)
        elif k == "conv":
            l = Length(case["s"] + case["u"])
            u = case["u"]
            val = Fr(l.amount) * css_factor(u, case["ppi"])
            tgt = {"to_mm": "mm", "to_cm": "cm", "to_inch": "in"}[case["to"]]
            want = val / css_factor(tgt, case["ppi"])
            if "len" not in obs or obs["len"][1] != tgt:
                fs.append(Failure(what="conversion result has wrong unit", case=case, observed=obs))
                return fs
            got = obs["len"][0]
            if abs(got - float(want)) > 1e-11 * max(1.0, abs(float(want))) + 6e-13:
                f = Failure(what="%s gives %r, CSS gives %r" % (case["to"], got, float(want)), case=case, observed=got, expected=float(want))
                wl = Fr(l.amount) * lib_factor(u, case["ppi"]) / lib_factor(tgt, case["ppi"])
                if uses_mmcm(u, tgt) and abs(got - float(wl)) <= 1e-11 * max(1.0, abs(float(wl))) + 6e-13:
                    f["finding"] = FINDING
                fs.append(f)
        return fs

    def replay_findings(self, finding):
        v = Length("1cm").value(ppi=254)
        return not approx(v, 100.0) and approx(v, 100.0 * MMCM_RATIO["cm"], 1e-12)


PROP = C12()
