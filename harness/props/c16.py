"""C16 — reverse() traces the same geometry backwards and is an involution."""
import itertools, math
from copy import copy
from core import Prop, Failure, Mismatch, hexf
import pathlib_ as pl
import gen, geo
from svgelements import Path, Matrix, Move, Close, Line, Arc, QuadraticBezier, CubicBezier, Point

FINDING = "C16-subpath-without-move"
TS = [0.0, 1.0, 0.5, 0.25, 0.9]


def wires(path):
    return [geo.wire(s) for s in path]


def parse_wire(w):
    t = w.split()
    vals = [None if x == "-" else hexf(x) for x in t[1:]]
    return t[0], vals


def wire_diff(a, b, tol, ignore_move_start=False):
    """first difference between two wire lists (impl vs impl or impl vs model)"""
    if len(a) != len(b):
        return "length %d vs %d" % (len(a), len(b))
    for i, (x, y) in enumerate(zip(a, b)):
        kx, vx = parse_wire(x)
        ky, vy = parse_wire(y)
        if kx != ky:
            return "segment %d kind %s vs %s" % (i, kx, ky)
        for j, (u, v) in enumerate(zip(vx, vy)):
            if ignore_move_start and kx == "M" and j < 2:
                continue
            if u is None or v is None:
                if not (u is None and v is None):
                    return "segment %d (%s) field %d: %r vs %r" % (i, kx, j, u, v)
                continue
            if abs(u - v) > tol * max(1.0, abs(u), abs(v)):
                return "segment %d (%s) field %d: %r vs %r" % (i, kx, j, u, v)
    return None


def subpaths_of(kinds):
    """index windows: a new subpath at each Move and after each Close (the SVG notion)"""
    wins, start = [], 0
    for i, k in enumerate(kinds):
        if k == "Move" and i != start:
            wins.append((start, i - 1))
            start = i
        if k == "Close":
            wins.append((start, i))
            start = i + 1
    if start != len(kinds):
        wins.append((start, len(kinds) - 1))
    return wins


def own_moves(kinds):
    return all(kinds[a] == "Move" for a, b in subpaths_of(kinds))


SHAPE_LETTERS = "MLQCAZ"


def shape_path(shape, rng):
    """a path with the given kind sequence and distinct coordinates"""
    segs = []
    cur = None
    start = None
    n = 0

    def pt():
        nonlocal n
        n += 1
        return Point(3.0 * n + (n % 3), 2.0 * n * (-1) ** n + 0.5 * n)
    for ch in shape:
        if ch == "M":
            e = pt()
            segs.append(Move(cur, e))
            cur = start = e
        elif ch == "Z":
            segs.append(Close(cur, start))
            cur = start
        else:
            e = pt()
            if ch == "L":
                segs.append(Line(cur, e))
            elif ch == "Q":
                segs.append(QuadraticBezier(cur, pt(), e))
            elif ch == "C":
                segs.append(CubicBezier(cur, pt(), pt(), e))
            else:
                if cur is None:
                    return None
                segs.append(Arc(cur, 7.0 + n, 4.0 + n, 25.0, n % 2, (n // 2) % 2, e))
            if start is None:
                start = e
            cur = e
    return Path(*segs) if len(segs) != 1 else Path(segs[0])


class C16(Prop):
    id = "C16"
    rule = ("valid paths: (a) every kind sequence over {M,L,Q,C,A,Z} up to length 4 (quick) / 6 (thorough) that begins with M, with "
            "distinct coordinates, plus sequences containing a subpath without its own move; (b) random conforming path data "
            "(C01's generator), optionally transformed and reified. Histories: reverse the whole path; reverse each subpath view; each "
            "twice; reverse after/before a transform. Checked on the implementation: kind sequence per subpath in reverse order, each "
            "drawn segment = reversal of its original (q(t)=p(1-t) sampled), connectivity, closed/open preserved, no defining point "
            "lost, involution, a subpath view's reverse leaves every other subpath's geometry unchanged. The Lean model "
            "(Model/Reverse) is compared segment-for-segment on paths whose subpaths all begin with a move. non-trivial = at least "
            "one subpath with two or more drawn segments")
    trusted_base = [
        "the model covers paths whose subpaths all begin with their own Move; others are the known finding C16-subpath-without-move",
        "the two-index swap loop of _reverse_segments is modelled by its net effect (map reverse, reverse order); validated by this stream",
        "arc reversal compared pointwise through Arc.point (C02/C05 decide the evaluator)",
    ]

    def cases(self, rng, tier):
        corpus = ["M0,0 L10,0 L10,10 Z L5,5 L5,0 Z", "M0,0 L5,5 Z L7,7", "M0,0 L10,0 L0,0", "M0,0 L10,0 L10,10 L10,0 L0,0",
                  "M0,0 Q5,10 10,0 Q5,10 0,0", "M1,1 M2,2 M3,3", "M0,0 L1,1 z M5,5 z z", "M0,0 L 1,1 2,2 3,3 z m 1,1 l 2,0 0,2",
                  "M0,0 a5,3 20 0 1 10,10 A 1,1 0 1 0 30,30 z M 3,3 C 1,1 2,2 4,4 S 5,5 6,6"]
        for d in corpus:
            yield {"k": "d", "d": d, "M": None}
        maxlen = 4 if tier == "quick" else 6
        for n in range(1, maxlen + 1):
            for tup in itertools.product(SHAPE_LETTERS, repeat=n):
                if tup[0] != "M":
                    continue
                yield {"k": "shape", "shape": "".join(tup), "M": None}
        n = 600 if tier == "quick" else 40000
        for i in range(n):
            cmds = pl.rand_ast(rng, ncmd=rng.choice([2, 3, 4, 5, 6, 8]), allow_z_complete=False)
            yield {"k": "d", "d": pl.render(cmds, rng), "M": gen.matrix_invertible(rng, cond_max=20.0) if rng.random() < 0.3 else None}

    def tag(self, case):
        return ["kind." + case["k"], "transformed" if case["M"] else "plain"]

    def _build(self, case):
        if case["k"] == "shape":
            p = shape_path(case["shape"], None)
        else:
            p = Path(case["d"])
        if p is not None and case["M"] is not None:
            p *= Matrix(*case["M"])
            p.reify()
        return p

    def nontrivial(self, case, obs):
        return isinstance(obs, dict) and obs.get("nontrivial", False)

    @staticmethod
    def _pairs(orig, rev_path, wins):
        """sampled q(t) vs p(1-t) for the drawn segments; returns max deviation, or a string on structure mismatch"""
        devs = []
        j = 0
        # result order: subpaths reversed; within each: [Move] reversed drawn [Close]
        for a, b in reversed(wins):
            segs = orig[a:b + 1]
            has_move = isinstance(segs[0], Move)
            has_close = isinstance(segs[-1], Close)
            drawn = segs[(1 if has_move else 0):(len(segs) - 1 if has_close else len(segs))]
            if has_move:
                if j >= len(rev_path) or not isinstance(rev_path[j], Move):
                    return "result segment %d should be the subpath's Move" % j
                j += 1
            for s in reversed(drawn):
                if j >= len(rev_path):
                    return "result is shorter than the original"
                r = rev_path[j]
                if type(r) is not type(s):
                    return "result segment %d is %s, expected the reversal of a %s" % (j, type(r).__name__, type(s).__name__)
                try:
                    for t in TS:
                        q, p0 = r.point(t), s.point(1 - t)
                        devs.append((math.hypot(q[0] - p0[0], q[1] - p0[1]), j))
                except Exception as e:
                    return "segment %d cannot be evaluated: %r" % (j, e)
                j += 1
            if has_close:
                if j >= len(rev_path) or not isinstance(rev_path[j], Close):
                    return "closed subpath is not closed after reversal (segment %d)" % j
                j += 1
        if j != len(rev_path):
            return "result has %d extra segments" % (len(rev_path) - j)
        return max(devs) if devs else (0.0, -1)

    def impl(self, case):
        try:
            p = self._build(case)
            if p is None:
                return {"skip": True}
            orig = copy(p)
            kinds = [type(s).__name__ for s in p]
            wins = subpaths_of(kinds)
            out = {"orig": wires(p), "kinds": kinds, "wins": wins, "own": own_moves(kinds),
                   "nontrivial": any(b - a >= 2 for a, b in wins)}
            scale = max([1.0] + [abs(c) for s in p for q in s if q is not None for c in q])
            out["scale"] = scale
            q = copy(p)
            q.reverse()
            out["whole"] = wires(q)
            out["whole_obs"] = pl.observe_path(q)
            out["whole_pairs"] = self._pairs(list(orig), list(q), wins)
            pts0 = sorted((round(float(c[0]), 6), round(float(c[1]), 6)) for s in orig for c in s if c is not None)
            pts1 = sorted((round(float(c[0]), 6), round(float(c[1]), 6)) for s in q for c in s if c is not None)
            out["points_kept"] = set(pts0) == set(pts1)
            q.reverse()
            out["twice"] = wires(q)
            subs = []
            MT = "matrix(2,0.5,-1,3,7,-2)"
            for i in range(len(wins)):
                r = copy(p)
                r.subpath(i).reverse()
                w1 = wires(r)
                # history: reverse the view, then transform the backing path in place ...
                rt = copy(p)
                rt.subpath(i).reverse()
                rt *= Matrix(MT)
                rt.reify()
                # ... must equal: transform first, then reverse the view
                tr = copy(p)
                tr *= Matrix(MT)
                tr.reify()
                tr.subpath(i).reverse()
                r.subpath(i).reverse()
                subs.append({"i": i, "once": w1, "twice": wires(r), "rev_then_tf": wires(rt), "tf_then_rev": wires(tr)})
            out["subs"] = subs
            wt = copy(p)
            wt.reverse()
            wt *= Matrix(MT)
            wt.reify()
            tw = copy(p)
            tw *= Matrix(MT)
            tw.reify()
            tw.reverse()
            out["whole_rev_then_tf"], out["whole_tf_then_rev"] = wires(wt), wires(tw)
            return out
        except Exception as e:
            import traceback
            return {"exc": type(e).__name__, "tb": traceback.format_exc()[-500:]}

    def model_ops(self, case):
        return []

    def model_ops2(self, case, obs):
        if "orig" not in obs or not obs["own"]:
            return []
        w = " | ".join(obs["orig"])
        return ["path.reverse\t" + w] + ["path.subreverse\t%d\t%s" % (s["i"], w) for s in obs["subs"]]

    def compare(self, case, obs, outs):
        if not outs:
            return []
        ms = []
        head, _, body = outs[0].partition("\t")
        if head != "OK":
            ms.append(Mismatch(stream="path.reverse", case=case, impl="reversed", model=outs[0][:200]))
        else:
            d = wire_diff(obs["whole"], [x.strip() for x in body.split("|") if x.strip()], 1e-9)
            if d:
                ms.append(Mismatch(stream="path.reverse", case=case, impl=d, model=body[:300]))
        for s, o in zip(obs["subs"], outs[1:]):
            head, _, body = o.partition("\t")
            if head != "OK":
                ms.append(Mismatch(stream="path.subreverse", case=case, impl="reversed", model=o[:200]))
                continue
            d = wire_diff(s["once"], [x.strip() for x in body.split("|") if x.strip()], 1e-9)
            if d:
                ms.append(Mismatch(stream="path.subreverse[%d]" % s["i"], case=case, impl=d, model=body[:300]))
        return ms

    def oracle(self, case, obs):
        if obs.get("skip"):
            return []
        if "exc" in obs:
            f = Failure(what="reverse raised %s" % obs["exc"], case=case, observed=obs.get("tb"))
            kinds = None
            try:
                kinds = [type(s).__name__ for s in self._build(case)]
            except Exception:
                pass
            if kinds is not None and not own_moves(kinds):
                f["finding"] = FINDING
            return [f]
        fs = []
        tol = 1e-9 * obs["scale"]

        def add(what):
            f = Failure(what=what, case=case)
            if not obs["own"]:
                f["finding"] = FINDING
            fs.append(f)
        pr = obs["whole_pairs"]
        if isinstance(pr, str):
            add("reverse(): " + pr)
        elif pr[0] > 1e-7 * obs["scale"]:
            add("reverse(): segment %d is not the reversal of its original (q(t) vs p(1-t) deviates by %.3g)" % (pr[1], pr[0]))
        c = pl.connectivity(obs["whole_obs"])
        if c:
            add("reverse(): result not connected: " + c)
        if not obs["points_kept"]:
            add("reverse(): the set of defining points changed (a point of the original was lost)")
        d = wire_diff(obs["twice"], obs["orig"], 1e-12, ignore_move_start=True)
        if d:
            add("reverse() twice does not restore the path: " + d)
        d = wire_diff(obs["whole_rev_then_tf"], obs["whole_tf_then_rev"], 1e-9, ignore_move_start=True)
        if d:
            add("reverse() then transform differs from transform then reverse(): " + d)
        for s in obs["subs"]:
            a, b = obs["wins"][s["i"]]
            d = wire_diff(s["rev_then_tf"], s["tf_then_rev"], 1e-9, ignore_move_start=True)
            if d:
                add("subpath(%d).reverse() then transform differs from transform then reverse: %s" % (s["i"], d))
            once = s["once"]
            if len(once) != len(obs["orig"]):
                add("subpath(%d).reverse() changed the number of segments" % s["i"])
                continue
            outside = [k for k in range(len(once)) if k < a or k > b]
            d = wire_diff([once[k] for k in outside], [obs["orig"][k] for k in outside], 1e-12, ignore_move_start=True)
            if d:
                add("subpath(%d).reverse() changed a segment outside the subpath: %s" % (s["i"], d))
            d = wire_diff(s["twice"], obs["orig"], 1e-12, ignore_move_start=True)
            if d:
                add("subpath(%d).reverse() twice does not restore the path: %s" % (s["i"], d))
        return fs

    def replay_findings(self, f):
        w = f.get("witness", {}).get("d")
        if not w:
            return None
        case = {"k": "d", "d": w, "M": None}
        return any(x.get("finding") == f["id"] for x in self.oracle(case, self.impl(case)))


PROP = C16()
