"""Regenerates lean/Generated/C13_Observed.lean: what the code answers for every colour keyword."""
import os, re
from core import LEAN


def spec_keywords():
    src = open(os.path.join(LEAN, "SvgVerif", "Spec", "ColorKeywords.lean")).read()
    return [(n, int(r), int(g), int(b)) for n, r, g, b in re.findall(r'\("([a-z]+)", (\d+), (\d+), (\d+)\)', src)]


def observe():
    from svgelements import Color
    rows = []
    for n, r, g, b in spec_keywords():
        for sp in (n, n.upper(), n.title()):
            try:
                v = Color.parse(sp)
            except Exception:
                v = None
            rows.append((sp, v))
    for sp in ("transparent", "TRANSPARENT", "none"):
        try:
            v = Color.parse(sp)
        except Exception:
            v = "exc"
        rows.append((sp, v))
    return rows


def write():
    rows = observe()
    lines = ["/- GENERATED on every run by harness/props/c13_gen.py from /repo's working tree: Color.parse(keyword). -/",
             "namespace Generated.C13", "", "def observed : List (String × Option Nat) := ["]
    body = []
    for sp, v in rows:
        if isinstance(v, int) and v >= 0:
            body.append('  ("%s", some %d)' % (sp, v))
        else:
            body.append('  ("%s", none)' % sp)
    lines.append(",\n".join(body))
    lines += ["]", "", "end Generated.C13", ""]
    text = "\n".join(lines)
    path = os.path.join(LEAN, "Generated", "C13_Observed.lean")
    old = open(path).read() if os.path.exists(path) else None
    if old != text:
        with open(path, "w") as f:
            f.write(text)
    return rows
