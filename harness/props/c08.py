"""C08 — bounding boxes contain the geometry and are tight."""
import math
from core import Prop, Failure, Mismatch, fhex, hexf, exc_name
import gen, geo
from props.c02 import rand_shape, build_shape
from svgelements import (Matrix, Point, Path, Move, Line, Close, Arc, CubicBezier, QuadraticBezier, Group, Rect, Circle,
                         Ellipse, SimpleLine, Polyline, Polygon, Color)

N = 160


def refine(f, lo, hi, sign):
    """ternary search for the max of sign*f on [lo, hi]"""
    for _ in range(36):
        m1 = lo + (hi - lo) / 3
        m2 = hi - (hi - lo) / 3
        if sign * f(m1) < sign * f(m2):
            lo = m1
        else:
            hi = m2
    t = (lo + hi) / 2
    return f(t)


def extremes(seg):
    """(xmin, ymin, xmax, ymax) of seg.point(t), t in [0,1]: dense sampling + local refinement"""
    ts = [i / N for i in range(N + 1)]
    pts = [seg.point(t) for t in ts]
    res = []
    for axis, sign in ((0, -1), (1, -1), (0, 1), (1, 1)):
        vals = [sign * p[axis] for p in pts]
        i = max(range(len(vals)), key=lambda j: vals[j])
        lo, hi = ts[max(0, i - 1)], ts[min(N, i + 1)]
        v = refine(lambda t: seg.point(t)[axis], lo, hi, sign)
        res.append(sign * max(sign * v, vals[i]))
    return res


def arc_special(rng):
    """arcs aimed at the candidate-angle enumeration: rotated, eccentric, start anywhere on the ellipse, long sweeps"""
    cx, cy = round(rng.uniform(-100, 100), 2), round(rng.uniform(-100, 100), 2)
    rx = round(rng.uniform(1, 60), 2)
    ry = rx * rng.choice([1.0, 0.1, 0.25, 3.0, 8.0, 13.0])
    rot = rng.choice([0, 90, 180, 270, -90, 60, -20, 340, -380, 45, 30]) if rng.random() < 0.7 else round(rng.uniform(-400, 400), 1)
    a0 = math.radians(rng.choice([355, 340, 350, 359, 1, 5, 90, 180, 270, 181, 269]) if rng.random() < 0.6 else rng.uniform(0, 360))
    ext = math.radians(rng.choice([340, 330, 350, 359, 10, 1, 0.05, 90, 180, 181, 270]) if rng.random() < 0.7 else rng.uniform(0.05, 359.9))
    sgn = rng.choice([1, -1])
    ph = math.radians(rot)

    def P(t):
        x, y = rx * math.cos(t), ry * math.sin(t)
        return [cx + math.cos(ph) * x - math.sin(ph) * y, cy + math.sin(ph) * x + math.cos(ph) * y]
    s, e = P(a0), P(a0 + sgn * ext)
    return {"k": "A", "p": [s, e], "rx": rx, "ry": ry, "rot": float(rot), "fa": int(ext > math.pi), "fs": int(sgn > 0)}


class C08(Prop):
    id = "C08"
    rule = ("(seg) each segment kind: Beziers with 0/1/2 interior extrema per axis, axis-degenerate and near-linear cubics, arcs of any "
            "rotation (incl. multiples of 90), start anywhere on the ellipse, extents from 0.05 degrees to 359.9 degrees, zero-extent arcs; "
            "(shape) paths/shapes with transforms, transformed in {T,F}, with_stroke in {T,F}, stroke painted / none / unset, ordinary or vector-effect=non-scaling-stroke (effective width follows the viewport transform only), subpath "
            "boxes; (group) groups of groups. Oracle: dense sampling (161 points) of point(t) refined by ternary search around each "
            "extreme: containment and tightness of all four sides, ordering, stroke growth, union. non-trivial = curved segment or "
            "container; distinct by canonical JSON")
    trusted_base = [
        "arc boxes (and cubics with 0 < |leading coefficient| < 1e-8) are NOT carried by a theorem (trigonometric extremum argument): decided by "
        "correspondence with the transcribed algorithms (Model/BBox.lean) and the sampling oracle",
        "sampling oracle resolution: 161 samples + ternary refinement; tolerance 1e-7 of the object's size",
    ]

    def cases(self, rng, tier):
        n = 700 if tier == "quick" else 9000
        for _ in range(n):
            r = rng.random()
            if r < 0.45:
                d = arc_special(rng)
            elif r < 0.6:
                d = geo.rand_seg(rng, kinds="A")
            else:
                d = geo.rand_seg(rng, kinds="LQCC")
                if d["k"] == "C" and rng.random() < 0.2:
                    # near-linear / axis-degenerate cubic: tiny cubic coefficient on one axis
                    p = d["p"]
                    p[2][0] = p[0][0] + (p[3][0] - p[0][0]) * 2 / 3 + rng.choice([0, 1e-9, -3e-9, 1e-7])
                    p[1][0] = p[0][0] + (p[3][0] - p[0][0]) / 3
            yield {"k": "seg", "seg": d}
        for _ in range(n // 5):
            sh = rand_shape(rng) if rng.random() < 0.6 else None
            segs = None
            if sh is None:
                cur = geo.pt(rng, 300)
                segs = []
                for _ in range(rng.randint(1, 6)):
                    d = geo.rand_seg(rng, start=cur, local=10 ** rng.uniform(0, 2))
                    segs.append(d)
                    cur = d["p"][-1]
            yield {"k": "shape", "shape": sh, "segs": segs, "M": gen.matrix_invertible(rng) if rng.random() < 0.7 else None,
                   "stroke": rng.choice(["red", "none", None, "#00f8"]), "sw": rng.choice([None, 0.0, 1.0, 3.5, 12.0]),
                   "transformed": rng.random() < 0.6, "with_stroke": rng.random() < 0.6, "subpath": rng.random() < 0.4,
                   # vector-effect=non-scaling-stroke: the effective width ignores the shape's own transform and follows the
                   # viewport transform only (text of the transform, |det| worked out here)
                   "nss": rng.choice([None, None, None, ["", 1.0], ["scale(2)", 4.0], ["scale(0.5,3)", 1.5], ["translate(5,5)", 1.0]])}
        for _ in range(n // 6):
            kids = []
            for _ in range(rng.randint(1, 4)):
                kids.append({"shape": rand_shape(rng), "M": gen.matrix_invertible(rng) if rng.random() < 0.5 else None,
                             "stroke": rng.choice(["red", "none", None]), "sw": rng.choice([None, 2.0, 5.0])})
            yield {"k": "group", "kids": kids, "nest": rng.random() < 0.5, "transformed": rng.random() < 0.7,
                   "with_stroke": rng.random() < 0.5}
        # containers of parsed documents: svg, g and use (a use holds the instantiated copy of what it references)
        import docgen as dg
        for _ in range(max(40, n // 25)):
            doc = dg.gen_doc(rng, use=True, p_tf=0.4, depth=3, max_elems=14, p_paint=0.5, p_hidden=0.0, p_nss=0.0, units=False)
            yield {"k": "doctree", "doc": doc}

    def tag(self, case):
        if case["k"] == "seg":
            return "seg." + case["seg"]["k"]
        if case["k"] == "shape":
            return ["shape", "stroke=%s,sw=%s" % (case["stroke"], case["sw"])]
        return "doctree" if case["k"] == "doctree" else "group"

    def nontrivial(self, case, obs):
        return case["k"] != "seg" or case["seg"]["k"] != "L"

    # ---------------------------------------------------------------- implementation
    def _shape(self, c):
        if c.get("shape") is not None:
            sh = build_shape(c["shape"])
        else:
            sh = Path(Move(Point(*c["segs"][0]["p"][0])), *[geo.build(d) for d in c["segs"]])
        if c.get("M") is not None:
            sh *= Matrix(*c["M"])
        if c.get("stroke") is not None:
            sh.stroke = Color(c["stroke"])
        else:
            sh.stroke = None
        sh.stroke_width = c.get("sw")
        if c.get("nss") is not None:
            sh.values["vector-effect"] = "non-scaling-stroke"
            if c["nss"][0]:
                sh.values["viewport_transform"] = c["nss"][0]
        return sh

    def impl(self, case):
        k = case["k"]
        try:
            if k == "seg":
                s = geo.build(case["seg"])
                return {"bbox": [float(v) for v in s.bbox()], "ext": extremes(s), "wire": geo.wire(s), "scale": geo.seg_scale(s)}
            if k == "shape":
                sh = self._shape(case)
                painted = sh.stroke is not None and sh.stroke.value is not None and sh.stroke_width is not None
                det = abs(sh.transform.a * sh.transform.d - sh.transform.c * sh.transform.b)
                out = {"painted": painted, "sw": sh.stroke_width, "sqrtdet": math.sqrt(det), "combos": {}}
                exts = {}
                for tr in (True, False):
                    # true geometry: the shape's own-space decomposition mapped through its transform by Path
                    segs = list(abs(Path(sh))) if tr else list(sh.segments(transformed=False))
                    ext = None
                    for sg in segs:
                        e = extremes(sg) if not isinstance(sg, (Move,)) else [sg.end[0], sg.end[1], sg.end[0], sg.end[1]]
                        ext = e if ext is None else [min(ext[0], e[0]), min(ext[1], e[1]), max(ext[2], e[2]), max(ext[3], e[3])]
                    exts[tr] = ext
                    out["nseg"] = len(segs)
                    out["scale"] = max([1.0] + [geo.seg_scale(x) for x in segs] + [out.get("scale", 1.0)])
                for tr in (True, False):
                    for ws in (True, False):
                        objs = {"shape": sh}
                        if isinstance(sh, Path) and len(sh) > 0:
                            objs["subpath"] = sh.subpath(0)
                        for nm, obj in objs.items():
                            bb = obj.bbox(transformed=tr, with_stroke=ws)
                            out["combos"]["%s,%s,%s" % (nm, tr, ws)] = None if bb is None else [float(v) for v in bb]
                out["ext"] = {"True": exts[True], "False": exts[False]}
                return out
            if k == "group":
                g = Group()
                inner = Group() if case["nest"] else g
                exts = None
                for kid in case["kids"]:
                    sh = self._shape(kid)
                    inner.append(sh)
                    b = sh.bbox(transformed=case["transformed"], with_stroke=case["with_stroke"])
                    if b is not None:
                        exts = list(b) if exts is None else [min(exts[0], b[0]), min(exts[1], b[1]), max(exts[2], b[2]), max(exts[3], b[3])]
                if case["nest"]:
                    g.append(inner)
                bb = g.bbox(transformed=case["transformed"], with_stroke=case["with_stroke"])
                return {"bbox": None if bb is None else [float(v) for v in bb], "union": exts}
            if k == "doctree":
                import docgen as dg
                from svgelements import Use, Shape
                svg = dg.parse_impl(case["doc"], reify=True)
                rows = []

                def leaves(e):
                    for c in e:
                        if isinstance(c, (Group, Use)):
                            for x in leaves(c):
                                yield x
                        elif isinstance(c, Shape):
                            yield c

                def walk(e, path):
                    if isinstance(e, (Group, Use)):
                        for ws in (False, True):
                            union = None
                            for sh in leaves(e):
                                b = sh.bbox(transformed=True, with_stroke=ws)
                                if b is not None:
                                    union = list(b) if union is None else [min(union[0], b[0]), min(union[1], b[1]), max(union[2], b[2]), max(union[3], b[3])]
                            bb = e.bbox(transformed=True, with_stroke=ws)
                            rows.append({"what": "%s%s.bbox(with_stroke=%s)" % (type(e).__name__, path, ws),
                                         "bbox": None if bb is None else [float(v) for v in bb], "union": union})
                        for i, c in enumerate(e):
                            walk(c, path + "[%d]" % i)
                if svg is not None:
                    walk(svg, "")
                return {"rows": rows}
        except Exception as e:
            import traceback
            return {"exc": exc_name(e), "tb": traceback.format_exc()[-300:]}

    # ---------------------------------------------------------------- model
    def model_ops2(self, case, obs):
        if case["k"] == "seg" and "wire" in obs:
            return ["seg.bbox\t" + obs["wire"]]
        return []

    def compare(self, case, obs, outs):
        if not outs or "exc" in obs:
            return []
        parts = outs[0].split()
        if parts[0] != "OK" or len(parts) != 5:
            return [Mismatch(stream="seg.bbox", case=case, impl=obs["bbox"], model=outs[0])]
        mb = [hexf(x) for x in parts[1:]]
        tol = 1e-7 * obs["scale"] + 1e-9
        if max(abs(a - b) for a, b in zip(mb, obs["bbox"])) > tol:
            return [Mismatch(stream="seg.bbox." + case["seg"]["k"], case=case, impl=obs["bbox"], model=mb)]
        return []

    # ---------------------------------------------------------------- oracle
    @staticmethod
    def _judge(fs, case, bb, ext, tol, what):
        if bb[0] > bb[2] + 1e-15 or bb[1] > bb[3] + 1e-15:
            fs.append(Failure(what="%s: box not ordered" % what, case=case, observed=bb))
            return
        names = ["xmin", "ymin", "xmax", "ymax"]
        for i in range(4):
            sign = -1 if i < 2 else 1
            # containment: the geometry's extreme must not lie outside the side
            if sign * (ext[i] - bb[i]) > tol:
                fs.append(Failure(what="%s: geometry lies outside the %s side by %.3g" % (what, names[i], sign * (ext[i] - bb[i])),
                                  case=case, observed=bb, expected=ext))
                return
            if sign * (bb[i] - ext[i]) > tol:
                fs.append(Failure(what="%s: %s side is not touched by the geometry (slack %.3g)" % (what, names[i], sign * (bb[i] - ext[i])),
                                  case=case, observed=bb, expected=ext))
                return

    def oracle(self, case, obs):
        if "exc" in obs:
            return [Failure(what="bbox raised %s" % obs["exc"], case=case, observed=obs)]
        fs = []
        k = case["k"]
        if k == "seg":
            tol = 2e-7 * obs["scale"] + 1e-9
            self._judge(fs, case, obs["bbox"], obs["ext"], tol, "segment bbox")
        elif k == "shape":
            tol = 2e-7 * obs["scale"] + 1e-9
            for key, bb in obs["combos"].items():
                nm, tr, ws = key.split(",")
                tr, ws = tr == "True", ws == "True"
                ext = obs["ext"][str(tr)]
                if bb is None:
                    if obs["nseg"] != 0:
                        fs.append(Failure(what="%s with segments has no bbox (%s)" % (nm, key), case=case, observed=obs))
                    continue
                if ext is None:
                    continue
                delta = 0.0
                if ws and obs["painted"]:
                    scale_w = obs["sqrtdet"] if case.get("nss") is None else math.sqrt(case["nss"][1])
                    delta = obs["sw"] / 2.0 * (scale_w if tr else 1.0)
                want = [ext[0] - delta, ext[1] - delta, ext[2] + delta, ext[3] + delta]
                n0 = len(fs)
                self._judge(fs, case, bb, want, tol + 1e-9 * abs(delta),
                            "%s.bbox(transformed=%s, with_stroke=%s) (stroke delta %.4g)" % (nm, tr, ws, delta))
                if len(fs) > n0:
                    if case.get("shape") and case["shape"]["k"] in ("circle", "ellipse") and tr and case.get("M"):
                        from props.c02 import orth_images
                        if not orth_images(case["M"]):
                            fs[-1]["finding"] = "C08-roundshape-bbox"
                    break
        elif k == "doctree":
            for r in obs["rows"]:
                if r["union"] is None:
                    if r["bbox"] is not None:
                        fs.append(Failure(what="%s of a container without rendered shapes is %r" % (r["what"], r["bbox"]), case=case))
                        break
                    continue
                if r["bbox"] is None or max(abs(a - b) for a, b in zip(r["bbox"], r["union"])) > 1e-9 * max(1.0, max(abs(v) for v in r["union"])):
                    fs.append(Failure(what="%s is not the union of the boxes of the shapes it contains" % r["what"], case=case,
                                      observed=r["bbox"], expected=r["union"]))
                    break
        elif k == "group":
            if obs["union"] is None:
                if obs["bbox"] is not None:
                    fs.append(Failure(what="empty group has a bbox", case=case, observed=obs))
                return fs
            if obs["bbox"] is None or max(abs(a - b) for a, b in zip(obs["bbox"], obs["union"])) > 1e-9 * max(1.0, max(abs(v) for v in obs["union"])):
                fs.append(Failure(what="container bbox is not the union of its rendered descendants' boxes", case=case,
                                  observed=obs["bbox"], expected=obs["union"]))
        return fs


PROP = C08()
