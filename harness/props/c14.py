"""C14 — fill, stroke and stroke width follow the SVG/CSS cascade and inheritance."""
import math, itertools
from core import Prop, Failure, Mismatch, exc_name
import docgen as dg

SEL_KINDS = ["*", "rect", ".a", "rect.a", "#r"]
SPECIFICITY = {"*": 0, "rect": 1, ".a": 10, "rect.a": 11, "#r": 100}
VALS = ["red", "blue", "#0f0", "orange", "purple", "teal"]


def grid_docs():
    """one rect (class a, id r) inside a group; every subset of {inherited, attribute, one rule per selector kind, inline} for
    `fill`, then every ordered pair of selector kinds in both sheet orders for `stroke`"""
    out = []
    for inh, attr, inline in itertools.product([0, 1], repeat=3):
        for kind in [None] + SEL_KINDS:
            rules = [[[kind], {"fill": "blue"}]] if kind else []
            out.append(one_rect(rules, {"fill": "red"} if attr else {}, {"fill": "orange"} if inline else {},
                                {"fill": "purple"} if inh else {}))
    for k1, k2 in itertools.permutations(SEL_KINDS, 2):
        out.append(one_rect([[[k1], {"stroke": "red"}], [[k2], {"stroke": "blue"}]], {}, {}, {}))
    # comma lists, repeated selector, trailing semicolons, comments, currentColor, opacity
    out.append(one_rect([[["circle", "rect"], {"fill": "teal"}], [["rect"], {"stroke": "red"}], [["rect"], {"stroke-width": "3"}]], {}, {}, {}))
    out.append(one_rect([[["*"], {"fill": "red"}], [["rect"], {"stroke": "blue"}]], {}, {}, {}))
    out.append(one_rect([], {"fill": "currentColor", "color": "green"}, {}, {"color": "purple"}))
    out.append(one_rect([], {"stroke": "currentColor"}, {}, {"color": "purple"}))
    out.append(one_rect([], {"fill": "currentColor"}, {}, {}))
    # the color that currentColor refers to may itself come from any source
    for prop in ("fill", "stroke"):
        out.append(one_rect([[["rect"], {"color": "navy"}]], {prop: "currentColor"}, {}, {"color": "purple"}))
        out.append(one_rect([], {prop: "currentColor"}, {"color": "olive"}, {"color": "purple"}))
        out.append(one_rect([[[".a"], {prop: "currentColor"}]], {"color": "green"}, {}, {}))
        out.append(one_rect([[["#r"], {"color": "navy"}]], {}, {prop: "currentColor"}, {"color": "purple"}))
        out.append(one_rect([[["*"], {prop: "currentColor", "color": "gray"}]], {}, {}, {}))
    out.append(one_rect([], {"fill": "red", "fill-opacity": "0.5", "stroke": "blue", "stroke-opacity": "0.25"}, {}, {}))
    out.append(one_rect([], {}, {}, {"fill-opacity": "0.5", "stroke": "#123456", "stroke-width": "2pt"}))
    return out


def one_rect(rules, attr_paint, inline, group_paint):
    rect = dg.node("rect", {"width": [10.0, ""], "height": [5.0, ""], "id": "r", "class": ["a"]})
    if attr_paint:
        rect["sem"]["attr_paint"] = attr_paint
    if inline:
        rect["sem"]["inline"] = inline
    g = dg.node("g", {"attr_paint": group_paint} if group_paint else {}, [rect])
    kids = [g]
    if rules:
        kids.insert(0, dg.node("style", {"rules": rules}, text=dg.sheet_text(rules)))
    root = dg.node("svg", {}, kids)
    doc = {"root": root, "cfg": {"ppi": 96.0, "reify": True, "color": "black", "width": None, "height": None, "transform": None}}
    dg.finish(doc)
    return doc


class C14(Prop):
    id = "C14"
    exhaustive = True
    exhaustive_note = ("for one element: all 2^3 subsets of {inherited, attribute, inline} x {no rule, one rule of each of the 5 selector "
                       "kinds} (48 documents) and all 20 ordered pairs of selector kinds for one property; random documents beyond that")
    rule = ("documents with a style sheet (universal, type, class, type.class, id selectors; comma lists; comments; repeated selectors; "
            "random rule order), per-element random subsets of {presentation attribute, class, id, inline style} for fill, stroke, "
            "stroke-width, fill/stroke-opacity, color (currentColor), display, vector-effect; nesting through g, svg, defs and use; "
            "transforms of any determinant sign. Observed per Shape: fill, stroke (RGBA value or none/unset), stroke_width for "
            "reify=False and reify=True, transform. Compared with the Lean model (cascade as string assembly + dictionary "
            "inheritance) and with an independent CSS cascade evaluator (specificity, source order, inheritance, currentColor, "
            "opacity); reified width: stroke_width_reified * sqrt|det residual| = declared * sqrt|det CTM| (non-scaling: viewport "
            "transform). non-trivial = at least one shape whose paint comes from a rule, an inline style or an ancestor")
    trusted_base = [
        "xml.etree.ElementTree (tree, attribute dictionaries, element text)",
        "Color(text) -> RGBA is C13's model/theorems; the specification evaluator uses the library's Color for the colour value itself",
        "str.split/strip and the two style-sheet regular expressions are transcribed as scanners (Model/Doc.lean), validated by this correspondence",
    ]
    assumptions = [
        "style elements precede the elements they style (the library applies rules to elements that follow the style element)",
        "vector-effect is set on shapes only; stroke-width percentages are not generated",
        "fill/stroke-opacity replace the alpha of the colour (the library's reading of 'folded into'); colours with their own alpha "
        "are combined with an opacity attribute only through that reading",
    ]

    def __init__(self):
        self._late = []

    def cases(self, rng, tier):
        for d in grid_docs():
            yield {"k": "grid", "doc": d}
        n = 700 if tier == "quick" else 30000
        for i in range(n):
            prof = [dict(css=True, p_paint=0.55, p_tf=0.25, depth=3, paths=False, units=False, nested_svg=True),
                    dict(css=True, p_paint=0.35, p_tf=0.6, depth=4, p_nss=0.4),
                    dict(css=True, p_paint=0.7, p_tf=0.1, depth=2, nested_svg=False, max_elems=12)][i % 3]
            yield {"k": "doc", "doc": dg.gen_doc(rng, **prof)}

    def tag(self, case):
        t = [case["k"]]
        d = case["doc"]
        srcs = set()

        def go(n):
            s = n["sem"]
            for k in ("attr_paint", "inline", "class", "id", "vector-effect", "display"):
                if k in s:
                    srcs.add("src=" + k)
            if n["tag"] == "style":
                for sels, _ in s.get("rules", []):
                    for sel in sels:
                        srcs.add("sel=" + ("*" if sel == "*" else "#id" if sel[0] == "#" else ".class" if sel[0] == "." else
                                           "type.class" if "." in sel else "type"))
            for c in n["kids"]:
                go(c)
        go(d["root"])
        return t + sorted(srcs)

    def describe(self, case):
        return {"xml": dg.xml_text(case["doc"]), "cfg": case["doc"]["cfg"]}

    def nontrivial(self, case, obs):
        return isinstance(obs.get("f"), list) and any(s["fill"] != 255 or s["stroke"] != "none" or s["sw"] != 1.0 for s in obs["f"])

    def impl(self, case):
        doc = case["doc"]
        text = dg.xml_text(doc)
        obs = {}
        for key, reify in (("f", False), ("t", True)):
            try:
                shapes = dg.observe(dg.parse_impl(doc, reify=reify, text=text))
                for s in shapes:
                    s.pop("abs", None)
                obs[key] = shapes
            except Exception as e:
                obs[key] = {"exc": exc_name(e), "msg": str(e)[:120]}
        return obs

    def model_ops(self, case):
        return [dg.wire(case["doc"])]

    def compare(self, case, obs, outs):
        status, shapes = dg.parse_model(outs[0])
        if status == "ERR deferred":
            return []
        f = obs["f"]
        if isinstance(f, dict):
            if status == "ERR " + f["exc"]:
                return []
            return [Mismatch(stream="c14.paint", case=case, impl=f, model=outs[0][:200])]
        if status != "OK":
            return [Mismatch(stream="c14.paint", case=case, impl="%d shapes" % len(f), model=outs[0][:200])]
        d = paint_diff(f, shapes)
        if not d and isinstance(obs["t"], list) and len(obs["t"]) == len(shapes):
            # reified stroke width against the model of reify() (Model/Reify.strokeWidth)
            for i, (o, w) in enumerate(zip(obs["t"], shapes)):
                d = dg.reified_diff(o, w, geometry=False, impl_m=f[i]["m"])
                if d:
                    d = "shape %d: %s" % (i, d)
                    break
        # specification, judged with the model's prediction at hand (known-finding attribution)
        self._spec(case, obs, None if d else shapes)
        if d:
            return [Mismatch(stream="c14.paint", case=case, impl=d, model="first difference")]
        return []

    def _spec(self, case, obs, model_shapes):
        f, t = obs["f"], obs["t"]
        try:
            spec, flags = dg.spec_render(case["doc"])
        except Exception as e:
            self._late.append(Failure(what="specification evaluator failed: %r" % (e,), case=case))
            return
        if flags & {"zero-viewport", "unresolved-percentage"}:
            return
        d = paint_diff(f, spec)
        if d:
            fl = Failure(what="differs from the CSS cascade: " + d, case=case, flags=sorted(flags))
            if "multi-class" in flags and model_shapes is not None:
                # the model mirrors the code's class-attribute order: it explains the observation
                fl["finding"] = "C14-class-order"
            self._late.append(fl)
            return
        if isinstance(t, dict) or len(t) != len(f):
            return
        for i, (a, b, s) in enumerate(zip(f, t, spec)):
            da, db = abs(dg.mdet(a["m"])), abs(dg.mdet(b["m"]))
            if da < 1e-9:
                continue
            if s["nss"]:
                want = s["sw"] * math.sqrt(abs(dg.mdet(s["vt"]))) if a["m"] != b["m"] else s["sw"]
                got = b["sw"]
                what = "non-scaling stroke width after reify"
            else:
                want = s["sw"] * math.sqrt(da)
                got = b["sw"] * math.sqrt(db)
                what = "stroke width after reify (times sqrt|det residual transform|)"
            if abs(got - want) > 1e-7 * max(1.0, abs(want)):
                self._late.append(Failure(what="shape %d (%s): %s is %r, expected %r" % (i, a["kind"], what, got, want), case=case))
                return

    def drain_failures(self):
        out, self._late = self._late, []
        return out

    def oracle(self, case, obs):
        fs = []
        for key in ("f", "t"):
            if isinstance(obs[key], dict):
                fs.append(Failure(what="SVG.parse raised %s" % obs[key]["exc"], case=case, observed=obs[key]))
        if fs:
            return fs
        f, t = obs["f"], obs["t"]
        if len(f) != len(t):
            return [Failure(what="shape count differs with reify", case=case)]
        for i, (a, b) in enumerate(zip(f, t)):
            if a["fill"] != b["fill"] or a["stroke"] != b["stroke"]:
                return [Failure(what="shape %d: paint differs between reify=False and reify=True" % i, case=case,
                                observed=[b["fill"], b["stroke"]], expected=[a["fill"], a["stroke"]])]
        return fs

    def replay_findings(self, f):
        from svgelements import SVG, Shape
        import io
        w = f.get("witness", {})
        if "xml" not in w:
            return None
        svg = SVG.parse(io.StringIO(w["xml"]))
        got = [dg.colour_obs(e.fill) for e in svg.elements() if isinstance(e, Shape)]
        return got == w.get("observed_fill")


def paint_diff(obs, want):
    if len(obs) != len(want):
        return "%d shapes, expected %d" % (len(obs), len(want))
    for i, (o, w) in enumerate(zip(obs, want)):
        for k in ("fill", "stroke"):
            if o[k] != w[k] and not (o[k] == "unset" and w[k] == "none"):
                return "shape %d (%s%s): %s is %s, expected %s" % (i, o["kind"], " id=%s" % o["id"] if o["id"] else "", k, fmt(o[k]), fmt(w[k]))
        if not isinstance(o["sw"], float) or abs(o["sw"] - w["sw"]) > 1e-9 * max(1.0, abs(w["sw"])):
            return "shape %d (%s): stroke width %r, expected %r" % (i, o["kind"], o["sw"], w["sw"])
    return None


def fmt(v):
    return "#%08x" % v if isinstance(v, int) else v


PROP = C14()
