"""C01 — path data is interpreted exactly as the SVG path grammar prescribes."""
import random
from core import Prop, Failure, Mismatch, shex
import pathlib_ as pl
from svgelements import Path

CORPUS = [
    "M0,0 Q10,0 10,10 S20,20 30,10", "M0,0 C1,2 7,4 10,0 T20,0", "M1-2.5.5-1l.5.5-3-4a10,10 0 0110,10Qz",
    "M 10 10 L 20 20 30 30 z l 5 5 z", "m 1 2 3 4 5 6", "M1,2 3,4 m 1,1 2,2", "M0 0h10v10H0V0z",
    "M0,0 a1,1 0 0 0 2,0 a1,1 0 1 1 -2,0z", "M0,0A1,1,0,0,0,2,0", "M100,200 C100,100 250,100 250,200 S400,300 400,200",
    "M200,300 Q400,50 600,300 T1000,300", "M 0,0 L 1e1,1E1 .5.5 -1-1 +2+2", "M0,0 T 10,10 T 20,0 t 5,5", "M0,0 S 1,1 2,2 s 1,1 2,2",
    "M0,0 L 10,10 z M 5,5 z z L 1,1", "M5,5 L10,10 Lz", "M0,0 C 1,1 2,2 z", "M0,0 Q 1,1 Z", "M0,0 q 1,1 z t 5 5", "M0,0 l1,1 a5,3 20 0110,10z",
    "M0,0 L 5 5 z M 2 2 C 3 3 4 4 5 5 S z", "M0,0 L 5,5 T z",
]


def fixed_group(letter, k):
    """small fixed operands for the exhaustive letter-pair stream"""
    L = letter.upper()
    base = [3 + k, 4 - k, 7, 2 + k, 9, 5 - k, 6]
    if L == "A":
        vals = [6 + k, 4, 30, 0, 1, 8 + k, 3]
        g = [pl.lit(v) for v in vals]
        g[3] = {"t": "0", "v": 0.0, "flag": True}
        g[4] = {"t": "1", "v": 1.0, "flag": True}
        return g
    return [pl.lit(v) for v in base[:pl.ARITY[L]]]


def pair_cases():
    for first in "Mm":
        for a in pl.LETTERS:
            for b in pl.LETTERS:
                cmds = [{"c": first, "groups": [[pl.lit(1), pl.lit(2)]], "zc": False},
                        {"c": "L", "groups": [[pl.lit(5), pl.lit(1)]], "zc": False}]
                for k, c in enumerate((a, b)):
                    cmds.append({"c": c, "groups": [] if c in "Zz" else [fixed_group(c, k)], "zc": False})
                yield cmds


class C01(Prop):
    id = "C01"
    rule = ("(a) exhaustive: all 20x20 ordered command-letter pairs after 'M/m 1,2 L 5,1' with fixed operands; (b) random conforming "
            "command lists of 1-12 commands (weighted towards state-dependent pairs: smooth after each kind, close then non-move, "
            "consecutive moves, implicit repetition, SVG2 segment-completing z) rendered with random conforming layout (every number "
            "spelling, separator-free forms, comma/whitespace placement); (c) literal corpus. The Lean specification interpreter "
            "(Spec/PathSpec.interp, written from SVG 2 chapter 9) is evaluated on the AST and compared with what Path(d) returns; "
            "the Lean model of the lexical parser + builder (Model/PathParse) and the token-level model (runCmds) are compared with it too. "
            "non-trivial = at least 3 segments; distinct by canonical JSON")
    trusted_base = [
        "float(text) and Lean's OfScientific Float agree to 1e-12 relative (compared with tolerance)",
        "Python re engine (scanners transcribed in Model/Lex.lean, Model/PathParse.lean; validated by this stream)",
        "arcs are compared through the public endpoint constructor Arc(start,rx,ry,rot,fa,fs,end) (decided by C05)",
        "the lexer-level round trip (render then lex) is validated by correspondence, not proved; the theorems are token-level and on",
    ]
    exhaustive = True
    exhaustive_note = "all 400 ordered command-letter pairs x leading M/m (800 strings) in every run"

    def cases(self, rng, tier):
        for s in CORPUS:
            yield {"k": "lit", "d": s}
        for cmds in pair_cases():
            yield {"k": "ast", "cmds": cmds, "d": pl.render(cmds)}
        n = 3000 if tier == "quick" else 150000
        for i in range(n):
            cmds = pl.rand_ast(rng)
            yield {"k": "ast", "cmds": cmds, "d": pl.render(cmds, rng)}

    def extra_search(self, rng, ctx):
        for i in range(40000):
            cmds = pl.rand_ast(rng)
            yield {"k": "ast", "cmds": cmds, "d": pl.render(cmds, rng)}

    def tag(self, case):
        if case.get("k", "lit") == "lit":
            return ["literal"]
        cmds = case["cmds"]
        tags = ["ast"]
        for a, b in zip(cmds, cmds[1:]):
            tags.append("pair." + a["c"].upper() + b["c"].upper())
        if any(c["zc"] for c in cmds):
            tags.append("segment-completing-z")
        if any(len(c["groups"]) > 1 for c in cmds):
            tags.append("implicit-repetition")
        return tags

    def nontrivial(self, case, obs):
        return isinstance(obs, dict) and len(obs.get("segs", [])) >= 3

    def describe(self, case):
        return {"d": case["d"]}

    def impl(self, case):
        try:
            p = Path(case["d"])
        except Exception as e:
            return {"exc": type(e).__name__}
        return {"segs": pl.observe_path(p)}

    def model_ops(self, case):
        ops = ["path.parse\t" + shex(case["d"])]
        if case.get("k", "lit") == "ast":
            w = pl.ast_wire(case["cmds"])
            ops += ["path.spec\t" + w, "path.run\t" + w]
        return ops

    def compare(self, case, obs, outs):
        ms = []
        st, segs = pl.parse_model(outs[0])
        if "exc" in obs:
            if st != obs["exc"]:
                ms.append(Mismatch(stream="path.parse", case=self.describe(case), impl=obs, model=outs[0][:300]))
            return ms
        if st != "ok":
            ms.append(Mismatch(stream="path.parse", case=self.describe(case), impl="returned", model=outs[0][:300]))
            return ms
        d = pl.segs_diff(obs["segs"], segs)
        if d:
            ms.append(Mismatch(stream="path.parse", case=self.describe(case), impl=d, model=outs[0][:300]))
        if case.get("k", "lit") == "ast":
            st2, segs2 = pl.parse_model(outs[2])
            d = "token-level model raised " + st2 if st2 != "ok" else pl.segs_diff(obs["segs"], segs2)
            if d:
                ms.append(Mismatch(stream="path.run", case=self.describe(case), impl=d, model=outs[2][:300]))
        return ms

    def oracle(self, case, obs):
        fs = []
        if "exc" in obs:
            if case.get("k", "lit") == "ast":
                fs.append(Failure(what="conforming path data raised %s" % obs["exc"], case=self.describe(case)))
            return fs
        c = pl.connectivity(obs["segs"])
        if c and case.get("k", "lit") == "ast":
            fs.append(Failure(what="not connected: " + c, case=self.describe(case), observed=obs["segs"][:6]))
        return fs

    def judge_mismatch(self, m):
        return None


class C01WithSpec(C01):
    """the specification interpreter's answer is compared inside compare() (it needs the driver);
    a disagreement with the *specification* is a failing input, not a mere model mismatch"""

    def compare(self, case, obs, outs):
        ms = C01.compare(self, case, obs, outs)
        if case.get("k", "lit") == "ast" and "segs" in obs:
            st, spec = pl.parse_model(outs[1])
            if st == "ok":
                d = pl.segs_diff(obs["segs"], spec)
                if d:
                    self.spec_failures.append(Failure(what="Path(d) differs from the SVG 2 interpretation: " + d,
                                                      case=self.describe(case), expected=outs[1][:400]))
        return ms

    def __init__(self):
        self.spec_failures = []

    def drain_failures(self):
        fs, self.spec_failures = self.spec_failures, []
        return fs


PROP = C01WithSpec()
