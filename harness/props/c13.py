"""C13 — colour spellings denote their CSS/SVG RGBA values; accessors are consistent."""
import colorsys, math, itertools
from core import Prop, Failure, Mismatch, shex, exc_name
from props import c13_gen
from svgelements import Color

CHANNELS = ["red", "green", "blue", "alpha"]
PACKS = ["rgb", "bgr", "argb", "rgba"]


def clamp(x, lo=0, hi=255):
    return lo if x < lo else hi if x > hi else x


def word(r, g, b, a=255):
    return (r << 24) | (g << 16) | (b << 8) | a


def chans(v):
    return ((v >> 24) & 255, (v >> 16) & 255, (v >> 8) & 255, v & 255)


def num_text(rng, lo, hi, frac=True):
    r = rng.random()
    if r < 0.5 or not frac:
        return str(rng.randint(int(lo), int(hi)))
    if r < 0.8:
        return "%.2f" % rng.uniform(lo, hi)
    if r < 0.9:
        return ("%.1f" % rng.uniform(lo, hi)).replace("0.", ".")
    return "%de0" % rng.randint(int(lo), int(hi))


class C13(Prop):
    id = "C13"
    generated_modules = ("Generated.C13_Observed",)
    exhaustive = True
    exhaustive_note = ("147 keywords x 3 letter cases + transparent + none (also kernel-checked: theorem C13_keywords over "
                       "Generated/C13_Observed.lean); all 4096 #rgb and 65536 #rgba strings; every channel setter for all 256 values "
                       "(plus out-of-range) on several base words")
    rule = ("keywords/hex3/hex4 exhaustive; 6/8-digit hex sampled with/without '#', both cases; rgb()/rgba() with integer, fractional, "
            "negative, out-of-range arguments and optional alpha; percentages; hsl()/hsla() with hue beyond +-1 turn; integer "
            "constructors; channel and packed setters followed by all getters on random 32-bit words; hex round trip. "
            "Expected values: specification table (Spec/ColorKeywords.lean), CSS clamping/rounding, colorsys for HSL (+-1 LSB). "
            "non-trivial = every case except the plain keyword lower-case lookups; distinct by canonical JSON")
    trusted_base = [
        "Python int bit operators on non-negative ints read as div/mod arithmetic (Model/Color.lean), tied by the exhaustive per-channel stream",
        "'%02x' formatting and int(s, 16): modelled on digit values",
        "colour regexes transcribed as scanners (matchHex, matchFunctional), validated by this stream",
        "float rounding in hsl/percent forms: +-1 LSB tolerated against the exact CSS value (the code truncates where CSS rounds)",
    ]

    def regenerate(self, ctx):
        c13_gen.write()
        return []

    # ---------------------------------------------------------------- cases
    def cases(self, rng, tier):
        for n, r, g, b in c13_gen.spec_keywords():
            for sp in (n, n.upper(), n.title()):
                yield {"k": "parse", "s": sp, "exp": word(r, g, b)}
        yield {"k": "parse", "s": "transparent", "exp": 0}
        yield {"k": "parse", "s": "none", "exp": None}
        yield {"k": "parse", "s": "Dark Slate Gray", "exp": word(47, 79, 79)}
        H = "0123456789abcdef"
        for a, b, c in itertools.product(range(16), repeat=3):
            up = (a + b + c) % 3 == 0
            t = H[a] + H[b] + H[c]
            yield {"k": "parse", "s": "#" + (t.upper() if up else t), "exp": word(17 * a, 17 * b, 17 * c)}
        for a, b, c, d in itertools.product(range(16), repeat=4):
            up = (a + b + c + d) % 5 == 0
            t = H[a] + H[b] + H[c] + H[d]
            yield {"k": "parse", "s": "#" + (t.upper() if up else t), "exp": word(17 * a, 17 * b, 17 * c, 17 * d)}
        n = 1500 if tier == "quick" else 200000
        for _ in range(n):
            v = rng.getrandbits(32)
            r, g, b, a = chans(v)
            if rng.random() < 0.5:
                t, exp = "%02x%02x%02x" % (r, g, b), word(r, g, b)
            else:
                t, exp = "%08x" % v, v
            if rng.random() < 0.4:
                t = t.upper()
            yield {"k": "parse", "s": ("#" if rng.random() < 0.8 else "") + t, "exp": exp}
        for _ in range(n):
            yield self._functional(rng)
        # setters: exhaustive per component on base words
        bases = [0x12345678, 0x00000000, 0xFFFFFFFF, 0x80FF0001]
        for base in bases:
            for ch in CHANNELS:
                for x in list(range(256)) + [-1, -300, 256, 300, 1000]:
                    yield {"k": "set", "ch": ch, "v": base, "x": x}
        for _ in range(n):
            yield {"k": "set", "ch": rng.choice(CHANNELS), "v": rng.getrandbits(32), "x": rng.randint(-50, 320)}
        for _ in range(n // 2):
            ch = rng.choice(PACKS)
            bits = 32 if ch in ("argb", "rgba") else 24
            yield {"k": "setpack", "ch": ch, "v": rng.getrandbits(32), "x": rng.getrandbits(bits)}
        for _ in range(n // 2):
            yield {"k": "hexrt", "v": rng.getrandbits(32) if rng.random() < 0.7 else (rng.getrandbits(24) << 8) | 0xFF}
        for _ in range(n // 3):
            yield {"k": "ctor", "args": [rng.randint(-20, 280) for _ in range(rng.choice([3, 4]))]}
        for _ in range(n // 3):
            yield {"k": "hslset", "v": rng.getrandbits(32), "which": rng.choice(["hue", "saturation", "lightness"]),
                   "x": round(rng.uniform(0, 359), 1)}

    def _functional(self, rng):
        kind = rng.choice(["rgb", "rgbp", "hsl"])
        alpha = None
        if rng.random() < 0.5:
            alpha = rng.choice(["0", "1", "0.5", ".25", "0.8", "1.5", "-0.2", "0.33"])
        sp = lambda: rng.choice(["", " ", "  "])
        if kind == "rgb":
            vals = [num_text(rng, -40, 300) for _ in range(3)]
            body = (sp() + ",").join(sp() + v for v in vals)
            exp = [clamp(float(v)) for v in vals]
        elif kind == "rgbp":
            vals = [num_text(rng, -20, 130) for _ in range(3)]
            body = (sp() + ",").join(sp() + v + "%" for v in vals)
            exp = [clamp(float(v) * 2.55) for v in vals]
        else:
            hue = num_text(rng, -800, 800)
            s, l = num_text(rng, -10, 120), num_text(rng, -10, 120)
            body = sp() + hue + sp() + "," + sp() + s + "%" + sp() + "," + sp() + l + "%"
            hh = (float(hue) / 360.0) % 1.0
            ss, ll = clamp(float(s) / 100.0, 0, 1), clamp(float(l) / 100.0, 0, 1)
            rgb = colorsys.hls_to_rgb(hh, ll, ss)
            exp = [x * 255.0 for x in rgb]
        name = {"rgb": "rgb", "rgbp": "rgb", "hsl": "hsl"}[kind] + ("a" if alpha is not None and rng.random() < 0.7 else "")
        text = name + "(" + body + ((sp() + "," + sp() + alpha + sp()) if alpha is not None else sp()) + ")"
        ea = 255.0 if alpha is None else clamp(float(alpha), 0, 1) * 255.0
        return {"k": "func", "s": text, "exp": exp + [ea], "kind": kind}

    def tag(self, case):
        k = case["k"]
        if k == "parse":
            s = case["s"]
            return "parse.hex%d" % (len(s) - 1) if s.startswith("#") else "parse.keyword"
        if k == "func":
            return "func." + case["kind"]
        if k in ("set", "setpack"):
            return k + "." + case["ch"]
        return k

    def nontrivial(self, case, obs):
        return not (case["k"] == "parse" and case["s"].islower() and not case["s"].startswith("#"))

    # ---------------------------------------------------------------- implementation
    def _all(self, c):
        return {"value": c.value, "red": c.red, "green": c.green, "blue": c.blue, "alpha": c.alpha,
                "rgb": c.rgb, "bgr": c.bgr, "argb": c.argb, "rgba": c.rgba, "hex": c.hex}

    def impl(self, case):
        k = case["k"]
        try:
            if k in ("parse", "func"):
                c = Color(case["s"])
                r = {"value": c.value}
                if c.value is not None:
                    r.update(red=c.red, green=c.green, blue=c.blue, alpha=c.alpha)
                return r
            if k in ("set", "setpack"):
                c = Color()
                c.value = case["v"]
                setattr(c, case["ch"], case["x"])
                return self._all(c)
            if k == "hexrt":
                c = Color()
                c.value = case["v"]
                h = c.hex
                c2 = Color(h)
                return {"hex": h, "back": c2.value, "eq": c2 == c, "get": self._all(c)}
            if k == "ctor":
                c = Color(*case["args"])
                return self._all(c)
            if k == "hslset":
                c = Color()
                c.value = case["v"]
                before = (c.hue, c.saturation, c.lightness, c.alpha)
                setattr(c, case["which"], case["x"])
                return {"before": before, "after": (c.hue, c.saturation, c.lightness, c.alpha), "value": c.value}
        except Exception as e:
            return {"exc": exc_name(e)}

    # ---------------------------------------------------------------- model
    def model_ops(self, case):
        k = case["k"]
        if k in ("parse", "func"):
            return ["c13.parse\t" + shex(case["s"])]
        if k in ("set", "setpack"):
            ops = ["c13.set\t%s\t%d\t%d" % (case["ch"], case["v"], case["x"])]
            return ops
        if k == "hexrt":
            return ["c13.get\thex\t%d" % case["v"]] + ["c13.get\t%s\t%d" % (g, case["v"]) for g in CHANNELS + PACKS]
        if k == "ctor":
            a = case["args"]
            return ["c13.pack\t%d\t%d\t%d\t%d" % (a[0], a[1], a[2], a[3] if len(a) > 3 else 255)]
        return []

    def compare(self, case, obs, outs):
        ms = []
        k = case["k"]
        if "exc" in obs:
            return [Mismatch(stream="c13." + k, case=case, impl=obs, model=outs)]
        if k in ("parse", "func"):
            mv = None if outs[0] == "OK None" else int(outs[0].split()[1])
            iv = obs["value"]
            ok = (mv == iv)
            if not ok and k == "func" and mv is not None and iv is not None:
                # float rounding order in %/hsl forms: allow 1 LSB per channel
                ok = all(abs(a - b) <= 1 for a, b in zip(chans(mv), chans(iv)))
            if not ok:
                ms.append(Mismatch(stream="c13.parse", case=case, impl=iv, model=mv))
        elif k in ("set", "setpack"):
            mv = int(outs[0].split()[1])
            if mv != obs["value"]:
                ms.append(Mismatch(stream="c13.set." + case["ch"], case=case, impl=obs["value"], model=mv))
        elif k == "hexrt":
            digs = [int(x) for x in outs[0].split()[1:]]
            mh = "#" + "".join("0123456789abcdef"[d] for d in digs)
            if mh != obs["hex"]:
                ms.append(Mismatch(stream="c13.hex", case=case, impl=obs["hex"], model=mh))
            for g, o in zip(CHANNELS + PACKS, outs[1:]):
                if int(o.split()[1]) != obs["get"][g]:
                    ms.append(Mismatch(stream="c13.get." + g, case=case, impl=obs["get"][g], model=o))
        elif k == "ctor":
            mv = int(outs[0].split()[1])
            if mv != obs["value"]:
                ms.append(Mismatch(stream="c13.ctor", case=case, impl=obs["value"], model=mv))
        return ms

    # ---------------------------------------------------------------- oracle
    def oracle(self, case, obs):
        fs = []
        k = case["k"]
        if "exc" in obs:
            return [Failure(what="%s raised %s" % (k, obs["exc"]), case=case, observed=obs)]
        if k == "parse":
            if obs["value"] != case["exp"]:
                fs.append(Failure(what="colour spelling %r does not denote its specified value" % case["s"], case=case,
                                  observed=obs["value"], expected=case["exp"]))
            elif case["exp"] is not None and (obs["red"], obs["green"], obs["blue"], obs["alpha"]) != chans(case["exp"]):
                fs.append(Failure(what="channel accessors disagree with the value", case=case, observed=obs))
        elif k == "func":
            if obs["value"] is None:
                return [Failure(what="functional colour parsed as none", case=case, observed=obs)]
            got = (obs["red"], obs["green"], obs["blue"], obs["alpha"])
            tol = 1.0 + 1e-6 if case["kind"] != "rgb" else 0.5 + 1e-9
            for g, e, nm in zip(got, case["exp"], CHANNELS):
                t = 0.5 + 1e-9 if nm == "alpha" else tol
                if abs(g - e) > t:
                    fs.append(Failure(what="%s channel of %r is %d, specification gives %.3f" % (nm, case["s"], g, e),
                                      case=case, observed=got, expected=case["exp"]))
                    break
        elif k == "set":
            v, ch, x = case["v"], case["ch"], case["x"]
            exp = dict(zip(CHANNELS, chans(v)))
            exp[ch] = clamp(x)
            for c in CHANNELS:
                if obs[c] != exp[c]:
                    fs.append(Failure(what="writing %s changed/mis-set %s" % (ch, c), case=case, observed=obs, expected=exp))
                    break
            self._consistency(case, obs, fs)
        elif k == "setpack":
            ch, x = case["ch"], case["x"]
            if obs[ch] != x:
                fs.append(Failure(what="%s getter after setter returns %r" % (ch, obs[ch]), case=case, observed=obs, expected=x))
            if ch in ("rgb", "bgr") and obs["alpha"] != 255:
                fs.append(Failure(what="%s setter must give an opaque colour" % ch, case=case, observed=obs))
            self._consistency(case, obs, fs)
        elif k == "hexrt":
            if obs["back"] != case["v"] or not obs["eq"]:
                fs.append(Failure(what="Color(c.hex) != c", case=case, observed=obs))
            self._consistency(case, obs["get"], fs)
        elif k == "ctor":
            a = case["args"]
            exp = tuple(clamp(x) for x in a[:3]) + ((clamp(a[3]),) if len(a) > 3 else (255,))
            got = (obs["red"], obs["green"], obs["blue"], obs["alpha"])
            if got != exp:
                fs.append(Failure(what="Color(r,g,b[,a]) channels", case=case, observed=got, expected=exp))
            self._consistency(case, obs, fs)
        elif k == "hslset":
            (h0, s0, l0, a0), (h1, s1, l1, a1) = obs["before"], obs["after"]
            if a1 != a0:
                fs.append(Failure(what="hsl setter changed alpha", case=case, observed=obs))
            which, x = case["which"], case["x"]
            # 8-bit quantisation: judge only well-conditioned colours (not near grey/black/white)
            if which == "hue":
                if 0.25 < s0 and 0.2 < l0 < 0.8:
                    d = abs((h1 - x + 180) % 360 - 180)
                    if d > 3.0 or abs(s1 - s0) > 0.06 or abs(l1 - l0) > 0.02:
                        fs.append(Failure(what="hue setter: hue %.1f->%.1f (asked %.1f), s %.3f->%.3f, l %.3f->%.3f" % (h0, h1, x, s0, s1, l0, l1),
                                          case=case, observed=obs))
            else:
                xx = (x % 100) / 100.0
                case_x = xx
                # the setters take fractions
                c = Color()
                c.value = case["v"]
                setattr(c, which, xx)
                hh, ss, ll, aa = c.hue, c.saturation, c.lightness, c.alpha
                if aa != a0:
                    fs.append(Failure(what="%s setter changed alpha" % which, case=case, observed=obs))
                if which == "lightness" and abs(ll - xx) > 0.01:
                    fs.append(Failure(what="lightness setter gives %.3f for %.3f" % (ll, xx), case=case))
                if which == "saturation" and 0.2 < l0 < 0.8 and abs(ss - xx) > 0.06:
                    fs.append(Failure(what="saturation setter gives %.3f for %.3f" % (ss, xx), case=case))
        return fs

    def _consistency(self, case, o, fs):
        v = o["value"]
        r, g, b, a = chans(v)
        rgb = (r << 16) | (g << 8) | b
        # every packed view is a function of the four bytes: a value with stray bits above bit 31 is caught here
        exp = {"red": r, "green": g, "blue": b, "alpha": a, "rgb": rgb, "bgr": (b << 16) | (g << 8) | r,
               "argb": (a << 24) | rgb, "rgba": (rgb << 8) | a, "value": (rgb << 8) | a,
               "hex": "#%02x%02x%02x" % (r, g, b) if a == 255 else "#%02x%02x%02x%02x" % (r, g, b, a)}
        for key, e in exp.items():
            if o.get(key) != e:
                fs.append(Failure(what="accessor %s inconsistent with the colour value" % key, case=case, observed=o.get(key), expected=e))
                return


PROP = C13()
