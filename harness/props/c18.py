"""C18 — copies and derived objects share no mutable state with their source."""
import copy as _copy, json, os, itertools
from core import Prop, Failure, Mismatch, exc_name, VERIF, LEAN
import svgelements as _se_pkg
import svgelements.svgelements as se
from svgelements import (Point, Matrix, Color, Length, Move, Line, Close, QuadraticBezier, CubicBezier, Arc, Path, Rect, Circle,
                         Ellipse, SimpleLine, Polyline, Polygon, Group, SVG, Text, Image, Subpath, Shape)

MOD = "svgelements.svgelements"

# ----------------------------------------------------------------------------- the zoo


def paint(o):
    o.fill = Color("#102030")
    o.stroke = Color("rgba(200,100,50,0.5)")
    o.stroke_width = 2.5
    o.id = "obj"
    o.values["data-k"] = "v"
    return o


def mk_path():
    p = Path("M1,2 L5,6 Q7,8 9,10 C1,1 2,2 3,3 A4,5 30 0,1 20,20 Z M30,30 L40,30 L40,40 z")
    p.transform = Matrix("translate(3,4) scale(2)")
    return paint(p)


MAKERS = {
    "Point": lambda: Point(3, 4),
    "Matrix": lambda: Matrix("translate(3,4) rotate(30)"),
    "Color": lambda: Color("#11223344"),
    "Length": lambda: Length("3in"),
    "Move": lambda: Move(Point(1, 2), Point(3, 4)),
    "Line": lambda: Line(Point(1, 2), Point(3, 4)),
    "Close": lambda: Close(Point(1, 2), Point(3, 4)),
    "QuadraticBezier": lambda: QuadraticBezier(Point(1, 2), Point(3, 4), Point(5, 1)),
    "CubicBezier": lambda: CubicBezier(Point(1, 2), Point(3, 4), Point(5, 1), Point(7, 7)),
    "Arc": lambda: Arc(Point(0, 0), 30, 20, 25, 0, 1, Point(40, 10)),
    "Path": mk_path,
    "Rect": lambda: paint(Rect(1, 2, 30, 20, 3, 4, transform="translate(3,4) scale(2)")),
    "Circle": lambda: paint(Circle(5, 6, 7, transform="translate(3,4) scale(2)")),
    "Ellipse": lambda: paint(Ellipse(5, 6, 7, 3, transform="rotate(20) translate(1,1)")),
    "SimpleLine": lambda: paint(SimpleLine(1, 2, 30, 40, transform="scale(2,3)")),
    "Polyline": lambda: paint(Polyline((1, 2), (3, 4), (10, 0), transform="translate(5,5)")),
    "Polygon": lambda: paint(Polygon((1, 2), (3, 4), (10, 0), transform="scale(-1,2)")),
    "Group": lambda: mk_group(),
    "Text": lambda: paint(Text("hello", x=3, y=4, transform="translate(1,2)")),
    "Image": lambda: mk_image(),
    "Subpath": lambda: mk_path().subpath(1),
}


def identity_variant(make):
    def f():
        o = make()
        if isinstance(o, Group):
            for e in o.select():
                if hasattr(e, "transform") and e.transform is not None:
                    e.transform.reset()
        elif isinstance(o, Subpath):
            pass
        else:
            o.transform.reset()
        return o
    return f


def mk_group():
    g = Group()
    g.id = "g"
    g.transform = Matrix("translate(7,7)")
    g.values["data-k"] = "v"
    inner = Group()
    inner.id = "inner"
    inner.append(MAKERS["Rect"]())
    inner.append(mk_path())
    g.append(inner)
    g.append(MAKERS["Circle"]())
    g.append(MAKERS["Polyline"]())
    return g


def mk_image():
    i = Image({"x": "1", "y": "2", "width": "30", "height": "20", "transform": "scale(2)"})
    i.id = "img"
    return i


M1 = "matrix(2,0.5,-0.5,1.5,7,-3)"

DERIVE = {
    "copy": lambda x: _copy.copy(x),
    "mul": lambda x: x * Matrix(M1),
    "rmul": lambda x: Matrix(M1) * x if isinstance(x, Matrix) else x * M1,
    "abs": lambda x: abs(x),
    "Path": lambda x: Path(x),
    "ctor": lambda x: type(x)(x),
    "invert": lambda x: ~x,
    "add": lambda x: x + Path("M0,0 L1,1"),
    "neg": lambda x: -x,
    "list": lambda x: type(x)(list(x)),
}

APPLICABLE = {
    "Point": ["copy", "mul", "ctor"],
    "Matrix": ["copy", "mul", "rmul", "ctor", "invert"],
    "Color": ["copy", "ctor"],
    "Length": ["copy", "ctor", "neg"],
    "Move": ["copy", "mul", "Path"], "Line": ["copy", "mul", "Path"], "Close": ["copy", "mul", "Path"],
    "QuadraticBezier": ["copy", "mul", "Path"], "CubicBezier": ["copy", "mul", "Path"], "Arc": ["copy", "mul", "Path"],
    "Path": ["copy", "mul", "rmul", "abs", "Path", "add"],
    "Rect": ["copy", "mul", "rmul", "abs", "Path", "ctor"], "Circle": ["copy", "mul", "abs", "Path", "ctor"],
    "Ellipse": ["copy", "mul", "abs", "Path", "ctor"], "SimpleLine": ["copy", "mul", "abs", "Path", "ctor"],
    "Polyline": ["copy", "mul", "abs", "Path", "ctor"], "Polygon": ["copy", "mul", "abs", "Path", "ctor"],
    "Group": ["copy", "mul", "abs", "ctor"],
    "Text": ["copy", "mul", "abs", "ctor"],
    "Image": ["copy", "mul", "abs", "ctor"],
    "Subpath": ["copy", "mul", "Path", "add"],
}

# the same classes with an identity transform (fast paths that depend on it)
for _c in ["Path", "Rect", "Circle", "Ellipse", "SimpleLine", "Polyline", "Polygon", "Group", "Text", "Image"]:
    MAKERS[_c + "0"] = identity_variant(MAKERS[_c])
    APPLICABLE[_c + "0"] = APPLICABLE[_c]

# ----------------------------------------------------------------------------- value snapshots (public state only)


def fnum(v):
    if v is None:
        return None
    if isinstance(v, Length):
        return ["L", float(v.amount), v.units]
    try:
        return round(float(v), 9)
    except Exception:
        return repr(v)


def snap(o):
    """the value of an object as a JSON-able structure, from public state"""
    if o is None or isinstance(o, (bool, str)):
        return o
    if isinstance(o, (int, float)):
        return fnum(o)
    if isinstance(o, Point):
        return ["P", fnum(o.x), fnum(o.y)]
    if isinstance(o, Matrix):
        return ["M"] + [fnum(v) for v in (o.a, o.b, o.c, o.d, o.e, o.f)]
    if isinstance(o, Color):
        return ["C", o.value]
    if isinstance(o, Length):
        return ["L", fnum(o.amount), o.units]
    if isinstance(o, se.PathSegment):
        d = [type(o).__name__, snap(o.start), snap(o.end), bool(getattr(o, "relative", False)), bool(getattr(o, "smooth", False))]
        if isinstance(o, QuadraticBezier):
            d.append(snap(o.control))
        elif isinstance(o, CubicBezier):
            d += [snap(o.control1), snap(o.control2)]
        elif isinstance(o, Arc):
            d += [snap(o.center), snap(o.prx), snap(o.pry), fnum(o.sweep)]
        return d
    if isinstance(o, Subpath):
        return ["Subpath", [snap(s) for s in o]]
    if isinstance(o, dict):
        return {str(k): snap(v) for k, v in sorted(o.items(), key=lambda kv: str(kv[0])) if k != "attributes"}
    if isinstance(o, (list, tuple)) and not isinstance(o, se.SVGElement):
        return [snap(v) for v in o]
    if isinstance(o, se.SVGElement):
        d = {"class": type(o).__name__, "id": o.id, "values": snap(o.values)}
        if hasattr(o, "transform"):
            d["transform"] = snap(o.transform)
        for k in ("fill", "stroke"):
            if hasattr(o, k):
                d[k] = snap(getattr(o, k))
        if hasattr(o, "stroke_width"):
            d["stroke_width"] = fnum(o.stroke_width)
        if isinstance(o, Path):
            d["segments"] = [snap(s) for s in o]
        for k in ("x", "y", "width", "height", "rx", "ry", "cx", "cy", "x1", "y1", "x2", "y2", "text", "font_size", "anchor", "url", "preserve_aspect_ratio"):
            if hasattr(o, k):
                v = getattr(o, k)
                d[k] = v if isinstance(v, str) else fnum(v)
        if hasattr(o, "points") and isinstance(o, se._Polyshape):
            d["points"] = [snap(p) for p in o.points]
        if isinstance(o, (Group, SVG)):
            d["children"] = [snap(c) for c in o]
        return d
    return repr(o)


# ----------------------------------------------------------------------------- the object graph (introspection)

IMMUTABLE = (int, float, complex, str, bytes, bool, type(None), range, type, type(len), type(lambda: 0), type(snap.__code__))


def is_mutable_cell(o):
    if isinstance(o, IMMUTABLE):
        return False
    if isinstance(o, (list, dict, set, bytearray)):
        return True
    if isinstance(o, (tuple, frozenset)):
        return False
    return type(o).__module__.startswith("svgelements")


def successors(o):
    if isinstance(o, dict):
        return list(o.keys()) + list(o.values())
    if isinstance(o, (list, tuple, set, frozenset)):
        out = list(o)
    else:
        out = []
    if hasattr(o, "__dict__"):
        out += list(vars(o).values())
    if hasattr(type(o), "__slots__"):
        out += [getattr(o, s) for s in type(o).__slots__ if hasattr(o, s)]
    return out


def graph(root):
    """(nodes: id -> object, edges: id -> [id]) over everything reachable from `root` through containers, instance
    dictionaries and slots; immutable leaves are dropped"""
    nodes, edges, todo = {}, {}, [root]
    while todo:
        o = todo.pop()
        if id(o) in nodes or isinstance(o, IMMUTABLE):
            continue
        nodes[id(o)] = o
        succ = [s for s in successors(o) if not isinstance(s, IMMUTABLE)]
        edges[id(o)] = [id(s) for s in succ]
        todo += succ
    return nodes, edges


def sharing(x, y):
    """mutable cells reachable from both x and y"""
    nx, _ = graph(x)
    ny, _ = graph(y)
    return [nx[i] for i in nx if i in ny and is_mutable_cell(nx[i])]


# ----------------------------------------------------------------------------- mutations through the public interface

def mutations(o, rng):
    """a list of (name, thunk) that mutate `o` in place through public API"""
    ms = []
    M = Matrix("matrix(1.5,0.25,-0.5,2,11,-7)")
    if isinstance(o, Point):
        ms += [("x+=1", lambda: setattr(o, "x", o.x + 1)), ("p*=M", lambda: o.__imul__(M)), ("p+=1,1", lambda: o.__iadd__(Point(1, 1)))]
    elif isinstance(o, Matrix):
        ms += [("pre_translate", lambda: o.pre_translate(5, 6)), ("post_scale", lambda: o.post_scale(2, 3)), ("a=9", lambda: setattr(o, "a", 9.0)),
               ("reset", lambda: o.reset()), ("*=", lambda: o.__imul__(M))]
    elif isinstance(o, Color):
        ms += [("red", lambda: setattr(o, "red", (o.red + 17) % 256)), ("opacity", lambda: setattr(o, "opacity", 0.25)), ("value", lambda: setattr(o, "value", 0x01020304))]
    elif isinstance(o, Length):
        ms += [("*=2", lambda: o.__imul__(2)), ("amount", lambda: setattr(o, "amount", o.amount + 1))]
    elif isinstance(o, se.PathSegment):
        ms += [("end.x+=1", lambda: setattr(o.end, "x", o.end.x + 1)), ("seg*=M", lambda: o.__imul__(M)), ("end=Point", lambda: setattr(o, "end", Point(99, 98)))]
        if o.start is not None:
            ms.append(("start*=M", lambda: o.start.__imul__(M)))
        if isinstance(o, CubicBezier):
            ms.append(("control1.y", lambda: setattr(o.control1, "y", o.control1.y - 3)))
        if isinstance(o, QuadraticBezier):
            ms.append(("control*=M", lambda: o.control.__imul__(M)))
        if isinstance(o, Arc):
            ms.append(("center.x", lambda: setattr(o.center, "x", o.center.x + 2)))
            ms.append(("prx*=M", lambda: o.prx.__imul__(M)))
    elif isinstance(o, Subpath):
        ms += [("sub*=M", lambda: o.__imul__(M)), ("sub[0].end", lambda: setattr(o[0].end, "x", o[0].end.x + 1)), ("sub.reverse", lambda: o.reverse())]
    elif isinstance(o, se.SVGElement):
        ms += [("values[k]", lambda: o.values.__setitem__("data-k", "changed")), ("values[new]", lambda: o.values.__setitem__("new", "1")),
               ("id", lambda: setattr(o, "id", "renamed"))]
        if hasattr(o, "transform") and o.transform is not None:
            ms += [("el*=M", lambda: o.__imul__(M)), ("transform.pre_translate", lambda: o.transform.pre_translate(2, 3)),
                   ("transform.reset", lambda: o.transform.reset())]
            if hasattr(o, "reify"):
                ms.append(("reify", lambda: o.reify()))
        if getattr(o, "fill", None) is not None and o.fill.value is not None:
            ms += [("fill.red", lambda: setattr(o.fill, "red", (o.fill.red + 31) % 256)), ("fill=Color", lambda: setattr(o, "fill", Color("lime")))]
        if getattr(o, "stroke", None) is not None and o.stroke.value is not None:
            ms += [("stroke.opacity", lambda: setattr(o.stroke, "opacity", 0.75))]
        if hasattr(o, "stroke_width"):
            ms.append(("stroke_width", lambda: setattr(o, "stroke_width", 9.5)))
        if isinstance(o, Path) and len(o) > 2:
            ms += [("seg.end.x", lambda: setattr(o[1].end, "x", o[1].end.x + 5)), ("seg*=M", lambda: o[1].__imul__(M)),
                   ("del seg", lambda: o.__delitem__(len(o) - 1)), ("append", lambda: o.append(Line(Point(0, 0), Point(1, 1)))),
                   ("seg.start=", lambda: setattr(o[2], "start", Point(-1, -1))), ("path.reverse", lambda: o.reverse()),
                   ("seg[1]=", lambda: o.__setitem__(1, Line(Point(5, 5), Point(6, 6))))]
        if isinstance(o, se._Polyshape) and len(o.points) > 1:
            ms += [("points[0].x", lambda: setattr(o.points[0], "x", o.points[0].x + 4)), ("points.append", lambda: o.points.append(Point(8, 8))),
                   ("points[1]*=M", lambda: o.points[1].__imul__(M))]
        if isinstance(o, Rect):
            ms += [("x", lambda: setattr(o, "x", o.x + 1)), ("rx", lambda: setattr(o, "rx", 1.0))]
        if isinstance(o, (Circle, Ellipse)):
            ms += [("cx", lambda: setattr(o, "cx", o.cx + 1)), ("rx", lambda: setattr(o, "rx", o.rx + 1))]
        if isinstance(o, SimpleLine):
            ms += [("x1", lambda: setattr(o, "x1", o.x1 + 1))]
        if isinstance(o, Text):
            ms += [("text", lambda: setattr(o, "text", "bye"))]
        if isinstance(o, Group) and len(o) > 0:
            ms += [("child*=M", lambda: o[0].__imul__(M)), ("append child", lambda: o.append(Rect(0, 0, 1, 1))), ("del child", lambda: o.__delitem__(len(o) - 1)),
                   ("child.values", lambda: o[0].values.__setitem__("data-k", "deep"))]
            leaf = [e for e in o.select() if isinstance(e, Shape)]
            if leaf:
                ms += [("leaf.fill.red", lambda: setattr(leaf[0].fill, "red", 7) if leaf[0].fill is not None and leaf[0].fill.value is not None else None),
                       ("leaf*=M", lambda: leaf[0].__imul__(M)), ("leaf.reify", lambda: leaf[0].reify())]
                paths = [e for e in leaf if isinstance(e, Path) and len(e) > 1]
                if paths:
                    ms.append(("leafpath.seg.end", lambda: setattr(paths[0][1].end, "y", paths[0][1].end.y + 1)))
    return ms


class C18(Prop):
    id = "C18"
    exhaustive = True
    exhaustive_note = "every class of the zoo (21) x every applicable derivation (80 pairs): object-graph separation by introspection, kernel-checked"
    generated_modules = ("Generated.C18_Sharing",)
    rule = ("(table) for each class x derivation: the object graphs of source and result (every object reachable through instance "
            "dictionaries, slots, lists, tuples, dicts) are extracted by introspection, written to Generated/C18_Sharing.lean and "
            "checked disjoint on mutable cells by the Lean kernel; (history) derive, then 1-6 random public mutations applied to the "
            "result and then to the source (or the other way round): the value snapshot (public state: geometry, segments and their "
            "points, transform, paint, id, values, children) of the untouched side must not change; the derivation itself must not "
            "change the operand; copy/ctor results must be equal in value to the source. non-trivial = the mutated side's snapshot changed")
    trusted_base = [
        "CPython object model: id() identity, vars()/__slots__ as the complete set of references an instance holds",
        "the value snapshot function (harness/props/c18.py: snap) observes the public state the property names",
        "public mutators write only into cells reachable from their receiver, storing their arguments or fresh objects "
        "(the hypothesis `Allowed` of the frame theorem; exercised, not proved, by the random histories)",
    ]
    assumptions = ["Path.subpath(i)/as_subpaths() are views by design; only copies/derivations of a Subpath are covered"]

    # ---------------------------------------------------------------- generated table
    def regenerate(self, ctx):
        rows = []
        problems = []
        for cls, ders in APPLICABLE.items():
            for dname in ders:
                try:
                    x = MAKERS[cls]()
                    y = DERIVE[dname](x)
                except Exception as e:
                    problems.append("derivation %s(%s) raised %s" % (dname, cls, exc_name(e)))
                    continue
                nx, ex = graph(x)
                ny, ey = graph(y)
                ids = {}
                for i in list(nx) + list(ny):
                    ids.setdefault(i, len(ids))
                nodes = dict(nx)
                nodes.update(ny)
                edges = {}
                for src in (ex, ey):
                    for a, succ in src.items():
                        edges[ids[a]] = sorted({ids[b] for b in succ})
                mut = sorted(ids[i] for i in nodes if is_mutable_cell(nodes[i]))
                rows.append((cls, dname, ids[id(x)], ids[id(y)], sorted(ids[i] for i in nx), sorted(ids[i] for i in ny), edges, mut))
        self._rows = rows
        path = os.path.join(LEAN, "Generated", "C18_Sharing.lean")
        lines = ["/- GENERATED by harness/props/c18.py from /repo's working tree on every run: the object graphs of source and",
                 "   derived object for every class x derivation, as observed by introspection. Do not edit. -/",
                 "import SvgVerif.Spec.Heap", "namespace Svg.Heap.Generated", "",
                 "def observed : List Case := ["]
        body = []
        for cls, dname, rx, ry, cx, cy, edges, mut in rows:
            e = ", ".join("(%d, [%s])" % (a, ", ".join(map(str, s))) for a, s in sorted(edges.items()))
            body.append('  { name := "%s.%s", x := %d, y := %d, cx := [%s], cy := [%s], mutable := [%s],\n    edges := [%s] }' % (
                cls, dname, rx, ry, ", ".join(map(str, cx)), ", ".join(map(str, cy)), ", ".join(map(str, mut)), e))
        lines.append(",\n".join(body))
        lines += ["]", "", "end Svg.Heap.Generated", ""]
        text = "\n".join(lines)
        old = open(path).read() if os.path.exists(path) else None
        if old != text:
            with open(path, "w") as f:
                f.write(text)
        return problems

    # ---------------------------------------------------------------- cases
    def cases(self, rng, tier):
        for cls, ders in APPLICABLE.items():
            for d in ders:
                yield {"k": "table", "cls": cls, "der": d}
        n = 6 if tier == "quick" else 120
        for cls, ders in APPLICABLE.items():
            for d in ders:
                for j in range(n):
                    yield {"k": "hist", "cls": cls, "der": d, "seed": rng.randrange(1 << 30), "first": "result" if j % 2 == 0 else "source",
                           "pre": [0, 0, 1, 2, 3][j % 5]}

    def tag(self, case):
        return [case["k"], "class=" + case["cls"], "derive=" + case["der"]]

    def nontrivial(self, case, obs):
        return bool(obs.get("changed")) or case["k"] == "table"

    # ---------------------------------------------------------------- implementation
    def impl(self, case):
        import random
        cls, dname = case["cls"], case["der"]
        x = MAKERS[cls]()
        pre = []
        if case["k"] == "hist" and case.get("pre"):
            # a history before the derivation: the source is not in its freshly constructed state
            prng = random.Random(case["seed"] ^ 0x5a5a)
            for _ in range(case["pre"]):
                ms = mutations(x, prng)
                if ms:
                    name, thunk = prng.choice(ms)
                    try:
                        thunk()
                        pre.append(name)
                    except Exception:
                        pass
        s0 = snap(x)
        try:
            y = DERIVE[dname](x)
        except Exception as e:
            return {"exc": exc_name(e), "msg": str(e)[:100]}
        obs = {"operand_untouched": snap(x) == s0, "same_object": y is x}
        if dname in ("copy", "ctor"):
            obs["equal_value"] = snap(y) == s0
            if snap(y) != s0:
                obs["diff"] = first_diff(s0, snap(y))
        shared = sharing(x, y)
        obs["shared"] = sorted({type(o).__name__ for o in shared})
        if case["k"] == "table":
            return obs
        rng = random.Random(case["seed"])
        log = ["pre:" + p for p in pre]
        changed = False
        order = [("result", y, "source", x), ("source", x, "result", y)]
        if case["first"] == "source":
            order.reverse()
        for side, target, other_name, other in order:
            before = snap(other)
            for _ in range(rng.randint(1, 6)):
                ms = mutations(target, rng)
                if not ms:
                    break
                name, thunk = rng.choice(ms)
                t0 = snap(target)
                try:
                    thunk()
                except Exception as e:
                    log.append("%s.%s raised %s" % (side, name, exc_name(e)))
                    continue
                log.append("%s.%s" % (side, name))
                if snap(target) != t0:
                    changed = True
                after = snap(other)
                if after != before:
                    obs["interference"] = {"after": "%s.%s" % (side, name), "on": other_name, "diff": first_diff(before, after), "log": list(log)}
                    obs["changed"] = changed
                    return obs
        obs["changed"] = changed
        obs["log"] = log
        return obs

    # ---------------------------------------------------------------- model: the kernel-checked table
    def model_ops(self, case):
        return []

    def compare(self, case, obs, outs):
        return []

    def oracle(self, case, obs):
        fs = []
        name = "%s(%s)" % (case["der"], case["cls"])
        if "exc" in obs:
            return [Failure(what="%s raised %s" % (name, obs["exc"]), case=case, observed=obs)]
        if not obs["operand_untouched"]:
            fs.append(Failure(what="%s modified its operand" % name, case=case))
        if obs["same_object"]:
            fs.append(Failure(what="%s returned the operand itself" % name, case=case))
        if obs.get("equal_value") is False:
            fs.append(Failure(what="%s is not equal in value to its source: %s" % (name, obs.get("diff")), case=case))
        if obs["shared"]:
            fs.append(Failure(what="%s shares mutable cells with its source: %s" % (name, obs["shared"]), case=case, observed=obs["shared"]))
        if "interference" in obs:
            i = obs["interference"]
            fs.append(Failure(what="%s: after %s the %s changed (%s)" % (name, i["after"], i["on"], i["diff"]), case=case, observed=i))
        return fs


def first_diff(a, b, path=""):
    if type(a) != type(b):
        return "%s: %r vs %r" % (path, a, b)
    if isinstance(a, dict):
        for k in sorted(set(a) | set(b)):
            if k not in a or k not in b:
                return "%s.%s: only on one side" % (path, k)
            d = first_diff(a[k], b[k], path + "." + k)
            if d:
                return d
        return None
    if isinstance(a, list):
        if len(a) != len(b):
            return "%s: length %d vs %d" % (path, len(a), len(b))
        for i, (u, v) in enumerate(zip(a, b)):
            d = first_diff(u, v, "%s[%d]" % (path, i))
            if d:
                return d
        return None
    return None if a == b else "%s: %r vs %r" % (path, a, b)


PROP = C18()
