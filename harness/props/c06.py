"""C06 — basic shapes are interchangeable with their SVG 2 equivalent paths."""
import math
from core import Prop, Failure, Mismatch, fhex, exc_name
import gen, geo
from props.c02 import orth_images
from svgelements import (Matrix, Point, Path, Move, Line, Close, Arc, Rect, Circle, Ellipse, SimpleLine, Polyline, Polygon, Length)

TS5 = geo.TS[:5]
FINDING = "C06-roundshape-segments"
FINDING_G = "C06-arc-d-6digits"


def used_radii(rx, ry, w, h):
    """SVG 2 10.2 used values; rx/ry are None (auto), numbers, or 'N%' strings"""
    def res(v, ref):
        if v is None:
            return None
        if isinstance(v, str) and v.endswith("%"):
            return float(v[:-1]) / 100.0 * ref
        return float(v)
    a, b = res(rx, w), res(ry, h)
    if a is None and b is None:
        return 0.0, 0.0
    if a is None:
        a = b
    if b is None:
        b = a
    if a == 0 or b == 0:
        return 0.0, 0.0
    return min(a, w / 2.0), min(b, h / 2.0)


def spec_d(d):
    """the SVG 2 chapter 10 equivalent path of a shape, as path data"""
    k = d["k"]
    if k == "rect":
        x, y, w, h = d["x"], d["y"], d["w"], d["h"]
        if w == 0 or h == 0:
            return ""
        rx, ry = used_radii(d["rx"], d["ry"], w, h)
        if rx == 0 and ry == 0:
            return "M%r,%r H%r V%r H%r Z" % (x, y, x + w, y + h, x)
        return ("M%r,%r H%r A%r,%r 0 0 1 %r,%r V%r A%r,%r 0 0 1 %r,%r H%r A%r,%r 0 0 1 %r,%r V%r A%r,%r 0 0 1 %r,%r Z" % (
            x + rx, y, x + w - rx, rx, ry, x + w, y + ry, y + h - ry, rx, ry, x + w - rx, y + h, x + rx, rx, ry, x, y + h - ry,
            y + ry, rx, ry, x + rx, y))
    if k in ("circle", "ellipse"):
        cx, cy = d["cx"], d["cy"]
        rx, ry = (d["r"], d["r"]) if k == "circle" else (d["rx"], d["ry"])
        if rx == 0 or ry == 0:
            return ""
        return "M%r,%r A%r,%r 0 0 1 %r,%r A%r,%r 0 0 1 %r,%r A%r,%r 0 0 1 %r,%r A%r,%r 0 0 1 %r,%r Z" % (
            cx + rx, cy, rx, ry, cx, cy + ry, rx, ry, cx - rx, cy, rx, ry, cx, cy - ry, rx, ry, cx + rx, cy)
    if k == "line":
        return "M%r,%r L%r,%r" % (d["x1"], d["y1"], d["x2"], d["y2"])
    pts = d["pts"]
    if not pts:
        return ""
    s = "M%r,%r" % tuple(pts[0]) + "".join(" L%r,%r" % tuple(p) for p in pts[1:])
    return s + (" Z" if k == "polygon" else "")


def rand_shape(rng):
    k = rng.choice(["rect", "rect", "rect", "circle", "ellipse", "line", "polyline", "polygon"])
    c = lambda: round(rng.uniform(-200, 200), 2)
    sz = lambda: round(rng.uniform(0.5, 300), 2)
    if k == "rect":
        w, h = sz(), sz()
        if rng.random() < 0.06:
            w = 0.0
        elif rng.random() < 0.06:
            h = 0.0

        def rad(ref):
            r = rng.random()
            if r < 0.3:
                return None
            if r < 0.4:
                return 0.0
            if r < 0.55:
                return round(ref * rng.uniform(0.5, 3), 2)        # over-large
            if r < 0.7:
                return "%d%%" % rng.choice([5, 10, 25, 50, 80])
            return round(ref * rng.uniform(0.02, 0.5), 2)
        return {"k": k, "x": c(), "y": c(), "w": w, "h": h, "rx": rad(w or 1), "ry": rad(h or 1)}
    if k == "circle":
        return {"k": k, "cx": c(), "cy": c(), "r": sz() if rng.random() > 0.06 else 0.0}
    if k == "ellipse":
        rx, ry = sz(), sz()
        if rng.random() < 0.08:
            rx = 0.0
        return {"k": k, "cx": c(), "cy": c(), "rx": rx, "ry": ry}
    if k == "line":
        return {"k": k, "x1": c(), "y1": c(), "x2": c(), "y2": c()}
    n = rng.choice([0, 1, 2, 3, 4, 5, 8])
    pts = [[c(), c()] for _ in range(n)]
    if n >= 3 and rng.random() < 0.3:
        pts[1] = list(pts[0])          # repeated point: zero-length line kept
    return {"k": k, "pts": pts}


def build(d, form):
    k = d["k"]
    if k == "rect":
        kw = {"x": d["x"], "y": d["y"], "width": d["w"], "height": d["h"]}
        if d["rx"] is not None:
            kw["rx"] = d["rx"]
        if d["ry"] is not None:
            kw["ry"] = d["ry"]
        if form == "pos" and not isinstance(d["rx"], str) and not isinstance(d["ry"], str) and d["rx"] is not None and d["ry"] is not None:
            return Rect(d["x"], d["y"], d["w"], d["h"], d["rx"], d["ry"])
        if form == "dict":
            return Rect({k2: str(v) for k2, v in kw.items()})
        return Rect(**kw)
    if k == "circle":
        if form == "pos":
            return Circle(d["cx"], d["cy"], d["r"])
        if form == "dict":
            return Circle({"cx": str(d["cx"]), "cy": str(d["cy"]), "r": str(d["r"])})
        return Circle(cx=d["cx"], cy=d["cy"], r=d["r"])
    if k == "ellipse":
        if form == "pos":
            return Ellipse(d["cx"], d["cy"], d["rx"], d["ry"])
        if form == "dict":
            return Ellipse({"cx": str(d["cx"]), "cy": str(d["cy"]), "rx": str(d["rx"]), "ry": str(d["ry"])})
        return Ellipse(cx=d["cx"], cy=d["cy"], rx=d["rx"], ry=d["ry"])
    if k == "line":
        if form == "pos":
            return SimpleLine(d["x1"], d["y1"], d["x2"], d["y2"])
        if form == "dict":
            return SimpleLine({"x1": str(d["x1"]), "y1": str(d["y1"]), "x2": str(d["x2"]), "y2": str(d["y2"])})
        return SimpleLine(x1=d["x1"], y1=d["y1"], x2=d["x2"], y2=d["y2"])
    cls = Polyline if k == "polyline" else Polygon
    if form == "dict":
        return cls({"points": " ".join("%r,%r" % tuple(p) for p in d["pts"])})
    if form == "kw":
        return cls(points=[tuple(p) for p in d["pts"]])
    return cls(*[tuple(p) for p in d["pts"]])


def round_consistent(sampled, d, M, on_ellipse):
    """the recorded round-shape finding in its own terms: the transformed segments still form ONE closed, connected outline
    (every segment starts where its predecessor ended, the last returns to the first point), and - when the images of the
    unit vectors are orthogonal, i.e. only the traversal direction is affected - every sampled point lies on the image of
    the ellipse. Anything else is a different defect and is not attributed to the finding."""
    if not sampled:
        return False
    tolc = 1e-7 * max([1.0] + [abs(v) for sg in sampled for p in sg[1:] for v in p])
    first = sampled[0][1]
    prev_end = None
    for sg in sampled:
        start, end = sg[1], sg[2]          # TS5 = [0, 1, .5, .25, .75]
        if prev_end is not None and geo.pdist(start, prev_end) > tolc:
            return False
        prev_end = end
    if geo.pdist(prev_end, first) > tolc:
        return False
    # the four quadrant arcs close the outline by themselves: the closepath that follows has no length
    for sg in sampled:
        if sg[0] == "Close" and geo.pdist(sg[1], sg[2]) > tolc:
            return False
    if on_ellipse:
        det = M[0] * M[3] - M[2] * M[1]
        if abs(det) < 1e-12:
            return True
        cx, cy, rx, ry = d.get("cx", 0.0) or 0.0, d.get("cy", 0.0) or 0.0, abs(d.get("rx") or 0.0), abs(d.get("ry") or 0.0)
        if rx == 0 or ry == 0:
            return True
        for sg in sampled:
            if sg[0] != "Arc":
                continue
            for x, y in sg[1:]:
                X, Y = x - M[4], y - M[5]
                u, v = (M[3] * X - M[2] * Y) / det, (-M[1] * X + M[0] * Y) / det
                if abs(((u - cx) / rx) ** 2 + ((v - cy) / ry) ** 2 - 1.0) > 1e-6:
                    return False
    return True


def samples(segs):
    return [[geo.kind(s)] + geo.sample(s, TS5) for s in segs]


class C06(Prop):
    id = "C06"
    rule = ("the six basic shapes: rects with rx/ry given/omitted/zero/over-large/percent and zero sides, circles/ellipses incl. zero "
            "radius, lines, polylines/polygons of 0-8 points incl. repeated points; built from keywords, positional arguments and "
            "attribute dictionaries with strings; crossed with identity/similarity/reflection/anisotropic/shear transforms. Oracle: the "
            "SVG 2 chapter 10 equivalent path written as path data from the specification; compared segment-wise (kind, start, "
            "direction, order, sampled points) with shape.segments(), Path(shape), Path(shape.d()); shape==Path(shape); bbox and length "
            "agreement between the routes. non-trivial = shape yields segments; distinct by canonical JSON")
    trusted_base = [
        "Path(d-string) parsing of the specification path is C01's subject; d() printing is C07's (12 significant digits; 6 for arc radii)",
        "length agreement is checked with error=1e-5 (chord recursion of C15)",
    ]

    def cases(self, rng, tier):
        n = 700 if tier == "quick" else 9000
        for _ in range(n):
            d = rand_shape(rng)
            yield {"k": "shape", "shape": d, "form": rng.choice(["kw", "pos", "dict"]),
                   "M": gen.matrix_invertible(rng) if rng.random() < 0.7 else None}

    def tag(self, case):
        d = case["shape"]
        t = ["shape." + d["k"], "form." + case["form"]]
        if d["k"] == "rect":
            t.append("rx=%s,ry=%s" % ("auto" if d["rx"] is None else "pct" if isinstance(d["rx"], str) else "zero" if d["rx"] == 0 else "num",
                                      "auto" if d["ry"] is None else "pct" if isinstance(d["ry"], str) else "zero" if d["ry"] == 0 else "num"))
        return t

    def nontrivial(self, case, obs):
        return spec_d(case["shape"]) != ""

    def impl(self, case):
        d = case["shape"]
        try:
            sh = build(d, case["form"])
            out = {"own": samples(sh.segments(transformed=False)), "wire": [geo.wire(s) for s in sh.segments(transformed=False)]}
            if d["k"] == "rect":
                out["radii"] = [float(sh.rx), float(sh.ry)]
            if case["M"] is not None:
                sh *= Matrix(*case["M"])
            out["seg_t"] = samples(sh.segments(transformed=True))
            P = Path(sh)
            out["path_abs"] = samples(abs(P))
            import pathlib_ as _pl
            from svgelements import Arc as _Arc
            out["path_d_pred6"] = [[geo.kind(sg)] + (_pl.arc_pred6(sg, TS5) if isinstance(sg, _Arc) else geo.sample(sg, TS5)) for sg in abs(P)]
            dstr = sh.d()
            out["d"] = dstr
            Pd = Path(dstr)
            out["path_d"] = samples(Pd)
            out["eq_path"] = bool(sh == P)
            out["eq_abs"] = bool(abs(P) == abs(Path(sh)))
            bb_p, bb_d, bb_s = abs(P).bbox(), Pd.bbox(), sh.bbox()
            out["bbox"] = [None if b is None else [float(v) for v in b] for b in (bb_p, bb_d, bb_s)]
            out["len"] = [float(abs(P).length(error=1e-5, min_depth=4)), float(Pd.length(error=1e-5, min_depth=4))]
            out["abs_shape"] = samples(abs(sh).segments(transformed=True)) if hasattr(sh, "segments") else None
            return out
        except Exception as e:
            import traceback
            return {"exc": exc_name(e), "tb": traceback.format_exc()[-400:]}

    # ---------------------------------------------------------------- model
    def model_ops(self, case):
        d = case["shape"]
        k = d["k"]
        if k == "rect":
            def r(v, ref):
                if v is None:
                    return "-"
                if isinstance(v, str):
                    return fhex(float(v[:-1]) / 100.0 * ref)
                return fhex(v)
            return ["c06.rect\t%s\t%s\t%s" % (" ".join(fhex(v) for v in (d["x"], d["y"], d["w"], d["h"])), r(d["rx"], d["w"]), r(d["ry"], d["h"]))]
        if k == "circle":
            return ["c06.round\t" + " ".join(fhex(v) for v in (d["cx"], d["cy"], d["r"], d["r"]))]
        if k == "ellipse":
            return ["c06.round\t" + " ".join(fhex(v) for v in (d["cx"], d["cy"], d["rx"], d["ry"]))]
        if k == "line":
            return ["c06.poly\t0\t" + " ".join(fhex(v) for v in (d["x1"], d["y1"], d["x2"], d["y2"]))]
        return ["c06.poly\t%s\t%s" % ("1" if k == "polygon" else "0", " ".join(fhex(v) for p in d["pts"] for v in p))]

    def compare(self, case, obs, outs):
        if "exc" in obs:
            return [Mismatch(stream="c06.segments", case=case, impl=obs, model=outs[0])]
        body = outs[0][3:].strip() if outs[0].startswith("OK") else None
        msegs = [x.strip() for x in body.split("|")] if body else []
        isegs = obs["wire"]
        if len(msegs) != len(isegs):
            return [Mismatch(stream="c06.segments.count", case=case, impl=isegs, model=msegs)]
        from core import hexf
        for a, b in zip(isegs, msegs):
            ta, tb = a.split(), b.split()
            if ta[0] != tb[0] or len(ta) != len(tb):
                return [Mismatch(stream="c06.segments.kind", case=case, impl=a, model=b)]
            for u, v in zip(ta[1:], tb[1:]):
                if u == "-" or v == "-":
                    if u != v:
                        return [Mismatch(stream="c06.segments.start", case=case, impl=a, model=b)]
                    continue
                x, y = hexf(u), hexf(v)
                if abs(x - y) > 1e-9 * max(1.0, abs(x), abs(y)):
                    return [Mismatch(stream="c06.segments.value", case=case, impl=a, model=b)]
        return []

    # ---------------------------------------------------------------- oracle
    @staticmethod
    def _round_params(d):
        if d["k"] == "circle":
            return {"cx": d.get("cx", 0.0), "cy": d.get("cy", 0.0), "rx": d.get("r", 0.0), "ry": d.get("r", 0.0)}
        return {"cx": d.get("cx", 0.0), "cy": d.get("cy", 0.0), "rx": d.get("rx", 0.0), "ry": d.get("ry", 0.0)}

    @staticmethod
    def _cmp(a, b, tol):
        if len(a) != len(b):
            return "segment count %d vs %d" % (len(a), len(b))
        for i, (x, y) in enumerate(zip(a, b)):
            if x[0] != y[0]:
                return "segment %d kind %s vs %s" % (i, x[0], y[0])
            dd = max(geo.pdist(p, q) for p, q in zip(x[1:], y[1:]))
            if dd > tol:
                return "segment %d deviates by %.3g" % (i, dd)
        return None

    def oracle(self, case, obs):
        if "exc" in obs:
            return [Failure(what="shape route raised %s" % obs["exc"], case=case, observed=obs)]
        fs = []
        d = case["shape"]
        M = case["M"] or gen.IDENT
        sd = spec_d(d)
        spec = Path(sd) if sd else Path()
        spec_own = samples(spec)
        spec_t = samples(abs(spec * Matrix(*M))) if sd else []
        scale = max([1.0] + [abs(v) for s in spec_t for p in s[1:] for v in p] + [abs(v) for s in spec_own for p in s[1:] for v in p])
        tol = 1e-7 * scale + 1e-9
        if d["k"] == "rect" and d["w"] != 0 and d["h"] != 0:
            ur = used_radii(d["rx"], d["ry"], d["w"], d["h"])
            if max(abs(obs["radii"][0] - ur[0]), abs(obs["radii"][1] - ur[1])) > 1e-9 * max(1.0, d["w"], d["h"]):
                fs.append(Failure(what="rect corner radii %r, SVG 2 used values %r" % (obs["radii"], list(ur)), case=case))
                return fs
        bad = self._cmp(obs["own"], spec_own, tol)
        if bad:
            fs.append(Failure(what="segments(transformed=False) vs SVG 2 equivalent path: " + bad, case=case, observed=obs["own"], expected=spec_own))
            return fs
        curved = any(x[0] == "Arc" for x in spec_own)
        round_nonorth = d["k"] in ("circle", "ellipse") and case["M"] is not None and ((not orth_images(M)) or (M[0] * M[3] - M[2] * M[1] < 0))
        for name, what, t in (("path_abs", "abs(Path(shape))", tol), ("seg_t", "shape.segments(transformed=True)", tol),
                              ("abs_shape", "abs(shape).segments()", tol), ("path_d", "Path(shape.d())", 2e-5 * scale)):
            if obs.get(name) is None:
                continue
            bad = self._cmp(obs[name], spec_t, t)
            if bad:
                f = Failure(what="%s vs SVG 2 equivalent path under the transform: %s" % (what, bad), case=case,
                            observed=obs[name], expected=spec_t)
                if round_nonorth and name in ("seg_t", "path_d", "abs_shape") and \
                        round_consistent(obs[name], self._round_params(d), M, orth_images(M) and name != "path_d"):
                    f["finding"] = FINDING
                elif name == "path_d" and curved and (self._cmp(obs[name], spec_t, 1e-3 * scale) is None or
                                                      self._cmp(obs[name], obs["path_d_pred6"], 2e-5 * scale) is None):
                    # the deviation is exactly what printing rx, ry, rotation with 6 digits predicts
                    f["finding"] = FINDING_G
                fs.append(f)
        if not obs["eq_path"] and sd:
            fs.append(Failure(what="shape != Path(shape)", case=case))
        # bounding boxes and lengths agree between the routes
        bp, bd, bs = obs["bbox"]
        if sd and bp is not None:
            for nm, b in (("Path(shape.d())", bd), ("shape", bs)):
                if b is None or max(abs(x - y) for x, y in zip(bp, b)) > 2e-5 * scale:
                    f = Failure(what="bbox of %s differs from bbox of abs(Path(shape))" % nm, case=case, observed=b, expected=bp)
                    if round_nonorth:
                        f["finding"] = FINDING
                    elif curved and nm.startswith("Path(shape.d") and b is not None and (
                            max(abs(x - y) for x, y in zip(bp, b)) <= 1e-3 * scale or
                            self._cmp(obs["path_d"], obs["path_d_pred6"], 2e-5 * scale) is None and
                            self._cmp(obs["path_d"], spec_t, 2e-5 * scale) is not None):
                        f["finding"] = FINDING_G
                    fs.append(f)
        if sd and abs(obs["len"][0] - obs["len"][1]) > 1e-3 * max(1.0, obs["len"][0]):
            f = Failure(what="length of Path(shape.d()) %r vs abs(Path(shape)) %r" % (obs["len"][1], obs["len"][0]), case=case)
            if round_nonorth:
                f["finding"] = FINDING
            elif curved and obs.get("path_d") is not None and obs.get("path_d_pred6") is not None and \
                    self._cmp(obs["path_d"], obs["path_d_pred6"], 2e-5 * scale) is None and \
                    self._cmp(obs["path_d"], spec_t, 2e-5 * scale) is not None:
                # the re-read outline is the one the 6-digit radii denote, and that is not the shape's: its length follows
                f["finding"] = FINDING_G
            fs.append(f)
        if not sd and (obs["own"] or obs["seg_t"] or obs["path_abs"]):
            fs.append(Failure(what="degenerate shape produced segments", case=case, observed=obs["own"]))
        return fs


PROP = C06()
