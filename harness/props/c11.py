"""C11 — the viewport transform equals the SVG 2 section 8.2 'equivalent transform' algorithm."""
import io, math, itertools
from types import SimpleNamespace
from core import Prop, Failure, Mismatch, fhex, shex, parse_floats, exc_name
import gen
from svgelements import Viewbox, Matrix, SVG, Rect, Path

ALIGNS = ["none", "xMinYMin", "xMidYMin", "xMaxYMin", "xMinYMid", "xMidYMid", "xMaxYMid", "xMinYMax", "xMidYMax", "xMaxYMax"]
MODES = [None, "meet", "slice"]
FACT = {"Min": 0.0, "Mid": 0.5, "Max": 1.0}
TOL = 1e-9


def spec_transform(e, vb, align, mode):
    """SVG 2 8.2: returns (sx, sy, tx, ty)"""
    ex, ey, ew, eh = e
    vx, vy, vw, vh = vb
    sx, sy = ew / vw, eh / vh
    if align is None:
        align = "xMidYMid"
    if align != "none":
        s = max(sx, sy) if mode == "slice" else min(sx, sy)
        sx = sy = s
    tx, ty = ex - vx * sx, ey - vy * sy
    if align != "none":
        tx += FACT[align[1:4]] * (ew - vw * sx)
        ty += FACT[align[5:8]] * (eh - vh * sy)
    return sx, sy, tx, ty


def size(rng):
    r = rng.random()
    if r < 0.3:
        return float(rng.choice([1, 2, 10, 50, 100, 200, 300, 1000]))
    return round(10 ** rng.uniform(-3, 3), rng.choice([3, 4, 6]))


def origin(rng):
    r = rng.random()
    if r < 0.3:
        return 0.0
    return round(rng.uniform(-500, 500), rng.choice([0, 1, 3]))


class C11(Prop):
    id = "C11"
    exhaustive = True
    exhaustive_note = "all 10 align values x {absent, meet, slice} (30 cells) x 8 geometries; kernel-checked too (theorem C11_cells)"
    rule = ("(vt) Viewbox.viewbox_transform on all 30 align x meetOrSlice cells x geometries with sizes 1e-3..1e3, negative and "
            "fractional origins; (obj) Viewbox(...).transform(element); (doc) SVG.parse of a root svg whose size comes from attributes "
            "with units/percentages, caller width/height, or the viewBox default, observing viewbox_transform and the coordinates of a "
            "rect; (zero) zero-sized element/viewBox. Expected: section 8.2 evaluated independently in Python plus the geometric "
            "relations (inside/covers/touches/alignment) on the implementation's matrix. non-trivial = viewBox differs from the "
            "element box; distinct by canonical JSON")
    trusted_base = [
        "Length.str ('%.12f') formatting of the four numbers: modelled as exact; absolute deviation <= 5e-13 per number",
        "str.split / str.lower / substring tests on preserveAspectRatio: transcribed (Model/Viewbox.lean), kernel-checked on all 30 cells",
        "unit/percentage resolution of the svg element's width/height is C12's model",
    ]

    # ---------------------------------------------------------------- cases
    def cases(self, rng, tier):
        geoms = [((0, 0, 100, 50), (10, 10, 20, 20)), ((5, -7, 30, 300), (0, 0, 60, 10)), ((0, 0, 1, 1), (-3.5, 2.25, 0.004, 900)),
                 ((-20, 4, 640, 480), (0, 0, 640, 480)), ((0, 0, 0.002, 0.5), (100, 100, 1000, 1)), ((1, 1, 200, 200), (0, 0, 100, 50)),
                 ((0, 0, 100, 100), (5, 5, 100, 50)), ((0, 0, 50, 100), (0, 0, 100, 100))]
        for al, mo in itertools.product(ALIGNS, MODES):
            for e, vb in geoms:
                yield {"k": "vt", "e": list(map(float, e)), "vb": list(map(float, vb)), "al": al, "mo": mo}
        n = 1200 if tier == "quick" else 100000
        for _ in range(n):
            e = [origin(rng), origin(rng), size(rng), size(rng)]
            vb = [origin(rng), origin(rng), size(rng), size(rng)]
            al = rng.choice(ALIGNS + [None])
            mo = rng.choice(MODES) if al is not None else None
            yield {"k": rng.choice(["vt", "obj"]), "e": e, "vb": vb, "al": al, "mo": mo}
        for _ in range(n // 2):
            yield self._doc(rng)
        # nested svg: preserveAspectRatio is not inherited - an inner svg without one uses xMidYMid meet whatever its ancestor says
        for _ in range(max(60, n // 20)):
            yield self._nested(rng)
        for _ in range(40):
            e = [0.0, 0.0, rng.choice([0.0, 100.0]), rng.choice([0.0, 50.0])]
            vb = [0.0, 0.0, rng.choice([0.0, 10.0]), rng.choice([0.0, 20.0])]
            if 0.0 in e[2:] or 0.0 in vb[2:]:
                yield {"k": "zero", "e": e, "vb": vb}
        for vbtext in ["", "0 0 10", "1 2", "abc"]:
            yield {"k": "incomplete", "vb": vbtext}

    def _doc(self, rng):
        vb = [origin(rng), origin(rng), size(rng), size(rng)]
        al = rng.choice(ALIGNS + [None])
        mo = rng.choice(MODES) if al is not None else None
        ppi = rng.choice([72.0, 96.0, 1000.0])
        route = rng.choice(["attr", "attr_units", "attr_pct", "caller", "default"])
        cw = ch = None
        wa = ha = None
        if route == "attr":
            wv, hv = size(rng), size(rng)
            wa, ha = repr(wv), repr(hv)
            ew, eh = wv, hv
        elif route == "attr_units":
            u = rng.choice(["in", "pt", "px", "pc"])
            f = {"in": ppi, "pt": 4.0 / 3.0, "px": 1.0, "pc": 16.0}[u]
            wv, hv = float(rng.randint(1, 20)), float(rng.randint(1, 20))
            wa, ha = "%r%s" % (wv, u), "%r%s" % (hv, u)
            ew, eh = wv * f, hv * f
        elif route == "attr_pct":
            cw, ch = float(rng.randint(50, 2000)), float(rng.randint(50, 2000))
            pw, ph = float(rng.choice([10, 25, 50, 100, 150])), float(rng.choice([10, 25, 50, 100]))
            wa, ha = "%r%%" % pw, "%r%%" % ph
            ew, eh = cw * pw / 100.0, ch * ph / 100.0
        elif route == "caller":
            cw, ch = float(rng.randint(50, 2000)), float(rng.randint(50, 2000))
            ew, eh = cw, ch
        else:
            ew, eh = vb[2], vb[3]
        rect = [round(rng.uniform(-50, 50), 1), round(rng.uniform(-50, 50), 1), float(rng.randint(1, 80)), float(rng.randint(1, 80))]
        return {"k": "doc", "vb": vb, "al": al, "mo": mo, "ppi": ppi, "wa": wa, "ha": ha, "cw": cw, "ch": ch,
                "e": [0.0, 0.0, ew, eh], "rect": rect, "route": route}

    def _nested(self, rng):
        outer_al = rng.choice(["none", "xMinYMin", "xMaxYMax slice", "xMidYMid slice", "xMinYMax meet"])
        inner_al = rng.choice([None, None, None] + ALIGNS)
        inner_mo = rng.choice(MODES) if inner_al is not None else None
        e = [float(rng.randint(-20, 20)), float(rng.randint(-20, 20)), float(rng.choice([30, 60, 100])), float(rng.choice([20, 45, 90]))]
        vb = [origin(rng), origin(rng), float(rng.choice([10, 40, 25])), float(rng.choice([10, 80, 15]))]
        rect = [round(rng.uniform(-5, 5), 1), round(rng.uniform(-5, 5), 1), float(rng.randint(1, 8)), float(rng.randint(1, 8))]
        # the inner element's position and size written as numbers or as percentages of the (non-square) outer viewport
        return {"k": "nested", "outer_al": outer_al, "al": inner_al, "mo": inner_mo, "e": e, "vb": vb, "rect": rect,
                "wrap": rng.random() < 0.5, "pct": [rng.random() < 0.4 for _ in range(4)]}

    def tag(self, case):
        t = [case["k"]]
        if "al" in case:
            t.append("align=%s,%s" % (case["al"], case["mo"]))
        if case["k"] == "doc":
            t.append("route=" + case["route"])
        return t

    def nontrivial(self, case, obs):
        return case["k"] != "incomplete" and case.get("e") != case.get("vb")

    @staticmethod
    def _par(case):
        if case.get("al") is None:
            return None
        return case["al"] + ((" " + case["mo"]) if case["mo"] else "")

    # ---------------------------------------------------------------- implementation
    def impl(self, case):
        k = case["k"]
        try:
            par = self._par(case) if k != "zero" and k != "incomplete" else None
            if k == "vt":
                s = Viewbox.viewbox_transform(*case["e"], *case["vb"], par)
                m = Matrix(s)
                return {"m": mlist(m), "s": s}
            if k == "obj":
                v = Viewbox("%r %r %r %r" % tuple(case["vb"]), par) if par is not None else Viewbox("%r,%r,%r,%r" % tuple(case["vb"]))
                el = SimpleNamespace(x=case["e"][0], y=case["e"][1], width=case["e"][2], height=case["e"][3])
                s = v.transform(el)
                return {"m": mlist(Matrix(s)), "s": s}
            if k == "doc":
                attrs = ' viewBox="%r %r %r %r"' % tuple(case["vb"])
                if par is not None:
                    attrs += ' preserveAspectRatio="%s"' % par
                if case["wa"] is not None:
                    attrs += ' width="%s" height="%s"' % (case["wa"], case["ha"])
                r = case["rect"]
                doc = '<svg xmlns="http://www.w3.org/2000/svg"%s><rect x="%r" y="%r" width="%r" height="%r"/></svg>' % ((attrs,) + tuple(r))
                kw = {"ppi": case["ppi"]}
                if case["cw"] is not None:
                    kw["width"], kw["height"] = case["cw"], case["ch"]
                svg = SVG.parse(io.StringIO(doc), reify=True, **kw)
                m = Matrix(svg.viewbox_transform)
                rects = [e for e in svg.elements() if isinstance(e, Rect)]
                bb = list(rects[0].bbox()) if rects else None
                return {"m": mlist(m), "bbox": bb, "size": [float(svg.width), float(svg.height)], "doc": doc}
            if k == "nested":
                e, vb, r = case["e"], case["vb"], case["rect"]
                par = self._par(case)
                OW, OH = 300.0, 120.0
                pct = case.get("pct") or [False] * 4
                sp = [("%r%%" % (v / b * 100.0)) if q else repr(v) for v, b, q in zip(e, (OW, OH, OW, OH), pct)]
                inner = '<svg x="%s" y="%s" width="%s" height="%s" viewBox="%r %r %r %r"%s><rect x="%r" y="%r" width="%r" height="%r"/></svg>' % (
                    tuple(sp) + tuple(vb) + ((' preserveAspectRatio="%s"' % par) if par else "",) + tuple(r))
                if case["wrap"]:
                    inner = "<g>" + inner + "</g>"
                doc = ('<svg xmlns="http://www.w3.org/2000/svg" width="300" height="120" viewBox="0 0 300 120" '
                       'preserveAspectRatio="%s">%s</svg>') % (case["outer_al"], inner)
                svg = SVG.parse(io.StringIO(doc), reify=True)
                rects = [x for x in svg.elements() if isinstance(x, Rect)]
                return {"bbox": list(rects[0].bbox()) if rects else None, "doc": doc}
            if k == "zero":
                e, vb = case["e"], case["vb"]
                doc = ('<svg xmlns="http://www.w3.org/2000/svg" width="%r" height="%r" viewBox="%r %r %r %r">'
                       '<rect width="5" height="5"/></svg>') % (e[2], e[3], vb[0], vb[1], vb[2], vb[3])
                svg = SVG.parse(io.StringIO(doc))
                shapes = [x for x in svg.elements() if isinstance(x, Rect)]
                return {"nshapes": len(shapes)}
            if k == "incomplete":
                v = Viewbox(case["vb"])
                el = SimpleNamespace(x=0.0, y=0.0, width=100.0, height=50.0)
                s = v.transform(el)
                return {"m": mlist(Matrix(s)), "s": s}
        except Exception as e:
            return {"exc": exc_name(e)}

    # ---------------------------------------------------------------- model
    def model_ops(self, case):
        k = case["k"]
        if k in ("vt", "obj", "doc", "nested"):
            par = self._par(case)
            return ["c11.vt\t%s\t%s\t%s" % (" ".join(fhex(x) for x in case["e"]), " ".join(fhex(x) for x in case["vb"]),
                                           shex(par) if par is not None else "-")]
        if k == "zero":
            return ["c11.vt\t%s\t%s\t-" % (" ".join(fhex(x) for x in case["e"]), " ".join(fhex(x) for x in case["vb"]))]
        return []

    def compare(self, case, obs, outs):
        if not outs:
            return []
        k = case["k"]
        if "exc" in obs:
            return [Mismatch(stream="c11." + k, case=case, impl=obs, model=outs[0])]
        if k == "zero":
            if outs[0] != "OK disabled" or obs["nshapes"] != 0:
                return [Mismatch(stream="c11.zero", case=case, impl=obs, model=outs[0])]
            return []
        if k == "nested":
            mo = parse_floats(outs[0])
            if isinstance(mo, str) or obs.get("bbox") is None:
                return [Mismatch(stream="c11.nested", case=case, impl=obs, model=outs[0])]
            r = case["rect"]
            want = [mo[0] * r[0] + mo[4], mo[3] * r[1] + mo[5], mo[0] * (r[0] + r[2]) + mo[4], mo[3] * (r[1] + r[3]) + mo[5]]
            if max(abs(a - b) for a, b in zip(obs["bbox"], want)) > 1e-7 * max(1.0, max(abs(v) for v in want)):
                return [Mismatch(stream="c11.nested", case=case, impl=obs["bbox"], model=want)]
            return []
        mo = parse_floats(outs[0])
        if isinstance(mo, str) or not mclose(obs["m"], mo, case):
            return [Mismatch(stream="c11." + k, case=case, impl=obs["m"], model=mo)]
        return []

    # ---------------------------------------------------------------- oracle
    def oracle(self, case, obs):
        k = case["k"]
        fs = []
        if "exc" in obs:
            return [Failure(what="%s raised %s" % (k, obs["exc"]), case=case, observed=obs)]
        if k == "zero":
            if obs["nshapes"] != 0:
                fs.append(Failure(what="zero-sized viewport/viewBox still rendered shapes", case=case, observed=obs))
            return fs
        if k == "nested":
            sx, sy, tx, ty = spec_transform(case["e"], case["vb"], case["al"], case["mo"])
            r = case["rect"]
            want = [sx * r[0] + tx, sy * r[1] + ty, sx * (r[0] + r[2]) + tx, sy * (r[1] + r[3]) + ty]
            if obs.get("bbox") is None or max(abs(a - b) for a, b in zip(obs["bbox"], want)) > 1e-7 * max(1.0, max(abs(v) for v in want)):
                fs.append(Failure(what="nested svg (outer preserveAspectRatio=%s, inner %s): content not placed by the section 8.2 "
                                       "transform of the inner svg's own attributes" % (case["outer_al"], self._par(case)),
                                  case=case, observed=obs.get("bbox"), expected=want))
            return fs
        if k == "incomplete":
            if not mclose(obs["m"], gen.IDENT, {"e": [0, 0, 1, 1], "vb": [0, 0, 1, 1]}):
                fs.append(Failure(what="incomplete viewBox did not give the identity", case=case, observed=obs))
            return fs
        e, vb = case["e"], case["vb"]
        sx, sy, tx, ty = spec_transform(e, vb, case["al"], case["mo"])
        exp = [sx, 0.0, 0.0, sy, tx, ty]
        if k == "doc" and not (abs(obs["size"][0] - e[2]) <= 1e-9 * max(1, e[2]) and abs(obs["size"][1] - e[3]) <= 1e-9 * max(1, e[3])):
            fs.append(Failure(what="svg element size %r, expected %r" % (obs["size"], e[2:]), case=case, observed=obs["size"], expected=e[2:]))
            return fs
        if not mclose(obs["m"], exp, case):
            fs.append(Failure(what="viewport transform is not the section 8.2 equivalent transform", case=case, observed=obs["m"], expected=exp))
            return fs
        # geometric consequences on the implementation's own matrix
        a, _, _, d, te, tf = obs["m"]
        lox, hix = a * vb[0] + te, a * (vb[0] + vb[2]) + te
        loy, hiy = d * vb[1] + tf, d * (vb[1] + vb[3]) + tf
        scale = max(1.0, abs(e[0]) + e[2], abs(e[1]) + e[3], abs(lox), abs(hix), abs(loy), abs(hiy))
        eps = 1e-8 * scale + 1e-11
        al, mo = case["al"] or "xMidYMid", case["mo"] or "meet"
        if al == "none":
            if max(abs(lox - e[0]), abs(hix - e[0] - e[2]), abs(loy - e[1]), abs(hiy - e[1] - e[3])) > eps:
                fs.append(Failure(what="align=none does not fit the viewBox exactly onto the viewport", case=case, observed=[lox, hix, loy, hiy]))
        else:
            touch = min(abs((hix - lox) - e[2]), abs((hiy - loy) - e[3]))
            if touch > eps:
                fs.append(Failure(what="viewBox image touches the viewport in no dimension", case=case, observed=[lox, hix, loy, hiy]))
            if mo == "meet" and (lox < e[0] - eps or hix > e[0] + e[2] + eps or loy < e[1] - eps or hiy > e[1] + e[3] + eps):
                fs.append(Failure(what="meet: viewBox image not inside the viewport", case=case, observed=[lox, hix, loy, hiy]))
            if mo == "slice" and (lox > e[0] + eps or hix < e[0] + e[2] - eps or loy > e[1] + eps or hiy < e[1] + e[3] - eps):
                fs.append(Failure(what="slice: viewBox image does not cover the viewport", case=case, observed=[lox, hix, loy, hiy]))
            fx, fy = FACT[al[1:4]], FACT[al[5:8]]
            if abs((lox - e[0]) - fx * (e[2] - (hix - lox))) > eps or abs((loy - e[1]) - fy * (e[3] - (hiy - loy))) > eps:
                fs.append(Failure(what="alignment %s not honoured" % al, case=case, observed=[lox, hix, loy, hiy]))
        if k == "doc" and obs["bbox"] is not None:
            r = case["rect"]
            want = [sx * r[0] + tx, sy * r[1] + ty, sx * (r[0] + r[2]) + tx, sy * (r[1] + r[3]) + ty]
            if max(abs(x - y) for x, y in zip(obs["bbox"], want)) > 1e-7 * scale + 1e-9:
                fs.append(Failure(what="shape coordinates under the viewport transform", case=case, observed=obs["bbox"], expected=want))
        return fs


def mlist(m):
    return [float(m.a), float(m.b), float(m.c), float(m.d), float(m.e), float(m.f)]


def mclose(a, b, case):
    # the four numbers are printed with 12 decimals: absolute 5e-13 each; plus relative rounding
    if isinstance(b, str) or len(a) != len(b):
        return False
    for i, (x, y) in enumerate(zip(a, b)):
        tol = 1e-11 + 1e-10 * max(abs(x), abs(y))
        if abs(x - y) > tol:
            return False
    return True


PROP = C11()
