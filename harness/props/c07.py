"""C07 — serialising a path to path data and re-parsing it reproduces the path."""
import math, re
from core import Prop, Failure, Mismatch, shex, hexf
import pathlib_ as pl
import gen
from svgelements import Path, Matrix, Arc

OPTS = [(r, s) for r in (None, False, True) for s in (None, False, True)]
FINDING = "C07-arc-d-6digits"
FINDING_SUB = "C07-subpath-without-move"
TOK = re.compile(r"[A-Za-z]|[-+]?(?:[0-9]*\.[0-9]+|[0-9]+\.?)(?:[eE][-+]?[0-9]+)?")
NARG = {"M": 2, "L": 2, "Z": 0, "Q": 4, "T": 2, "C": 6, "S": 4, "A": 7, "H": 1, "V": 1}


def tokenize_d(d):
    """[(letter, [numbers])] of a d string written by the library"""
    out = []
    for t in TOK.findall(d):
        if t.isalpha():
            out.append((t, []))
        else:
            out[-1][1].append(float(t))
    return out


def parse_model_cmds(text):
    cmds = []
    for item in text.split("|"):
        t = item.split()
        if not t:
            continue
        L, rel = t[0], t[1] == "1"
        if L == "A":
            nums = [hexf(t[2]), hexf(t[3]), hexf(t[4]), float(t[5]), float(t[6]), hexf(t[7]), hexf(t[8])]
        else:
            nums = [hexf(x) for x in t[2:]]
        cmds.append((L.lower() if rel else L, nums))
    return cmds


def opt_s(v):
    return "-" if v is None else ("1" if v else "0")


class C07(Prop):
    id = "C07"
    rule = ("valid paths from C01's generator (any segment mix, several subpaths, closes, subpaths begun without a move, SVG2 "
            "segment-completing z) plus arcs with scaled-up radii and near-half-turn extents, optionally transformed (so that d() prints "
            "abs(path)); every path is written with all 9 (relative, smooth) option pairs, re-parsed, and compared segment-wise and "
            "pointwise with abs(path) within the 12-significant-digit bound (relative mode: accumulated along the path); str(path) and "
            "Subpath.d() likewise. The Lean model of svg_d (Model/PathPrint: letter, relative/smooth selection, is_smooth_from) is "
            "compared token-wise with the written text on untransformed paths. non-trivial = path has a curve or a close")
    trusted_base = [
        "%.12G / %G number formatting and float(text): modelled as exact in the theorem; the harness applies the stated bound",
        "arc radii/rotation/flags are re-derived by Arc.d() from the centre form: decided by the oracle (round trip) only; the model prints the parsed parameters",
        "Point.__eq__'s 1e-12 tolerance inside is_smooth_from is part of the numeric bound",
    ]

    def cases(self, rng, tier):
        corpus = ["M0,0 Q10,0 10,10 T20,20 t5,5", "M0,0 C1,2 7,4 10,0 S20,0 30,10 s1,1 2,2", "M1,1 L5,5 z l1,1 Z h3 v-2 z",
                  "M0,0 a5,3 20 0 1 10,10 A 1,1 0 1 0 30,30 z", "m5,5 q1,1 2,0 t2,0 T 10,10 z M 3,3 L 4,4", "M0,0 L1,1 Z L5,5 L5,0 Z",
                  "M100,200 C100,100 250,100 250,200 S400,300 400,200", "M0,0 A 191.4 2.246 159.9 1 1 5000,60"]
        # corner nodes: a curve whose first control point is its start point (retracted handle), after every kind of
        # predecessor - the writer may use S/T only where re-reading gives the same control point back
        prevs = {"C": "C1,2 7,4 10,0", "Q": "Q5,5 10,0", "L": "L10,0", "A": "A5,5 0 0 1 10,0", "M": "", "S": "C1,2 7,4 8,0 S9,3 10,0",
                 "T": "Q2,2 5,0 T10,0"}
        for pk, ptxt in prevs.items():
            cur = "10,0" if ptxt else "0,0"
            for nxt in ("C%s 20,5 30,10" % cur, "Q%s 20,10" % cur, "C%s 20,5 30,10 C30,10 35,20 40,0" % cur, "Q%s 20,10 Q20,10 30,0" % cur):
                corpus.append("M0,0 %s %s" % (ptxt, nxt))
        corpus += ["m0,0 c1,2 7,4 10,0 c0,0 10,5 20,10", "m0,0 c1,2 7,4 10,0 q0,0 10,10", "m1,1 q5,5 10,0 c0,0 10,5 20,10 z",
                   "M0,0 C1,2 10,0 10,0 C10,0 20,5 30,10", "M0,0 C1,2 10,0 10,0 Q10,0 20,10"]
        for d in corpus:
            yield {"d": d, "M": None}
        n = 400 if tier == "quick" else 25000
        for i in range(n):
            cmds = pl.rand_ast(rng, ncmd=rng.choice([2, 3, 4, 5, 6, 8]))
            d = pl.render(cmds, rng)
            M = gen.matrix_invertible(rng, cond_max=30.0) if rng.random() < 0.35 else None
            yield {"d": d, "M": M}

    def tag(self, case):
        t = ["transformed" if case["M"] else "plain"]
        for L in "QTCSAZ":
            if L in case["d"].upper():
                t.append("has." + L)
        return t

    def nontrivial(self, case, obs):
        return any(c in case["d"].upper() for c in "QTCSAZ")

    def describe(self, case):
        return case

    def impl(self, case):
        try:
            p = Path(case["d"])
            if case["M"] is not None:
                p *= Matrix(*case["M"])
            ref_path = abs(p)
            ref = pl.observe_path(ref_path)
            pred6 = [pl.arc_pred6(s, pl.ARC_TS) if isinstance(s, Arc) else None for s in ref_path]
            par6 = [pl.arc_params6(s) if isinstance(s, Arc) else None for s in ref_path]
            out = {"ref": ref, "pred6": pred6, "par6": par6, "opts": {}, "str": str(p)}
            for r, s in OPTS:
                ds = p.d(relative=r, smooth=s)
                out["opts"]["%s%s" % (opt_s(r), opt_s(s))] = {"d": ds, "re": pl.observe_path(Path(ds))}
            subs = []
            if case["M"] is None:
                for i in range(p.count_subpaths()):
                    sp = p.subpath(i)
                    wsegs = list(Path(sp))
                    try:
                        re_ = pl.observe_path(Path(sp.d()))
                    except ValueError:
                        re_ = None          # e.g. a window that starts with a smooth command and has no move of its own
                    subs.append({"d": sp.d(), "re": re_, "win": pl.observe_path(wsegs),
                                 "own_move": bool(wsegs) and type(wsegs[0]).__name__ == "Move",
                                 "pred6": [pl.arc_pred6(s, pl.ARC_TS) if isinstance(s, Arc) else None for s in wsegs],
                                 "par6": [pl.arc_params6(s) if isinstance(s, Arc) else None for s in wsegs]})
            out["subs"] = subs
            return out
        except Exception as e:
            import traceback
            return {"exc": type(e).__name__, "tb": traceback.format_exc()[-500:]}

    def model_ops(self, case):
        if case["M"] is not None:
            return []
        return ["path.d\t%s\t%s\t%s" % (opt_s(r), opt_s(s), shex(case["d"])) for r, s in OPTS]

    def compare(self, case, obs, outs):
        if case["M"] is not None or "exc" in obs:
            return []
        ms = []
        scale = self._scale(obs["ref"])
        for (r, s), out in zip(OPTS, outs):
            key = "%s%s" % (opt_s(r), opt_s(s))
            head, _, body = out.partition("\t")
            if head != "OK":
                ms.append(Mismatch(stream="path.d", case=case, impl=obs["opts"][key]["d"][:200], model=out[:200]))
                continue
            mc = parse_model_cmds(body)
            ic = tokenize_d(obs["opts"][key]["d"])
            bad = None
            if len(mc) != len(ic):
                bad = "command count %d vs %d" % (len(ic), len(mc))
            else:
                for i, ((il, inum), (ml, mnum)) in enumerate(zip(ic, mc)):
                    if il != ml:
                        bad = "command %d letter %s vs %s" % (i, il, ml)
                        break
                    if il.upper() == "A":
                        inum, mnum = inum[5:], mnum[5:]       # radii/rotation/flags are re-derived by Arc.d(): oracle's business
                    if len(inum) != len(mnum) or any(abs(a - b) > 2e-11 * scale for a, b in zip(inum, mnum)):
                        bad = "command %d numbers %r vs %r" % (i, inum, mnum)
                        break
            if bad:
                ms.append(Mismatch(stream="path.d[%s]" % key, case=case, impl=bad + " in " + obs["opts"][key]["d"][:200], model=out[:300]))
        return ms

    @staticmethod
    def _scale(ref):
        m = 1.0
        for s in ref:
            for f in ("start", "end", "c", "c1", "c2"):
                v = s.get(f)
                if v:
                    m = max(m, abs(v[0]), abs(v[1]))
            for q in s.get("pts") or []:
                m = max(m, abs(q[0]), abs(q[1]))
        return m

    def _roundtrip(self, got, ref, pred6, scale, what, case, skip_first_start=False, par6=None):
        fs = []
        n = len(ref)
        if len(got) != n:
            return [Failure(what="%s: %d segments re-parsed, path has %d" % (what, len(got), n), case=case)]
        tol = 2e-11 * scale * (n + 1)
        for i, (g, r) in enumerate(zip(got, ref)):
            if g["k"] != r["k"]:
                fs.append(Failure(what="%s: segment %d is %s, path has %s" % (what, i, g["k"], r["k"]), case=case))
                return fs
            for f in ("start", "end", "c", "c1", "c2"):
                if f not in r:
                    continue
                if f == "start" and (r[f] is None or (i == 0 and skip_first_start)):
                    continue
                a, b = g.get(f), r[f]
                if a is None or b is None or math.hypot(a[0] - b[0], a[1] - b[1]) > tol:
                    fs.append(Failure(what="%s: segment %d %s %r, path has %r (bound %.3g)" % (what, i, f, a, b, tol), case=case))
                    return fs
            if r["k"] == "Arc":
                if g.get("pts") is None or r.get("pts") is None:
                    fs.append(Failure(what="%s: arc %d cannot be evaluated" % (what, i), case=case))
                    return fs
                dev = max(math.hypot(a[0] - b[0], a[1] - b[1]) for a, b in zip(g["pts"], r["pts"]))
                # conditioning of the centre construction w.r.t. 12-digit perturbations: 1e-8 of the size
                if dev > 1e-8 * scale:
                    f = Failure(what="%s: arc %d deviates by %.3g (path size %.3g)" % (what, i, dev, scale), case=case)
                    p6 = pred6[i] if pred6 and i < len(pred6) else None
                    if p6 is not None:
                        dev6 = max(math.hypot(a[0] - b[0], a[1] - b[1]) for a, b in zip(g["pts"], p6))
                        if dev6 <= 1e-7 * scale + 1e-2 * dev:
                            f["finding"] = FINDING          # exactly the deviation 6-digit radii/rotation predict
                    p6 = par6[i] if par6 and i < len(par6) else None
                    if "finding" not in f and p6 is not None and g.get("start") and g.get("end"):
                        # near-half-turn thin arcs: the centre construction amplifies the 12-digit rounding of the
                        # printed endpoints (already within the bound above) as well; predict from the endpoints as
                        # re-read and the 6-digit parameters of the stored arc
                        pts = pl.arc_pred_from(p6, g["start"], g["end"], pl.ARC_TS)
                        dev6 = max(math.hypot(a[0] - b[0], a[1] - b[1]) for a, b in zip(g["pts"], pts))
                        if dev6 <= 1e-7 * scale + 1e-2 * dev:
                            f["finding"] = FINDING
                    fs.append(f)
                    return fs
        return fs

    def oracle(self, case, obs):
        if "exc" in obs:
            return [Failure(what="d()/re-parse raised %s" % obs["exc"], case=case, observed=obs.get("tb"))]
        fs = []
        scale = self._scale(obs["ref"])
        for key, o in obs["opts"].items():
            fs += self._roundtrip(o["re"], obs["ref"], obs["pred6"], scale, "d(relative=%s, smooth=%s)" % (key[0], key[1]), case,
                                  par6=obs.get("par6"))
            if len(fs) > 3:
                break
        if obs["str"] != obs["opts"]["--"]["d"]:
            fs.append(Failure(what="str(path) differs from path.d()", case=case))
        for i, sb in enumerate(obs.get("subs") or []):
            if sb is None:
                continue
            if sb["re"] is None:
                sub_fs = [Failure(what="Subpath(%d).d() cannot be re-parsed (ValueError)" % i, case=case)]
            else:
                sub_fs = self._roundtrip(sb["re"], sb["win"], sb["pred6"], scale, "Subpath(%d).d()" % i, case, skip_first_start=True,
                                         par6=sb.get("par6"))
            if not sb["own_move"]:
                for f in sub_fs:
                    f.setdefault("finding", FINDING_SUB)
            fs += sub_fs
        return fs

    def replay_findings(self, f):
        w = f.get("witness", {}).get("d")
        if not w:
            return None
        case = {"d": w, "M": None}
        return any(x.get("finding") == f["id"] for x in self.oracle(case, self.impl(case)))


PROP = C07()
