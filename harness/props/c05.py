"""C05 — endpoint-form arcs are the arcs of SVG implementation note F.6."""
import math
from core import Prop, Failure, Mismatch, fhex, exc_name
import gen, geo
from svgelements import Arc, Path, Point

TS = [0.0, 1.0, 0.5, 0.25, 0.75, 0.1, 0.9, 1.0 / 3.0, 0.01, 0.99]


def f6(start, rx, ry, rot_deg, fa, fs, end):
    """SVG 1.1 F.6.5/F.6.6 written from the specification text (atan2-based angles, no acos).
    returns dict(center, rx, ry, phi, theta1, dtheta) in radians, or None for the degenerate cases"""
    x1, y1 = start
    x2, y2 = end
    rx, ry = abs(rx), abs(ry)
    if (x1 == x2 and y1 == y2) or rx == 0 or ry == 0:
        return None
    phi = math.radians(rot_deg % 360.0)
    c, s = math.cos(phi), math.sin(phi)
    dx, dy = (x1 - x2) / 2.0, (y1 - y2) / 2.0
    x1p, y1p = c * dx + s * dy, -s * dx + c * dy
    lam = x1p * x1p / (rx * rx) + y1p * y1p / (ry * ry)
    if lam > 1:
        k = math.sqrt(lam)
        rx, ry = rx * k, ry * k
    num = rx * rx * ry * ry - rx * rx * y1p * y1p - ry * ry * x1p * x1p
    den = rx * rx * y1p * y1p + ry * ry * x1p * x1p
    co = math.sqrt(max(0.0, num / den))
    if bool(fa) == bool(fs):
        co = -co
    cxp, cyp = co * rx * y1p / ry, -co * ry * x1p / rx
    cx, cy = c * cxp - s * cyp + (x1 + x2) / 2.0, s * cxp + c * cyp + (y1 + y2) / 2.0
    ux, uy = (x1p - cxp) / rx, (y1p - cyp) / ry
    vx, vy = (-x1p - cxp) / rx, (-y1p - cyp) / ry
    th1 = math.atan2(uy, ux)
    dth = math.atan2(ux * vy - uy * vx, ux * vx + uy * vy)
    # near the exact half turn the sign of the cross product is noise: both give 180 degrees
    if abs(abs(dth) - math.pi) < 1e-9:
        dth = math.pi
    dth = dth % (2 * math.pi)
    if not fs and dth > 0:
        dth -= 2 * math.pi
    return {"c": (cx, cy), "rx": rx, "ry": ry, "phi": phi, "th1": th1, "dth": dth, "lam": lam}


def f6_point(g, t):
    a = g["th1"] + g["dth"] * t
    c, s = math.cos(g["phi"]), math.sin(g["phi"])
    x, y = g["rx"] * math.cos(a), g["ry"] * math.sin(a)
    return [g["c"][0] + c * x - s * y, g["c"][1] + s * x + c * y]


def centre_arc(rng):
    """an arc chosen by its centre parameters (start angle at/near every quadrant boundary and just before a full turn, long
    sweeps in both directions, rotated tall or flat ellipses), converted to endpoint form: the configurations in which an axis
    extremum lies inside the arc only after adding whole turns"""
    rx = rng.choice([3.0, 12.0, 5.0, 40.0])
    ry = rng.choice([12.0, 3.0, 5.0, 7.5])
    phi = rng.choice([0.0, -20.0, 340.0, -380.0, 20.0, 90.0, 45.0, 135.0, -100.0, 200.0, 180.0, 270.0, 450.0, 540.0, -90.0])
    if rng.random() < 0.3:
        th1 = rng.choice([0.0, 90.0, 180.0, 270.0])        # the start exactly on an axis vertex of the ellipse
    else:
        th1 = rng.choice([355.0, 359.0, 1.0, 5.0, 89.0, 91.0, 179.0, 181.0, 269.0, 271.0, 300.0, 45.0]) + rng.choice([0.0, 0.25, -0.25])
    dth = rng.choice([340.0, 300.0, 200.0, 185.0, 95.0, 30.0, 270.0]) * rng.choice([1, -1])
    cx, cy = geo.pt(rng)
    c, sn = math.cos(math.radians(phi)), math.sin(math.radians(phi))

    def cs(deg):
        q = deg % 360.0
        exact = {0.0: (1.0, 0.0), 90.0: (0.0, 1.0), 180.0: (-1.0, 0.0), 270.0: (0.0, -1.0)}
        return exact.get(q, (math.cos(math.radians(deg)), math.sin(math.radians(deg))))
    c, sn = cs(phi)

    def at(deg):
        cc, ss = cs(deg)
        x, y = rx * cc, ry * ss
        return [cx + c * x - sn * y, cy + sn * x + c * y]
    return {"start": at(th1), "end": at(th1 + dth), "rx": rx, "ry": ry, "rot": phi, "fa": int(abs(dth) > 180), "fs": int(dth > 0)}


def rand_arc(rng):
    start = geo.pt(rng)
    s = 10 ** rng.uniform(-2, 3.5)
    end = geo.near(start, rng, s)
    chord = math.hypot(end[0] - start[0], end[1] - start[1]) or s
    r = rng.random()
    if r < 0.30:
        ratio = 10 ** rng.uniform(-3, math.log10(0.5))       # too small: radii get scaled up
    elif r < 0.85:
        ratio = 10 ** rng.uniform(math.log10(0.5), 1.5)
    else:
        ratio = 10 ** rng.uniform(1.5, 3)
    rx = chord * ratio
    ry = rx * (1.0 if rng.random() < 0.25 else 10 ** rng.uniform(-1.5, 1.5))
    rot = rng.choice([0, 0, 90, 180, 270, 45, 30, -60, 400, -725, 360, -90]) if rng.random() < 0.5 else round(rng.uniform(-720, 720), 2)
    d = {"start": start, "end": end, "rx": rx, "ry": ry, "rot": float(rot), "fa": rng.randint(0, 1), "fs": rng.randint(0, 1)}
    q = rng.random()
    if q < 0.04:
        d["rx"] = 0.0
    elif q < 0.08:
        d["ry"] = 0.0
    elif q < 0.12:
        d["end"] = list(start)
    elif q < 0.2:
        d["neg"] = rng.choice(["rx", "ry", "both"])
    return d


class C05(Prop):
    id = "C05"
    rule = ("endpoint-form arcs: radii from far too small (30%) to far too large relative to the chord (1e-3..1e3), rotations incl. "
            "multiples of 90 and beyond +-360, all four flag pairs, zero and negative radii, coincident endpoints, coordinates 0 or "
            "1e-3..1e5; through Arc(start,rx,ry,rot,fa,fs,end) and Path('M.. A..'). Oracle: an F.6.5 evaluator written from the "
            "specification (atan2 based) plus the intrinsic relations (endpoints exact, on-ellipse residual, flag semantics, "
            "degenerate cases as line/nothing). non-trivial = non-degenerate arc; distinct by canonical JSON")
    trusted_base = [
        "acos/atan2/tan/cos/sin/sqrt of libm; KL (t_at_point inversion) validated by stream arc.parampoints only",
        "arcs within 1e-6 rad of the exact half turn are compared with the wider tolerance 1e-6*radius (conditioning of acos)",
    ]

    def cases(self, rng, tier):
        corpus = [
            {"start": [0, 0], "end": [40, 10], "rx": 30, "ry": 20, "rot": 25.0, "fa": 0, "fs": 1},
            {"start": [0, 0], "end": [40, 10], "rx": -30, "ry": 20, "rot": 25.0, "fa": 0, "fs": 1, "neg": "rx"},
            {"start": [40, 10], "end": [0, 0], "rx": 0, "ry": 20, "rot": 25.0, "fa": 0, "fs": 1},
            {"start": [9, -24], "end": [25, 28], "rx": 2, "ry": 1, "rot": -30.0, "fa": 1, "fs": 0},
            {"start": [9, -24], "end": [25, 28], "rx": 2, "ry": 1, "rot": -30.0, "fa": 0, "fs": 1},
            {"start": [0, 0], "end": [10, 4], "rx": 1, "ry": 3, "rot": 0.0, "fa": 1, "fs": 0},
            {"start": [5, 5], "end": [15, 3], "rx": 3, "ry": 1, "rot": 40.0, "fa": 0, "fs": 1},
        ]
        for c in corpus:
            c = dict(c, start=list(map(float, c["start"])), end=list(map(float, c["end"])), rx=float(c["rx"]), ry=float(c["ry"]))
            yield {"k": "arc", "a": c, "via": "ctor"}
            yield {"k": "arc", "a": c, "via": "path"}
        n = 4000 if tier == "quick" else 250000
        for i in range(n):
            yield {"k": "arc", "a": centre_arc(rng) if i % 4 == 3 else rand_arc(rng), "via": rng.choice(["ctor", "ctor", "path"])}

    def tag(self, case):
        a = case["a"]
        g = f6(a["start"], a["rx"], a["ry"], a["rot"], a["fa"], a["fs"], a["end"])
        t = ["via." + case["via"], "flags=%d%d" % (a["fa"], a["fs"])]
        if g is None:
            t.append("degenerate")
        else:
            t.append("radii-scaled" if g["lam"] > 1 else "radii-ok")
        if "neg" in a:
            t.append("negative-radius")
        return t

    def nontrivial(self, case, obs):
        a = case["a"]
        return f6(a["start"], a["rx"], a["ry"], a["rot"], a["fa"], a["fs"], a["end"]) is not None

    @staticmethod
    def _radii(a):
        rx, ry = a["rx"], a["ry"]
        if a.get("neg") in ("rx", "both"):
            rx = -abs(rx)
        if a.get("neg") in ("ry", "both"):
            ry = -abs(ry)
        return rx, ry

    def impl(self, case):
        a = case["a"]
        rx, ry = self._radii(a)
        try:
            if case["via"] == "ctor":
                arc = Arc(Point(*a["start"]), rx, ry, a["rot"], a["fa"], a["fs"], Point(*a["end"]))
            else:
                # the path-data route takes absolute values of the radii itself
                p = Path("M %r,%r A %r,%r %r %d,%d %r,%r" % (a["start"][0], a["start"][1], rx, ry, a["rot"], a["fa"], a["fs"],
                                                              a["end"][0], a["end"][1]))
                arc = p[1]
            degenerate = float(arc.sweep) == 0.0
            return {"pts": [[float(q[0]), float(q[1])] for q in (arc.point(t) for t in TS)],
                    "sweep": float(arc.sweep), "rx": float(arc.rx), "ry": float(arc.ry), "rot": float(arc.get_rotation()),
                    "center": [float(arc.center[0]), float(arc.center[1])],
                    "prx": [float(arc.prx[0]), float(arc.prx[1])], "pry": [float(arc.pry[0]), float(arc.pry[1])],
                    "length": float(arc.length()) if degenerate else None,
                    "bbox": [float(v) for v in arc.bbox()] if degenerate else None,
                    "bb": [float(v) for v in arc.bbox()]}
        except Exception as e:
            return {"exc": exc_name(e)}

    def model_ops(self, case):
        a = case["a"]
        rx, ry = self._radii(a)
        w = " ".join([fhex(a["start"][0]), fhex(a["start"][1]), fhex(rx), fhex(ry), fhex(a["rot"]), str(a["fa"]), str(a["fs"]),
                      fhex(a["end"][0]), fhex(a["end"][1])])
        return ["arc.param\t" + w, "arc.parampoints\t%s\t%s" % (w, " ".join(fhex(t) for t in TS))]

    def _tol(self, case, obs):
        a = case["a"]
        g = f6(a["start"], a["rx"], a["ry"], a["rot"], a["fa"], a["fs"], a["end"])
        R = max(1.0, obs.get("rx", 1.0), obs.get("ry", 1.0), abs(a["start"][0]), abs(a["start"][1]), abs(a["end"][0]), abs(a["end"][1]))
        if g is None:
            return 1e-9 * R, g
        half = abs(abs(g["dth"]) - math.pi) < 1e-6 or g["lam"] > 1 - 1e-9
        ecc = max(g["rx"], g["ry"]) / min(g["rx"], g["ry"])
        return (1e-5 if half else 1e-7) * R * max(1.0, min(ecc, 100.0)), g

    def compare(self, case, obs, outs):
        if "exc" in obs:
            return [Mismatch(stream="arc.param", case=case, impl=obs, model=outs[0])]
        tol, g = self._tol(case, obs)
        ms = []
        mp = geo.pts(outs[1])
        if mp is None or max(geo.pdist(p, q) for p, q in zip(mp, obs["pts"])) > tol:
            ms.append(Mismatch(stream="arc.parampoints", case=case, impl=obs["pts"], model=mp))
        parts = outs[0].split()
        if parts[0] == "OK" and parts[1] == "A":
            from core import hexf
            v = [hexf(x) for x in parts[2:]]
            center, sweep = v[4:6], v[10]
            if geo.pdist(center, obs["center"]) > tol and g is not None:
                ms.append(Mismatch(stream="arc.param.center", case=case, impl=obs["center"], model=center))
            if abs(sweep - obs["sweep"]) > (1e-5 if g is not None else 1e-12):
                # at the exact half turn the model and the code may legitimately pick +-pi by rounding noise only if fs decides it
                ms.append(Mismatch(stream="arc.param.sweep", case=case, impl=obs["sweep"], model=sweep))
        else:
            ms.append(Mismatch(stream="arc.param", case=case, impl=obs, model=outs[0]))
        return ms

    def oracle(self, case, obs):
        if "exc" in obs:
            return [Failure(what="arc construction raised %s" % obs["exc"], case=case, observed=obs)]
        a = case["a"]
        fs = []
        tol, g = self._tol(case, obs)
        s, e = a["start"], a["end"]
        pts = obs["pts"]
        if g is None:
            coincident = (s == e)
            if obs["sweep"] != 0:
                fs.append(Failure(what="degenerate arc has non-zero extent", case=case, observed=obs["sweep"]))
            want = [list(s) if coincident else [s[0] + t * (e[0] - s[0]), s[1] + t * (e[1] - s[1])] for t in TS]
            if max(geo.pdist(p, q) for p, q in zip(pts, want)) > tol:
                fs.append(Failure(what="%s arc does not draw %s" % ("coincident-endpoint" if coincident else "zero-radius",
                                                                     "nothing" if coincident else "the straight line"),
                                  case=case, observed=pts, expected=want))
            chord = 0.0 if coincident else math.hypot(e[0] - s[0], e[1] - s[1])
            if obs["length"] is None or obs["bbox"] is None:
                return fs
            if abs(obs["length"] - chord) > 1e-9 * max(1.0, chord):
                fs.append(Failure(what="degenerate arc length %r, expected %r" % (obs["length"], chord), case=case))
            bb = [min(s[0], e[0]), min(s[1], e[1]), max(s[0], e[0]), max(s[1], e[1])]
            if max(abs(x - y) for x, y in zip(obs["bbox"], bb)) > 1e-9 * max(1.0, abs(bb[0]), abs(bb[2]), abs(bb[1]), abs(bb[3])):
                fs.append(Failure(what="degenerate arc bbox %r, expected %r" % (obs["bbox"], bb), case=case))
            return fs
        # endpoints exact
        if pts[0] != list(map(float, s)) or pts[1] != list(map(float, e)):
            if geo.pdist(pts[0], s) > 1e-12 * max(1, abs(s[0]), abs(s[1])) or geo.pdist(pts[1], e) > 1e-12 * max(1, abs(e[0]), abs(e[1])):
                fs.append(Failure(what="arc does not start/end exactly at the given points", case=case, observed=pts[:2]))
        # F.6 points
        want = [f6_point(g, t) for t in TS]
        d = max(geo.pdist(p, q) for p, q in zip(pts, want))
        if d > tol:
            fs.append(Failure(what="arc points deviate from the F.6.5 arc by %.3g" % d, case=case, observed=pts, expected=want))
            return fs
        # direction / size
        if abs(abs(g["dth"]) - math.pi) > 1e-6 and abs(g["dth"]) > 1e-9:
            if (obs["sweep"] > 0) != bool(a["fs"]):
                fs.append(Failure(what="turn direction disagrees with the sweep flag", case=case, observed=obs["sweep"]))
            if (abs(obs["sweep"]) > math.pi) != bool(a["fa"]) and g["lam"] < 1 - 1e-9:
                fs.append(Failure(what="extent disagrees with the large-arc flag", case=case, observed=obs["sweep"]))
        if abs(obs["sweep"]) > 2 * math.pi + 1e-9:
            fs.append(Failure(what="extent beyond a full turn", case=case, observed=obs["sweep"]))
        # radii: uniformly scaled just enough
        if abs(obs["rx"] - g["rx"]) > 1e-7 * g["rx"] or abs(obs["ry"] - g["ry"]) > 1e-7 * g["ry"]:
            fs.append(Failure(what="radii %r,%r; F.6.6 gives %r,%r" % (obs["rx"], obs["ry"], g["rx"], g["ry"]), case=case))
        # bounding box: contains the F.6 arc and touches it on every side (dense sampling of the specification's arc;
        # a side may exceed the samples' extreme by the sampling error only)
        if obs.get("bb") is not None and abs(abs(g["dth"]) - math.pi) > 1e-6:
            N = 720
            sp = [f6_point(g, i / N) for i in range(N + 1)]
            lo = [min(q[0] for q in sp), min(q[1] for q in sp)]
            hi = [max(q[0] for q in sp), max(q[1] for q in sp)]
            R = max(g["rx"], g["ry"])
            slack = R * (g["dth"] / N) ** 2 / 2 + tol + 1e-9 * max(1.0, R)
            bb = obs["bb"]
            if bb[0] > lo[0] + tol or bb[1] > lo[1] + tol or bb[2] < hi[0] - tol or bb[3] < hi[1] - tol:
                fs.append(Failure(what="bbox %r does not contain the arc (extent %r)" % (bb, lo + hi), case=case))
            elif bb[0] < lo[0] - slack or bb[1] < lo[1] - slack or bb[2] > hi[0] + slack or bb[3] > hi[1] + slack:
                fs.append(Failure(what="bbox %r is not tight (extent of the arc %r)" % (bb, lo + hi), case=case))
        # on-ellipse residual of every sampled point (implicit equation in the rotated frame)
        c, sn = math.cos(g["phi"]), math.sin(g["phi"])
        for p in pts:
            xx, yy = p[0] - obs["center"][0], p[1] - obs["center"][1]
            xr, yr = c * xx + sn * yy, -sn * xx + c * yy
            res = (xr / g["rx"]) ** 2 + (yr / g["ry"]) ** 2 - 1.0
            if abs(res) > 1e-6 * max(1.0, max(g["rx"], g["ry"]) / min(g["rx"], g["ry"])):
                fs.append(Failure(what="point off the ellipse: residual %.3g" % res, case=case, observed=p))
                break
        return fs


PROP = C05()
