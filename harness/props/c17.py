"""C17 — appending path data continues the parse: Path(a) + b equals Path(a b)."""
from copy import copy
from core import Prop, Failure, Mismatch, shex
import pathlib_ as pl
import gen
from svgelements import Path, Move, Point, Rect, Circle, Ellipse, Polygon, Polyline, SimpleLine, Matrix

ROUTES = ["add", "iadd", "parse", "mixed"]


def split_ast(cmds, rng, k):
    """split a command list into k non-empty pieces at command boundaries (a segment-completing z
    stays with its command)"""
    cuts = [i for i in range(1, len(cmds)) if not cmds[i].get("completes")]
    rng.shuffle(cuts)
    cuts = sorted(cuts[:k - 1])
    pieces, last = [], 0
    for c in cuts + [len(cmds)]:
        pieces.append(cmds[last:c])
        last = c
    return [p for p in pieces if p]


def shape_of(d):
    k = d["k"]
    if k == "rect":
        return Rect(d["x"], d["y"], d["w"], d["h"], **({"rx": d["rx"], "ry": d["ry"]} if d.get("rx") else {}))
    if k == "circle":
        return Circle(d["x"], d["y"], d["w"])
    if k == "ellipse":
        return Ellipse(d["x"], d["y"], d["w"], d["h"])
    if k == "line":
        return SimpleLine(d["x"], d["y"], d["w"], d["h"])
    if k == "polygon":
        return Polygon(d["x"], d["y"], d["w"], d["h"], d["x"] + 3, d["y"] - 7)
    return Polyline(d["x"], d["y"], d["w"], d["h"], d["x"] + 3, d["y"] - 7)


class C17(Prop):
    id = "C17"
    rule = ("conforming command lists (C01's generator) split at command boundaries into 2-4 pieces, each piece rendered with its own "
            "random layout; routes Path(a)+b+..., p+=b..., p.parse(b)..., a mix of the three, and Move(..)+b when a is a single move; "
            "b starting with every command incl. relative, smooth and close. Compared segment-wise (tolerance 1e-12) with "
            "Path(a+' '+b+...). Path+Path (same object appended once and twice; operand observed before/after) and Path+Shape "
            "(each shape kind, optionally transformed) compared with the two geometries side by side. The Lean model parses the "
            "pieces in sequence on one path and is compared with the library; the model's own parse of the joined string is "
            "compared with its piecewise parse. non-trivial = the second piece starts with a state-dependent command")
    trusted_base = [
        "char-level continuation (lexing of a ++ ' ' ++ b) is validated by correspondence; the theorem C17_fold_append is token-level",
        "Path.append(str)/extend(str) parse stand-alone and are not in the statement",
    ]

    def cases(self, rng, tier):
        fixed = [
            (["M10,10 L20,5", "m 3,4 l 1,1 z"], "add"), (["M0,0 Q10,0 10,10", "T20,20", "t 5 5"], "iadd"),
            (["M0,0 C1,2 7,4 10,0", "S20,0 30,10", "s 1 1 2 2"], "parse"), (["M1,1 L 5,5", "z", "l 1 1", "Z", "h 3"], "mixed"),
            (["M 5 5", "l 1 1 2 2"], "seg"), (["m 5 5", "q 1 1 2 2 t 1 1"], "seg"), (["M0,0 L1,1 Z", "L 5,5 z m 1 1 1 1"], "add"),
        ]
        for pieces, route in fixed:
            yield {"k": "str", "pieces": pieces, "route": route}
        n = 2500 if tier == "quick" else 120000
        for i in range(n):
            r = rng.random()
            if r < 0.8:
                cmds = pl.rand_ast(rng, ncmd=rng.choice([2, 3, 3, 4, 5, 6, 8]))
                k = rng.choice([2, 2, 2, 3, 4])
                pcs = split_ast(cmds, rng, k)
                if len(pcs) < 2:
                    continue
                pieces = [pl.render(p, rng) for p in pcs]
                route = rng.choice(ROUTES)
                if len(pcs[0]) == 1 and pcs[0][0]["c"] in "Mm" and len(pcs[0][0]["groups"]) == 1 and rng.random() < 0.5:
                    route = "seg"
                yield {"k": "str", "pieces": pieces, "route": route}
            elif r < 0.9:
                a = pl.render(pl.rand_ast(rng, ncmd=rng.choice([1, 2, 3, 4])), rng) if rng.random() < 0.8 else ""
                b = pl.render(pl.rand_ast(rng, ncmd=rng.choice([1, 2, 3]), first=rng.choice("Mm")), rng)
                if rng.random() < 0.35:
                    # several subpaths, the last one closed: the close must keep returning to its own subpath's start
                    b = b + " Z " + pl.render(pl.rand_ast(rng, ncmd=rng.choice([2, 3]), first=rng.choice("Mm")), rng) + rng.choice([" z", " Z"])
                route = rng.choice(["add", "iadd", "radd"])
                yield {"k": "pp", "a": a, "b": b, "times": 1 if route == "radd" else rng.choice([1, 2, 2]), "route": route,
                       "mutate": rng.choice([None, None, "reify", "edit"])}
            else:
                a = pl.render(pl.rand_ast(rng, ncmd=rng.choice([1, 2, 3, 4])), rng)
                sh = {"k": rng.choice(["rect", "circle", "ellipse", "line", "polygon", "polyline"]),
                      "x": round(rng.uniform(-50, 50), 2), "y": round(rng.uniform(-50, 50), 2),
                      "w": round(rng.uniform(1, 40), 2), "h": round(rng.uniform(1, 40), 2)}
                if sh["k"] == "rect" and rng.random() < 0.5:
                    sh["rx"], sh["ry"] = 2.0, 3.0
                yield {"k": "ps", "a": a, "shape": sh, "tf": rng.choice([None, None, "translate(3,4)", "scale(2,-1)", "rotate(30)"])}

    def tag(self, case):
        t = ["kind." + case["k"]]
        if case["k"] == "str":
            t.append("route." + case["route"])
            t.append("pieces=%d" % len(case["pieces"]))
            for p in case["pieces"][1:]:
                t.append("b-starts." + p.lstrip(" \t\n\r,")[:1].upper())
        return t

    def nontrivial(self, case, obs):
        if case["k"] != "str":
            return True
        return case["pieces"][1].lstrip(" \t\n\r,")[:1] in "mlhvcsqtaZzSTHV"

    def impl(self, case):
        try:
            if case["k"] == "str":
                pcs = case["pieces"]
                joined = Path(" ".join(pcs))
                route = case["route"]
                if route == "seg":
                    first = Path(pcs[0])
                    mv = first[0]
                    p = Move(end=Point(mv.end), relative=mv.relative) + pcs[1]
                    for b in pcs[2:]:
                        p = p + b
                else:
                    p = Path(pcs[0])
                    before = pl.observe_path(p)
                    for i, b in enumerate(pcs[1:]):
                        how = route if route != "mixed" else ["add", "iadd", "parse"][i % 3]
                        if how == "add":
                            q = p + b
                            if pl.obs_segs_diff(pl.observe_path(p), before) is not None:
                                return {"operand_changed": True}
                            p = q
                        elif how == "iadd":
                            p += b
                        else:
                            p.parse(b)
                        before = pl.observe_path(p)
                return {"got": pl.observe_path(p), "want": pl.observe_path(joined)}
            if case["k"] == "pp":
                pa, pb = Path(case["a"]), Path(case["b"])
                oa, ob = pl.observe_path(pa), pl.observe_path(pb)
                p = pa
                for _ in range(case["times"]):
                    if case["route"] == "add":
                        p = p + pb
                    elif case["route"] == "radd":
                        p = case["a"] + pb          # str + Path: the string is the left operand
                    else:
                        p += pb
                got = pl.observe_path(p)
                ob_after = pl.observe_path(pb)
                got_after = None
                if case.get("mutate") == "reify":
                    pb *= Matrix("scale(3) translate(7,1)")
                    pb.reify()
                    got_after = pl.observe_path(p)
                elif case.get("mutate") == "edit" and len(pb) > 0 and pb[-1].end is not None:
                    pb[-1].end.x += 13.0
                    got_after = pl.observe_path(p)
                return {"got": got, "oa": oa, "ob": ob, "ob_after": ob_after, "got_after": got_after}
            pa = Path(case["a"])
            sh = shape_of(case["shape"])
            if case["tf"]:
                sh *= case["tf"]
            oa = pl.observe_path(pa)
            want_b = pl.observe_path(Path(sh.d()))
            got = pl.observe_path(pa + sh)
            return {"got": got, "oa": oa, "ob": want_b}
        except Exception as e:
            import traceback
            return {"exc": type(e).__name__, "tb": traceback.format_exc()[-400:]}

    def model_ops(self, case):
        if case["k"] != "str":
            return []
        return ["path.parse\t" + "\t".join(shex(p) for p in case["pieces"]), "path.parse\t" + shex(" ".join(case["pieces"]))]

    def compare(self, case, obs, outs):
        if case["k"] != "str" or "got" not in obs:
            return []
        ms = []
        st, segs = pl.parse_model(outs[0])
        st2, segs2 = pl.parse_model(outs[1])
        if st != "ok":
            ms.append(Mismatch(stream="path.parse.pieces", case=case, impl="returned", model=outs[0][:200]))
        else:
            d = pl.segs_diff(obs["got"], segs, tol=1e-12)
            if d:
                ms.append(Mismatch(stream="path.parse.pieces", case=case, impl=d, model=outs[0][:300]))
        if outs[0] != outs[1]:
            ms.append(Mismatch(stream="model.pieces-vs-joined", case=case, impl=outs[1][:300], model=outs[0][:300]))
        return ms

    @staticmethod
    def _side_by_side(oa, ob):
        """the two geometries one after the other; only the start of the second part's first segment is linked"""
        if not ob:
            return list(oa)
        first = dict(ob[0])
        if oa:
            first["start"] = oa[-1]["end"]
        return list(oa) + [first] + list(ob[1:])

    def oracle(self, case, obs):
        if "exc" in obs:
            return [Failure(what="appending raised %s" % obs["exc"], case=case, observed=obs.get("tb"))]
        if obs.get("operand_changed"):
            return [Failure(what="Path(a) + b modified its left operand", case=case)]
        fs = []
        if case["k"] == "str":
            d = pl.obs_segs_diff(obs["got"], obs["want"], tol=1e-12)
            if d:
                fs.append(Failure(what="appending the pieces in sequence differs from parsing the joined string: " + d, case=case))
            return fs
        want = self._side_by_side(obs["oa"], obs["ob"])
        if case["k"] == "pp":
            for _ in range(case["times"] - 1):
                want = self._side_by_side(want, obs["ob"])
            d = pl.obs_segs_diff(obs["got"], want, tol=1e-12)
            if d:
                fs.append(Failure(what="path + path does not draw both geometries unchanged: " + d, case=case))
            d = pl.obs_segs_diff(obs["ob_after"], obs["ob"], tol=1e-12)
            if d:
                fs.append(Failure(what="path + path modified its right operand: " + d, case=case))
            if obs.get("got_after") is not None:
                d = pl.obs_segs_diff(obs["got_after"], obs["got"], tol=1e-12)
                if d:
                    fs.append(Failure(what="mutating the appended path afterwards changed the sum: " + d, case=case))
        else:
            d = pl.obs_segs_diff(obs["got"], want, tol=1e-9)
            if d:
                fs.append(Failure(what="path + shape does not draw both geometries unchanged: " + d, case=case))
        return fs


PROP = C17()
