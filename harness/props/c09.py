"""C09 — path-data parsing is total: any string returns or raises ValueError only."""
import itertools, math, time
from core import Prop, Failure, Mismatch, shex, exc_name
import pathlib_ as pl
from svgelements import Path, Matrix

CORPUS = [
    "", " ", "Z", "z", "Lz", "Tz", "Qz", "Cz", "Sz", "Az", "L1,1", "L1,1z", "Z Z", "ZL1,1", "M1,1z", "z M1,1", "T 1 1", "l 1 1",
    "Q1,1 z", "t z", "M0,0 1e400,1", "M0,0 a1,1 0 0 0z", "M0,0 A1,1 0 0 0 z", "V1", "M1,1 V", "M1,1 V z", "M1,1 h1z", "M1,1 L 2,2 3",
    "M1,1 C 1,1 2,2 z", "M 1,1 A 1 1 0 0 0", "M 1,1 A 1 1 0 2 0 3 3", "M 1,1 a 1 1 0 1", "M1,1 A 1", "m z", "M z", "M0,0 h", "M0,0 H",
    "M0,0 v", "M0,0 V", "h 1", "H 3", "v 1", "a 1 1 0 0 0 1 1", "A 1 1 0 0 0 1 1", "M1,1 A 1 z", "M1,1 A 1 1 0 z", "M1,1 A 1 1 0 1 z",
    "M1,1 a 1 z", "T 1 1 2 2", "S 1 1 2 2 3 3 4 4", "Q 1 1 2 2 T 3 3", "q 1 1 z t 1 1", "M0 0 L 5 5 z A 1", "M0 0 L 5 5 z L",
    "M0 0 L 5 5 z M 2 2 C 3 3", "M 1 2 3", "M1,2 L", "M1,2 L,", "M,1,2", "M1,2,L3,4", "M1 2 Z 3 4", "M1 2 X 3 4", "M1 2 L 3 4 # 5", "M 1 2 L 1e 5",
    "M 1 2 L 1e+ 5", "M 1 2 L . 5", "M 1 2 L - 5", "M 1 2 L 1.2.3.4", "M 1 2 L 0x10 5", "M 1 2 L 1,,2", "M 1 2 a 5 5 0 2 1 3 3",
    "M 1 2 a 5 5 0 01 3 3", "M 1 2 a 5 5 0 0 13 3", "M 1 2 A 5 5 0 0 1", "M 1 2 A 5 5 0 0", "M 1 2", "M 1 2 L 3 4", "M 1 2 é", "M 1 2 L ٣ 4",
    "M 1 2 L 3 4\x00", "M\x0b1 2", "M 1 2 L 3 4 z z z M", "M 1 2 L 1e309 4", "M 1 2 L -1e309 4", "M 1 2 L 1e-400 4", "M 1e308 0 l 1e308 0 l 1e308 0",
    "M1 1" + " z" * 1500, "M0,0" + " l1,1" * 4000, "M0,0" + "1,1" * 3000, "M0,0 q1,1 2,2" + " t1,1" * 1500, "M0,0" + " a1,1 0 0 1 1,1" * 600,
]

ALPHA = "MmLhVaAzZ01.-e, "          # 16 characters; exhaustive short strings
NOISE = "MmLlHhVvCcSsQqTtAaZz0123456789..--++eE,,   \t\n"
FOLLOW = ["d", "d_rel", "bbox", "length", "mul"]


def mutate(s, rng):
    if not s:
        return rng.choice(NOISE)
    r = rng.random()
    i = rng.randrange(len(s))
    if r < 0.3:
        return s[:i] + s[i + 1:]
    if r < 0.55:
        return s[:i] + rng.choice(NOISE) + s[i:]
    if r < 0.8:
        return s[:i] + rng.choice(NOISE) + s[i + 1:]
    if r < 0.9:
        j = min(len(s), i + rng.randint(1, 6))
        return s[:i] + s[j:]
    if r < 0.95:
        return s[:i] + rng.choice([" ", " ", "\x00", "٣", "é", "#", "x", "NaN", "inf", "1e999", "--", "1e", ".", "z", "Z"]) + s[i:]
    j = min(len(s), i + rng.randint(1, 6))
    return s[:j] + s[i:j] + s[j:]


class C09(Prop):
    id = "C09"
    rule = ("malformed stream: literal corpus (commands lacking operands, arcs/relative/smooth commands with no current point, bad flags, "
            "stray/non-ASCII/control characters, overflowing literals, long inputs up to 4000 commands); conforming renderings "
            "truncated at every (quick: random) position; 1-4 random character/token edits of conforming strings; random noise over the "
            "path alphabet; exhaustive strings up to length 3 (quick) / 4 (thorough) over a 16-character alphabet. Observed: exception "
            "class, wall time, retained segments (compared with the Lean model of the lexical parser), then d(), d(relative=True), "
            "bbox(), length(), abs(p*M) on the retained path. non-trivial = at least one segment retained or an exception raised")
    trusted_base = [
        "termination of the Python loops is argued by the model's decreasing-length guards (theorems C09_terminates*)",
        "time complexity is not proved (the close handling rescans the list: quadratic); 'promptly' is a wall-clock budget on inputs <= 4000 commands",
        "arithmetic overflow to inf through additions of huge relative offsets is IEEE behaviour outside the exact-arithmetic model",
    ]

    def cases(self, rng, tier):
        for s in CORPUS:
            yield {"k": "lit", "d": s}
        maxlen = 3 if tier == "quick" else 4
        for n in range(1, maxlen + 1):
            for tup in itertools.product(ALPHA, repeat=n):
                yield {"k": "short", "d": "".join(tup)}
        n = 1500 if tier == "quick" else 60000
        for i in range(n):
            cmds = pl.rand_ast(rng, ncmd=rng.choice([1, 2, 3, 4, 6]))
            full, marks = pl.render_marks(cmds, rng)
            r = rng.random()
            if r < 0.4:
                k = rng.randrange(len(full) + 1)
                yield {"k": "trunc", "d": full[:k], "full": full, "cut": k, "marks": marks}
            elif r < 0.85:
                s = full
                for _ in range(rng.choice([1, 1, 2, 3, 4])):
                    s = mutate(s, rng)
                yield {"k": "edit", "d": s}
            else:
                yield {"k": "noise", "d": "".join(rng.choice(NOISE) for _ in range(rng.randint(1, 14)))}
        if tier != "quick":
            for i in range(300):          # every truncation of some strings
                cmds = pl.rand_ast(rng, ncmd=rng.choice([2, 3, 4]))
                full, marks = pl.render_marks(cmds, rng)
                for k in range(len(full) + 1):
                    yield {"k": "trunc", "d": full[:k], "full": full, "cut": k, "marks": marks}

    def tag(self, case):
        return ["kind." + case["k"]]

    def describe(self, case):
        return {"d": case["d"][:300] + ("...(%d chars)" % len(case["d"]) if len(case["d"]) > 300 else "")}

    def nontrivial(self, case, obs):
        return bool(obs.get("segs")) or obs.get("exc") is not None

    def impl(self, case):
        s = case["d"]
        p = Path()
        t0 = time.perf_counter()
        exc = None
        try:
            p.parse(s)
        except Exception as e:
            exc = exc_name(e)
        dt = time.perf_counter() - t0
        o = {"exc": exc, "dt": dt, "segs": pl.observe_path(p), "ops": {}}
        m = Matrix("matrix(2,0.5,-1,3,7,-2)")
        def _length():
            # the follow-up only has to return: a tolerance relative to the path's extent keeps the chord recursion shallow
            # (an absolute 1e-2 on kilo-unit arcs cost 0.15 s each, hours over a thorough run)
            if len(p) >= 800:
                return 0
            try:
                bb = p.bbox()
                ext = max(1.0, abs(bb[2] - bb[0]), abs(bb[3] - bb[1])) if bb else 1.0
                if ext != ext or ext == float("inf"):
                    ext = 1.0
            except Exception:
                ext = 1.0
            return p.length(error=1e-2 * ext, min_depth=2)
        fs = {"d": lambda: p.d(), "d_rel": lambda: p.d(relative=True), "bbox": lambda: p.bbox(),
              "length": _length, "mul": lambda: abs(p * m).d()}
        for name in FOLLOW:
            try:
                fs[name]()
                o["ops"][name] = None
            except Exception as e:
                o["ops"][name] = exc_name(e)
        if case["k"] == "trunc":
            try:
                o["full_segs"] = pl.observe_path(Path(case["full"]))
            except Exception as e:
                o["full_segs"] = None
        return o

    def model_ops(self, case):
        return ["path.parse\t" + shex(case["d"])]

    def compare(self, case, obs, outs):
        st, segs = pl.parse_model(outs[0])
        want = "ok" if obs["exc"] is None else obs["exc"]
        if st != want:
            return [Mismatch(stream="path.parse.exception", case=self.describe(case), impl=want, model=st)]
        d = pl.segs_diff(obs["segs"], segs)
        if d:
            return [Mismatch(stream="path.parse.retained", case=self.describe(case), impl=d, model=outs[0][:300])]
        return []

    @staticmethod
    def _moveless(s):
        t = s.lstrip(" ,\t\n\x0c\r")
        return not t[:1] in ("M", "m")

    def oracle(self, case, obs):
        fs = []
        dc = self.describe(case)
        s = case["d"]
        if obs["exc"] not in (None, "ValueError"):
            fs.append(Failure(what="parse raised %s (only ValueError is allowed)" % obs["exc"], case=dc))
        budget = 10.0 + 2e-3 * len(s)
        if obs["dt"] > budget:
            fs.append(Failure(what="parse took %.1fs (budget %.1fs)" % (obs["dt"], budget), case=dc))
        # every retained coordinate is a real number; the only permitted None is the start of the first segment
        bad = None
        for i, sg in enumerate(obs["segs"]):
            for f in ("start", "end", "c", "c1", "c2"):
                if f not in sg:
                    continue
                v = sg[f]
                if v is None:
                    if not (i == 0 and f == "start" and sg["k"] in ("Move", "Line", "Close")):
                        bad = "segment %d (%s) has %s = None" % (i, sg["k"], f)
                elif any(c is None or math.isinf(c) or math.isnan(c) for c in v):
                    # overflow through additions of finite literals is outside the exact model (trusted base)
                    if not any(abs(x) > 1e300 for x in self._nums(s)):
                        bad = "segment %d (%s) has non-finite %s = %r" % (i, sg["k"], f, v)
            if bad:
                break
        if bad:
            fs.append(Failure(what="retained segment without real coordinates: " + bad, case=dc,
                              finding="C09-moveless-fragment" if self._moveless(s) else None))
        for name, e in obs["ops"].items():
            if e is not None:
                big = any(abs(x) > 1e150 for x in self._nums(s))
                if big and e in ("OverflowError", "ZeroDivisionError", "ValueError"):
                    continue          # float overflow in follow-up arithmetic on near-maximal literals (IEEE, trusted base)
                fs.append(Failure(what="%s on the retained path raised %s" % (name, e), case=dc,
                                  finding="C09-moveless-fragment" if self._moveless(s) else None))
        # longest valid prefix retained (truncations of conforming data)
        if case["k"] == "trunc" and obs.get("full_segs") is not None:
            full = obs["full_segs"]
            got = obs["segs"]
            need = max([n for off, n in case["marks"] if off <= case["cut"]] + [0])
            if len(got) < need:
                fs.append(Failure(what="only %d segments retained; %d argument groups are complete before the cut" % (len(got), need),
                                  case=dc))
            if len(got) > len(full) + 1:
                fs.append(Failure(what="more segments retained than the complete string draws", case=dc))
            d = pl.obs_segs_diff(got[:max(0, min(len(got), need) - 1)], full[:max(0, min(len(got), need) - 1)])
            if d:
                fs.append(Failure(what="retained prefix differs from the complete string's segments: " + d, case=dc))
        return fs

    @staticmethod
    def _nums(s):
        import re
        out = []
        for m in re.finditer(r"[-+]?[0-9]*\.?[0-9]+(?:[eE][-+]?[0-9]+)?", s):
            try:
                out.append(float(m.group()))
            except Exception:
                pass
        return out

    def judge_mismatch(self, m):
        """a model/implementation disagreement on a string that begins with a move: ask the pure-Python
        reference interpreter (written from the grammar); if it sides with the model, the string is a
        failing input (the retained segments are not those of the longest valid prefix)"""
        d = m["case"]["d"]
        if "..." in d or self._moveless(d):
            return None
        try:
            obs = self.impl({"k": "lit", "d": d})
            from core import run_driver
            st, mod = pl.parse_model(run_driver(["path.parse\t" + shex(d)])[0])
            ref = pl.ref_parse(d)
        except Exception:
            return None
        if pl.segs_diff(ref, mod) is not None and not (len(ref) == len(mod) and all(pl.seg_diff(a, b) is None for a, b in zip(ref, mod))):
            return None
        dd = pl.segs_diff(obs["segs"], ref)
        if dd is None:
            return None
        return Failure(what="retained segments are not those of the longest valid prefix (reference interpreter and model agree): " + dd,
                       case={"d": d}, observed=[s["k"] for s in obs["segs"]], expected=[s["k"] for s in ref])

    def replay_findings(self, f):
        w = f.get("witness", {}).get("d")
        if w is None:
            return None
        obs = self.impl({"k": "lit", "d": w})
        return any(x.get("finding") == f["id"] for x in self.oracle({"k": "lit", "d": w}, obs))

    def extra_search(self, rng, ctx):
        return self.cases(rng, "thorough")


PROP = C09()
