"""C04 — transform strings and Matrix algebra follow SVG/CSS transform semantics."""
import math
from core import Prop, Failure, Mismatch, fhex, shex, parse_floats, exc_name
import gen
from svgelements import Matrix, Point

TOL = 1e-9

ANGLE_UNITS = {"deg": math.tau / 360.0, "grad": math.tau / 400.0, "rad": 1.0, "turn": math.tau, "": math.tau / 360.0}
LEN_UNITS = {"": 1.0, "px": 1.0, "pt": 4.0 / 3.0, "pc": 16.0}

# (function, list of argument-kind lists it admits)
FORMS = {
    "matrix": [["n"] * 6],
    "translate": [["l"], ["l", "l"]],
    "translateX": [["l"]],
    "translateY": [["l"]],
    "scale": [["n"], ["n", "n"]],
    "scaleX": [["n"]],
    "scaleY": [["n"]],
    "rotate": [["a"], ["a", "l", "l"]],
    "skew": [["a"], ["a", "a"]],
    "skewX": [["a"]],
    "skewY": [["a"]],
}


def about(x, y, E):
    return gen.mat_mul(gen.mat_mul([1, 0, 0, 1, -x, -y], E), [1, 0, 0, 1, x, y])


def spec_matrix(name, vals):
    """SVG 1.1 7.6 / CSS Transforms 13: the matrix of one function (angles already in radians)"""
    n = name.lower()
    if n == "matrix":
        return list(vals)
    if n == "translate":
        return [1, 0, 0, 1, vals[0], vals[1] if len(vals) > 1 else 0.0]
    if n == "translatex":
        return [1, 0, 0, 1, vals[0], 0.0]
    if n == "translatey":
        return [1, 0, 0, 1, 0.0, vals[0]]
    if n == "scale":
        return [vals[0], 0, 0, vals[1] if len(vals) > 1 else vals[0], 0, 0]
    if n == "scalex":
        return [vals[0], 0, 0, 1, 0, 0]
    if n == "scaley":
        return [1, 0, 0, vals[0], 0, 0]
    if n == "rotate":
        c, s = math.cos(vals[0]), math.sin(vals[0])
        R = [c, s, -s, c, 0, 0]
        if len(vals) == 3:
            return about(vals[1], vals[2], R)
        return R
    if n == "skew":
        return [1, math.tan(vals[1]) if len(vals) > 1 else 0.0, math.tan(vals[0]), 1, 0, 0]
    if n == "skewx":
        return [1, 0.0, math.tan(vals[0]), 1, 0, 0]
    if n == "skewy":
        return [1, math.tan(vals[0]), 0.0, 1, 0, 0]
    raise KeyError(name)


def spec_denote(ast):
    """product with the right-most function applied to a point first"""
    m = list(gen.IDENT)
    for name, vals in reversed(ast):
        m = gen.mat_mul(m, spec_matrix(name, vals))
    return m


def rand_case(s, rng):
    return "".join(c.upper() if rng.random() < 0.5 else c.lower() for c in s)


def gen_transform(rng, nfunc):
    ast = []
    parts = []
    for _ in range(nfunc):
        name = rng.choice(list(FORMS))
        kinds = rng.choice(FORMS[name])
        vals = []
        texts = []
        for k in kinds:
            if k == "a":
                unit = rng.choice(["deg", "grad", "rad", "turn", "", "", "deg"])
                if unit == "turn":
                    t, v = rng.choice([("0.25", .25), ("-0.125", -.125), (".1", .1), ("1.5", 1.5), ("0.0625", .0625)])
                elif unit == "rad":
                    t, v = gen.spell_number(rng, small=True)
                    if abs(v) > 7:
                        t, v = "0.75", 0.75
                else:
                    t, v = gen.spell_number(rng)
                # keep tan() well conditioned for skews
                if name.startswith("skew"):
                    t, v = rng.choice([("10", 10.0), ("-20", -20.0), ("33.5", 33.5), ("45", 45.0), ("0", 0.0), ("5e0", 5.0), ("-.5e2", -50.0)])
                    if unit == "rad":
                        t, v = rng.choice([("0.3", .3), ("-0.7", -.7), (".2", .2)])
                    if unit == "turn":
                        t, v = rng.choice([("0.05", .05), ("-0.1", -.1)])
                    if unit == "grad":
                        t, v = rng.choice([("20", 20.0), ("-50", -50.0)])
                rad = v * ANGLE_UNITS[unit]
                vals.append(rad)
                texts.append(t + rand_case(unit, rng))
            elif k == "l":
                unit = rng.choice(["", "", "px", "pt", "pc"])
                t, v = gen.spell_number(rng)
                vals.append(v * LEN_UNITS[unit])
                texts.append(t + rand_case(unit, rng))
            else:
                t, v = gen.spell_number(rng)
                if name in ("scale", "scaleX", "scaleY", "matrix") and abs(v) < 1e-3:
                    t, v = "2", 2.0
                vals.append(v)
                texts.append(t)
        # separators between arguments
        out = ""
        for i, t in enumerate(texts):
            if i:
                sep = rng.choice([",", " ", ", ", " , ", "  ", "\t", "\n"])
                if t[0] in "+-" and rng.random() < 0.3:
                    sep = ""
                out += sep
            out += t
        pad1 = rng.choice(["", "", " ", "\t"])
        inner = rng.choice(["", "", " "]) + out + rng.choice(["", "", " "])
        parts.append(rand_case(name, rng) + pad1 + "(" + inner + ")")
        ast.append([name, vals])
    s = ""
    for i, p in enumerate(parts):
        if i:
            s += rng.choice([" ", "", ",", ", ", "  ", "\n"])
        s += p
    return s, ast


CORPUS = [
    "translate(1,2) rotate(30)", "rotate(30, 10, 20)", "skew(30)", "skew(10,20)", "skewX(15) skewY(-5)",
    "scale(2)", "scale(2 -3)", "matrix(1 2 3 4 5 6)", "translate(10)", "translateX(3pt) translateY(1pc)",
    "rotate(0.25turn)", "rotate(100grad)", "rotate(1.5rad)", "ROTATE(90DEG)", "scaleX(2)scaleY(.5)",
    "translate(1e1-2)", "translate(.5.5)", "matrix(1,0,0,1,+5,-5)rotate(-45)",
    "translate(4px,3pt) scale(-1,1)", "rotate(45deg , 1 , 1)", "skewx(10)", "  translate ( 5 , 6 ) ",
]


class C04(Prop):
    id = "C04"
    rule = ("cases: (parse) transform lists generated from an AST of 1-8 functions (all 11 names, every admitted "
            "argument count, all angle units, px/pt/pc/unitless lengths, random case/separators/number spellings) "
            "rendered to a string; expected matrix computed from the AST by the SVG/CSS definition; (alg) random "
            "invertible matrices with cond<=400 and points; (prepost) every pre_/post_ operation with/without centre. "
            "non-trivial = string with >=2 functions or a function with optional arguments, or any alg/prepost case; "
            "distinct by canonical JSON of the case")
    trusted_base = [
        "math.cos/sin/tan of the parsed angle are libm's; float(str) is modelled by Lean's OfScientific Float",
        "Python re engine: the two transform regexes are transcribed as scanners (Model/Transform.lean) and validated by this stream",
        "deferred length units (in, cm, mm, %, em, v*) inside transform lists are outside the modelled fragment (library raises ValueError when composing them)",
    ]
    assumptions = ["transform arguments are finite doubles; |det| of generated matrices bounded away from 0 (cond <= 400)"]

    def cases(self, rng, tier):
        for s in CORPUS:
            yield {"k": "parse", "s": s, "ast": None}
        n = 2500 if tier == "quick" else 120000
        for i in range(n):
            nf = rng.choice([1, 1, 2, 2, 3, 4, 5, 6, 8])
            s, ast = gen_transform(rng, nf)
            yield {"k": "parse", "s": s, "ast": ast}
        for i in range(n // 3):
            A = gen.matrix_invertible(rng)
            B = gen.matrix_invertible(rng)
            p = [gen.coord(rng), gen.coord(rng)]
            yield {"k": "alg", "A": A, "B": B, "p": p}
        ops = ["pre_scale", "post_scale", "pre_translate", "post_translate", "pre_rotate", "post_rotate",
               "pre_skew", "post_skew", "pre_skew_x", "post_skew_x", "pre_skew_y", "post_skew_y",
               "pre_scale_x", "pre_scale_y", "post_scale_x", "post_scale_y", "pre_cat", "post_cat"]
        for i in range(n // 3):
            op = rng.choice(ops)
            M = gen.matrix_invertible(rng)
            centre = rng.random() < 0.6
            c = [round(rng.uniform(-50, 50), 2), round(rng.uniform(-50, 50), 2)] if centre else []
            if rng.random() < 0.15 and centre:
                c[rng.randint(0, 1)] = 0.0
            if "cat" in op:
                args = gen.matrix_invertible(rng)
            elif "translate" in op:
                args = [gen.coord(rng), gen.coord(rng)]
            elif "rotate" in op:
                args = [rng.uniform(-7, 7)] + c
            elif op.endswith("skew"):
                args = [rng.uniform(-1.2, 1.2), rng.uniform(-1.2, 1.2)] + c
            elif "skew_" in op:
                args = [rng.uniform(-1.2, 1.2)] + c
            elif op.endswith("scale"):
                args = [rng.uniform(-4, 4) or 1.0, rng.uniform(-4, 4) or 1.0] + c
            else:
                args = [rng.uniform(-4, 4) or 1.0] + c
            yield {"k": "prepost", "op": op, "M": M, "args": args}

    def tag(self, case):
        if case["k"] == "parse":
            n = len(case["ast"]) if case["ast"] else 0
            return ["parse", "parse.n=%d" % n] + (["fn." + f[0] for f in case["ast"]] if case["ast"] else [])
        if case["k"] == "prepost":
            return ["prepost", "op." + case["op"]]
        return case["k"]

    def nontrivial(self, case, obs):
        if case["k"] == "parse":
            return case["ast"] is None or len(case["ast"]) >= 2 or len(case["ast"][0][1]) >= 2
        return True

    # ------------------------------------------------------------------ implementation
    def impl(self, case):
        k = case["k"]
        if k == "parse":
            try:
                m = Matrix(case["s"])
                return {"m": [float(m.a), float(m.b), float(m.c), float(m.d), float(m.e), float(m.f)]}
            except Exception as e:
                return {"exc": exc_name(e)}
        if k == "alg":
            A, B, p = Matrix(*case["A"]), Matrix(*case["B"]), Point(*case["p"])
            A0, B0 = repr(A), repr(B)
            AB = A * B
            inv = ~A
            r = {
                "AB": mlist(AB), "p_AB": plist(p * AB), "pA_B": plist((p * A) * B),
                "inv": mlist(inv), "A_inv": mlist(A * inv), "inv_A": mlist(inv * A),
                "IA": mlist(Matrix() * A), "AI": mlist(A * Matrix()),
                "pA": plist(A.point_in_matrix_space(p)),
                "operands_untouched": repr(A) == A0 and repr(B) == B0,
            }
            return r
        if k == "prepost":
            m = Matrix(*case["M"])
            getattr(m, case["op"])(*case["args"])
            return {"m": mlist(m)}

    # ------------------------------------------------------------------ model
    def model_ops(self, case):
        k = case["k"]
        if k == "parse":
            return ["c04.parse\t" + shex(case["s"])]
        if k == "alg":
            A = " ".join(fhex(x) for x in case["A"])
            B = " ".join(fhex(x) for x in case["B"])
            p = " ".join(fhex(x) for x in case["p"])
            return ["c04.mul\t%s\t%s" % (A, B), "c04.inv\t" + A, "c04.apply\t%s\t%s" % (A, p)]
        if k == "prepost":
            return ["c04.prepost\t%s\t%s\t%s" % (case["op"], " ".join(fhex(x) for x in case["M"]),
                                                " ".join(fhex(x) for x in case["args"]))]

    def compare(self, case, obs, outs):
        k = case["k"]
        ms = []
        if k == "parse":
            mo = parse_floats(outs[0])
            if "exc" in obs:
                if not (isinstance(mo, str) and mo == "ERR " + obs["exc"]):
                    ms.append(Mismatch(stream="c04.parse", case=case, impl=obs, model=outs[0]))
            elif isinstance(mo, str) or not vec_close(obs["m"], mo, TOL):
                ms.append(Mismatch(stream="c04.parse", case=case, impl=obs, model=mo))
        elif k == "alg":
            ab, inv, pa = parse_floats(outs[0]), parse_floats(outs[1]), parse_floats(outs[2])
            if not vec_close(obs["AB"], ab, TOL):
                ms.append(Mismatch(stream="c04.mul", case=case, impl=obs["AB"], model=ab))
            if not vec_close(obs["inv"], inv, 1e-7):
                ms.append(Mismatch(stream="c04.inv", case=case, impl=obs["inv"], model=inv))
            if not vec_close(obs["pA"], pa, TOL):
                ms.append(Mismatch(stream="c04.apply", case=case, impl=obs["pA"], model=pa))
        elif k == "prepost":
            mo = parse_floats(outs[0])
            if isinstance(mo, str) or not vec_close(obs["m"], mo, TOL):
                ms.append(Mismatch(stream="c04.prepost", case=case, impl=obs, model=mo))
        return ms

    # ------------------------------------------------------------------ property oracle on the implementation
    def oracle(self, case, obs):
        k = case["k"]
        fs = []
        if k == "parse":
            if case["ast"] is None:
                if "exc" in obs:
                    fs.append(Failure(what="corpus transform raised", case=case, observed=obs))
                return fs
            exp = spec_denote(case["ast"])
            if "exc" in obs:
                fs.append(Failure(what="conforming transform list raised %s" % obs["exc"], case=case, observed=obs, expected=exp))
            elif not vec_close(obs["m"], exp, TOL):
                fs.append(Failure(what="Matrix(string) is not the product of its functions (right-most first)",
                                  case=case, observed=obs["m"], expected=exp))
        elif k == "alg":
            A, B, p = case["A"], case["B"], case["p"]
            if not vec_close(obs["p_AB"], obs["pA_B"], TOL):
                fs.append(Failure(what="p*(A*B) != (p*A)*B", case=case, observed=[obs["p_AB"], obs["pA_B"]]))
            if not vec_close(obs["AB"], gen.mat_mul(A, B), TOL):
                fs.append(Failure(what="A*B is not 'first A then B'", case=case, observed=obs["AB"], expected=gen.mat_mul(A, B)))
            if not vec_close(obs["pA"], list(gen.mat_apply(A, p)), TOL):
                fs.append(Failure(what="point application", case=case, observed=obs["pA"]))
            # two-sided inverse, tolerance scaled by the size of the entries involved
            sc = max(1.0, max(abs(x) for x in A)) * max(1.0, max(abs(x) for x in obs["inv"]))
            for nm in ("A_inv", "inv_A"):
                if not vec_close(obs[nm], gen.IDENT, 1e-11 * sc, rel=False):
                    fs.append(Failure(what="~M is not a two-sided inverse (%s)" % nm, case=case, observed=obs[nm]))
            for nm in ("IA", "AI"):
                if not vec_close(obs[nm], A, 1e-12):
                    fs.append(Failure(what="identity is not neutral (%s)" % nm, case=case, observed=obs[nm]))
            if not obs["operands_untouched"]:
                fs.append(Failure(what="operator modified its operand", case=case))
        elif k == "prepost":
            op, M, a = case["op"], case["M"], case["args"]
            E = elementary(op, a)
            exp = gen.mat_mul(E, M) if op.startswith("pre_") else gen.mat_mul(M, E)
            if not vec_close(obs["m"], exp, TOL):
                fs.append(Failure(what="%s is not %s multiplication by the elementary matrix" % (op, "left" if op.startswith("pre_") else "right"),
                                  case=case, observed=obs["m"], expected=exp))
        return fs

    def judge_mismatch(self, m):
        return None


def elementary(op, a):
    base = op.split("_", 1)[1]

    def g(i, d):
        return a[i] if i < len(a) else d
    if base == "cat":
        return list(a)
    if base == "translate":
        return [1, 0, 0, 1, g(0, 0.0), g(1, 0.0)]
    if base == "scale":
        return about(g(2, 0.0), g(3, 0.0), [g(0, 1.0), 0, 0, g(1, g(0, 1.0)), 0, 0])
    if base == "scale_x":
        return about(g(1, 0.0), g(2, 0.0), [g(0, 1.0), 0, 0, 1, 0, 0])
    if base == "scale_y":
        return about(g(1, 0.0), g(2, 0.0), [1, 0, 0, g(0, 1.0), 0, 0])
    if base == "rotate":
        c, s = math.cos(a[0]), math.sin(a[0])
        return about(g(1, 0.0), g(2, 0.0), [c, s, -s, c, 0, 0])
    if base == "skew":
        return about(g(2, 0.0), g(3, 0.0), [1, math.tan(g(1, 0.0)), math.tan(a[0]), 1, 0, 0])
    if base == "skew_x":
        return about(g(1, 0.0), g(2, 0.0), [1, 0.0, math.tan(a[0]), 1, 0, 0])
    if base == "skew_y":
        return about(g(1, 0.0), g(2, 0.0), [1, math.tan(a[0]), 0.0, 1, 0, 0])
    raise KeyError(op)


def mlist(m):
    return [float(m.a), float(m.b), float(m.c), float(m.d), float(m.e), float(m.f)]


def plist(p):
    return [float(p[0]), float(p[1])]


def vec_close(a, b, tol, rel=True):
    if a is None or b is None or isinstance(b, str) or len(a) != len(b):
        return False
    sc = max([1.0] + [abs(x) for x in a] + [abs(x) for x in b]) if rel else 1.0
    for x, y in zip(a, b):
        if math.isnan(x) or math.isnan(y):
            if not (math.isnan(x) and math.isnan(y)):
                return False
            continue
        if abs(x - y) > tol * sc:
            return False
    return True


PROP = C04()
