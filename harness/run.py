import sys, os, argparse, importlib

HERE = os.path.dirname(os.path.abspath(__file__))
sys.path.insert(0, HERE)
import core  # noqa: E402


def main():
    ap = argparse.ArgumentParser()
    ap.add_argument("prop")
    ap.add_argument("--tier", default=os.environ.get("VERIF_TIER", "quick"), choices=["quick", "thorough"])
    ap.add_argument("--replay", default=None)
    ap.add_argument("--seed", default=os.environ.get("VERIF_SEED", "0"))
    a = ap.parse_args()
    try:
        seed = int(a.seed)
    except ValueError:
        seed = 0
    try:
        mod = importlib.import_module("props." + a.prop.lower())
        prop = mod.PROP
    except Exception as e:
        import traceback
        traceback.print_exc()
        print("INFRA: cannot load property module %s: %r" % (a.prop, e))
        return 2
    try:
        return core.run_property(prop, a.tier, seed, replay=a.replay)
    except Exception as e:
        import traceback
        traceback.print_exc()
        print("INFRA: %r" % e)
        return 2


if __name__ == "__main__":
    sys.exit(main())
