"""Writes MANIFEST.json from the table below (kept in one place so it stays valid)."""
import json, os
HERE = os.path.dirname(os.path.dirname(os.path.abspath(__file__)))
BASELINE = "cd /repo && /venv/bin/python -m pytest -ra -q -p no:cacheprovider --timeout=900 --continue-on-collection-errors"

CLAIMED = {
    "C01": dict(
        text="Lean 4 theorems, for every command list of every length (induction), over any scalar type: the library's builder, which "
             "keeps no interpreter state and recomputes current point, subpath start and smooth control from the stored segments at every "
             "command (Model/PathBuild), produces exactly the segment list of the SVG 2 chapter 9 interpreter with explicit state "
             "(Spec/PathSpec.interp): one segment per argument group, same kinds and order, same absolute start/control/end from relative "
             "offsets, H/V as lines, close to the subpath start, smooth commands reflecting only a control point of the same degree, "
             "segment-completing z; every segment starts where its predecessor ended and every close returns to its subpath start. The "
             "lexical parser (four regex scanners, 20-branch dispatch loop, inline close) is modelled in Model/PathParse and tied to "
             "the code together with the token-level model by differential execution on all 400 ordered letter pairs x {M,m}, random "
             "conforming command lists with random conforming layouts and a literal corpus; the Lean specification interpreter is "
             "evaluated on the generator's AST and compared with what Path(d) returns (failing-input search).",
        note="Partial: the lexer round trip (render then tokenise, any layout/number spelling) is validated by the exhaustive/random "
             "correspondence, not proved; theorems are token-level and on. float(text) vs exact value: IEEE gap. Arcs are compared "
             "through an F.6.5 evaluator written from the specification (C05).",
        technique="Lean 4 proof (list induction with a state-reconstruction invariant) + differential correspondence (char-level and token-level models) + Lean specification interpreter as oracle",
        ref="DESIGN.md §4 C01"),
    "C09": dict(
        text="Lean 4 theorems about the character-level model of SVGLexicalParser + Path callbacks (Model/PathParse, Model/PathBuild), "
             "in which Python's partiality is explicit (None operands, TypeError on None arithmetic, AttributeError on None.attr, "
             "IndexError, and a marker for a loop iteration that consumes nothing): for EVERY list of characters and every "
             "well-formed existing path, parsing ends with no exception or ValueError - no other kind is reachable; every while loop "
             "consumes at least one character per iteration (termination); what is retained stays well-formed, so the result holds "
             "for any history of appended strings. Proved via scanner progress lemmas, 'no number here persists' lemmas (a missing "
             "arc flag implies ValueError before Path.arc sees a None radius), callback lemmas and functional induction over the six "
             "loops. Model tied to the code on a malformed stream (truncations at every position, token edits, noise, exhaustive "
             "short strings, corpus, long inputs): exception class and retained segments compared; follow-up d()/bbox()/length()/"
             "abs(p*M) and a prefix-retention relation evaluated on the implementation; a pure-Python reference interpreter judges "
             "disagreements.",
        note="Partial: 'every retained coordinate is a real number' is decided by correspondence+oracle, not by theorem, and is FALSE for "
             "move-less fragments (known finding C09-moveless-fragment); time complexity is a wall-clock budget, not a theorem; float "
             "overflow by addition of finite literals is outside the exact model. Three fix: commits (A without flags, smooth without "
             "current point, overflowing literal).",
        technique="Lean 4 proof (functional induction over the parser loops, scanner progress lemmas) + differential correspondence on malformed inputs + reference-interpreter judge",
        ref="DESIGN.md §4 C09"),
    "C17": dict(
        text="Lean 4 theorems for all command lists, all split points and all histories (induction over the list of pieces): because the "
             "interpreter's state is a function of the segment list only, running b on the path built from a equals running a++b "
             "(also when a raises), any sequence of appended pieces equals one parse of their concatenation, the result is the SVG 2 "
             "interpretation of the joined list (by C01), and the segments already stored are kept as a prefix. Tied to the code by "
             "differential execution of the character-level model on the pieces in sequence (Path(a)+b, +=, .parse, mixed, "
             "Move(..)+b), compared with the library and with the model's parse of the joined string; the relation "
             "Path(a)+b+... == Path(a b ...) and the side-by-side relation for Path+Path (appended once/twice, operand observed and "
             "mutated afterwards) and Path+Shape are evaluated directly on the implementation.",
        note="Partial: continuation at character level (lexing of a ++ ' ' ++ b) is validated by correspondence, the theorems are "
             "token-level; Path+Path/Path+Shape are decided by the oracle relation. Path.append(str)/extend(str) parse stand-alone "
             "and are outside the statement.",
        technique="Lean 4 proof (foldlM append / induction over histories, reuse of the C01 refinement) + differential correspondence + relation oracle on the implementation",
        ref="DESIGN.md §4 C17"),
    "C07": dict(
        text="Lean 4 theorems over every linearly ordered commutative group of scalars, for paths of every length: with an exact number "
             "printer, for every valid path (the SVG 2 interpretation of any conforming command list: any segment mix, several subpaths, "
             "closes, subpaths begun without their own move) and each of the 9 (relative, smooth) option pairs, the command list svg_d "
             "writes (Model/PathPrint: letter case from the three-valued relative option and the segment's memory, running current "
             "point, S/T chosen by is_smooth_from against the previous segment) is conforming and is interpreted back - by the "
             "specification interpreter and, via C01, by the library's builder - to the same number, kinds and coordinates of segments: "
             "relative offsets re-accumulate, and smooth shorthand is written exactly when the reader's reflection rule reconstructs the "
             "control point (both degrees, after any predecessor). The svg_d model is compared token-wise with Path.d() for all 9 "
             "option pairs on generated paths; the round trip Path(p.d(r,s)) vs abs(p) (also transformed paths, str, Subpath.d) is "
             "evaluated on the implementation within the 12-digit bound, arcs pointwise.",
        note="Partial: number formatting (%.12G) and float(text) enter only through the harness bound (2e-11 x size x segments); the "
             "re-derivation of arc radii/rotation/flags from the centre form by Arc.d() is decided by the oracle, not by theorem. Known "
             "findings C07-arc-d-6digits (radii printed with 6 digits; attributed only when the 6-digit prediction explains the deviation) "
             "and C07-subpath-without-move.",
        technique="Lean 4 proof (list induction; abel over an ordered commutative group; case analysis of the printer's decisions) + token-wise differential correspondence + round-trip oracle on the implementation",
        ref="DESIGN.md §4 C07"),
    "C16": dict(
        text="Lean 4 theorems. Segment level, over any commutative ring, for every t: the reversed line, quadratic and cubic satisfy "
             "q(t) = p(1-t); a reversed arc keeps centre and semi-diameters, swaps its endpoints and negates its sweep, so its parameter "
             "at t is the original's at 1-t; reversing any segment twice restores it. Subpath level, for lists of every length: for a "
             "connected subpath that begins with its own move, Subpath.reverse (Model/Reverse: move kept in place and re-targeted, "
             "drawn segments individually reversed in reverse order, close kept last and re-targeted) preserves the number of drawn "
             "segments, closed stays closed and open stays open, no drawn segment is lost (reversing all again gives the original list), "
             "the result is connected from the old end back to the old start with the close returning to the new start, and reversing "
             "twice restores the subpath exactly; for whole paths in linked form (any number of such subpaths, every move remembering where "
             "the previous subpath left the pen) Path.reverse of the reversed path restores the path exactly (C16_path_involution: "
             "as_subpaths re-cuts the re-linked windows, window reversal commutes with re-linking up to the moves' remembered starts, "
             "which re-linking overwrites) and the reversed path consists of the reversed windows in reverse order. The model (whole-path reverse incl. re-assembly in reverse order, and subpath-view "
             "reverse) is compared segment-for-segment with the code on every kind sequence up to length 4/6 and on random paths; the "
             "property's relations (per-segment q(t)=p(1-t), kinds per subpath in reverse order, connectivity, points kept, involution, "
             "view-locality, commutation with transforms) are evaluated on the implementation.",
        note="Partial: the theorems require every subpath to begin with its own move; for other paths the statement is false of the code "
             "(known finding C16-subpath-without-move, witnessed each run). The "
             "two-index swap loop of _reverse_segments is modelled as a loop (Model/Reverse.swapLoop, the function the driver runs) and proved to compute the reversed list of reversed segments (C16_swap_loop_is_reversal). Arc traversal uses the evaluator decided by C02/C05.",
        technique="Lean 4 proof (ring identities; list induction over chains with reverse/append lemmas) + differential correspondence (exhaustive kind sequences) + relation oracle on the implementation",
        ref="DESIGN.md §4 C16"),
    "C04": dict(
        text="Lean 4 theorems over an arbitrary field: point application/composition associativity, two-sided inverse, "
             "every pre_/post_ operation = left/right multiplication by the elementary matrix about its centre, and "
             "Matrix.parse of any list of functions (any length, every admitted argument count) = the product the list "
             "denotes with the right-most function applied first (induction over the list). The model (Model/Geom, "
             "Model/Transform incl. both regex scanners, Angle/Length conversion, IndexError-driven optional arguments) is "
             "tied to the code on every run by differential execution on generated transform strings, algebra cases and "
             "pre/post calls; the SVG/CSS denotation is also evaluated directly on the implementation (failing-input search).",
        note="Trusted: Lean kernel + propext/Classical.choice/Quot.sound; IEEE rounding and libm cos/sin/tan (theorems are over "
             "exact fields); Python re engine; correspondence harness. Deferred length units (in/cm/mm/%/em/v*) inside "
             "transform lists are not modelled (the library itself raises ValueError when composing them).",
        technique="Lean 4 proof (induction over transform lists, ring/linear_combination over a field) + differential correspondence model vs code",
        ref="DESIGN.md §4 C04"),
    "C12": dict(
        text="Lean 4 theorems over an arbitrary linearly ordered field about the transcribed Length class: every unit's value() equals "
             "the CSS ratio (px/unitless/pt/pc/in exactly; %/em/ex/vw/vh/vmin/vmax against the supplied context; unresolvable lengths stay "
             "symbolic), and for all amounts and all unit pairs a+b, a-b resolve to the sum/difference of the resolved values, a/b is the "
             "ratio, a<b the numeric order, a==b equality within ERROR, commensurable pairs are never rejected. mm/cm are proved to "
             "resolve with the library's 6-digit inch constants (known finding, relative error <= 5.4e-7, bound proved). The model is "
             "tied to the code by exhaustive differential execution over all 14x14 unit pairs x 5 operators plus generated amounts and "
             "contexts; an exact-rational CSS oracle is evaluated on the implementation.",
        note="Trusted: Lean kernel + standard axioms; IEEE rounding (comparisons within 1e-9 of a tie are not judged); float(str); "
             "Python re for REGEX_LENGTH (scanner validated by the stream); Viewbox construction abstracted to (width,height).",
        technique="Lean 4 proof (case analysis over unit pairs + field arithmetic) + exhaustive differential correspondence + exact-rational oracle",
        ref="DESIGN.md §4 C12"),
    "C13": dict(
        text="Lean 4: (1) the code's answer for every one of the 147 keywords x 3 letter cases, transparent and none is re-extracted "
             "from /repo on every run into Generated/C13_Observed.lean and compared by the kernel (decide +kernel) with the table "
             "transcribed from the SVG 1.1 specification; (2) for every 32-bit word and every integer argument each channel setter "
             "changes only its channel and reads back clamped, rgb/rgba/argb/bgr packings round-trip, Color(c.hex)=c, #rgb/#rgba digit "
             "doubling and #rrggbb/#rrggbbaa (proved over digits, omega); (3) the HSL conversion equals the CSS Color 3 algorithm for all "
             "h,s,l over any ordered field and the hue normalisation reaches [0,1] for every hue reduced mod 1. Model tied to the code by "
             "exhaustive keyword/hex3/hex4/per-channel streams and sampled functional spellings; spec oracle (table, clamping, colorsys) "
             "evaluated on the implementation.",
        note="Trusted: Lean kernel + standard axioms; Python int bit operators read as div/mod arithmetic (exhaustively cross-checked per "
             "channel); %02x / int(s,16); float rounding in %/hsl forms (+-1 LSB tolerated); hue/saturation/lightness setters are checked "
             "by the oracle only (8-bit quantisation, no theorem).",
        technique="Lean 4 proof (kernel-decided regenerated table; omega over div/mod; field algebra for HSL) + exhaustive differential correspondence",
        ref="DESIGN.md §4 C13"),
    "C11": dict(
        text="Lean 4 theorems over an arbitrary linearly ordered field: the transcribed viewbox_transform equals SVG 2 section 8.2 for "
             "every element box, viewBox, align and meetOrSlice (all 10x3 attribute spellings decided by the kernel, arithmetic by ring); "
             "meet maps the viewBox rectangle inside the viewport and slice over it, touching in at least one dimension; min/mid/max "
             "alignment per axis; align=none is an exact fit; the four textual forms of the emitted transform denote the same matrix; "
             "missing viewBox = identity, zero sizes disable rendering and no division by zero escapes. Model tied to the code on all 30 "
             "cells x geometries plus generated geometries, Viewbox objects and parsed documents with every size-supply route; section "
             "8.2 and its geometric consequences are evaluated independently on the implementation.",
        note="Trusted: Lean kernel + standard axioms; '%.12f' printing of the four numbers (absolute 5e-13) is modelled as exact; IEEE "
             "rounding; unit/percentage resolution of width/height is C12's model; non-canonical preserveAspectRatio spellings (double "
             "spaces, 'defer') are outside the quantifier.",
        technique="Lean 4 proof (kernel-decided 30-cell table + ordered-field algebra, nlinarith) + differential correspondence + independent section-8.2 oracle",
        ref="DESIGN.md §4 C11"),
    "C02": dict(
        text="Lean 4 theorems over an arbitrary field: (X*M).point(t) = M(X.point(t)) for every move/line/close/quadratic/cubic, every "
             "matrix and t, lifted to paths of any length (List.map induction) and composition (X*A)*B = X*(A*B); for arcs, the ellipse "
             "denotation centre + (prx-c)cos + (pry-c)sin commutes with every affine matrix, the re-orthogonalisation step of "
             "Arc.__imul__ keeps the same point set (parameter shift), yields perpendicular semi-diameters under the code's half-angle "
             "condition, preserves/multiplies orientation by det M, and the library's evaluator equals the denotation exactly when the "
             "stored semi-diameters are perpendicular (with a proved counter-example otherwise). Tied to the code by differential "
             "execution of the Float-instantiated model (seg.points, seg.mulpoints) on generated segments x matrices; the commutation "
             "relation is evaluated on the implementation for segments, paths (constructor/+/extend/append, copy and in-place routes) "
             "and all seven shapes.",
        note="Partial: the trigonometric inversion t_at_point(point_at_t(t)) (KL) is validated by correspondence, not proved; IEEE "
             "rounding and libm. Known finding C02-roundshape-segments (Circle/Ellipse .segments() under non-orthogonal images).",
        technique="Lean 4 proof (ring / linear_combination over a field, list induction) + differential correspondence + relation oracle on the implementation",
        ref="DESIGN.md §4 C02"),
    "C05": dict(
        text="Lean 4 theorems over an ordered field (sqrt as 'a number whose square is', rotation and position as unit pairs): both "
             "endpoints lie on the ellipse about the F.6.5 centre; the F.6.6 correction is the least uniform scale reaching both "
             "endpoints; every point of the arc satisfies the implicit ellipse equation with the given rotation and (corrected) radii; "
             "the code's orientation test has the sign of the centre coefficient, and with it the four flag combinations give "
             "direction = sweep flag, extent > half turn iff large-arc flag, never beyond a turn; negative radii act as absolute "
             "values; zero radius / coincident endpoints give zero extent and the line's (resp. no) points. Model (_svg_parameterize, "
             "point_at_t, t_at_point) tied to the code by differential execution; an F.6.5 evaluator written from the specification "
             "(atan2-based) plus the intrinsic relations are evaluated on the implementation.",
        note="Partial: the value of acos and the inversion t_at_point(point_at_t) (KL) are validated by correspondence only; arcs within "
             "1e-6 rad of the exact half turn are compared with tolerance 1e-5 relative (conditioning). IEEE rounding, libm.",
        technique="Lean 4 proof (field_simp/linear_combination/nlinarith over an ordered field) + differential correspondence + specification-derived F.6 oracle",
        ref="DESIGN.md §4 C05"),
    "C08": dict(
        text="Lean 4 theorems over a linearly ordered field: line and quadratic-Bezier boxes contain point(t) for every t in [0,1], are "
             "ordered, and each side is attained (vertex/endpoint case analysis); the same for cubic Beziers (C08_cubic: Simpson's rule is "
             "exact for cubics, the derivative's sign follows from its factorisation over the roots _real_minmax computes; for every "
             "cubic whose leading coefficient per coordinate is >= the code's 1e-8 threshold in size or exactly 0, given a square root "
             "on the non-negatives); the box of any list of members (path, subpath, group, "
             "use) is the componentwise union, contains every member and each side is some member's side (list induction), empty "
             "containers have none; stroke growth by delta on every side. For arcs the algebraic part is proved (C08_arc_ellipse_box: every point "
             "of the arc's denotation lies in the whole ellipse's box; C08_arc_critical_touches / C08_arc_touch_is_critical: that box is "
             "touched exactly where a coordinate's derivative vanishes; C08_arc_candidate_angles / _axis: the angles Arc.bbox collects are "
             "those; C08_arc_pointAtT_is_den ties the evaluator the driver runs to that denotation), and so is the analytic part over the reals "
             "(C08_arc_between_candidates: between two parameters with no critical parameter strictly inside, the coordinate stays between "
             "its two end values - intermediate value theorem for the derivative's sign, mean value theorem for monotonicity; C08_arc_box_from_candidates: any finite list holding both ends of the sweep and every critical "
             "parameter strictly inside it gives, as min/max over the listed points, a box containing the point at every parameter of the "
             "sweep - the hypotheses are what Arc.bbox sets out to collect; C08_arc_critical_spacing: the critical parameters of a "
             "non-constant coordinate are exactly one of them plus the integer multiples of a half turn, the (tau/2)*k shifts of the code). Not proved: "
             "that nine shifts k = -4..4, converted through angle_inv (degrees, theta, delta), suffice for every start parameter and sweep, and cubics with a leading coefficient strictly inside the threshold: the transcribed "
             "algorithms (Model/BBox.lean) are compared with the code, and a dense-sampling + ternary-refinement oracle checks "
             "containment and tightness of all four sides on the implementation, for segments, shapes/paths/subpaths in all four "
             "(transformed, with_stroke) combinations with painted/none/unset strokes, and groups.",
        note="Partial: the enumeration of critical parameters inside a partial elliptical arc (angle_inv) (and cubics with 0 < |leading coefficient| < 1e-8) are decided by correspondence + oracle, not by theorem. Known finding "
             "C08-roundshape-bbox. Sampling oracle resolution 161 samples + refinement, tolerance 2e-7 of the object size.",
        technique="Lean 4 proof (ordered-field case analysis, nlinarith, list induction) for lines/quadratics/cubics/unions/stroke + differential correspondence + sampling oracle (arcs: ellipse-box containment, touching iff critical, candidate angles and monotonicity between candidates proved; the enumeration of candidates inside the sweep decided by correspondence + oracle)",
        ref="DESIGN.md §4 C08"),
    "C06": dict(
        text="Lean 4 theorems: the rect corner-radius decision table equals the SVG 2 10.2 used values for every given/omitted/zero/"
             "over-large combination; the rect, circle/ellipse and polyline/polygon decompositions (any number of points, by induction) "
             "are connected, closed shapes end with a close returning to their first point, each rounded corner built by the keyword Arc "
             "constructor has the inner-corner centre and is the positive quarter of the axis-aligned ellipse with radii (rx, ry), the "
             "round shapes run through (cx+rx,cy),(cx,cy+ry),(cx-rx,cy),(cx,cy-ry) in that order, and degenerate shapes give no "
             "segments; transforms commute with all of them by C02. The model (Model/Shapes.lean) is compared segment-for-segment with "
             "shape.segments(False); the SVG 2 chapter 10 equivalent path, written as path data from the specification, is compared with "
             "segments(True), Path(shape), abs(shape), Path(shape.d()), ==, bbox and length on the implementation under every "
             "transform class and all three constructor forms.",
        note="Trusted: Path(d) parsing (C01), number printing (C07), chord-length recursion (C15) for the length agreement; IEEE "
             "rounding. Known findings C06-roundshape-segments (circle/ellipse .segments()/d() under non-orthogonal images) and "
             "C06-arc-d-6digits (6-digit arc radii in d()).",
        technique="Lean 4 proof (decision table, structural/list induction, field algebra) + differential correspondence + specification-path oracle",
        ref="DESIGN.md §4 C06"),
    "C19": dict(
        text="Lean 4 theorems, for every arc, every slice count and paths of every length (induction), over any scalar type and any "
             "cos/sin: the loops of as_cubic_curves/as_quad_curves (Model/ArcBezier) return exactly n curves of the right kind, the "
             "first starting at the arc's start, each next starting exactly at its predecessor's end, the last ending exactly at the "
             "arc's end; an arc of zero extent yields nothing whatever count is asked, a zero-radius arc the one straight curve, and "
             "the chain is empty only for zero extent or count 0. Over any field: every interior slice is the image, under the affine "
             "map L taking the unit circle to the arc's ellipse, of the corresponding unit-circle slice (cubic and quadratic control "
             "points, and every curve point), and L is max(rx,ry)-Lipschitz, so the distance from the ellipse relative to the larger "
             "radius is at most the unit-circle error of one slice. Splice: on an exactly connected path not beginning with an arc, "
             "the backwards replace-and-revalidate loop of approximate_arcs_with_* (slice assignment -> validate_connections) returns "
             "exactly the original list with each arc expanded in place: all other segments untouched, result exactly connected. "
             "Model compared curve-for-curve with the code (default and explicit counts, both kinds, whole paths); chain shape, "
             "ellipse distance bounds 1e-3/1e-2, refinement monotonicity and path integrity evaluated on the implementation.",
        note="Partial: the numeric size of the unit-circle error of one slice (<= 30 degrees) is measured by the oracle, not proved; "
             "get_start_t (KL) by correspondence. Known finding C19-moveless-close (fragment beginning with an arc: its close is "
             "re-targeted) - exactly the case the splice theorem excludes. Two fix: commits (zero-radius arc vanished; explicit count "
             "on a zero-extent arc).",
        technique="Lean 4 proof (induction over the slice loop and over the path; ring over a field; ordered-field Lipschitz bound) + differential correspondence + geometric oracle on the implementation",
        ref="DESIGN.md §4 C19"),
    "C15": dict(
        text="Lean 4 theorems. The chord recursion PathSegment.segment_length (Model/ArcLen.segLen; every error, min_depth and "
             "recursion budget; induction over the budget) depends on the curve only through distances between sampled points, so "
             "it - and its subdivision tree - is the same for a curve and its image under any rotation, translation or reflection; "
             "it is unchanged by reversal t -> 1-t (over a field, symmetric distance); with all distances and the error scaled by "
             "c > 0 it scales by c; it never returns less than the chord (triangle inequality) and is 0 on a constant curve. Moves "
             "have length 0, lines/closes the distance of their end points; a shape's length is the sum of its segments' lengths "
             "(CPython 3.12's compensated sum() = the mathematical sum over a field), zero entries may be dropped, the fractions "
             "sum to 1. point(t): for non-negative lengths with non-zero total and 0 < t < 1 the for/else loop selects the segment "
             "whose cumulative-fraction interval (c_i, c_i + f_i] contains t, at local parameter (t - c_i)/((c_i+f_i) - c_i) in "
             "(0, 1], and never falls through; t <= 0 and t >= 1 go to the first/last segment (list induction). The model (same "
             "recursion in floats, quadratic closed form with its exception-driven fallbacks, circle shortcut, selection loop) is "
             "compared with the code for the segment, its isometric image, its reverse and its scaled copy, and for point(t) at "
             "interior, boundary and nextafter(1,0) parameters; true lengths (60-digit closed form, adaptive Gauss-Legendre) and the "
             "invariance relations are evaluated on the implementation.",
        note="Partial: ACCURACY of the chord recursion against the true arc length is not proved and is false as stated (error is a "
             "per-interval threshold; hidden symmetric excursions): known finding C15-chord-error-per-interval, attributed only when "
             "the reference recursion reproduces the returned value. The quadratic closed form's value is validated numerically. "
             "Over floats the cumulative sum may fall short of t (fall-through branch): correspondence only. One fix: commit "
             "(near-midpoint quadratic: cancelled closed form, wrong by up to 2x).",
        technique="Lean 4 proof (induction over the recursion budget and over segment lists; ordered-field algebra) + differential correspondence + quadrature oracle and invariance relations on the implementation",
        ref="DESIGN.md §4 C15"),
    "C03": dict(
        text="Lean 4 theorems, for every forest of element trees of any depth with any number of (nested, repeated, cyclic) use "
             "references, every configuration and every initial scope (well-founded induction on (use-expansion budget, tree size), "
             "the measure semiparse itself terminates by): the library's two-pass algorithm - semiparse flattening the tree into a "
             "start/end event stream with use targets inlined, then a loop with an explicit (context, values, width, height) stack and "
             "wholesale dictionary inheritance (Model/Doc) - renders exactly the shapes, in exactly the order, of a recursive renderer "
             "with lexical scopes (Spec/DocSpec): parseDoc = specDoc. Consequences proved on the specification: after any subtree the "
             "scope (stack, context, inherited values, width, height) is restored, so nothing leaks to a following sibling; siblings "
             "are rendered in document order in the parent's scope; every element and every descendant at any depth (through use) "
             "carries its ancestors' accumulated transform as a prefix of its own and only appends (own transform, then viewport "
             "transform or use translate); the matrix of ancestors ++ own pieces is the product with the own pieces acting on a point "
             "first (over any field, from the C04 algebra); nothing below a computed display:none or below defs/clipPath/pattern is "
             "rendered at any depth; the scope established by svg and use has no x/y/width/height; the piece an svg with a complete "
             "viewBox appends is viewboxMatrix (C11: the SVG 2 8.2 equivalent transform) and its content is rendered against the "
             "viewBox size; a shape is rendered against the viewport of the scope it is entered in; attribute text whose functions "
             "denote D acts as D (bridge to C04); reify(): the residual matrix of a folded rect/circle/ellipse is the identity and "
             "every point of the shape's decomposition goes exactly where the reified shape has it, lines and poly shapes keep every "
             "point's absolute position, an unfoldable matrix leaves numbers and matrix untouched (Model/Reify, tied by the stream "
             "c03.reify: numbers and residual matrix of every shape parsed with reify=True). Stage B (Model/DocShape: length "
             "resolution against ppi and the nearest viewport, shape defaults and degeneracy, matrix from the pieces) and the whole "
             "pipeline are tied to the code by differential execution on generated documents (character-level attribute text to the "
             "Lean model, the same XML to SVG.parse); an independent specification evaluator (CTM product, nearest viewport, use "
             "expansion) and the reify=True/False relation are evaluated on the implementation's shapes.",
        note="Partial: the accumulated transform string is modelled as its list of pieces (lexing the joined string = lexing the pieces "
             "is validated by correspondence, not proved); XML tokenisation is ElementTree's; shape -> path -> absolute segments is "
             "C06/C02's subject and is used here only to compare geometry; floats vs exact fields. Four fix: commits (width/height not "
             "restored after a nested svg, rect radii not re-clamped after length resolution, nested svg x/y without viewBox ignored, "
             "svg geometry inherited).",
        technique="Lean 4 proof (well-founded mutual induction over the use-expansion recursion: loop-with-stack refines recursive renderer; prefix invariants; field algebra for the CTM) + differential correspondence on generated documents + independent specification evaluator and reify relation as oracle",
        ref="DESIGN.md §4 C03"),
    "C14": dict(
        text="Lean 4 theorems for every rule table, element and nesting. The library has no cascade structure: it concatenates rule "
             "texts and the inline style in a fixed order into one string, splits at ';' and ':' and lets the last assignment win "
             "(Model/Doc: styleText, applyStyle), and inherits by copying the parent's dictionary. Proved: the assembled text is, "
             "declaration for declaration, the concatenation of the element's sources in the order universal < type < class/type.class "
             "< id < inline (string-level: split distributes over the ';'-joined text); the specified value of any property is the "
             "last declaration in that ordered list, else the presentation attribute; a later source overrides every earlier one and a "
             "silent one changes nothing; inline beats everything; an id rule beats class, type and universal rules and the attribute; "
             "blocks of a repeated selector accumulate in sheet order with or without trailing semicolons; currentColor is the "
             "element's own color else the inherited one; for every propagating property the computed value is the "
             "element's own compiled value else the parent's (dictionary update over the erased copy), and an unset property is handed "
             "to the children unchanged through g, svg, defs and use alike (only x/y/width/height are stripped); with the C03 refinement "
             "(loop = recursive renderer, scope restored after every subtree) this gives nearest-ancestor inheritance at any depth. "
             "Stroke scale factors are multiplicative over the accumulated transform (|det| algebra over an ordered field). The style "
             "sheet scanner (comments, rule regex, comma lists, accumulation per selector), opacity folding and the whole pipeline are "
             "tied to the code by differential execution; an independent CSS cascade evaluator (specificity, source order, inheritance, "
             "currentColor, opacity) and the reified-width relation are evaluated on the implementation, exhaustively over source "
             "subsets x selector kinds for one element and on random documents.",
        note="Partial: the style-sheet scanner and stage B's paint (Color, opacity -> alpha, stroke-width lengths) are validated by "
             "correspondence, not proved here (Color is C13). Known finding C14-class-order (an element with several classes takes "
             "the rule of the class named last, not CSS's choice; attributed only when the Lean model reproduces every observed "
             "paint). Interpretations: opacity replaces the colour's alpha; currentColor is resolved at the declaring element; rules "
             "apply to elements after the style element. Two fix: commits (id vs class order; universal+type rule texts joined "
             "without separator).",
        technique="Lean 4 proof (string/list induction: split over joined text, last-assignment-wins fold; dictionary algebra; reuse of the C03 refinement) + exhaustive and random differential correspondence + independent cascade evaluator as oracle",
        ref="DESIGN.md §4 C14"),
    "C10": dict(
        text="Lean 4 theorems about the document model in which every way SVG.parse can end is explicit (Status: running, returned by "
             "the early 'return s', raised e). For every document: (1) use expansion terminates within a nesting depth of (number of "
             "ids)+1 whatever the reference graph - missing ids, self references, ancestors, mutual cycles of any length (budget "
             "invariant: the ids being expanded are distinct ids of the table; pigeonhole) - so the recursion-limit event never occurs; "
             "(2) if parseDoc ends with an exception, it was raised by the start event of some element or is the recursion limit: "
             "the loop's stack discipline, inheritance copy, cascade, use inlining and end events add no failure of their own (no pop "
             "from an empty stack; via the C03 refinement); (3) a start event raises only what the transform parser reports for the "
             "inherited (caller's) transform of a container, or the marker of a length the library keeps symbolic: an element's own "
             "unparsable transform is dropped and the inherited one kept; (4) a zero-sized nested svg keeps the parse running, marks "
             "only its own scope display:none and emits nothing; (5) sibling frame: for any element e among its siblings whose "
             "rendering keeps the parse running and the rule table unchanged, render(pre ++ e :: post) = render pre ++ render e ++ X "
             "and render(pre ++ post) = render pre ++ X with the same X; (6) C10_no_abort: with stage B's transform parser as the "
             "container constructors' parser, for every document whose caller-supplied transform is acceptable the document layer "
             "returns (or reports the marker of a symbolic length): the transform parser's verdict on a piece does not depend on the "
             "matrix it is parsed onto (error-independence lemmas through applyVals/applyFunc/parseTokens), so 'every piece of the "
             "accumulated transform is acceptable' is an invariant of the recursion (own text is validated before it is appended; "
             "svg/use append generated matrices), and no ValueError, TypeError, IndexError or RecursionError can leave the loop or a "
             "container constructor; (7) C10_render_no_abort: the same end to end for renderDoc - the very function the driver runs in the "
             "correspondence - including the shape constructors with their length, colour, point-list and transform parsers "
             "(every emitted record carries only acceptable transform pieces; each constructor's only failure is the symbolic-length "
             "marker). The value parsers' agreement with the code on arbitrary text (transform, "
             "colour, length, points, viewBox, opacity, path data) is tied to the code by running the character-level Lean model on "
             "the faulted documents: exhaustive grid of 14 element kinds x all fault values of 21 attributes, random documents with 1-3 "
             "faults and retargeted use references, hand-made cycles; exception/no exception and the shapes outside the faulty "
             "subtrees are compared; on the implementation: no exception, and shapes outside the faulty subtrees equal those of the "
             "document with the faulty elements removed.",
        note="Partial: the no-abort theorems are about the model; that the code's value parsers behave like the model's on malformed "
             "text is what the correspondence on the fault lists establishes (path data is not parsed by renderDoc; C09 proves its "
             "totality separately); inside a faulty element's subtree "
             "only presence and order are compared. em/ex/vw lengths and percentages in transform functions are valid values the "
             "library keeps symbolic (a later reify may raise ValueError): outside the fault model. A root element with display:none "
             "makes parse return None. Six fix: commits (too few transform arguments, cyclic use, unparsable transform attribute, "
             "rgb()/opacity overflow, nested zero-size svg).",
        technique="Lean 4 proof (well-founded mutual induction with a budget invariant + pigeonhole for termination; case analysis of the start event; append lemma for the sibling frame; reuse of the C03 refinement) + exhaustive fault x element differential correspondence + removal relation as oracle",
        ref="DESIGN.md §4 C10"),
    "C18": dict(
        text="Lean 4 theorems. (1) Frame theorem over an abstract heap (locations holding objects with immutable payload and "
             "references), for histories of ANY length (induction over the history): if the cells reachable from y are allocated and "
             "none is reachable from x, then after any sequence of allowed mutations through x - each overwriting a cell of the "
             "region x has been able to name (what it reached at the start plus what it wrote since) or taking a free cell, and "
             "storing references into that region - every cell y reaches holds what it held, y reaches exactly the same cells (its "
             "value to any depth is unchanged), x still reaches none of them, and both regions are still allocated - the theorem's own "
             "hypotheses with x and y exchanged (C18_frame_composes), so it applies again to a round of mutations through y, then x, "
             "and so on: in any alternation of rounds a round never changes a cell the other side reaches; the invariant includes that the region covers whatever x "
             "reaches now. (2) Observed sharing table: on every run the object graphs of source and result of every class x "
             "derivation (31 classes/variants incl. identity-transform variants; copy, x*M, M*x, abs, Path(x), constructor-from-"
             "object, ~M, +) are extracted from the running library by introspection (instance dictionaries, slots, lists, tuples, "
             "dicts), written to Generated/C18_Sharing.lean, and the kernel decides a closure certificate for each (closed candidate "
             "sets containing the roots, meeting in no mutable cell); certificate soundness is proved (reachability stays inside a "
             "closed set), giving: source and result share no mutable object. Random histories on the implementation (0-3 mutations "
             "before the derivation, then 1-6 public mutations on one side, then on the other: transform, reify, segment and point "
             "edits, list edits, paint objects, values, children, leaves of groups) check after every step that the other side's "
             "value snapshot is unchanged, that derivations leave their operands untouched and that copies are equal in value.",
        note="Partial: that the library's public mutators are 'allowed' steps (write only cells reachable from their receiver, "
             "storing arguments or fresh objects) is an assumption of the model, exercised by the random histories, not proved; "
             "the graphs are observed for the zoo's representatives of each class, not for every instance. values dictionaries are "
             "copied shallowly by the library: a mutable object a caller stores in values (e.g. a Matrix passed as transform=) is "
             "shared by design of dict copy and is outside the statement (the zoo stores strings). Two fix: commits (Path(path)/"
             "Path(subpath) and Path(segment...) adopting the source's segment objects).",
        technique="Lean 4 proof (induction over mutation histories with a region invariant: frame/non-interference theorem; proved-sound closure certificates decided by the kernel on object graphs regenerated from the running code) + random mutation histories with value snapshots on the implementation",
        ref="DESIGN.md §4 C18"),
    "C20": dict(
        text="Lean 4 theorems about what the writer adds to the C03 reader: for every accumulated transform t and every non-singular "
             "viewBox transform vt, the matrix the writer emits (t * vt^-1) read back under the re-parsed viewport transform is t "
             "again (field algebra from C04: two-sided inverse, associativity); if every entry of the matrix read back is within eps "
             "of the one meant (%f: eps = 5e-7), every point moves by at most eps(|x|+|y|+1) per coordinate (ordered-field triangle "
             "inequality) - the tolerance the oracle uses is this bound times the viewport scale; truthiness-guarded dimensions: a "
             "non-zero dimension is written and read back unchanged, a zero one is omitted and read back as the reader's default, "
             "harmless where that default is 0 and provably not where it is 1 (negation theorem; known finding); paint: an element "
             "carrying the colour text the writer emits for a packed RGBA value ('#rrggbb' of the opaque colour, character level "
             "through the colour parser's hex matcher) and an opacity text resolving to its alpha is read back by the shape "
             "constructor (paintOf) as exactly that value, and alpha/255 restores alpha (exact field); second generation: under any "
             "idempotent number format the matrix written for the re-read tree is the matrix in the first text, and the paint "
             "written again is the same. The writer model is "
             "tied to the code on every run: for every shape written directly under the root svg, the transform attribute found in "
             "the XML is compared with Model/Write.writtenMatrix (source matrix times the inverse viewBox transform, within the %f "
             "rounding), the presence and value of each dimension attribute with Model/Write.writeDim, and for every written shape "
             "the fill/stroke text and opacity attributes with Model/Write.writtenPaint. Everything else is "
             "decided on the implementation: trees of C03's generator parsed with reify False/True and constructor-built SVG/Group "
             "trees (every shape kind, transforms of both determinant signs, viewBox present/absent) are written with string_xml "
             "(and write_xml plain/.svgz in a scratch directory for a subset), checked well-formed, parsed back and compared shape by "
             "shape (count, order, kind, id, absolute geometry within the proved bound, fill, stroke incl. alpha, rendered stroke "
             "width), and the second generation is compared with the first.",
        note="Partial: the writer's point lists, path data, stroke width and the attributes copied from the source element are not "
             "modelled (the transform, the dimension guard and the paint are); for those the round trip itself - an oracle relation on the "
             "implementation - is what decides, so the check's reach there is that of its generator. The geometry tolerance is the "
             "proved bound instantiated with the actual rounding of each written matrix (zero for the identity). Paths with arc commands are "
             "not generated (arc radii are printed with 6 digits: known finding C07-arc-d-6digits). Known findings: C20-nested-svg "
             "(shapes inside nested svg elements come back displaced), C20-non-scaling-stroke-reified (width scaled twice), "
             "C20-zero-dimension. Three fix: commits (reified circle with two radii written as circle, use written with its "
             "transform and x/y, reify under negative scales).",
        technique="Lean 4 proof (field algebra for the transform round trip, ordered-field bound for %f, guard lemmas, paint round trip through the character-level colour parser) + differential correspondence of the writer model with the written XML + round-trip and second-generation relations evaluated on the implementation over generated and constructor-built trees",
        ref="DESIGN.md §4 C20"),
}
ALL = ["C%02d" % i for i in range(1, 21)]


def main():
    checks = []
    for pid in ALL:
        if pid not in CLAIMED:
            continue
        c = CLAIMED[pid]
        checks.append({
            "property_id": pid,
            "quick_cmd": "./check %s --tier quick" % pid,
            "thorough_cmd": "./check %s --tier thorough" % pid,
            "evidence_file": "evidence/%s.json" % pid,
            "replay_cmd_template": "./check %s --replay {path}" % pid,
            "engine": "lean4-proof+correspondence",
            "level_claimed": {"category": "proof", "text": c["text"], "design_ref": c["ref"]},
            "level_note": c["note"],
            "technique": c["technique"],
        })
    man = {
        "version": 1,
        "setup_cmd": "sh tools/setup.sh",
        "hooks": {
            "guard": "SVGELEMENTS_VERIF",
            "enable": "no hooks are needed: every observation goes through public API (PYTHONPATH=/repo, in-process)",
            "baseline_off_cmd": BASELINE,
            "source_commits": [],
            "add_only": True,
        },
        "engines": [{
            "name": "lean4-proof+correspondence",
            "path": "check",
            "serves_properties": sorted(CLAIMED),
            "kind_free_text": "Lean 4 theorems about an executable model (lean/SvgVerif), tied to /repo by a differential "
                              "correspondence check (harness/ + lean/Driver.lean) and a spec oracle evaluated on the implementation",
        }],
        "checks": checks,
        "not_applicable": [{"property_id": p, "reason": "check not yet built in this revision (model and theorems in progress); see DESIGN.md §4"}
                           for p in ALL if p not in CLAIMED],
        "notes": "Known findings: known_findings.json. Fix commits in /repo are listed there under 'fixed'.",
    }
    with open(os.path.join(HERE, "MANIFEST.json"), "w") as f:
        json.dump(man, f, indent=1)


if __name__ == "__main__":
    main()
