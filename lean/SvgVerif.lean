import SvgVerif.Model.Geom
import SvgVerif.Model.Lex
import SvgVerif.Model.Py
import SvgVerif.Model.Wire
import SvgVerif.Model.Transform
