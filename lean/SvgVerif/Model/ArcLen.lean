/-
  Model/ArcLen.lean — lengths and `point(t)` along a shape:
  `PathSegment.segment_length` (svgelements.py:4104-4135, recursive 3-point chord test),
  `Linear.length` (4476), `QuadraticBezier.length` (4652-4683, closed form with exception-driven
  fallbacks), `CubicBezier.length` / `Arc.length` (scipy absent: chord recursion; circle shortcut),
  `Shape._calc_lengths` / `length` / `point` (3770-3876).

  The chord recursion is not structurally terminating (it stops when the chord test passes), so
  the model takes a recursion budget `fuel`; Python's budget is its recursion limit. In floating
  point the test always passes once the interval has collapsed (≤ ~1075 halvings, in practice < 60);
  every theorem about `segLen` holds for every budget.
-/
import SvgVerif.Model.Seg
namespace Svg

section
variable {K : Type} [Add K] [Sub K] [Mul K] [Div K] [Neg K] [Zero K] [One K] [LT K] [DecidableLT K]

/-- `PathSegment.segment_length(curve, start, end, start_point, end_point, error, min_depth, depth)`;
    `d p q` is `abs(p - q)`, `f` is `curve.point` -/
def segLen (d : Pt K → Pt K → K) (f : K → Pt K) (error : K) (minDepth : Nat) :
    Nat → K → K → Pt K → Pt K → Nat → K
  | 0, start, end_, sp, ep, _ =>
    let mid := (start + end_) / two
    let mp := f mid
    d mp sp + d ep mp
  | fuel + 1, start, end_, sp, ep, depth =>
    let mid := (start + end_) / two
    let mp := f mid
    let length := d ep sp
    let firstHalf := d mp sp
    let secondHalf := d ep mp
    let length2 := firstHalf + secondHalf
    if error < length2 - length ∨ depth < minDepth then
      segLen d f error minDepth fuel start mid sp mp (depth + 1)
        + segLen d f error minDepth fuel mid end_ mp ep (depth + 1)
    else length2

/-- `curve._line_length(0, 1, error, min_depth)`: the end points are evaluated first -/
def lineLength (d : Pt K → Pt K → K) (f : K → Pt K) (error : K) (minDepth fuel : Nat) : K :=
  segLen d f error minDepth fuel 0 1 (f 0) (f 1) 0

/-- number of accepted leaf intervals of the same recursion (used by the oracle's envelope) -/
def segLeaves (d : Pt K → Pt K → K) (f : K → Pt K) (error : K) (minDepth : Nat) :
    Nat → K → K → Pt K → Pt K → Nat → Nat
  | 0, _, _, _, _, _ => 1
  | fuel + 1, start, end_, sp, ep, depth =>
    let mid := (start + end_) / two
    let mp := f mid
    let length2 := d mp sp + d ep mp
    if error < length2 - d ep sp ∨ depth < minDepth then
      segLeaves d f error minDepth fuel start mid sp mp (depth + 1)
        + segLeaves d f error minDepth fuel mid end_ mp ep (depth + 1)
    else 1

/-! ### `Shape._calc_lengths`, `Shape.point` -/

def sumK : List K → K
  | [] => 0
  | x :: r => x + sumK r

end

section
variable {K : Type} [Add K] [Sub K] [Mul K] [Div K] [Neg K] [Zero K] [One K] [LT K] [DecidableLT K]
  [LE K] [DecidableLE K] [BEq K]

/-- one step of CPython >= 3.12's `sum()` on floats: Neumaier's compensated summation
    (Python/bltinmodule.c: `t = s + x; c += |s| >= |x| ? (s - t) + x : (x - t) + s; s = t`) -/
def neumaierStep (st : K × K) (x : K) : K × K :=
  let s := st.1
  let c := st.2
  let t := s + x
  let as := if s < 0 then -s else s
  let ax := if x < 0 then -x else x
  if ax ≤ as then (t, c + ((s - t) + x)) else (t, c + ((x - t) + s))

/-- Python's `sum(lengths)` (CPython 3.12: compensated; the compensation is added at the end) -/
def pySum (l : List K) : K :=
  let r := l.foldl neumaierStep (0, 0)
  r.1 + r.2

/-- `_calc_lengths`: total and the list of fractions (raw lengths when the total is 0) -/
def calcLengths (lengths : List K) : K × List K :=
  let total := pySum lengths
  if total == 0 then (total, lengths) else (total, lengths.map (· / total))

/-- the `for … else` loop of `Shape.point` (svgelements.py:3862-3875): first index whose cumulative
    end reaches `position`, with the local parameter; `none` when the loop falls through (then the
    last segment at 1.0 is used) -/
def selectSeg (position : K) : List K → K → Nat → Option (Nat × K)
  | [], _, _ => none
  | l :: rest, segStart, index =>
    let segEnd := segStart + l
    if position ≤ segEnd then some (index, (position - segStart) / (segEnd - segStart))
    else selectSeg position rest segEnd (index + 1)

/-- which segment and which local parameter `Shape.point(position)` evaluates, for `n ≥ 1` segments
    with the given lengths; `round` is Python's `int(round(x))` -/
def pointSelect (roundNat : K → Nat) (natCast : Nat → K) (lengths : List K) (position : K) : Nat × K :=
  let n := lengths.length
  if position ≤ 0 then (0, position)
  else if 1 ≤ position then (n - 1, position)
  else
    let (total, fracs) := calcLengths lengths
    if total == 0 then (roundNat (position * natCast (n - 1)), 0)
    else match selectSeg position fracs 0 0 with
      | some r => r
      | none => (n - 1, 1)

end

/-! ### Segment lengths -/
section
variable {K : Type} [Add K] [Sub K] [Mul K] [Div K] [Neg K] [Zero K] [One K] [BEq K]
  [LT K] [DecidableLT K] [LE K] [DecidableLE K] [NatCast K] [Trig K] [FMod K]

class LogK (K : Type) where
  log : K → K

variable [LogK K]

/-- `abs(complex)` / `Point.distance` -/
def norm2 (x y : K) : K := Trig.sqrt (x * x + y * y)

/-- `QuadraticBezier.length` (svgelements.py:4652-4683). Python raises ZeroDivisionError on a float
    division by zero and ValueError on `log`/`sqrt` of a non-positive/negative argument; both are
    caught and lead to the collinear fallback. -/
def quadLength (p0 p1 p2 : Pt K) : K :=
  let ax := p0.x - two * p1.x + p2.x
  let ay := p0.y - two * p1.y + p2.y
  let bx := two * (p1.x - p0.x)
  let by_ := two * (p1.y - p0.y)
  let four : K := two * two
  let A := four * (ax * ax + ay * ay)
  let B := four * (ax * bx + ay * by_)
  let C := bx * bx + by_ * by_
  let fallback : K :=
    let na := norm2 ax ay
    let nb := norm2 bx by_
    if na < ((1 : Nat) : K) / ((10000000000 : Nat) : K) then nb
    else
      let k := nb / na
      if two ≤ k then nb - na else na * (k * k / two - k + 1)
  -- `if abs(a) <= 1e-7 * abs(b): return abs(a + b)` (the conditioning guard: the curve is its chord)
  if norm2 ax ay ≤ ((1 : Nat) : K) / ((10000000 : Nat) : K) * norm2 bx by_ then norm2 (ax + bx) (ay + by_) else
  if A + B + C < 0 ∨ A < 0 ∨ C < 0 then fallback else     -- sqrt of a negative: ValueError
  let Sabc := two * Trig.sqrt (A + B + C)
  let A2 := Trig.sqrt A
  let A32 := two * A * A2
  let C2 := two * Trig.sqrt C
  if A2 == 0 then fallback else                             -- B / A2: ZeroDivisionError
  let BA := B / A2
  if BA + C2 == 0 then fallback else                        -- ZeroDivisionError
  let q := (two * A2 + BA + Sabc) / (BA + C2)
  if q ≤ 0 then fallback else                               -- log: ValueError
  if four * A32 == 0 then fallback else
  (A32 * Sabc + A2 * B * (Sabc - C2) + (four * C * A - B * B) * LogK.log q) / (four * A32)

/-- `Arc.length` without scipy (svgelements.py:5378-5399) -/
def ArcData.length (a : ArcData K) (error : K) (minDepth fuel : Nat) : K :=
  if a.sweep == 0 then dist a.start a.end_
  else
    let ra := a.rx
    let rb := a.ry
    if fabs (ra - rb) < (errorEps : K) then fabs (ra * a.sweep)
    else lineLength (fun p q => dist p q) a.point error minDepth fuel

/-- `seg.length(error, min_depth)` -/
def Seg.length (s : Seg K) (error : K) (minDepth fuel : Nat) : K :=
  match s with
  | .move _ _ => 0
  | .line (some s) e => dist e s
  | .close (some s) e => dist e s
  | .line none _ => 0
  | .close none _ => 0
  | .quad s c e => quadLength s c e
  | .cubic s c1 c2 e => lineLength (fun p q => dist p q) (Seg.cubicPoint s c1 c2 e) error minDepth fuel
  | .arc a => a.length error minDepth fuel

end
end Svg
