/-
  Model/Py.lean — Python semantics made explicit: exception kinds, and the small class of
  transcendental functions the library takes from `math`.
-/
namespace Svg

/-- The exception classes that the modelled code can raise. -/
inductive PyErr
  | valueError | typeError | indexError | attributeError | zeroDivision | recursion | keyError
  | deferred   -- not an exception: a value the library keeps symbolic (unresolved Length)
deriving Repr, BEq, DecidableEq

def PyErr.name : PyErr → String
  | .valueError => "ValueError" | .typeError => "TypeError" | .indexError => "IndexError"
  | .attributeError => "AttributeError" | .zeroDivision => "ZeroDivisionError"
  | .recursion => "RecursionError" | .keyError => "KeyError" | .deferred => "deferred"

abbrev Py := Except PyErr

/-- `math.cos/sin/tan/atan2/acos/sqrt` and `tau`, as an interface. Theorems never assume more
    about these functions than the stated algebraic hypotheses. -/
class Trig (K : Type) where
  cos : K → K
  sin : K → K
  tan : K → K
  atan2 : K → K → K
  acos : K → K
  sqrt : K → K
  tau : K

end Svg
