/-
  Model/Color.lean — class Color (svgelements.py:1047-2005).

  The packed 32-bit word `0xRRGGBBAA` is modelled on `Nat` with div/mod arithmetic: for the
  non-negative ints the library stores, `v >> k` is `v / 2^k`, `x & 0xFF` is `x % 256`,
  `v &= ~(0xFF << k); v |= c << k` replaces one byte. The correspondence check ties this
  reading to the Python bit operators exhaustively per channel.
-/
import SvgVerif.Model.Lex
import SvgVerif.Model.Py
import SvgVerif.Spec.ColorKeywords
namespace Svg.Color

/-- `Color.crimp(v)` on an integer: clamp to [0, 255]. -/
def crimp (v : Int) : Nat := if v > 255 then 255 else if v < 0 then 0 else v.toNat

/-! ### accessors on the packed word -/
def red (v : Nat) : Nat := v / 16777216 % 256
def green (v : Nat) : Nat := v / 65536 % 256
def blue (v : Nat) : Nat := v / 256 % 256
def alpha (v : Nat) : Nat := v % 256

/-- `self.value &= ~0xFF000000; self.value |= crimp(r) << 24` -/
def setRed (v : Nat) (r : Int) : Nat := v - red v * 16777216 + crimp r * 16777216
def setGreen (v : Nat) (g : Int) : Nat := v - green v * 65536 + crimp g * 65536
def setBlue (v : Nat) (b : Int) : Nat := v - blue v * 256 + crimp b * 256
def setAlpha (v : Nat) (a : Int) : Nat := v - alpha v + crimp a

/-- `Color.rgb_to_int(r, g, b, opacity)` once the channels and `int(round(opacity*255))` are integers -/
def pack (r g b a : Int) : Nat := crimp r * 16777216 + crimp g * 65536 + crimp b * 256 + crimp a

/-- `.rgb` getter: `value >> 8`; setter: `rgb <<= 8; rgb |= 0xFF` -/
def getRgb (v : Nat) : Nat := v / 256
def setRgb (rgb : Nat) : Nat := rgb * 256 + 255
/-- `.bgr`: `blue << 16 | green << 8 | red`; setter starts from 0 with alpha 0xFF -/
def getBgr (v : Nat) : Nat := blue v * 65536 + green v * 256 + red v
def setBgr (bgr : Nat) : Nat :=
  let v := setAlpha 0 255
  let v := setRed v (bgr % 256 : Nat)
  let v := setGreen v (bgr / 256 % 256 : Nat)
  setBlue v (bgr / 65536 % 256 : Nat)
/-- `.argb`: `((value >> 8) & 0xFFFFFF) | (alpha << 24)`;
    setter `((argb << 8) & 0xFFFFFF00) | (argb >> 24 & 0xFF)` -/
def getArgb (v : Nat) : Nat := v / 256 % 16777216 + alpha v * 16777216
def setArgb (argb : Nat) : Nat := argb % 16777216 * 256 + argb / 16777216 % 256

/-! ### hex strings (digit values; character conversion is `int(_, 16)` / `%02x`) -/
def ofDigits16 (ds : List Nat) : Nat := ds.foldl (fun a d => a * 16 + d) 0

/-- `Color.parse_color_hex` on the hex digits after `lstrip("#")` -/
def parseHexDigits (h : List Nat) : Nat :=
  match h with
  | [a, b, c, d, e, f, g, i] => ofDigits16 [a, b, c, d, e, f, g, i]
  | [a, b, c, d, e, f] => ofDigits16 [a, b, c, d, e, f, 15, 15]
  | [a, b, c, d] => ofDigits16 [a, a, b, b, c, c, d, d]
  | [a, b, c] => ofDigits16 [a, a, b, b, c, c, 15, 15]
  | _ => pack 0 0 0 255

def byteDigits (b : Nat) : List Nat := [b / 16 % 16, b % 16]

/-- `Color.hex`: `#rrggbb` when alpha is 0xFF, else `#rrggbbaa` -/
def hexDigits (v : Nat) : List Nat :=
  if alpha v = 255 then byteDigits (red v) ++ byteDigits (green v) ++ byteDigits (blue v)
  else byteDigits (red v) ++ byteDigits (green v) ++ byteDigits (blue v) ++ byteDigits (alpha v)

/-! ### keyword lookup -/
def lookupKeyword (name : String) : Option Nat :=
  if name = "transparent" then some (pack 0 0 0 0)
  else (Svg.Spec.colorKeywords.find? (fun e => e.1 = name)).map fun e => pack e.2.1 e.2.2.1 e.2.2.2 255

/-! ### functional notations over a scalar type -/
section
variable {K : Type} [Add K] [Sub K] [Mul K] [Div K] [Neg K] [Zero K] [One K] [BEq K]
  [LT K] [DecidableLT K] [NatCast K]

/-- rounding primitives: Python `int(x)` (truncation), `round(x)` (half to even), `x % 1.0` -/
class PyRound (K : Type) where
  trunc : K → Int
  round : K → Int
  mod1 : K → K

variable [PyRound K]

def k (n : Nat) : K := (n : K)

/-- `Color.crimp(v)` for a float: compare first, then `int(v)`. -/
def crimpK (v : K) : Nat :=
  if k 255 < v then 255 else if v < 0 then 0 else (PyRound.trunc v).toNat

/-- opacity clamp and `int(round(opacity * 255.0))` -/
def alphaOf (opacity : K) : Nat :=
  let o : K := if 1 < opacity then 1 else if opacity < 0 then 0 else opacity
  crimp (PyRound.round (o * k 255))

/-- `Color.rgb_to_int(r, g, b, opacity)` with float channels -/
def rgbToInt (r g b opacity : K) : Nat :=
  crimpK r * 16777216 + crimpK g * 65536 + crimpK b * 256 + alphaOf opacity

/-- `hue_2_rgb` inside `Color.hsl_to_int` — the CSS Color 3 §4.2.4 algorithm. -/
def hue2rgb (v1 v2 vh : K) : K :=
  let vh := if vh < 0 then vh + 1 else vh
  let vh := if 1 < vh then vh - 1 else vh
  if k 6 * vh < 1 then v1 + (v2 - v1) * k 6 * vh
  else if k 2 * vh < 1 then v2
  else if k 3 * vh < k 2 then v1 + (v2 - v1) * ((k 2 / k 3) - vh) * k 6
  else v1

/-- the three channel values (scale 0..255) of `Color.hsl_to_int` -/
def hslChannels (h s l : K) : K × K × K :=
  if s == 0 then (k 255 * l, k 255 * l, k 255 * l)
  else
    let v2 := if l < 1 / k 2 then l * (1 + s) else (l + s) - (s * l)
    let v1 := k 2 * l - v2
    (k 255 * hue2rgb v1 v2 (h + 1 / k 3), k 255 * hue2rgb v1 v2 h, k 255 * hue2rgb v1 v2 (h - 1 / k 3))

def hslToInt (h s l opacity : K) : Nat :=
  let c := hslChannels h s l
  rgbToInt c.1 c.2.1 c.2.2 opacity

def clamp01 (x : K) : K := if 1 < x then 1 else if x < 0 then 0 else x

/-- `parse_color_rgb(values)`: `int(round(float(v)))` per channel -/
def parseRgb (r g b : K) (a : Option K) : Nat :=
  let ch (x : K) : Int := PyRound.round x
  crimp (ch r) * 16777216 + crimp (ch g) * 65536 + crimp (ch b) * 256 + alphaOf (a.getD 1)

/-- `parse_color_rgbp(values)`: `round(float(v) * 255/100)` per channel -/
def parseRgbPct (r g b : K) (a : Option K) : Nat :=
  let ratio : K := k 255 / k 100
  let ch (x : K) : Int := PyRound.round (x * ratio)
  crimp (ch r) * 16777216 + crimp (ch g) * 65536 + crimp (ch b) * 256 + alphaOf (a.getD 1)

/-- `parse_color_hsl(values)`: hue in degrees taken modulo one turn, s and l percentages clamped -/
def parseHsl (hDeg s l : K) (a : Option K) (tau : K) : Nat :=
  -- Angle.parse(deg).as_turns = (tau * deg / 360) / tau
  let turns := (tau * hDeg / k 360) / tau
  let h := PyRound.mod1 turns
  hslToInt h (clamp01 (s / k 100)) (clamp01 (l / k 100)) (a.getD 1)

end

/-! ### the string dispatcher `Color.parse` -/

def isHexDigit (c : Char) : Bool :=
  ('0' ≤ c ∧ c ≤ '9') ∨ ('a' ≤ c ∧ c ≤ 'f') ∨ ('A' ≤ c ∧ c ≤ 'F')
def hexDigitVal (c : Char) : Nat :=
  if '0' ≤ c ∧ c ≤ '9' then c.toNat - 48 else if 'a' ≤ c ∧ c ≤ 'f' then c.toNat - 87 else c.toNat - 55

/-- `REGEX_COLOR_HEX = ^#?([0-9A-Fa-f]{3,8})$` -/
def matchHex (s : List Char) : Option (List Nat) :=
  let body := match s with | '#' :: r => r | _ => s
  if 3 ≤ body.length ∧ body.length ≤ 8 ∧ body.all isHexDigit then some (body.map hexDigitVal) else none

def skipWs (s : List Char) : List Char := skipPySpace s

/-- `name a? \( \s* F (suffix) \s* , \s* F (suffix2) \s* , \s* F (suffix2) \s* (?: , \s* F \s* )? \)`
    anchored at the start only. `pct1`/`pct23`: whether a `%` must follow the first / the other two. -/
def matchFunctional (name : List Char) (pct1 pct23 : Bool) (s : List Char) :
    Option (NumLit × NumLit × NumLit × Option NumLit) := do
  let s ← stripPfx name s
  let s := match s with | 'a' :: r => r | _ => s
  let s ← stripPfx ['('] s
  let (n1, s) ← scanFloat (skipWs s)
  let s ← (if pct1 then stripPfx ['%'] s else some s)
  let s ← stripPfx [','] (skipWs s)
  let (n2, s) ← scanFloat (skipWs s)
  let s ← (if pct23 then stripPfx ['%'] s else some s)
  let s ← stripPfx [','] (skipWs s)
  let (n3, s) ← scanFloat (skipWs s)
  let s ← (if pct23 then stripPfx ['%'] s else some s)
  let s := skipWs s
  match s with
  | ')' :: _ => some (n1, n2, n3, none)
  | ',' :: r =>
    let (n4, r) ← scanFloat (skipWs r)
    match skipWs r with
    | ')' :: _ => some (n1, n2, n3, some n4)
    | _ => none
  | _ => none
where
  stripPfx (p s : List Char) : Option (List Char) :=
    match p, s with
    | [], s => some s
    | _ :: _, [] => none
    | a :: p', b :: s' => if a = b then stripPfx p' s' else none

def asciiLower' (c : Char) : Char := if 'A' ≤ c ∧ c ≤ 'Z' then Char.ofNat (c.toNat + 32) else c

/-- `int(v)` of the keyword fallback: optional sign, decimal digits, surrounding blanks allowed;
    modelled for plain digit strings only (anything else the driver reports as unsupported). -/
def parseDecimal? (s : List Char) : Option Nat :=
  if s ≠ [] ∧ s.all isDigit then some (natOfDigits (s.map digitVal)) else none

section
variable {K : Type} [Add K] [Sub K] [Mul K] [Div K] [Neg K] [Zero K] [One K] [BEq K]
  [LT K] [DecidableLT K] [NatCast K] [PyRound K]

/-- `Color.parse(color_string)`; `none` is Python's `None` (no colour). -/
def parse (v : NumLit → K) (tau : K) (s : List Char) : Option Nat :=
  if s = "none".toList then none
  else match matchHex s with
  | some ds => some (parseHexDigits ds)
  | none =>
  match matchFunctional "rgb".toList false false s with
  | some (a, b, c, o) => some (parseRgb (v a) (v b) (v c) (o.map v))
  | none =>
  match matchFunctional "rgb".toList true true s with
  | some (a, b, c, o) => some (parseRgbPct (v a) (v b) (v c) (o.map v))
  | none =>
  match matchFunctional "hsl".toList false true s with
  | some (a, b, c, o) => some (parseHsl (v a) (v b) (v c) (o.map v) tau)
  | none =>
    let key := String.ofList ((s.filter (· ≠ ' ')).map asciiLower')
    match lookupKeyword key with
    | some c => some c
    | none =>
      match parseDecimal? key.toList with
      | some n => some n
      | none => some (pack 0 0 0 255)
end

end Svg.Color
