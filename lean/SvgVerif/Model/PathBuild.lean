/-
  Model/PathBuild.lean — the Path builder callbacks (svgelements.py class Path:
  current_point / z_point / smooth_point, move / line / vertical / horizontal / smooth_quad / quad /
  smooth_cubic / cubic / arc / closed, append), transcribed with Python's partiality explicit:
  every point field is an `Option` (Python `None`), and the operations that would raise in Python
  raise the same exception kind here.

  The interpreter state is not stored: it is recomputed from the segment list at every call,
  exactly as the properties `current_point`, `z_point`, `smooth_point` do.
-/
import SvgVerif.Model.Geom
import SvgVerif.Model.Py
namespace Svg

/-- a path segment as the builder stores it (all point fields may be `None`);
    arcs are kept in the endpoint form they were given in (the conversion is Model/ArcParam). -/
inductive PSeg (K : Type)
  | move (rel : Bool) (start end_ : Option (Pt K))
  | line (rel : Bool) (start end_ : Option (Pt K))
  | close (rel : Bool) (start end_ : Option (Pt K))
  | quad (rel smooth : Bool) (start control end_ : Option (Pt K))
  | cubic (rel smooth : Bool) (start control1 control2 end_ : Option (Pt K))
  | arc (rel : Bool) (start : Pt K) (rx ry rot : K) (fa fs : Bool) (end_ : Pt K)
deriving Repr, BEq, DecidableEq

/-- what the lexical parser hands to a callback in place of a coordinate pair:
    a point, or the string `"z"`/`"Z"` of an SVG 2 segment-completing close -/
inductive Coord (K : Type)
  | pt (p : Pt K)
  | z
deriving Repr, BEq, DecidableEq

namespace PSeg
variable {K : Type}

def start? : PSeg K → Option (Pt K)
  | move _ s _ => s | line _ s _ => s | close _ s _ => s
  | quad _ _ s _ _ => s | cubic _ _ s _ _ _ => s | arc _ s _ _ _ _ _ _ => some s

def end? : PSeg K → Option (Pt K)
  | move _ _ e => e | line _ _ e => e | close _ _ e => e
  | quad _ _ _ _ e => e | cubic _ _ _ _ _ e => e | arc _ _ _ _ _ _ _ e => some e

def isMove : PSeg K → Bool
  | move .. => true | _ => false

def isClose : PSeg K → Bool
  | close .. => true | _ => false

end PSeg

section
variable {K : Type}

/-- `Path.current_point`: end of the last segment (or `None`) -/
def currentPoint (segs : List (PSeg K)) : Option (Pt K) :=
  match segs.getLast? with
  | none => none
  | some s => s.end?

/-- the end of the last `Move`, searching from the end (`for segment in reversed(...)`) -/
def lastMoveEnd : List (PSeg K) → Option (Option (Pt K))
  | [] => none
  | s :: rest =>
    match lastMoveEnd rest with
    | some e => some e
    | none => if s.isMove then some s.end? else none

/-- `Path.z_point`: destination of the last Move; without any Move, the end of the first segment;
    `None` for an empty path -/
def zPoint (segs : List (PSeg K)) : Option (Pt K) :=
  match lastMoveEnd segs with
  | some e => e
  | none =>
    match segs with
    | [] => none
    | s :: _ => s.end?

variable [Add K] [Sub K]

/-- `Point.reflected_across(self = c, p)`: `p + (p - c)` -/
def reflectAcross (c p : Pt K) : Pt K := ⟨p.x + (p.x - c.x), p.y + (p.y - c.y)⟩

/-- `Path.smooth_point`. Raises what Python raises when a control point or the current point is
    `None` (`None.reflected_across` → AttributeError; `None - Point` → TypeError). -/
def smoothPoint (segs : List (PSeg K)) : Py (Option (Pt K)) :=
  match segs.getLast? with
  | none => pure none
  | some last =>
    let startPos := currentPoint segs
    match last with
    | .quad _ _ _ c _ =>
      (match c, startPos with
       | none, _ => throw .attributeError
       | some _, none => throw .typeError
       | some c, some p => pure (some (reflectAcross c p)))
    | .cubic _ _ _ _ c2 _ =>
      (match c2, startPos with
       | none, _ => throw .attributeError
       | some _, none => throw .typeError
       | some c, some p => pure (some (reflectAcross c p)))
    | _ => pure startPos

/-- resolve a coordinate argument: the string `z` stands for `z_point` -/
def resolve (segs : List (PSeg K)) : Coord K → Option (Pt K)
  | .pt p => some p
  | .z => zPoint segs

/-- `Path.append(segment)`: the connection/close validation it performs is the identity here,
    because every callback builds the segment from `current_point` and `z_point` of the same list. -/
def pathAppend (segs : List (PSeg K)) (s : PSeg K) : List (PSeg K) := segs ++ [s]

/-- `Path.move(point, relative=rel)` (one point) -/
def cbMove (rel : Bool) (segs : List (PSeg K)) (p : Coord K) : Py (List (PSeg K)) :=
  pure (pathAppend segs (.move rel (currentPoint segs) (resolve segs p)))

/-- `Path.line(point, relative=rel)` (one point) -/
def cbLine (rel : Bool) (segs : List (PSeg K)) (p : Coord K) : Py (List (PSeg K)) :=
  pure (pathAppend segs (.line rel (currentPoint segs) (resolve segs p)))

/-- `Path.vertical(y, relative=rel)` -/
def cbVertical (rel : Bool) (segs : List (PSeg K)) (y : K) : Py (List (PSeg K)) :=
  match currentPoint segs with
  | none => throw .valueError
  | some s =>
    if rel then pure (pathAppend segs (.line rel (some s) (some ⟨s.x, s.y + y⟩)))
    else pure (pathAppend segs (.line rel (some s) (some ⟨s.x, y⟩)))

/-- `Path.horizontal(x, relative=rel)` -/
def cbHorizontal (rel : Bool) (segs : List (PSeg K)) (x : K) : Py (List (PSeg K)) :=
  match currentPoint segs with
  | none => throw .valueError
  | some s =>
    if rel then pure (pathAppend segs (.line rel (some s) (some ⟨s.x + x, s.y⟩)))
    else pure (pathAppend segs (.line rel (some s) (some ⟨x, s.y⟩)))

def lastIsCubic (segs : List (PSeg K)) : Bool :=
  match segs.getLast? with
  | some (.cubic ..) => true
  | _ => false

def lastIsQuad (segs : List (PSeg K)) : Bool :=
  match segs.getLast? with
  | some (.quad ..) => true
  | _ => false

/-- `Path.smooth_quad(end, relative=rel)` -/
def cbSmoothQuad (rel : Bool) (segs : List (PSeg K)) (e : Coord K) : Py (List (PSeg K)) := do
  let startPos := currentPoint segs
  if startPos.isNone then throw .valueError
  let sp ← smoothPoint segs
  let control1 := if lastIsCubic segs then startPos else sp
  pure (pathAppend segs (.quad rel true startPos control1 (resolve segs e)))

/-- `Path.quad(control, end, relative=rel)` -/
def cbQuad (rel : Bool) (segs : List (PSeg K)) (c e : Coord K) : Py (List (PSeg K)) :=
  let startPos := currentPoint segs
  match c with
  | .z => pure (pathAppend segs (.quad rel false startPos (zPoint segs) (zPoint segs)))
  | .pt cp => pure (pathAppend segs (.quad rel false startPos (some cp) (resolve segs e)))

/-- `Path.smooth_cubic(control2, end, relative=rel)` -/
def cbSmoothCubic (rel : Bool) (segs : List (PSeg K)) (c2 e : Coord K) : Py (List (PSeg K)) := do
  let startPos := currentPoint segs
  if startPos.isNone then throw .valueError
  let sp ← smoothPoint segs
  let control1 := if lastIsQuad segs then startPos else sp
  match c2 with
  | .z => pure (pathAppend segs (.cubic rel true startPos control1 (zPoint segs) (zPoint segs)))
  | .pt p => pure (pathAppend segs (.cubic rel true startPos control1 (some p) (resolve segs e)))

/-- `Path.cubic(control1, control2, end, relative=rel)` -/
def cbCubic (rel : Bool) (segs : List (PSeg K)) (c1 c2 e : Coord K) : Py (List (PSeg K)) :=
  let startPos := currentPoint segs
  match c1 with
  | .z => pure (pathAppend segs (.cubic rel true startPos (zPoint segs) (zPoint segs) (zPoint segs)))
  | .pt p1 =>
    match c2 with
    | .z => pure (pathAppend segs (.cubic rel true startPos (some p1) (zPoint segs) (zPoint segs)))
    | .pt p2 => pure (pathAppend segs (.cubic rel false startPos (some p1) (some p2) (resolve segs e)))

/-- `_rcoord` on an already-lexed pair: relative pairs are offset by the builder's current
    point *if it has one* -/
def rc (rel : Bool) (segs : List (PSeg K)) (p : Pt K) : Pt K :=
  if rel then
    match currentPoint segs with
    | none => p
    | some c => ⟨p.x + c.x, p.y + c.y⟩
  else p

variable [Neg K] [Zero K] [LT K] [DecidableLT K]

/-- `Path.arc(rx, ry, rotation, arc, sweep, end, relative=rel)`; numeric arguments may be `None`
    (the lexical parser passes what `_number()`/`_flag()` returned): `None < 0` is a TypeError. -/
def cbArc (rel : Bool) (segs : List (PSeg K)) (rx ry rot : Option K) (fa fs : Option Bool) (e : Coord K) :
    Py (List (PSeg K)) :=
  let startPos := currentPoint segs
  match rx, ry with
  | none, _ => throw .typeError
  | some _, none => throw .typeError
  | some rx, some ry =>
    let rx := if rx < 0 then -rx else rx
    let ry := if ry < 0 then -ry else ry
    match startPos, resolve segs e with
    | none, _ => throw .valueError
    | some _, none => throw .valueError
    | some s, some en =>
      match rot, fa, fs with
      | some rot, some fa, some fs => pure (pathAppend segs (.arc rel s rx ry rot fa fs en))
      | _, _, _ => throw .typeError   -- Arc(...) with a `None` rotation/flag: `radians(None)` etc.

/-- `Path.closed(relative=rel)` -/
def cbClosed (rel : Bool) (segs : List (PSeg K)) : Py (List (PSeg K)) :=
  pure (pathAppend segs (.close rel (currentPoint segs) (zPoint segs)))

end
end Svg
