/-
  Model/Geom.lean — points and 2×3 affine matrices, transcribed from
  /repo/svgelements/svgelements.py (class Point, class Matrix).

  Mathlib-free and polymorphic in the scalar type `K`: the driver instantiates `K := Float`
  (or `Rat`), the theorems in `Props/` instantiate the *same definitions* with a `Field K`.
  Small numerals are written `1 + 1` so that no `OfNat K n` instance is needed.
-/
namespace Svg

structure Pt (K : Type) where
  x : K
  y : K
deriving Repr, BEq, DecidableEq

/-- SVG matrix `[a c e; b d f; 0 0 1]` (svgelements stores `a b c d e f`). -/
structure Mat (K : Type) where
  a : K
  b : K
  c : K
  d : K
  e : K
  f : K
deriving Repr, BEq, DecidableEq

section
variable {K : Type} [Add K] [Sub K] [Mul K] [Div K] [Neg K] [Zero K] [One K]

def two : K := 1 + 1
def three : K := 1 + 1 + 1

namespace Pt
def add (p q : Pt K) : Pt K := ⟨p.x + q.x, p.y + q.y⟩
def sub (p q : Pt K) : Pt K := ⟨p.x - q.x, p.y - q.y⟩
def smul (s : K) (p : Pt K) : Pt K := ⟨s * p.x, s * p.y⟩
def neg (p : Pt K) : Pt K := ⟨-p.x, -p.y⟩
/-- `Point.towards(p, q, t)`: `(amount*(q.x-p.x)+p.x, amount*(q.y-p.y)+p.y)` -/
def towards (p q : Pt K) (t : K) : Pt K := ⟨t * (q.x - p.x) + p.x, t * (q.y - p.y) + p.y⟩
end Pt

namespace Mat

/-- `Matrix()` -/
def identity : Mat K := ⟨1, 0, 0, 1, 0, 0⟩

/-- `Matrix.point_in_matrix_space` (svgelements.py:3001):
    `(x*a + y*c + 1*e, x*b + y*d + 1*f)`. -/
def apply (m : Mat K) (p : Pt K) : Pt K :=
  ⟨p.x * m.a + p.y * m.c + 1 * m.e, p.x * m.b + p.y * m.d + 1 * m.f⟩

/-- `Matrix.transform_vector`: the linear part only. -/
def applyVec (m : Mat K) (p : Pt K) : Pt K :=
  ⟨p.x * m.a + p.y * m.c, p.x * m.b + p.y * m.d⟩

/-- `Matrix.matrix_multiply(m, s)` (svgelements.py:3182): first `m`, then `s`.
    `m * s` in Python (`__matmul__`/`__mul__`) is `matrix_multiply(m, s)`. -/
def mul (m s : Mat K) : Mat K :=
  { a := s.a * m.a + s.c * m.b + s.e * 0
    c := s.a * m.c + s.c * m.d + s.e * 0
    e := s.a * m.e + s.c * m.f + s.e * 1
    b := s.b * m.a + s.d * m.b + s.f * 0
    d := s.b * m.c + s.d * m.d + s.f * 0
    f := s.b * m.e + s.d * m.f + s.f * 1 }

/-- `Matrix.determinant`: `a*d - c*b`. -/
def det (m : Mat K) : K := m.a * m.d - m.c * m.b

/-- `Matrix.inverse` (svgelements.py:2824), also `~M`. -/
def inverse (m : Mat K) : Mat K :=
  let m00 := m.a; let m01 := m.c; let m02 := m.e
  let m10 := m.b; let m11 := m.d; let m12 := m.f
  let determinant := m00 * m11 - m01 * m10
  let inv := 1 / determinant
  { a := m11 * inv
    c := -m01 * inv
    b := -m10 * inv
    d := m00 * inv
    e := (m01 * m12 - m02 * m11) * inv
    f := (m10 * m02 - m00 * m12) * inv }

/-- `Matrix.scale(sx, sy)` -/
def scale (sx sy : K) : Mat K := ⟨sx, 0, 0, sy, 0, 0⟩
/-- `Matrix.translate(tx, ty)` -/
def translate (tx ty : K) : Mat K := ⟨1, 0, 0, 1, tx, ty⟩
/-- `Matrix.rotate(angle)` with `ct = cos angle`, `st = sin angle`: `cls(ct, st, -st, ct, 0, 0)` -/
def rotateCS (ct st : K) : Mat K := ⟨ct, st, -st, ct, 0, 0⟩
/-- `Matrix.skew(angle_a, angle_b)` with `aa = tan angle_a`, `bb = tan angle_b`:
    `cls(1, bb, aa, 1, 0, 0)` -/
def skewT (aa bb : K) : Mat K := ⟨1, bb, aa, 1, 0, 0⟩

/-- `Matrix.pre_cat(*components)`: `self := matrix_multiply(mx, self)`. -/
def preCat (self mx : Mat K) : Mat K := mul mx self
/-- `Matrix.post_cat(*components)`: `self := matrix_multiply(self, mx)`. -/
def postCat (self mx : Mat K) : Mat K := mul self mx

end Mat
end

section
variable {K : Type} [Add K] [Sub K] [Mul K] [Div K] [Neg K] [Zero K] [One K] [BEq K]

namespace Mat
/-- `pre_translate(tx, ty)` -/
def preTranslate (self : Mat K) (tx ty : K) : Mat K := preCat self (translate tx ty)
def postTranslate (self : Mat K) (tx ty : K) : Mat K := postCat self (translate tx ty)

/-- `pre_scale(sx, sy, x, y)` (svgelements.py:2937): about a centre through the
    translate / scale / translate-back sandwich when `(x, y) ≠ (0, 0)`. -/
def preScale (self : Mat K) (sx sy x y : K) : Mat K :=
  if x == 0 && y == 0 then preCat self (scale sx sy)
  else preTranslate (preCat (preTranslate self x y) (scale sx sy)) (-x) (-y)

def postScale (self : Mat K) (sx sy x y : K) : Mat K :=
  if x == 0 && y == 0 then postCat self (scale sx sy)
  else postTranslate (postCat (postTranslate self (-x) (-y)) (scale sx sy)) x y

/-- `pre_rotate(angle, x, y)` (svgelements.py:2966). -/
def preRotate (self : Mat K) (ct st x y : K) : Mat K :=
  if x == 0 && y == 0 then preCat self (rotateCS ct st)
  else preTranslate (preCat (preTranslate self x y) (rotateCS ct st)) (-x) (-y)

/-- `post_rotate(angle, x, y)` (svgelements.py:2899): builds the sandwich in a fresh matrix. -/
def postRotate (self : Mat K) (ct st x y : K) : Mat K :=
  if x == 0 && y == 0 then postCat self (rotateCS ct st)
  else
    let m : Mat K := postTranslate (postCat (postTranslate identity (-x) (-y)) (rotateCS ct st)) x y
    postCat self m

/-- `pre_skew(angle_a, angle_b, x, y)` (svgelements.py:2978). -/
def preSkew (self : Mat K) (aa bb x y : K) : Mat K :=
  if x == 0 && y == 0 then preCat self (skewT aa bb)
  else preTranslate (preCat (preTranslate self x y) (skewT aa bb)) (-x) (-y)

def postSkew (self : Mat K) (aa bb x y : K) : Mat K :=
  if x == 0 && y == 0 then postCat self (skewT aa bb)
  else postTranslate (postCat (postTranslate self (-x) (-y)) (skewT aa bb)) x y

end Mat
end
end Svg
