/-
  Model/Length.lean — class Length (svgelements.py:575-1044): construction from text, `value`,
  `+=`, `/`, `==`, ordering. Branch-for-branch transcription, constants included
  (0.393701 / 0.0393701 inches per cm / mm).
-/
import SvgVerif.Model.Lex
import SvgVerif.Model.Py
namespace Svg

inductive LUnit
  | none_ | px | pt | pc | inch | cm | mm | pct | em | ex | vw | vh | vmin | vmax
  | other (s : String)
deriving Repr, BEq, DecidableEq

def LUnit.ofString (s : String) : LUnit :=
  match s with
  | "" => .none_ | "px" => .px | "pt" => .pt | "pc" => .pc | "in" => .inch | "cm" => .cm
  | "mm" => .mm | "%" => .pct | "em" => .em | "ex" => .ex | "vw" => .vw | "vh" => .vh
  | "vmin" => .vmin | "vmax" => .vmax | s => .other s

def LUnit.toString : LUnit → String
  | .none_ => "" | .px => "px" | .pt => "pt" | .pc => "pc" | .inch => "in" | .cm => "cm"
  | .mm => "mm" | .pct => "%" | .em => "em" | .ex => "ex" | .vw => "vw" | .vh => "vh"
  | .vmin => "vmin" | .vmax => "vmax" | .other s => s

structure Len (K : Type) where
  amount : K
  units : LUnit
deriving Repr, BEq, DecidableEq

def isAsciiAlphaPct (c : Char) : Bool :=
  ('A' ≤ c ∧ c ≤ 'Z') ∨ ('a' ≤ c ∧ c ≤ 'z') ∨ c = '%'

/-- `REGEX_LENGTH.findall(s)` first match: `(FLOAT)([A-Za-z%]*)` searched from the left. -/
def scanLength (fuel : Nat) (s : List Char) : Option (NumLit × String) :=
  match fuel with
  | 0 => none
  | fuel + 1 =>
    match s with
    | [] => none
    | c :: cs =>
      match scanFloat (c :: cs) with
      | some (n, rest) => some (n, String.ofList (rest.takeWhile isAsciiAlphaPct))
      | none => scanLength fuel cs

section
variable {K : Type} [Add K] [Sub K] [Mul K] [Div K] [Neg K] [Zero K] [One K] [BEq K]
  [LT K] [DecidableLT K] [LE K] [DecidableLE K] [NatCast K]

/-- `Length(text)`; no match leaves `amount = 0.0, units = ""`. -/
def Len.ofText (v : NumLit → K) (s : List Char) : Len K :=
  match scanLength (s.length + 1) s with
  | some (n, u) => ⟨v n, LUnit.ofString u⟩
  | none => ⟨0, .none_⟩

def nat (n : Nat) : K := (n : K)

/-- inches per centimetre as written in the source: 0.393701 -/
def inPerCm : K := nat 393701 / nat 1000000
/-- inches per millimetre as written in the source: 0.0393701 -/
def inPerMm : K := nat 393701 / nat 10000000

/-- what `relative_length=` may be -/
inductive RelLen (K : Type)
  | num (r : K)
  | lenObj (l : Len K)     -- a Length instance
  | lenStr (l : Len K)     -- a string, parsed by Length(...)

structure LenCtx (K : Type) where
  ppi : Option K := none
  rel : Option (RelLen K) := none
  fontSize : Option K := none
  fontHeight : Option K := none
  viewbox : Option (K × K) := none     -- (width, height) of the viewbox

/-- result of `value()`: a float, or the Length itself when it cannot be resolved -/
inductive LenVal (K : Type)
  | num (x : K)
  | sym (l : Len K)
deriving Repr, BEq

def kmin (a b : K) : K := if b < a then b else a
def kmax (a b : K) : K := if a < b then b else a   -- Python max(a, b): first maximal element

/-- `Length.value` for the non-percentage units (svgelements.py:973-1024). -/
def Len.valueAbs (l : Len K) (ppi fontSize fontHeight : Option K) (viewbox : Option (K × K)) : LenVal K :=
  let a := l.amount
  match l.units with
  | .mm => match ppi with | none => .sym l | some p => .num (a * p * inPerMm)
  | .cm => match ppi with | none => .sym l | some p => .num (a * p * inPerCm)
  | .inch => match ppi with | none => .sym l | some p => .num (a * p)
  | .px => .num a
  | .none_ => .num a
  | .pt => .num (a * nat 4 / nat 3)
  | .pc => .num (a * nat 16)
  | .em => match fontSize with | none => .sym l | some f => .num (a * f)
  | .ex => match fontHeight with | none => .sym l | some f => .num (a * f)
  | .vw => match viewbox with | none => .sym l | some (w, _) => .num (a * w / nat 100)
  | .vh => match viewbox with | none => .sym l | some (_, h) => .num (a * h / nat 100)
  | .vmin => match viewbox with | none => .sym l | some (w, h) => .num (a * kmin w h / nat 100)
  | .vmax => match viewbox with | none => .sym l | some (w, h) => .num (a * kmax w h / nat 100)
  | .pct => .sym l
  | .other _ => .num a      -- `float(self)`

/-- `Length.value(ppi=, relative_length=, font_size=, font_height=, viewbox=)` (svgelements.py:945). -/
def Len.value (l : Len K) (c : LenCtx K) : LenVal K :=
  match l.units with
  | .pct =>
    match c.rel with
    | none => .sym l
    | some (.num r) => .num (l.amount / nat 100 * r)
    | some (.lenObj r) =>
      -- `relative_length * self` = copy(relative_length) *= self  (Length.__imul__)
      if r.amount == 0 then .num 0
      else if l.amount == 0 then Len.valueAbs ⟨0, r.units⟩ c.ppi c.fontSize c.fontHeight c.viewbox
      else if r.units = .pct then .sym ⟨r.amount * l.amount, .pct⟩     -- same units: amounts multiply; still a percentage, no reference passed on
      else Len.valueAbs ⟨r.amount * l.amount / nat 100, r.units⟩ c.ppi c.fontSize c.fontHeight c.viewbox
    | some (.lenStr r) =>
      -- `str * Length` = copy(self) *= str
      if l.amount == 0 then .num 0
      else if r.amount == 0 then .sym ⟨0, .pct⟩
      else if r.units = .pct then .sym ⟨l.amount * r.amount, .pct⟩
      else Len.valueAbs ⟨l.amount * r.amount / nat 100, r.units⟩ c.ppi c.fontSize c.fontHeight c.viewbox
  | _ => Len.valueAbs l c.ppi c.fontSize c.fontHeight c.viewbox

/-- `Length.__iadd__` (svgelements.py:644). -/
def Len.iadd (s o : Len K) : Py (Len K) :=
  if s.units = o.units then .ok ⟨s.amount + o.amount, s.units⟩
  else if s.amount == 0 then .ok o
  else if o.amount == 0 then .ok s
  else match s.units, o.units with
  | .px, .none_ | .none_, .px => .ok ⟨s.amount + o.amount, s.units⟩
  | .px, .pt | .none_, .pt => .ok ⟨s.amount + o.amount * nat 4 / nat 3, s.units⟩
  | .px, .pc | .none_, .pc => .ok ⟨s.amount + o.amount * nat 16, s.units⟩
  | .px, _ | .none_, _ => .error .valueError
  | .pt, .px | .pt, .none_ => .ok ⟨s.amount + o.amount * nat 3 / nat 4, s.units⟩
  | .pt, .pc => .ok ⟨s.amount + o.amount * nat 12, s.units⟩
  | .pt, _ => .error .valueError
  | .pc, .px | .pc, .none_ => .ok ⟨s.amount + o.amount / nat 16, s.units⟩
  | .pc, .pt => .ok ⟨s.amount + o.amount / nat 12, s.units⟩
  | .pc, _ => .error .valueError
  | .cm, .mm => .ok ⟨s.amount + o.amount / nat 10, s.units⟩
  | .cm, .inch => .ok ⟨s.amount + o.amount / inPerCm, s.units⟩
  | .cm, _ => .error .valueError
  | .mm, .cm => .ok ⟨s.amount + o.amount * nat 10, s.units⟩
  | .mm, .inch => .ok ⟨s.amount + o.amount / inPerMm, s.units⟩
  | .mm, _ => .error .valueError
  | .inch, .cm => .ok ⟨s.amount + o.amount * inPerCm, s.units⟩
  | .inch, .mm => .ok ⟨s.amount + o.amount * inPerMm, s.units⟩
  | .inch, _ => .error .valueError
  | _, _ => .error .valueError

def Len.neg (l : Len K) : Len K := ⟨-l.amount, l.units⟩
/-- `a + b` = copy then `+=`; `a - b` = `a += -b`. -/
def Len.add (a b : Len K) : Py (Len K) := Len.iadd a b
def Len.sub (a b : Len K) : Py (Len K) := Len.iadd a (Len.neg b)

/-- Python float division: a zero divisor raises ZeroDivisionError. -/
def pdiv (a b : K) : Py K := if b == 0 then .error .zeroDivision else .ok (a / b)

/-- `Length.__truediv__` with a Length operand (svgelements.py:713). -/
def Len.div (s o : Len K) : Py K :=
  if s.amount == 0 then .ok 0
  else if s.units = o.units then pdiv s.amount (o.amount)
  else match s.units, o.units with
  | .px, .none_ | .none_, .px => pdiv s.amount (o.amount)
  | .px, .pt | .none_, .pt => pdiv s.amount (o.amount * nat 4 / nat 3)
  | .px, .pc | .none_, .pc => pdiv s.amount (o.amount * nat 16)
  | .px, _ | .none_, _ => .error .valueError
  | .pt, .px | .pt, .none_ => pdiv s.amount (o.amount * nat 3 / nat 4)
  | .pt, .pc => pdiv s.amount (o.amount * nat 12)
  | .pt, _ => .error .valueError
  | .pc, .px | .pc, .none_ => pdiv s.amount (o.amount / nat 16)
  | .pc, .pt => pdiv s.amount (o.amount / nat 12)
  | .pc, _ => .error .valueError
  | .cm, .mm => pdiv s.amount (o.amount / nat 10)
  | .cm, .inch => pdiv s.amount (o.amount / inPerCm)
  | .cm, _ => .error .valueError
  | .mm, .cm => pdiv s.amount (o.amount * nat 10)
  | .mm, .inch => pdiv s.amount (o.amount / inPerMm)
  | .mm, _ => .error .valueError
  | .inch, .cm => pdiv s.amount (o.amount * inPerCm)
  | .inch, .mm => pdiv s.amount (o.amount * inPerMm)
  | .inch, _ => .error .valueError
  | _, _ => .error .valueError

/-- `Length.in_pixels` -/
def Len.inPixels (l : Len K) : Option K :=
  match l.units with
  | .px | .none_ => some l.amount
  | .pt => some (l.amount * nat 4 / nat 3)
  | .pc => some (l.amount * nat 16)
  | _ => none

/-- `Length.in_inches` -/
def Len.inInches (l : Len K) : Option K :=
  match l.units with
  | .mm => some (l.amount * inPerMm)
  | .cm => some (l.amount * inPerCm)
  | .inch => some l.amount
  | _ => none

def kabs (x : K) : K := if x < 0 then -x else x

/-- `Length.__eq__(other: Length)` with `ERROR = eps` (svgelements.py:843). -/
def Len.eq (eps : K) (s o : Len K) : Bool :=
  if s.amount == o.amount ∧ s.units = o.units then true
  else
    let px := match s.inPixels, o.inPixels with
      | some a, some b => decide (kabs (a - b) ≤ eps)
      | _, _ => false
    if px then true
    else match s.inInches, o.inInches with
      | some a, some b => decide (kabs (a - b) ≤ eps)
      | _, _ => false

/-- `Length.__eq__(number)`: a pixel-family length compares by value; any other unit equals a number
    only when both are zero -/
def Len.eqNum (eps : K) (s : Len K) (x : K) : Bool :=
  match s.inPixels with
  | some a => decide (kabs (a - x) ≤ eps)
  | none => x == 0 && s.amount == 0

/-- `a < b`: `(a - b).amount < 0` -/
def Len.lt (a b : Len K) : Py Bool := do
  let d ← Len.sub a b
  .ok (decide (d.amount < 0))

def Len.le (a b : Len K) : Py Bool := do
  let d ← Len.sub a b
  .ok (decide (d.amount ≤ 0))

end
end Svg
