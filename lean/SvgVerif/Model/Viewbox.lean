/-
  Model/Viewbox.lean — `Viewbox.viewbox_transform` (svgelements.py:3322-3424) and the `svg`
  branch's zero-size guard (svgelements.py:9221-9230).
-/
import SvgVerif.Model.Geom
import SvgVerif.Model.Py
namespace Svg

structure Box (K : Type) where
  x : K
  y : K
  w : K
  h : K
deriving Repr

def isInfix (p s : List Char) : Bool :=
  match s with
  | [] => p.isEmpty
  | c :: cs => p.isPrefixOf (c :: cs) || isInfix p cs

def lowerAscii (c : Char) : Char := if 'A' ≤ c ∧ c ≤ 'Z' then Char.ofNat (c.toNat + 32) else c

/-- `aspect.split(" ")`: first and second field (Python `str.split(" ")` keeps empty fields) -/
def splitSpace (s : List Char) : List (List Char) :=
  let rec go : List Char → List Char → List (List Char)
    | [], cur => [cur.reverse]
    | c :: cs, cur => if c = ' ' then cur.reverse :: go cs [] else go cs (c :: cur)
  go s []

structure Aspect where
  align : List Char        -- as given (case preserved; compared with "none" before lower-casing)
  meetOrSlice : List Char

/-- `preserveAspectRatio` handling at the top of `viewbox_transform` -/
def Aspect.ofAttr : Option (List Char) → Aspect
  | none => ⟨"xMidyMid".toList, "meet".toList⟩
  | some a =>
    match splitSpace a with
    | [] => ⟨"xMidyMid".toList, "meet".toList⟩
    | [al] => ⟨al, "meet".toList⟩
    | al :: ms :: _ => ⟨al, ms⟩

section
variable {K : Type} [Add K] [Sub K] [Mul K] [Div K] [Neg K] [Zero K] [One K] [BEq K]
  [LT K] [DecidableLT K]

def vmin (a b : K) : K := if b < a then b else a     -- Python min(a, b)
def vmax (a b : K) : K := if a < b then b else a     -- Python max(a, b)

/-- what `viewbox_transform` reads off the `preserveAspectRatio` text -/
structure AspectFlags where
  isNone : Bool
  meet : Bool
  slice : Bool
  xmid : Bool
  xmax : Bool
  ymid : Bool
  ymax : Bool
deriving Repr, DecidableEq

def Aspect.flags (a : Aspect) : AspectFlags :=
  let al := a.align.map lowerAscii
  { isNone := a.align = "none".toList
    meet := a.meetOrSlice = "meet".toList
    slice := a.meetOrSlice = "slice".toList
    xmid := isInfix "xmid".toList al
    xmax := isInfix "xmax".toList al
    ymid := isInfix "ymid".toList al
    ymax := isInfix "ymax".toList al }

/-- scale and translate of `viewbox_transform`, in the order the code computes them -/
def viewboxCore (e vb : Box K) (f : AspectFlags) : K × K × K × K :=
  let sx0 := e.w / vb.w
  let sy0 := e.h / vb.h
  let (sx, sy) :=
    if !f.isNone && f.meet then (vmin sx0 sy0, vmin sx0 sy0)
    else if !f.isNone && f.slice then (vmax sx0 sy0, vmax sx0 sy0)
    else (sx0, sy0)
  let tx := e.x - (vb.x * sx)
  let ty := e.y - (vb.y * sy)
  let tx := if f.xmid then tx + (e.w - vb.w * sx) / (1 + 1) else tx
  let tx := if f.xmax then tx + (e.w - vb.w * sx) else tx
  let ty := if f.ymid then ty + (e.h - vb.h * sy) / (1 + 1) else ty
  let ty := if f.ymax then ty + (e.h - vb.h * sy) else ty
  (sx, sy, tx, ty)

def viewboxScaleTranslate (e vb : Box K) (a : Aspect) : K × K × K × K := viewboxCore e vb a.flags

/-- the matrix of the emitted string `translate(tx, ty) scale(sx, sy)` (or its shortened forms:
    empty when nothing happens, one function when the other is trivial) -/
def viewboxMatrix (e vb : Box K) (a : Aspect) : Mat K :=
  let (sx, sy, tx, ty) := viewboxScaleTranslate e vb a
  if tx == 0 && ty == 0 then
    if sx == 1 && sy == 1 then Mat.identity else Mat.scale sx sy
  else
    if sx == 1 && sy == 1 then Mat.translate tx ty
    else Mat.mul (Mat.scale sx sy) (Mat.translate tx ty)

/-- the `svg` branch of `SVG.parse`: a missing viewBox gives the identity; a zero element size or
    a zero viewBox size disables rendering (`none`) instead of failing. -/
def viewportTransform (e : Box K) (vb : Option (Box K)) (a : Aspect) : Option (Mat K) :=
  match vb with
  | none => some Mat.identity
  | some vb =>
    if e.h == 0 || e.w == 0 then none
    else if vb.w == 0 || vb.h == 0 then none      -- ZeroDivisionError caught
    else some (viewboxMatrix e vb a)

end
end Svg
