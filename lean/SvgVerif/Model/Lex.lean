/-
  Model/Lex.lean — deterministic scanners with the same outcome as the regular expressions
  of svgelements.py:164-257 under Python's `re` (leftmost, greedy, backtracking).

  PATTERN_FLOAT    = [-+]?[0-9]*\.?[0-9]+(?:[eE][-+]?[0-9]+)?
  PATTERN_COMMAWSP = [ ,\t\n\x09\x0A\x0C\x0D]+
-/
namespace Svg

/-- A number literal as matched by PATTERN_FLOAT, kept structurally (not as a float):
    value = (-1)^neg · (int.frac) · 10^(±exp). Digits are kept as characters' values. -/
structure NumLit where
  neg : Bool
  intDigits : List Nat
  fracDigits : List Nat
  expNeg : Bool
  expDigits : List Nat
deriving Repr, BEq, DecidableEq

def isDigit (c : Char) : Bool := '0' ≤ c ∧ c ≤ '9'
def digitVal (c : Char) : Nat := c.toNat - '0'.toNat

/-- longest prefix of decimal digits -/
def takeDigits : List Char → List Nat × List Char
  | [] => ([], [])
  | c :: cs => if isDigit c then
      let (ds, rest) := takeDigits cs
      (digitVal c :: ds, rest)
    else ([], c :: cs)

theorem takeDigits_length_le (s : List Char) : (takeDigits s).2.length ≤ s.length := by
  induction s with
  | nil => simp [takeDigits]
  | cons c cs ih =>
    unfold takeDigits
    split
    · simp only [List.length_cons]; omega
    · simp

/-- optional exponent `(?:[eE][-+]?[0-9]+)?` — matched only if at least one digit follows. -/
def scanExp (s : List Char) : (Bool × List Nat) × List Char :=
  match s with
  | e :: rest =>
    if e = 'e' ∨ e = 'E' then
      let (neg, rest1) : Bool × List Char :=
        match rest with
        | '-' :: r => (true, r)
        | '+' :: r => (false, r)
        | _ => (false, rest)
      let (ds, rest2) := takeDigits rest1
      if ds.isEmpty then ((false, []), s) else ((neg, ds), rest2)
    else ((false, []), s)
  | [] => ((false, []), s)

/-- `re.match(PATTERN_FLOAT, s)` anchored at the head of `s`: the literal and the remaining input,
    or `none` when the pattern does not match here. Backtracking outcome:
    `[0-9]*` greedy; a `.` is consumed only if a digit follows it; without it the integer
    digits must be non-empty (the last digit is given back to `[0-9]+`). -/
def scanFloatBody (neg : Bool) (s1 : List Char) : Option (NumLit × List Char) :=
  let (ints, s2) := takeDigits s1
  let (fracs, s3) : List Nat × List Char :=
    match s2 with
    | '.' :: r =>
      let (fs, r') := takeDigits r
      if fs.isEmpty then ([], s2) else (fs, r')
    | _ => ([], s2)
  if ints.isEmpty ∧ fracs.isEmpty then none
  else
    let ((eneg, eds), s4) := scanExp s3
    some (⟨neg, ints, fracs, eneg, eds⟩, s4)

def scanFloat (s : List Char) : Option (NumLit × List Char) :=
  match s with
  | '-' :: r => scanFloatBody true r
  | '+' :: r => scanFloatBody false r
  | _ => scanFloatBody false s

/-- PATTERN_COMMAWSP character class `[ ,\t\n\x09\x0A\x0C\x0D]` -/
def isCommaWsp (c : Char) : Bool :=
  c = ' ' ∨ c = ',' ∨ c = '\t' ∨ c = '\n' ∨ c = '\x0c' ∨ c = '\r'

def skipCommaWsp : List Char → List Char
  | [] => []
  | c :: cs => if isCommaWsp c then skipCommaWsp cs else c :: cs

/-- Python `\s` for `str` patterns (Unicode whitespace); the ASCII part plus the
    Unicode space separators that `str.isspace()` accepts. -/
def isPySpace (c : Char) : Bool :=
  let n := c.toNat
  (0x09 ≤ n ∧ n ≤ 0x0D) ∨ (0x1C ≤ n ∧ n ≤ 0x20) ∨ n = 0x85 ∨ n = 0xA0 ∨ n = 0x1680 ∨
  (0x2000 ≤ n ∧ n ≤ 0x200A) ∨ n = 0x2028 ∨ n = 0x2029 ∨ n = 0x202F ∨ n = 0x205F ∨ n = 0x3000

def skipPySpace : List Char → List Char
  | [] => []
  | c :: cs => if isPySpace c then skipPySpace cs else c :: cs

def natOfDigits (ds : List Nat) : Nat := ds.foldl (fun acc d => acc * 10 + d) 0

/-- The value of a literal in any scalar type with `OfScientific` (`Float`, `Rat`):
    mantissa `int‖frac`, decimal exponent `±exp − |frac|`. -/
def NumLit.toScalar {K : Type} [OfScientific K] [Neg K] (n : NumLit) : K :=
  let mant := natOfDigits (n.intDigits ++ n.fracDigits)
  let e : Int := (if n.expNeg then -(natOfDigits n.expDigits : Int) else (natOfDigits n.expDigits : Int))
                 - (n.fracDigits.length : Int)
  let v : K := if e < 0 then OfScientific.ofScientific mant true e.natAbs
               else OfScientific.ofScientific mant false e.natAbs
  if n.neg then -v else v

end Svg
