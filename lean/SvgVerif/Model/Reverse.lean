/-
  Model/Reverse.lean — `Path.reverse` (svgelements.py:6443), `Path.as_subpaths` (6466),
  `Subpath.reverse/_reverse_segments` (7816-7860), segment `reverse` (4154, 4789, 5287), and the
  re-assembly through `Path.__iadd__ → extend → _validate_connection`.

  Domain of the model: paths in which every subpath begins with its own `Move` (`splitOwn` succeeds).
  For these the index arithmetic of `Subpath.reverse` touches, inside the window, the move's end,
  the drawn segments and the close, and outside the window only the `start` of the following move
  (`_validate_connection(end)`), which the re-assembly overwrites again. Subpaths without their own
  move are the known finding C16-subpath-without-move: the model answers `none` for them.
-/
import SvgVerif.Model.Seg
namespace Svg

section
variable {K : Type} [Neg K]

namespace Seg

def isMove : Seg K → Bool
  | move .. => true | _ => false

def isClose : Seg K → Bool
  | close .. => true | _ => false

/-- `segment.reverse()` for every kind; a segment whose start is `None` cannot be reversed in this model -/
def rev : Seg K → Option (Seg K)
  | line (some s) e => some (line (some e) s)
  | close (some s) e => some (close (some e) s)
  | move (some s) e => some (move (some e) s)
  | quad s c e => some (quad e c s)
  | cubic s c1 c2 e => some (cubic e c2 c1 s)
  | arc a => some (arc { a with start := a.end_, end_ := a.start, sweep := -a.sweep })
  | _ => none

def setStart (p : Pt K) : Seg K → Seg K
  | move _ e => move (some p) e
  | line _ e => line (some p) e
  | close _ e => close (some p) e
  | quad _ c e => quad p c e
  | cubic _ c1 c2 e => cubic p c1 c2 e
  | arc a => arc { a with start := p }

end Seg

/-- every segment of a list reversed in place (order kept); `none` if one cannot be reversed -/
def revAll : List (Seg K) → Option (List (Seg K))
  | [] => some []
  | s :: rest =>
    match Seg.rev s, revAll rest with
    | some a, some b => some (a :: b)
    | _, _ => none

/-- one subpath with its own move: `M`, the drawn segments, an optional `Z` -/
structure Sub (K : Type) where
  move : Seg K
  drawn : List (Seg K)
  close : Option (Seg K)

def Sub.toList (s : Sub K) : List (Seg K) :=
  s.move :: s.drawn ++ (match s.close with | some c => [c] | none => [])

/-- collect drawn segments up to the next move/close: (drawn, close?, rest) -/
def takeDrawn : List (Seg K) → List (Seg K) × Option (Seg K) × List (Seg K)
  | [] => ([], none, [])
  | s :: rest =>
    if s.isClose then ([], some s, rest)
    else if s.isMove then ([], none, s :: rest)
    else
      let (d, c, r) := takeDrawn rest
      (s :: d, c, r)

theorem takeDrawn_length (l : List (Seg K)) : (takeDrawn l).2.2.length ≤ l.length := by
  induction l with
  | nil => simp [takeDrawn]
  | cons s rest ih =>
    unfold takeDrawn
    split
    · simp
    · split
      · simp
      · cases h : takeDrawn rest with
        | mk d cr =>
          obtain ⟨c, r⟩ := cr
          simp only [h] at ih ⊢
          simp only [List.length_cons]; omega

/-- `Path.as_subpaths` for paths whose subpaths all begin with a move; `none` otherwise -/
def splitOwn : List (Seg K) → Option (List (Sub K))
  | [] => some []
  | s :: rest =>
    if s.isMove then
      match h : takeDrawn rest with
      | (d, c, r) =>
        have : r.length ≤ rest.length := by have := takeDrawn_length rest; rw [h] at this; exact this
        match splitOwn r with
        | some subs => some (⟨s, d, c⟩ :: subs)
        | none => none
    else none
termination_by l => l.length
decreasing_by simp only [List.length_cons]; omega

/-- the end point of the last drawn segment (else the move's end) -/
def Sub.lastEnd (s : Sub K) : Pt K :=
  match s.drawn.getLast? with
  | some d => d.end_
  | none => s.move.end_

/-- `Subpath.reverse()` on a window that begins with a move:
    the move stays in place but now ends where the reversed drawing begins; the drawn segments are
    individually reversed and their order reversed (`_reverse_segments`); a close stays last and is
    re-targeted: it starts at the new last end and returns to the new start. -/
def Sub.rev (s : Sub K) : Option (Sub K) :=
  match revAll s.drawn with
  | none => none
  | some rd =>
    let drawn' := rd.reverse
    let newStart := s.lastEnd
    let move' : Seg K := match s.move with
      | .move st _ => .move st newStart
      | m => m
    let close' := s.close.map fun _ => Seg.close (some s.move.end_) newStart
    -- with no drawn segment the window is unchanged
    if s.drawn.isEmpty then some s else some ⟨move', drawn', close'⟩

/-- `Subpath._reverse_segments` as the code runs it: two indices walk inwards from both ends; the
    segment at the lower index is reversed and, unless it is the very same position, so is the one
    at the upper index and the two are exchanged. `fuel` bounds the number of rounds (the length
    suffices). -/
def swapLoop : Nat → List (Seg K) → Option (List (Seg K))
  | _, [] => some []
  | _, [a] => (Seg.rev a).map fun a' => [a']
  | 0, _ :: _ :: _ => none
  | fuel + 1, a :: b :: rest =>
    let z := (b :: rest).getLast (by simp)
    let mid := (b :: rest).dropLast
    match Seg.rev a, Seg.rev z, swapLoop fuel mid with
    | some a', some z', some m' => some (z' :: (m' ++ [a']))
    | _, _, _ => none

/-- `Subpath.reverse()` with the loop above in place of its result -/
def Sub.revLoop (s : Sub K) : Option (Sub K) :=
  match swapLoop s.drawn.length s.drawn with
  | none => none
  | some drawn' =>
    let newStart := s.lastEnd
    let move' : Seg K := match s.move with
      | .move st _ => .move st newStart
      | m => m
    let close' := s.close.map fun _ => Seg.close (some s.move.end_) newStart
    if s.drawn.isEmpty then some s else some ⟨move', drawn', close'⟩

/-- re-assembly `p += subpath` for each reversed window in reverse order: the first segment of each
    appended window is linked to the end of what is already there (`_validate_connection`);
    finally the very first segment's start is restored to `prepoint`. -/
def relink (prev : Option (Pt K)) : List (Sub K) → List (Seg K)
  | [] => []
  | s :: rest =>
    let m : Seg K := match prev, s.move with
      | some p, .move _ e => .move (some p) e
      | none, .move _ e => .move none e
      | _, m => m
    let body := m :: s.drawn ++ (match s.close with | some c => [c] | none => [])
    let last : Pt K := match s.close with
      | some c => c.end_
      | none => s.lastEnd
    body ++ relink (some last) rest

/-- `Path.reverse()` -/
def pathReverse (segs : List (Seg K)) : Option (List (Seg K)) :=
  match segs with
  | [] => some []
  | first :: _ =>
    match splitOwn segs with
    | none => none
    | some subs =>
      match subs.mapM Sub.revLoop with
      | none => none
      | some rs =>
        let out := relink none rs.reverse
        -- `self._segments[0].start = prepoint`
        match out, first.start? with
        | .move _ e :: rest, p => some (.move p e :: rest)
        | o, _ => some o

end
end Svg

namespace Svg
section
variable {K : Type} [Neg K]

/-- `path.subpath(i).reverse()`: the i-th window reversed in place; outside the window only the
    `start` of a directly following move is re-linked (`_validate_connection(end)`), and only when
    the window has no close -/
def subReverseAt (segs : List (Seg K)) (i : Nat) : Option (List (Seg K)) :=
  match splitOwn segs with
  | none => none
  | some subs =>
    match subs[i]? with
    | none => none
    | some s =>
      match s.revLoop with
      | none => none
      | some r =>
        let pre := (subs.take i).flatMap Sub.toList
        let post := (subs.drop (i + 1)).flatMap Sub.toList
        let post' := match r.close, post with
          | none, .move _ e :: rest => if s.drawn.isEmpty then post else Seg.move (some r.lastEnd) e :: rest
          | _, p => p
        some (pre ++ r.toList ++ post')

end
end Svg
