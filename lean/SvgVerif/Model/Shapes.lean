/-
  Model/Shapes.lean — basic shapes as segment lists: `Rect._validate_rect`, `Rect.segments`,
  `_RoundShape.segments` (untransformed), `SimpleLine.segments`, `_Polyshape.segments`, and the
  keyword constructor `Arc(start, end, rx=, ry=)` used for rounded corners.
-/
import SvgVerif.Model.Seg
namespace Svg

section
variable {K : Type} [Add K] [Sub K] [Mul K] [Div K] [Neg K] [Zero K] [One K] [BEq K]
  [LT K] [DecidableLT K]

def smin (a b : K) : K := if b < a then b else a

/-- `Rect._validate_rect` (svgelements.py:6654) on already resolved lengths; `none` = auto. -/
def rectRadii (rx ry : Option K) (w h : K) : K × K :=
  let (rx, ry) : K × K :=
    match rx, ry with
    | none, none => (0, 0)
    | some a, none => (a, a)
    | none, some b => (b, b)
    | some a, some b => (a, b)
  if rx == 0 || ry == 0 then (0, 0)
  else (smin rx (w / two), smin ry (h / two))

/-- a quarter-ellipse corner as built by `Arc(start, end, rx=rx, ry=ry)` (svgelements.py:5111):
    sweep +τ/4, centre at (start.x, end.y) when start→centre→end turns the way `orientation`
    calls 1, else at (end.x, start.y); prx/pry axis-aligned. `q` is τ/4. -/
def cornerArc (s e : Pt K) (rx ry q : K) : ArcData K :=
  let c0 : Pt K := ⟨s.x, e.y⟩
  -- Point.orientation(start, center, end): val = (qy-py)*(rx-qx) - (qx-px)*(ry-qy)
  let val := (c0.y - s.y) * (e.x - c0.x) - (c0.x - s.x) * (e.y - c0.y)
  let cw := 0 < val
  let c : Pt K := if cw then c0 else ⟨e.x, s.y⟩
  { start := s, end_ := e, center := c, prx := ⟨c.x + rx, c.y⟩, pry := ⟨c.x, c.y + ry⟩, sweep := q }

/-- `Rect.segments(transformed=False)` with validated radii (strict mode). -/
def rectSegs (x y w h rx ry q : K) : List (Seg K) :=
  if w == 0 || h == 0 then []
  else
    let (rx, ry) : K × K := if (rx < 0 ∧ 0 < w) ∨ (ry < 0 ∧ 0 < h) then (0, 0) else (rx, ry)
    if rx == 0 && ry == 0 then
      [ .move none ⟨x, y⟩,
        .line (some ⟨x, y⟩) ⟨x + w, y⟩,
        .line (some ⟨x + w, y⟩) ⟨x + w, y + h⟩,
        .line (some ⟨x + w, y + h⟩) ⟨x, y + h⟩,
        .close (some ⟨x, y + h⟩) ⟨x, y⟩ ]
    else
      [ .move none ⟨x + rx, y⟩,
        .line (some ⟨x + rx, y⟩) ⟨x + w - rx, y⟩,
        .arc (cornerArc ⟨x + w - rx, y⟩ ⟨x + w, y + ry⟩ rx ry q),
        .line (some ⟨x + w, y + ry⟩) ⟨x + w, y + h - ry⟩,
        .arc (cornerArc ⟨x + w, y + h - ry⟩ ⟨x + w - rx, y + h⟩ rx ry q),
        .line (some ⟨x + w - rx, y + h⟩) ⟨x + rx, y + h⟩,
        .arc (cornerArc ⟨x + rx, y + h⟩ ⟨x, y + h - ry⟩ rx ry q),
        .line (some ⟨x, y + h - ry⟩) ⟨x, y + ry⟩,
        .arc (cornerArc ⟨x, y + ry⟩ ⟨x + rx, y⟩ rx ry q),
        .close (some ⟨x + rx, y⟩) ⟨x + rx, y⟩ ]

/-- `_RoundShape.segments(transformed=False)`: move to (cx+rx, cy), four quarter arcs through
    (cx, cy+ry), (cx−rx, cy), (cx, cy−ry), back to the start, close. -/
def roundSegs (cx cy rx ry q : K) : List (Seg K) :=
  if rx == 0 || ry == 0 then []
  else
    let c : Pt K := ⟨cx, cy⟩
    let p0 : Pt K := ⟨cx + rx, cy⟩
    let p1 : Pt K := ⟨cx, cy + ry⟩
    let p2 : Pt K := ⟨cx - rx, cy⟩
    let p3 : Pt K := ⟨cx, cy - ry⟩
    let mk (s e : Pt K) : Seg K :=
      .arc { start := s, end_ := e, center := c, prx := ⟨cx + rx, cy⟩, pry := ⟨cx, cy + ry⟩, sweep := q }
    [ .move none p0, mk p0 p1, mk p1 p2, mk p2 p3, mk p3 p0, .close (some p0) p0 ]

/-- `SimpleLine.segments` -/
def lineSegs (x1 y1 x2 y2 : K) : List (Seg K) := [ .move none ⟨x1, y1⟩, .line (some ⟨x1, y1⟩) ⟨x2, y2⟩ ]

/-- the lines of `_Polyshape.segments` after the initial move: one per further point, then the
    close back to the first point for polygons -/
def polyTail (p0 : Pt K) (closed : Bool) (last : Pt K) : List (Pt K) → List (Seg K)
  | [] => if closed then [.close (some last) p0] else []
  | p :: ps => .line (some last) p :: polyTail p0 closed p ps

/-- `_Polyshape.segments`: move to the first point, a line per further point, close for polygons -/
def polySegs (pts : List (Pt K)) (closed : Bool) : List (Seg K) :=
  match pts with
  | [] => []
  | p0 :: rest => .move none p0 :: polyTail p0 closed p0 rest

end
end Svg
