/-
  Model/ArcBezier.lean — `Arc.as_cubic_curves`, `Arc.as_quad_curves` (svgelements.py:5510-5595),
  `Path.approximate_arcs_with_cubics/_with_quads` (6568-6588) with the slice assignment
  `self[s:s+1] = …` → `validate_connections` (5917-5935, 6024-6052).

  The two generator loops are transcribed with the loop state `(p_start, current_t)` explicit and the
  remaining iteration count as the recursion argument; `cos`/`sin` enter as function arguments so
  that the theorems can be stated for *any* functions (the chain-shape theorems need nothing about
  them, the affine-reduction theorems only use their values).
-/
import SvgVerif.Model.Seg
namespace Svg

section
variable {K : Type} [Add K] [Sub K] [Mul K] [Div K] [Neg K] [Zero K] [One K]

/-- the constants of one `as_cubic_curves` call: slice, alpha, radii, rotation -/
structure ArcSlices (K : Type) where
  tSlice : K
  alpha : K
  rx : K
  ry : K
  cosTheta : K
  sinTheta : K
  cx : K
  cy : K
  end_ : Pt K

/-- body of the `for` loop of `as_cubic_curves` (svgelements.py:5563-5591), `k+1` iterations left;
    the last iteration pins `p_end` to `self.end` -/
def cubicLoop (cosF sinF : K → K) (c : ArcSlices K) : Nat → Pt K → K → List (Seg K)
  | 0, _, _ => []
  | k + 1, pStart, curT =>
    let nextT := curT + c.tSlice
    let cosStartT := cosF curT
    let sinStartT := sinF curT
    let ePrimen1x := -c.rx * c.cosTheta * sinStartT - c.ry * c.sinTheta * cosStartT
    let ePrimen1y := -c.rx * c.sinTheta * sinStartT + c.ry * c.cosTheta * cosStartT
    let cosEndT := cosF nextT
    let sinEndT := sinF nextT
    let p2En2x := c.cx + c.rx * cosEndT * c.cosTheta - c.ry * sinEndT * c.sinTheta
    let p2En2y := c.cy + c.rx * cosEndT * c.sinTheta + c.ry * sinEndT * c.cosTheta
    let pEnd : Pt K := if k = 0 then c.end_ else ⟨p2En2x, p2En2y⟩
    let ePrimen2x := -c.rx * c.cosTheta * sinEndT - c.ry * c.sinTheta * cosEndT
    let ePrimen2y := -c.rx * c.sinTheta * sinEndT + c.ry * c.cosTheta * cosEndT
    Seg.cubic pStart ⟨pStart.x + c.alpha * ePrimen1x, pStart.y + c.alpha * ePrimen1y⟩
        ⟨pEnd.x - c.alpha * ePrimen2x, pEnd.y - c.alpha * ePrimen2y⟩ pEnd
      :: cubicLoop cosF sinF c k pEnd nextT

/-- body of the `for` loop of `as_quad_curves` (svgelements.py:5531-5544); `alpha` of the
    structure is `(4 − cos t_slice)/3` here -/
def quadLoop (cosF sinF : K → K) (c : ArcSlices K) : Nat → Pt K → K → List (Seg K)
  | 0, _, _ => []
  | k + 1, pStart, curT =>
    let nextT := curT + c.tSlice
    let midT := (nextT + curT) / two
    -- p_end = self.point_at_t(next_t)
    let cosEndT := cosF nextT
    let sinEndT := sinF nextT
    let pe : Pt K := ⟨c.cx + c.rx * cosEndT * c.cosTheta - c.ry * sinEndT * c.sinTheta,
                      c.cy + c.rx * cosEndT * c.sinTheta + c.ry * sinEndT * c.cosTheta⟩
    let pEnd : Pt K := if k = 0 then c.end_ else pe
    let cosMidT := cosF midT
    let sinMidT := sinF midT
    let px := c.cx + c.alpha * (c.rx * cosMidT * c.cosTheta - c.ry * sinMidT * c.sinTheta)
    let py := c.cy + c.alpha * (c.rx * cosMidT * c.sinTheta + c.ry * sinMidT * c.cosTheta)
    Seg.quad pStart ⟨px, py⟩ pEnd :: quadLoop cosF sinF c k pEnd nextT

end

section
variable {K : Type} [Add K] [Sub K] [Mul K] [Div K] [Neg K] [Zero K] [One K] [BEq K]
  [LT K] [DecidableLT K] [LE K] [DecidableLE K] [NatCast K] [Trig K] [FMod K]

/-- `int(ceil(x))` for a non-negative float -/
class CeilNat (K : Type) where
  ceilNat : K → Nat

variable [CeilNat K]

/-- `arc_required = int(ceil(abs(self.sweep) / sweep_limit))` -/
def arcRequired (sweep limit : K) : Nat := CeilNat.ceilNat (fabs sweep / limit)

/-- `sweep_limit = tau / 12.0` -/
def defaultLimit : K := Trig.tau / ((12 : Nat) : K)

/-- the straight cubic for a zero-radius arc (thirds of the chord) -/
def lineCubic (s e : Pt K) : Seg K :=
  .cubic s (Pt.towards s e (1 / three)) (Pt.towards s e (two / three)) e

def lineQuad (s e : Pt K) : Seg K :=
  .quad s (Pt.towards s e (1 / two)) e

/-- the explicit or default slice count -/
def sliceCount (a : ArcData K) : Option Nat → Nat
  | some n => n
  | none => arcRequired a.sweep (defaultLimit : K)

/-- `as_cubic_curves` from `if arc_required == 0: return` on -/
def ArcData.cubicCurvesN (a : ArcData K) (n : Nat) : List (Seg K) :=
  if n = 0 then [] else
  let tSlice := a.sweep / ((n : Nat) : K)
  let theta := a.rotation
  let half := tSlice / two
  let tn := Trig.tan half
  let alpha := Trig.sin tSlice * (Trig.sqrt (two * two + three * (tn * tn)) - 1) / three
  cubicLoop Trig.cos Trig.sin
    { tSlice := tSlice, alpha := alpha, rx := a.rx, ry := a.ry, cosTheta := Trig.cos theta, sinTheta := Trig.sin theta,
      cx := a.center.x, cy := a.center.y, end_ := a.end_ } n a.start a.startT

/-- `list(arc.as_cubic_curves(arc_required))` -/
def ArcData.cubicCurves (a : ArcData K) (n : Option Nat) : List (Seg K) :=
  if a.sweep == 0 then (if !(ptEq a.start a.end_) then [lineCubic a.start a.end_] else [])
  else a.cubicCurvesN (sliceCount a n)

def ArcData.quadCurvesN (a : ArcData K) (n : Nat) : List (Seg K) :=
  if n = 0 then [] else
  let tSlice := a.sweep / ((n : Nat) : K)
  let theta := a.rotation
  let alpha := (two * two - Trig.cos tSlice) / three
  quadLoop Trig.cos Trig.sin
    { tSlice := tSlice, alpha := alpha, rx := a.rx, ry := a.ry, cosTheta := Trig.cos theta, sinTheta := Trig.sin theta,
      cx := a.center.x, cy := a.center.y, end_ := a.end_ } n a.start a.startT

/-- `list(arc.as_quad_curves(arc_required))` -/
def ArcData.quadCurves (a : ArcData K) (n : Option Nat) : List (Seg K) :=
  if a.sweep == 0 then (if !(ptEq a.start a.end_) then [lineQuad a.start a.end_] else [])
  else a.quadCurvesN (sliceCount a n)

end

/-! ### Splicing into a path: `self[s:s+1] = chain` then `validate_connections()` -/
section
variable {K : Type}

def Seg.withStart (p : Pt K) : Seg K → Seg K
  | .move _ e => .move (some p) e
  | .line _ e => .line (some p) e
  | .close _ e => .close (some p) e
  | .quad _ c e => .quad p c e
  | .cubic _ c1 c2 e => .cubic p c1 c2 e
  | .arc a => .arc { a with start := p }

def Seg.withEnd (p : Pt K) : Seg K → Seg K
  | .move s _ => .move s p
  | .line s _ => .line s p
  | .close s _ => .close s p
  | .quad s c _ => .quad s c p
  | .cubic s c1 c2 _ => .cubic s c1 c2 p
  | .arc a => .arc { a with end_ := p }

def Seg.isMoveB : Seg K → Bool
  | .move _ _ => true
  | _ => false

def Seg.isCloseB : Seg K → Bool
  | .close _ _ => true
  | _ => false

/-- `if zpoint is None or isinstance(segment, Move): zpoint = segment.end` -/
def nextZ (z : Option (Pt K)) (seg : Seg K) : Option (Pt K) :=
  if z.isNone || seg.isMoveB then some seg.end_ else z

/-- the three-way start/end reconciliation with the previous segment (ends are never `None` here) -/
def fixStart (eq : Pt K → Pt K → Bool) (lastEnd : Option (Pt K)) (seg : Seg K) : Seg K :=
  match lastEnd with
  | none => seg
  | some le =>
    match seg.start? with
    | none => seg.withStart le
    | some st => if eq le st then seg else seg.withStart le

/-- `if isinstance(segment, Close) and zpoint is not None and segment.end != zpoint: segment.end = Point(zpoint)` -/
def fixClose (eq : Pt K → Pt K → Bool) (z : Option (Pt K)) (seg : Seg K) : Seg K :=
  match z with
  | some z => if seg.isCloseB && !(eq seg.end_ z) then seg.withEnd z else seg
  | none => seg

/-- `Path.validate_connections` (svgelements.py:6024-6052). `eq` is `Point.__eq__`. Segment ends are
    never `None` in this model (they are not for any path the parser or the constructors build). -/
def validateConns (eq : Pt K → Pt K → Bool) : Option (Pt K) → Option (Pt K) → List (Seg K) → List (Seg K)
  | _, _, [] => []
  | zpoint, lastEnd, seg :: rest =>
    let z' := nextZ zpoint seg
    let seg' := fixClose eq z' (fixStart eq lastEnd seg)
    seg' :: validateConns eq z' (some seg'.end_) rest

/-- one pass of `approximate_arcs_with_*`: indices `s-1 … 0`, each arc replaced by `conv arc`
    and the whole path re-validated -/
def approxAt (conv : ArcData K → List (Seg K)) (eq : Pt K → Pt K → Bool) : Nat → List (Seg K) → List (Seg K)
  | 0, l => l
  | s + 1, l =>
    let l' := match l[s]? with
      | some (.arc a) => validateConns eq none none (l.take s ++ conv a ++ l.drop (s + 1))
      | _ => l
    approxAt conv eq s l'

def approxPath (conv : ArcData K → List (Seg K)) (eq : Pt K → Pt K → Bool) (l : List (Seg K)) : List (Seg K) :=
  approxAt conv eq l.length l

end
end Svg
