/-
  Model/Write.lean — the part of `_write_node` (svgelements.py:9554-9794) that decides geometry:
  the transform written for a shape and the truthiness-guarded dimension attributes, with the
  reader's side of each (what `SVG.parse` makes of the written attribute).
-/
import SvgVerif.Model.Geom
namespace Svg.Write

section
variable {K : Type} [Add K] [Sub K] [Mul K] [Div K] [Neg K] [Zero K] [One K] [BEq K]

/-- `t = node.transform; if viewport_transform: t = t * viewport_transform` where
    `viewport_transform` is the inverse of the root svg's viewBox transform (absent without viewBox) -/
def writtenMatrix (t : Mat K) (vtInv : Option (Mat K)) : Mat K :=
  match vtInv with
  | some vi => Mat.mul t vi
  | none => t

/-- re-parsing: the written `matrix(...)` is parsed onto the viewport transform of the root svg -/
def rereadMatrix (w : Mat K) (vt : Option (Mat K)) : Mat K :=
  match vt with
  | some v => Mat.mul w v
  | none => w

/-- `if node.x: xml.set("x", str(node.x))` — a falsy (zero) value is not written -/
def writeDim (v : K) : Option K := if v == 0 then none else some v

/-- the reader's default for a missing attribute -/
def readDim (dflt : K) : Option K → K
  | some v => v
  | none => dflt

end
end Svg.Write
