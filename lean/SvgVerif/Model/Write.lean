/-
  Model/Write.lean — the part of `_write_node` (svgelements.py:9554-9794) that decides geometry:
  the transform written for a shape and the truthiness-guarded dimension attributes, with the
  reader's side of each (what `SVG.parse` makes of the written attribute).
-/
import SvgVerif.Model.Geom
import SvgVerif.Model.Color
namespace Svg.Write

section
variable {K : Type} [Add K] [Sub K] [Mul K] [Div K] [Neg K] [Zero K] [One K] [BEq K]

/-- `t = node.transform; if viewport_transform: t = t * viewport_transform` where
    `viewport_transform` is the inverse of the root svg's viewBox transform (absent without viewBox) -/
def writtenMatrix (t : Mat K) (vtInv : Option (Mat K)) : Mat K :=
  match vtInv with
  | some vi => Mat.mul t vi
  | none => t

/-- re-parsing: the written `matrix(...)` is parsed onto the viewport transform of the root svg -/
def rereadMatrix (w : Mat K) (vt : Option (Mat K)) : Mat K :=
  match vt with
  | some v => Mat.mul w v
  | none => w

/-- `if node.x: xml.set("x", str(node.x))` — a falsy (zero) value is not written -/
def writeDim (v : K) : Option K := if v == 0 then none else some v

/-- the reader's default for a missing attribute -/
def readDim (dflt : K) : Option K → K
  | some v => v
  | none => dflt

end

/-! ### paint ("Write Stroke", "Write Fill": svgelements.py:9779-9811) -/

/-- one digit of `%02x` -/
def hexChar (d : Nat) : Char := if d < 10 then Char.ofNat (48 + d) else Char.ofNat (87 + d)

/-- what the writer puts into the element for one paint: the text of the `fill`/`stroke` attribute
    (`none`: not written) and the number whose `str` becomes `fill-opacity`/`stroke-opacity`
    (`none`: not written) -/
structure PaintOut (K : Type) where
  text : Option String
  opacity : Option K

/-- A paint is `None` (nothing written), a colour without value (`none`), or a packed RGBA value:
    `str(abs(colour))` is the `#rrggbb` of the opaque colour, and the opacity `alpha / 255.0` is
    written unless it is `1.0`. -/
def writtenPaint {K : Type} [Div K] [NatCast K] (p : Option (Option Nat)) : PaintOut K :=
  match p with
  | none => ⟨none, none⟩
  | some none => ⟨some "none", none⟩
  | some (some v) =>
    ⟨some (String.ofList ('#' :: (Color.hexDigits (Color.setAlpha v 255)).map hexChar)),
     if Color.alpha v = 255 then none else some (((Color.alpha v : Nat) : K) / ((255 : Nat) : K))⟩

end Svg.Write
