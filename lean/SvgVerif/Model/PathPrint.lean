/-
  Model/PathPrint.lean — `Path.svg_d` (svgelements.py:6494-6546) and the per-segment `d()` methods
  (Move 4386, Close 4502, Line 4512, QuadraticBezier 4695 + is_smooth_from 4686, CubicBezier 4900 +
  is_smooth_from 4891, Arc 5757), at token level: which command letter is emitted and with which
  numbers. Number formatting (`%.12G`, `%G`) is outside this model (an exact printer); it is applied
  and bounded by the harness.

  `svg_d` walks the segments with a running current point `p` (initially the origin) and the
  previous segment; `relative`/`smooth` are three-valued (None = keep what the segment remembers).
-/
import SvgVerif.Spec.PathSpec
namespace Svg

structure DOpts where
  rel : Option Bool
  smooth : Option Bool
deriving Repr, DecidableEq

section
variable {K : Type} [Add K] [Sub K]

/-- `Point.__sub__` -/
def ptSub (a b : Pt K) : Pt K := ⟨a.x - b.x, a.y - b.y⟩

/-- the `relative` flag `svg_d` passes to `segment.d` -/
def DOpts.relFor (o : DOpts) (segRel : Bool) : Bool :=
  match o.rel with
  | some r => r
  | none => segRel

/-- does `svg_d` consider the smooth form for this curve at all? -/
def DOpts.smoothFor (o : DOpts) (segSmooth : Bool) : Bool :=
  match o.smooth with
  | some b => b
  | none => segSmooth

/-- `QuadraticBezier.is_smooth_from(previous)`; `eqv` is `Point.__eq__` -/
def quadSmoothFrom (eqv : Pt K → Pt K → Bool) (prev : Option (PSeg K)) (s c : Pt K) : Bool :=
  match prev with
  | some (.quad _ _ _ (some pc) (some pe)) => eqv s pe && eqv (ptSub c s) (ptSub pe pc)
  | _ => eqv c s

/-- `CubicBezier.is_smooth_from(previous)` -/
def cubicSmoothFrom (eqv : Pt K → Pt K → Bool) (prev : Option (PSeg K)) (s c1 : Pt K) : Bool :=
  match prev with
  | some (.cubic _ _ _ _ (some pc2) (some pe)) => eqv s pe && eqv (ptSub c1 s) (ptSub pe pc2)
  | _ => eqv c1 s

/-- one segment's `d()` as a command (None when a needed field is `None`) -/
def dCmd (eqv : Pt K → Pt K → Bool) (o : DOpts) (prev : Option (PSeg K)) (p : Pt K) : PSeg K → Option (Cmd K)
  | .move r _ (some e) =>
    if o.relFor r then some (.moveTo true (ptSub e p)) else some (.moveTo false e)
  | .line r _ (some e) =>
    if o.relFor r then some (.lineTo true (ptSub e p)) else some (.lineTo false e)
  | .close r _ _ => some (.closePath (o.relFor r))
  | .quad r sm (some s) (some c) (some e) =>
    let smooth := o.smoothFor sm && quadSmoothFrom eqv prev s c
    if smooth then
      (if o.relFor r then some (.smoothQuadTo true (ptSub e p)) else some (.smoothQuadTo false e))
    else
      (if o.relFor r then some (.quadTo true (ptSub c p) (ptSub e p)) else some (.quadTo false c e))
  | .cubic r sm (some s) (some c1) (some c2) (some e) =>
    let smooth := o.smoothFor sm && cubicSmoothFrom eqv prev s c1
    if smooth then
      (if o.relFor r then some (.smoothCubicTo true (ptSub c2 p) (ptSub e p)) else some (.smoothCubicTo false c2 e))
    else
      (if o.relFor r then some (.cubicTo true (ptSub c1 p) (ptSub c2 p) (ptSub e p)) else some (.cubicTo false c1 c2 e))
  | .arc r _ rx ry rot fa fs e =>
    if o.relFor r then some (.arcTo true rx ry rot fa fs (ptSub e p)) else some (.arcTo false rx ry rot fa fs e)
  | _ => none

/-- `svg_d`: the running point is the previous segment's end -/
def dCmds (eqv : Pt K → Pt K → Bool) (o : DOpts) : Option (PSeg K) → Pt K → List (PSeg K) → Option (List (Cmd K))
  | _, _, [] => some []
  | prev, p, s :: rest =>
    match dCmd eqv o prev p s, s.end? with
    | some c, some e =>
      (match dCmds eqv o (some s) e rest with
       | some cs => some (c :: cs)
       | none => none)
    | _, _ => none

end

/-- `Path.d(relative, smooth)` on untransformed segments: `p = Point(0)`, no previous segment -/
def pathD {K : Type} [Add K] [Sub K] [Zero K] (eqv : Pt K → Pt K → Bool) (o : DOpts) (segs : List (PSeg K)) :
    Option (List (Cmd K)) :=
  dCmds eqv o none ⟨0, 0⟩ segs

end Svg
