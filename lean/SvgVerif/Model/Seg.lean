/-
  Model/Seg.lean — path segments (svgelements.py:4004-5775): Move, Line, Close, QuadraticBezier,
  CubicBezier, Arc; `point`, `*= Matrix`, `reverse`, per-segment `bbox`.
-/
import SvgVerif.Model.Geom
import SvgVerif.Model.Py
namespace Svg

/-- an elliptical arc in the library's native form -/
structure ArcData (K : Type) where
  start : Pt K
  end_ : Pt K
  center : Pt K
  prx : Pt K
  pry : Pt K
  sweep : K
deriving Repr

inductive Seg (K : Type)
  | move (start : Option (Pt K)) (end_ : Pt K)
  | line (start : Option (Pt K)) (end_ : Pt K)
  | close (start : Option (Pt K)) (end_ : Pt K)
  | quad (start : Pt K) (control : Pt K) (end_ : Pt K)
  | cubic (start : Pt K) (control1 control2 : Pt K) (end_ : Pt K)
  | arc (a : ArcData K)
deriving Repr

section
variable {K : Type} [Add K] [Sub K] [Mul K] [Div K] [Neg K] [Zero K] [One K]

namespace Seg

def start? : Seg K → Option (Pt K)
  | move s _ => s | line s _ => s | close s _ => s
  | quad s _ _ => some s | cubic s _ _ _ => some s | arc a => some a.start

def end_ : Seg K → Pt K
  | move _ e => e | line _ e => e | close _ e => e
  | quad _ _ e => e | cubic _ _ _ e => e | arc a => a.end_

/-- `QuadraticBezier.npoint` (svgelements.py:4600) -/
def quadPoint (p0 p1 p2 : Pt K) (t : K) : Pt K :=
  let n := 1 - t
  let t2 := t * t
  let n2 := n * n
  let nt := n * t
  ⟨n2 * p0.x + two * nt * p1.x + t2 * p2.x, n2 * p0.y + two * nt * p1.y + t2 * p2.y⟩

/-- `CubicBezier.npoint` (svgelements.py:4798) -/
def cubicPoint (p0 p1 p2 p3 : Pt K) (t : K) : Pt K :=
  let t3 := t * t * t
  let n := 1 - t
  let n3 := n * n * n
  let t2n := t * t * n
  let n2t := n * n * t
  ⟨n3 * p0.x + three * (n2t * p1.x + t2n * p2.x) + t3 * p3.x,
   n3 * p0.y + three * (n2t * p1.y + t2n * p2.y) + t3 * p3.y⟩

/-- `Linear.npoint`: `Point.towards(start, end, pos)` -/
def linePoint (s e : Pt K) (t : K) : Pt K := Pt.towards s e t

/-- `(seg * M)` for the point-defined kinds: every stored point is mapped -/
def mulBezier (m : Mat K) : Seg K → Seg K
  | move s e => move (s.map m.apply) (m.apply e)
  | line s e => line (s.map m.apply) (m.apply e)
  | close s e => close (s.map m.apply) (m.apply e)
  | quad s c e => quad (m.apply s) (m.apply c) (m.apply e)
  | cubic s c1 c2 e => cubic (m.apply s) (m.apply c1) (m.apply c2) (m.apply e)
  | arc a => arc a   -- arcs: see Model/Arc.lean

/-- `reverse()` of the point-defined kinds (PathSegment.reverse / CubicBezier.reverse) -/
def reverseBezier : Seg K → Option (Seg K)
  | line (some s) e => some (line (some e) s)
  | close (some s) e => some (close (some e) s)
  | move (some s) e => some (move (some e) s)
  | quad s c e => some (quad e c s)
  | cubic s c1 c2 e => some (cubic e c2 c1 s)
  | _ => none

end Seg

/-- the algebraic position on an arc's ellipse at parameter angle with cosine `ct`, sine `st`:
    `center + (prx − center)·cos + (pry − center)·sin` -/
def ArcData.den (a : ArcData K) (ct st : K) : Pt K :=
  ⟨a.center.x + (a.prx.x - a.center.x) * ct + (a.pry.x - a.center.x) * st,
   a.center.y + (a.prx.y - a.center.y) * ct + (a.pry.y - a.center.y) * st⟩

/-- all five points of an arc mapped through a matrix (the first half of `Arc.__imul__`) -/
def ArcData.mapPoints (m : Mat K) (a : ArcData K) : ArcData K :=
  { start := m.apply a.start, end_ := m.apply a.end_, center := m.apply a.center,
    prx := m.apply a.prx, pry := m.apply a.pry, sweep := a.sweep }

/-- the re-orthogonalisation step of `Arc.__imul__` (svgelements.py:5236-5253) for a half-angle
    with cosine `c0` and sine `s0`: rotate the pair of conjugate semi-diameters -/
def ArcData.reorth (a : ArcData K) (c0 s0 : K) : ArcData K :=
  let ux := a.prx.x - a.center.x
  let uy := a.prx.y - a.center.y
  let vx := a.pry.x - a.center.x
  let vy := a.pry.y - a.center.y
  { a with
    prx := ⟨a.center.x + ux * c0 + vx * s0, a.center.y + uy * c0 + vy * s0⟩
    pry := ⟨a.center.x - ux * s0 + vx * c0, a.center.y - uy * s0 + vy * c0⟩ }

end

/-! ### The faithful (floating-point order) arc evaluator -/
section
variable {K : Type} [Add K] [Sub K] [Mul K] [Div K] [Neg K] [Zero K] [One K] [BEq K]
  [LT K] [DecidableLT K] [LE K] [DecidableLE K] [NatCast K] [Trig K]

/-- `ERROR = 1e-12` -/
def errorEps : K := ((1 : Nat) : K) / ((1000000000000 : Nat) : K)

def fabs (x : K) : K := if x < 0 then -x else x

/-- `Point.__eq__`: both coordinates within ERROR -/
def ptEq (p q : Pt K) : Bool := decide (fabs (p.x - q.x) ≤ errorEps) && decide (fabs (p.y - q.y) ≤ errorEps)

def dist (p q : Pt K) : K :=
  let dx := p.x - q.x
  let dy := p.y - q.y
  Trig.sqrt (dx * dx + dy * dy)

def ArcData.rx (a : ArcData K) : K := dist a.center a.prx
def ArcData.ry (a : ArcData K) : K := dist a.center a.pry
/-- `Point.angle(center, prx)` -/
def ArcData.rotation (a : ArcData K) : K := Trig.atan2 (a.prx.y - a.center.y) (a.prx.x - a.center.x)

/-- `Arc.point_at_t` (svgelements.py:5687) -/
def ArcData.pointAtT (a : ArcData K) (t : K) : Pt K :=
  let rot := a.rotation
  let ra := a.rx
  let rb := a.ry
  let cosr := Trig.cos rot
  let sinr := Trig.sin rot
  let ct := Trig.cos t
  let st := Trig.sin t
  ⟨a.center.x + ra * ct * cosr - rb * st * sinr, a.center.y + ra * ct * sinr + rb * st * cosr⟩

class FMod (K : Type) where
  /-- Python `x % y` for floats (sign of the divisor) -/
  fmod : K → K → K

variable [FMod K]

/-- `Arc.t_at_point` (svgelements.py:5669) -/
def ArcData.tAtPoint (a : ArcData K) (p : Pt K) : K :=
  let angle := Trig.atan2 (p.y - a.center.y) (p.x - a.center.x) - a.rotation
  let t := Trig.atan2 (a.rx * Trig.tan angle) a.ry
  let q := Trig.tau / (two * two)
  let q3 := three * q
  let m := FMod.fmod (fabs angle) Trig.tau
  if m ≤ q3 ∧ q < m then t + Trig.tau / two else t

/-- `Arc.point_at_angle` -/
def ArcData.pointAtAngle (a : ArcData K) (angle : K) : Pt K :=
  let angle := angle - a.rotation
  let ra := a.rx
  let rb := a.ry
  if ra == rb then a.pointAtT angle
  else
    let t := Trig.atan2 (ra * Trig.tan angle) rb
    let q := Trig.tau / (two * two)
    let q3 := three * q
    let m := FMod.fmod (fabs angle) Trig.tau
    let t := if m ≤ q3 ∧ q < m then t + Trig.tau / two else t
    a.pointAtT t

/-- `Arc.get_start_t`: `t_at_point(point_at_angle(angle_at_point(start)))` -/
def ArcData.startT (a : ArcData K) : K :=
  let ang := Trig.atan2 (a.start.y - a.center.y) (a.start.x - a.center.x)
  a.tAtPoint (a.pointAtAngle ang)

/-- `Arc.npoint` for one position (pure-Python branch, svgelements.py:5292-5307) -/
def ArcData.point (a : ArcData K) (pos : K) : Pt K :=
  if ptEq a.start a.end_ && a.sweep == 0 then a.start
  else if a.sweep == 0 then Pt.towards a.start a.end_ pos
  else if pos == 0 then a.start
  else if pos == 1 then a.end_
  else a.pointAtT (a.startT + a.sweep * pos)

/-- `Arc.__imul__` (svgelements.py:5215-5254) -/
def ArcData.mul (a : ArcData K) (m : Mat K) (eps : K) : ArcData K :=
  let b := a.mapPoints m
  let b := if m.det < 0 then { b with sweep := -b.sweep } else b
  let ux := b.prx.x - b.center.x
  let uy := b.prx.y - b.center.y
  let vx := b.pry.x - b.center.x
  let vy := b.pry.y - b.center.y
  let dot := ux * vx + uy * vy
  if eps * (ux * ux + uy * uy + vx * vx + vy * vy) < fabs dot then
    let t0 := Trig.atan2 (two * dot) ((ux * ux + uy * uy) - (vx * vx + vy * vy)) / two
    b.reorth (Trig.cos t0) (Trig.sin t0)
  else b

/-- `seg.point(t)` -/
def Seg.point (s : Seg K) (t : K) : Pt K :=
  match s with
  | .move _ e => e
  | .line (some s) e => Seg.linePoint s e t
  | .close (some s) e => Seg.linePoint s e t
  | .line none e => e
  | .close none e => e
  | .quad s c e => Seg.quadPoint s c e t
  | .cubic s c1 c2 e => Seg.cubicPoint s c1 c2 e t
  | .arc a => a.point t

/-- `seg * M` -/
def Seg.mul (s : Seg K) (m : Mat K) (eps : K) : Seg K :=
  match s with
  | .arc a => .arc (a.mul m eps)
  | s => Seg.mulBezier m s

/-- `seg.reverse()` (arcs: swap the endpoints and negate the sweep) -/
def Seg.reverse (s : Seg K) : Option (Seg K) :=
  match s with
  | .arc a => some (.arc { a with start := a.end_, end_ := a.start, sweep := -a.sweep })
  | s => Seg.reverseBezier s

end
end Svg
