/-
  Model/Wire.lean — the line protocol of the correspondence check (not part of the model):
  floats travel as 16 hex digits of their IEEE-754 bit pattern, strings as hex-encoded UTF-8.
-/
import SvgVerif.Model.Py
namespace Svg.Wire

def hexVal (c : Char) : Nat :=
  if '0' ≤ c ∧ c ≤ '9' then c.toNat - '0'.toNat
  else if 'a' ≤ c ∧ c ≤ 'f' then c.toNat - 'a'.toNat + 10
  else if 'A' ≤ c ∧ c ≤ 'F' then c.toNat - 'A'.toNat + 10
  else 0

def hexNat (s : String) : Nat := s.toList.foldl (fun a c => a * 16 + hexVal c) 0

def floatOfHex (s : String) : Float := Float.ofBits (UInt64.ofNat (hexNat s))

def hexDigit (n : Nat) : Char :=
  if n < 10 then Char.ofNat (n + '0'.toNat) else Char.ofNat (n - 10 + 'a'.toNat)

def hexOfNat (n : Nat) (width : Nat) : String :=
  String.ofList ((List.range width).reverse.map fun i => hexDigit ((n >>> (4 * i)) % 16))

def hexOfFloat (f : Float) : String := hexOfNat f.toBits.toNat 16

def bytesOfHex (s : String) : ByteArray :=
  let rec go : List Char → ByteArray → ByteArray
    | a :: b :: r, acc => go r (acc.push (UInt8.ofNat (hexVal a * 16 + hexVal b)))
    | _, acc => acc
  go s.toList ByteArray.empty

def stringOfHex (s : String) : String :=
  match String.fromUTF8? (bytesOfHex s) with
  | some r => r
  | none => ""

def hexOfString (s : String) : String :=
  s.toUTF8.foldl (fun acc b => acc ++ hexOfNat b.toNat 2) ""

instance : NatCast Float := ⟨Float.ofNat⟩

instance : Trig Float where
  cos := Float.cos
  sin := Float.sin
  tan := Float.tan
  atan2 := Float.atan2
  acos := Float.acos
  sqrt := Float.sqrt
  tau := 6.283185307179586

def fmtErr (e : PyErr) : String := "ERR " ++ e.name

end Svg.Wire
