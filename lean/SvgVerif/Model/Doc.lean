/-
  Model/Doc.lean — the document layer of `SVG.parse` (svgelements.py:9020-9489), stage A:
  structure, inheritance, cascade and transform accumulation.

  * `_use_structure_parse` (9020-9080): the id table (a later definition of an id replaces an
    earlier one), and `semiparse`, which turns the element tree into the start/end event stream
    with the target of every `use` inlined after the `use`'s own children; a reference to an id
    that is already being expanded is not followed again (`active`).
  * the event loop of `SVG.parse` (9126-9489): the `(context, values, width, height)` stack, the
    wholesale copy of the inherited `values` dictionary with its five non-propagating keys
    removed, the style text assembled from the matching rules and the inline style and applied
    "last assignment wins", `currentColor`, the concatenation of `transform` strings, the
    `display:none` early exits, and the per-tag branches: `svg` (size resolution, zero-size
    return, viewport transform appended), `g`, `defs`/`clipPath`/`pattern` (not rendered), `use`
    (x/y folded into the transform, x/y/width/height removed), the shape tags (one record
    emitted), the text-like tags, unknown tags; the `style` element's text at its end event.

  What is abstracted: the context objects are reduced to "is this container reachable from the
  document root" (`Ctx`); the accumulated `transform` string is kept as its list of pieces
  (`TfPiece`: attribute text, or the matrix of a generated `translate(..) scale(..)` string), so
  the model does not print floats; `root.objects`, clip paths and `Text/Desc/Title` objects are
  not modelled. Stage B (Model/DocShape.lean) turns an emitted record into numbers.
-/
import SvgVerif.Model.Transform
import SvgVerif.Model.Length
import SvgVerif.Model.Viewbox
namespace Svg.Doc

/-! ## dictionaries (`dict` with string keys and values) -/

abbrev Dict := List (String × String)

namespace Dict
/-- `d.get(k)`: the newest binding -/
def get : Dict → String → Option String
  | [], _ => none
  | (k', v) :: r, k => if k' = k then some v else get r k

/-- `d[k] = v` -/
def set (d : Dict) (k v : String) : Dict := (k, v) :: d

/-- `del d[k]` (when present) -/
def erase : Dict → String → Dict
  | [], _ => []
  | (k', v) :: r, k => if k' = k then erase r k else (k', v) :: erase r k

/-- `d.update(a)` -/
def update (d : Dict) (a : List (String × String)) : Dict := a.foldl (fun d p => set d p.1 p.2) d

def has (d : Dict) (k : String) : Bool := (get d k).isSome
end Dict

/-! ## strings -/

/-- Python `s.split(c)` for a one-character separator: always at least one field -/
def splitOn (c : Char) : List Char → List (List Char)
  | [] => [[]]
  | x :: xs =>
    match splitOn c xs with
    | [] => [[x]]          -- unreachable
    | h :: t => if x = c then [] :: h :: t else (x :: h) :: t

/-- Python `s.strip()` -/
def pyStrip (s : List Char) : List Char :=
  ((s.dropWhile isPySpace).reverse.dropWhile isPySpace).reverse

def strip (s : String) : String := String.ofList (pyStrip s.toList)

/-- `s.lower()` restricted to what a comparison with an ASCII keyword can see -/
def lower (s : String) : String := String.ofList (s.toList.map lowerAscii)

/-! ## XML trees and events -/

inductive Xml where
  | node (tag : String) (attrs : List (String × String)) (text : String) (kids : List Xml)
deriving Repr

inductive Ev where
  | start (tag : String) (attrs : List (String × String))
  | stop (tag : String) (text : String)
  | overflow          -- Python's recursion limit reached while expanding `use` (never, see C10)
deriving Repr, BEq, DecidableEq

def XLINK_HREF : String := "{http://www.w3.org/1999/xlink}href"

/-- `url = attrib[xlink:href]; url = attrib[href]` — `href` wins when both are present -/
def hrefOf (attrs : List (String × String)) : Option String :=
  match Dict.get attrs "href" with
  | some u => some u
  | none => Dict.get attrs XLINK_HREF

mutual
/-- ids in document (pre-)order -/
def Xml.ids : Xml → List (String × Xml)
  | .node tag attrs text kids =>
    (match Dict.get attrs "id" with
     | some i => [(i, Xml.node tag attrs text kids)]
     | none => []) ++ Xml.idsList kids
def Xml.idsList : List Xml → List (String × Xml)
  | [] => []
  | k :: ks => k.ids ++ Xml.idsList ks
end

/-- `event_defs`: a later element with the same id replaces the earlier one -/
def idTable (roots : List Xml) : List (String × Xml) := (Xml.idsList roots).reverse

def lookupId (defs : List (String × Xml)) (i : String) : Option Xml :=
  match defs with
  | [] => none
  | (k, x) :: r => if k = i then some x else lookupId r i

/-- the element a `use` refers to, when the reference is followed: `href` present, its id
    (`url[1:]`) not already being expanded, and defined -/
def useTarget (defs : List (String × Xml)) (active : List String) (tag : String)
    (attrs : List (String × String)) : Option (String × Xml) :=
  if tag = "use" then
    match hrefOf attrs with
    | some url =>
      let i := String.ofList (url.toList.drop 1)
      if active.contains i then none
      else (lookupId defs i).map (fun t => (i, t))
    | none => none
  else none

mutual
/-- `semiparse`. `fuel` bounds the depth of nested `use` expansion; `fuel = number of ids + 1`
    is never exhausted (theorem `C10_use_terminates`). -/
def semi (defs : List (String × Xml)) (fuel : Nat) (active : List String) : Xml → List Ev
  | .node tag attrs text kids =>
    Ev.start tag attrs :: (semiList defs fuel active kids ++
      (match useTarget defs active tag attrs with
       | some (i, target) =>
         (match fuel with
          | 0 => [Ev.overflow]
          | f + 1 => semi defs f (active ++ [i]) target)
       | none => []) ++ [Ev.stop tag text])
termination_by x => (fuel, sizeOf x)
def semiList (defs : List (String × Xml)) (fuel : Nat) (active : List String) : List Xml → List Ev
  | [] => []
  | k :: ks => semi defs fuel active k ++ semiList defs fuel active ks
termination_by l => (fuel, sizeOf l)
end

/-- the event stream of a document -/
def events (roots : List Xml) : List Ev :=
  let defs := idTable roots
  semiList defs (defs.length + 1) [] roots

/-! ## style sheets -/

/-- remove `/* … */` (non-greedy) and `// … end of line` — `re.sub(REGEX_CSS_COMMENT, "", text)` -/
def stripComments (fuel : Nat) (s : List Char) : List Char :=
  match fuel with
  | 0 => s
  | fuel + 1 =>
    match s with
    | [] => []
    | '/' :: '*' :: r =>
      -- find the first "*/" ; when there is none the pattern does not match here
      let rec close : List Char → Option (List Char)
        | '*' :: '/' :: t => some t
        | _ :: t => close t
        | [] => none
      (match close r with
       | some t => stripComments fuel t
       | none => '/' :: stripComments fuel ('*' :: r))
    | '/' :: '/' :: r =>
      -- `.*$` with MULTILINE: up to (not including) the next newline
      stripComments fuel (r.dropWhile (· ≠ '\n'))
    | c :: r => c :: stripComments fuel r

/-- one match of `([^{]+)\s*\{\s*([^}]+)\s*\}` anchored at the head of `s`:
    `(selector text, declaration text, rest)` -/
def matchRule (s : List Char) : Option (List Char × List Char × List Char) :=
  let key := s.takeWhile (· ≠ '{')
  let r := s.dropWhile (· ≠ '{')
  match key, r with
  | [], _ => none
  | _, [] => none
  | _, _ :: afterBrace =>            -- the `{`
    let ws := afterBrace.takeWhile isPySpace
    let r2 := afterBrace.dropWhile isPySpace
    let body := r2.takeWhile (· ≠ '}')
    let r3 := r2.dropWhile (· ≠ '}')
    match r3 with
    | [] => none                      -- no closing brace
    | _ :: rest =>
      if body.isEmpty then
        -- `\s*` gives back its last character to `[^}]+`
        match ws.reverse with
        | [] => none
        | w :: _ => some (key, [w], rest)
      else some (key, body, rest)

/-- `re.findall(REGEX_CSS_STYLE, text)` -/
def findRules (fuel : Nat) (s : List Char) : List (List Char × List Char) :=
  match fuel with
  | 0 => []
  | fuel + 1 =>
    match s with
    | [] => []
    | c :: cs =>
      match matchRule (c :: cs) with
      | some (k, v, rest) => (k, v) :: findRules fuel rest
      | none => findRules fuel cs

/-- the `style` element's end event: accumulate every selector of every rule -/
def addRule (styles : Dict) (key value : List Char) : Dict :=
  let value := String.ofList (pyStrip value)
  (splitOn ',' (pyStrip key)).foldl (fun st sel =>
    let sel := String.ofList (pyStrip sel)
    match Dict.get st sel with
    | none => Dict.set st sel value
    | some old =>
      let old := if old.toList.getLast? = some ';' then old else old ++ ";"
      Dict.set st sel (old ++ value)) styles

def styleSheet (styles : Dict) (text : String) : Dict :=
  let t := pyStrip (stripComments (text.length + 1) text.toList)
  (findRules (t.length + 1) t).foldl (fun st kv => addRule st kv.1 kv.2) styles

/-- `style += extra`, with a `;` in between when `style` is not empty -/
def joinStyle (style : String) (extra : String) : String :=
  if style = "" then extra else style ++ ";" ++ extra

/-- `if sel in styles: style += styles[sel]` (with the `;` in between) -/
def addSel (styles : Dict) (st sel : String) : String :=
  match Dict.get styles sel with
  | some v => joinStyle st v
  | none => st

/-- the style text of an element: `*`, type, then per class `.class` and `type.class`, then `#id`,
    then the inline style (svgelements.py:9157-9189) -/
def styleText (styles : Dict) (tag : String) (attrs : Dict) : String :=
  let s1 := addSel styles (addSel styles "" "*") tag
  let s2 := match Dict.get attrs "class" with
    | none => s1
    | some cls =>
      (splitOn ' ' cls.toList).foldl (fun st c =>
        addSel styles (addSel styles st ("." ++ String.ofList c)) (tag ++ "." ++ String.ofList c)) s1
  let s3 := match Dict.get attrs "id" with
    | none => s2
    | some i => addSel styles s2 ("#" ++ i)
  match Dict.get attrs "style" with
  | some v => joinStyle s3 v
  | none => s3

/-- one `;`-separated item: a declaration when it splits into exactly two fields at `:` -/
def declOf (item : List Char) : Option (String × String) :=
  match splitOn ':' item with
  | [k, v] => some (String.ofList (pyStrip k), String.ofList (pyStrip v))
  | _ => none

/-- "process style tag left to right": `key:value` items separated by `;`, anything that does not
    split into exactly two fields at `:` is ignored -/
def applyStyle (attrs : Dict) (style : String) : Dict :=
  (splitOn ';' style.toList).foldl (fun a item =>
    match declOf item with
    | some kv => Dict.set a kv.1 kv.2
    | none => a) attrs

/-- `currentColor` for one paint key -/
def currentColor (attrs : Dict) (inherited : Dict) (key : String) : Dict :=
  if Dict.get attrs key = some "currentColor" then
    match Dict.get attrs "color" with
    | some c => Dict.set attrs key c
    | none =>
      match Dict.get inherited "color" with
      | some c => Dict.set attrs key c
      | none => attrs          -- KeyError in Python; `color` is always seeded by `parse`
  else attrs

/-! ## the event loop -/

section
variable {K : Type} [Add K] [Sub K] [Mul K] [Div K] [Neg K] [Zero K] [One K] [BEq K]
  [LT K] [DecidableLT K] [LE K] [DecidableLE K] [NatCast K]

/-- one piece of the accumulated `transform` string -/
inductive TfPiece (K : Type) where
  | text (s : String)       -- attribute text as written
  | mat (m : Mat K)         -- a generated `translate(..) scale(..)` / `translate(x, y)` string
deriving Repr

/-- the inherited `values` dictionary; `tf`/`vt` are `values["transform"]` and
    `values["viewport_transform"]` (absent = `none`) -/
structure Vals (K : Type) where
  d : Dict
  tf : Option (List (TfPiece K))
  vt : Option (List (TfPiece K))

/-- the `width`/`height` variables of `parse`: `None`, a number, a `Length`, or caller text -/
abbrev Dim (K : Type) := Option (RelLen K)

/-- the context object, reduced to whether it is reachable from the document root -/
inductive Ctx where
  | none
  | obj (attached : Bool)
deriving Repr, BEq, DecidableEq

structure Frame (K : Type) where
  ctx : Ctx
  vals : Vals K
  w : Dim K
  h : Dim K

/-- an emitted shape: tag, its compiled values, and the viewport size it is rendered against -/
structure Rec (K : Type) where
  tag : String
  vals : Vals K
  w : Dim K
  h : Dim K
  attached : Bool

inductive Status where
  | running
  | returned            -- `return s` on a zero-sized svg: the parse ends with an empty document
  | raised (e : PyErr)
deriving Repr, BEq, DecidableEq

structure St (K : Type) where
  stack : List (Frame K)
  cur : Frame K
  styles : Dict
  out : List (Rec K)
  status : Status

structure Cfg (K : Type) where
  ppi : K
  num : NumLit → K
  /-- the exception `Matrix(text)` raises on the accumulated transform, if any (stage B's parser;
      the container constructors `SVG/Group/Use(values)` run it outside any `try`) -/
  tfErr : List (TfPiece K) → Option PyErr := fun _ => none

def displayNone (d : Dict) : Bool :=
  match Dict.get d "display" with
  | some v => lower v == "none"
  | none => false

def nonPropagating : List String := ["preserveAspectRatio", "viewBox", "id", "class", "clip-path"]

/-- copy of the inherited dictionary without the non-propagating keys -/
def inheritDict (d : Dict) : Dict := nonPropagating.foldl Dict.erase d

/-- the element's own attribute dictionary after tag, style rules, inline style, currentColor -/
def compileAttrs (styles : Dict) (inherited : Dict) (tag : String) (attrs : List (String × String)) : Dict :=
  let a0 : Dict := Dict.set (Dict.update [] attrs) "tag" tag
  let a1 := applyStyle a0 (styleText styles tag a0)
  let a2 := currentColor a1 inherited "fill"
  currentColor a2 inherited "stroke"

def shapeTags : List String := ["path", "circle", "ellipse", "line", "polyline", "polygon", "rect", "image"]
def textTags : List String := ["style", "text", "desc", "title", "tspan"]

def toDim : LenVal K → Dim K
  | .num x => some (.num x)
  | .sym l => some (.lenObj l)

/-- `Length(values.get(key, default)).value(ppi=, relative_length=, viewbox=)` -/
def lenOf (cfg : Cfg K) (d : Dict) (key : String) (dflt : Len K) (rel : Dim K) (vb : Option (K × K)) : LenVal K :=
  let l := match Dict.get d key with
    | some s => Len.ofText cfg.num s.toList
    | none => dflt
  Len.value l { ppi := some cfg.ppi, rel := rel, viewbox := vb }

/-- `REGEX_FLOAT.findall(text)` -/
def findFloats (fuel : Nat) (s : List Char) : List NumLit :=
  match fuel with
  | 0 => []
  | fuel + 1 =>
    match s with
    | [] => []
    | c :: cs =>
      match scanFloat (c :: cs) with
      | some (n, rest) => n :: findFloats fuel (if rest.length < (c :: cs).length then rest else cs)
      | none => findFloats fuel cs

/-- `Viewbox.set_viewbox`: the first four numbers, as far as they exist -/
structure VBox (K : Type) where
  x : Option K
  y : Option K
  w : Option K
  h : Option K

def parseViewbox (cfg : Cfg K) (s : String) : VBox K :=
  let fs := (findFloats (s.length + 1) s.toList).map cfg.num
  ⟨fs[0]?, fs[1]?, fs[2]?, fs[3]?⟩

inductive SvgOutcome (K : Type) where
  | ok (vals : Vals K) (w h : Dim K)
  | returned
  | raised (e : PyErr)

def dimIsZero : LenVal K → Bool
  | .num x => x == 0
  | .sym l => l.amount == 0      -- `Length.__eq__(0)`

/-- the `svg` branch (svgelements.py:9236-9281) -/
def svgEnter (cfg : Cfg K) (nested : Bool) (vals : Vals K) (w h : Dim K) : SvgOutcome K :=
  -- a viewBox without its four numbers is ignored (`SVG.property_by_values`)
  let vbox : Option (VBox K) :=
    match (Dict.get vals.d "viewBox").map (parseViewbox cfg) with
    | some vb => if vb.x.isSome && vb.y.isSome && vb.w.isSome && vb.h.isSome then some vb else none
    | none => none
  -- `if width is None: width = s.viewbox.width if s.viewbox is not None else 1000`
  let w : Dim K := match w with
    | some r => some r
    | none => match vbox with
      | some vb => vb.w.map RelLen.num
      | none => some (.num ((1000 : Nat) : K))
  let h : Dim K := match h with
    | some r => some r
    | none => match vbox with
      | some vb => vb.h.map RelLen.num
      | none => some (.num ((1000 : Nat) : K))
  let vbwh : Option (K × K) := match vbox with
    | some vb => (match vb.w, vb.h with | some a, some b => some (a, b) | _, _ => none)
    | none => none
  let pct100 : Len K := ⟨((100 : Nat) : K), .pct⟩
  let sw := lenOf cfg vals.d "width" pct100 w vbwh
  let sh := lenOf cfg vals.d "height" pct100 h vbwh
  let sx := lenOf cfg vals.d "x" ⟨0, .none_⟩ w vbwh
  let sy := lenOf cfg vals.d "y" ⟨0, .none_⟩ h vbwh
  let strip (v : Vals K) : Vals K :=
    { v with d := ["x", "y", "width", "height"].foldl Dict.erase v.d }
  match vbox with
  | none =>
    -- no viewBox: a nested svg (`context is not None`) still places its viewport at x, y
    if nested && !(dimIsZero sx && dimIsZero sy) then
      match sx, sy with
      | .num ex, .num ey =>
        .ok (strip { vals with tf := some ((vals.tf.getD []) ++ [TfPiece.mat (Mat.translate ex ey)]) }) (toDim sw) (toDim sh)
      | _, _ => .raised .deferred
    else .ok (strip vals) (toDim sw) (toDim sh)
  | some vb =>
    if dimIsZero sh || dimIsZero sw then .returned
    else
      match vb.x, vb.y, vb.w, vb.h with
      | some vx, some vy, some vw, some vh =>
        (match sx, sy, sw, sh with
         | .num ex, .num ey, .num ew, .num eh =>
           if vw == 0 || vh == 0 then .returned       -- ZeroDivisionError caught
           else
             let par := (Dict.get vals.d "preserveAspectRatio").map String.toList
             let m := viewboxMatrix ⟨ex, ey, ew, eh⟩ ⟨vx, vy, vw, vh⟩ (Aspect.ofAttr par)
             let tf := (vals.tf.getD []) ++ [TfPiece.mat m]
             .ok (strip { vals with tf := some tf, vt := some tf }) (some (.num vw)) (some (.num vh))
         | _, _, _, _ => .raised .deferred)             -- an unresolved Length enters the arithmetic
      | _, _, _, _ =>
        -- incomplete viewBox: `viewbox_transform` returns ""
        let tf := (vals.tf.getD []) ++ [TfPiece.mat Mat.identity]
        .ok (strip { vals with tf := some tf, vt := some tf }) (vb.w.map RelLen.num) (vb.h.map RelLen.num)

/-- the `use` branch: x/y appended as a translate, then x/y/width/height removed -/
def useEnter (cfg : Cfg K) (vals : Vals K) : Except PyErr (Vals K) :=
  let l0 : Len K := ⟨0, .none_⟩
  let x := Len.value (match Dict.get vals.d "x" with | some s => Len.ofText cfg.num s.toList | none => l0) {}
  let y := Len.value (match Dict.get vals.d "y" with | some s => Len.ofText cfg.num s.toList | none => l0) {}
  let strip (v : Vals K) : Vals K :=
    { v with d := ["x", "y", "width", "height"].foldl Dict.erase v.d }
  match x, y with
  | .num a, .num b =>
    if a == 0 && b == 0 then .ok (strip vals)
    else .ok (strip { vals with tf := some ((vals.tf.getD []) ++ [TfPiece.mat (Mat.translate a b)]) })
  | _, _ => .error .deferred      -- a unit-bearing x/y is printed back into the string: not modelled

def childCtx (c : Ctx) : Ctx :=
  match c with
  | .none => .obj true
  | .obj a => .obj a

/-- a transform that `Matrix(text)` rejects is deleted from the element's attributes
    (svgelements.py: the `try: Matrix(...) except (ValueError, TypeError)` guard) -/
def rejects (cfg : Cfg K) (t : String) : Bool :=
  match cfg.tfErr [TfPiece.text t] with
  | none => false
  | some .deferred => false       -- a length kept symbolic is not an exception
  | some _ => true

def validAttrs (cfg : Cfg K) (a : Dict) : Dict :=
  match Dict.get a "transform" with
  | some t => if rejects cfg t then Dict.erase a "transform" else a
  | none => a

/-- the inherited transform with the element's own appended -/
def ownTf (inherited : Option (List (TfPiece K))) (a : Dict) : Option (List (TfPiece K)) :=
  match Dict.get a "transform" with
  | some t => some ((inherited.getD []) ++ [TfPiece.text t])
  | none => inherited

/-- the element's compiled `values`: the inherited dictionary without the non-propagating keys,
    updated with the element's own compiled attributes; its transform text appended to the
    inherited transform (svgelements.py:9138-9229) -/
def compileVals (cfg : Cfg K) (styles : Dict) (f : Frame K) (tag : String) (attrs : List (String × String)) : Vals K :=
  let a := validAttrs cfg (compileAttrs styles f.vals.d tag attrs)
  { d := Dict.update (inheritDict f.vals.d) a.reverse, tf := ownTf f.vals.tf a, vt := f.vals.vt }

/-- the per-tag branches (svgelements.py:9230-9406) -/
def dispatch (cfg : Cfg K) (f : Frame K) (vals : Vals K) (tag : String) : Frame K × List (Rec K) × Status :=
  if displayNone vals.d then ({ f with vals := vals }, [], .running)
  else if (tag = "svg" ∨ tag = "g" ∨ tag = "defs" ∨ tag = "use") ∧ (cfg.tfErr (vals.tf.getD [])).isSome then
    ({ f with vals := vals }, [], .raised ((cfg.tfErr (vals.tf.getD [])).getD .valueError))
  else if tag = "svg" then
    match svgEnter cfg (f.ctx != .none) vals f.w f.h with
    | .ok v w h => ({ ctx := childCtx f.ctx, vals := v, w := w, h := h }, [], .running)
    | .returned =>
      -- zero size: the outermost svg ends the parse with an empty document; a nested one is
      -- marked `display:none`, so only its own content is skipped
      if f.ctx == .none then ({ f with vals := vals }, [], .returned)
      else ({ f with vals := { vals with d := Dict.set vals.d "display" "none" } }, [], .running)
    | .raised e => ({ f with vals := vals }, [], .raised e)
  else if tag = "g" then ({ f with ctx := childCtx f.ctx, vals := vals }, [], .running)
  else if tag = "defs" ∨ tag = "clipPath" ∨ tag = "pattern" then
    ({ f with ctx := .obj false, vals := vals }, [], .running)
  else if tag = "use" then
    match useEnter cfg vals with
    | .ok v => ({ f with ctx := childCtx f.ctx, vals := v }, [], .running)
    | .error e => ({ f with vals := vals }, [], .raised e)
  else if shapeTags.contains tag then
    ({ f with vals := vals },
     [{ tag := tag, vals := vals, w := f.w, h := f.h, attached := f.ctx == .obj true }], .running)
  else ({ f with vals := vals }, [], .running)      -- text-like and unknown elements

/-- the start event (svgelements.py:9130-9406) on the current frame, the stack push excluded:
    under an inherited `display:none` nothing happens at all -/
def enter (cfg : Cfg K) (styles : Dict) (f : Frame K) (tag : String) (attrs : List (String × String)) :
    Frame K × List (Rec K) × Status :=
  if displayNone f.vals.d then (f, [], .running)
  else dispatch cfg f (compileVals cfg styles f tag attrs) tag

/-- the end event: the `style` element's text joins the rule table; everything else only pops -/
def leaveStyles (styles : Dict) (cur : Frame K) (tag : String) (text : String) : Dict :=
  if displayNone cur.vals.d then styles
  else if tag = "style" then styleSheet styles text
  else styles

def step (cfg : Cfg K) (s : St K) (e : Ev) : St K :=
  match s.status with
  | .running =>
    (match e with
     | .start tag attrs =>
       let (f, outs, status) := enter cfg s.styles s.cur tag attrs
       { s with stack := s.cur :: s.stack, cur := f, out := s.out ++ outs, status := status }
     | .stop tag text =>
       let styles := leaveStyles s.styles s.cur tag text
       (match s.stack with
        | top :: rest => { s with stack := rest, cur := top, styles := styles }
        | [] => { s with status := .raised .indexError })      -- pop from an empty list
     | .overflow => { s with status := .raised .recursion })
  | _ => s

def run (cfg : Cfg K) (s : St K) (evs : List Ev) : St K := evs.foldl (step cfg) s

/-- `values` as seeded by `parse(color=, transform=)` and the caller's `width`/`height` -/
def initFrame (color : String) (transform : Option String) (w h : Dim K) : Frame K :=
  { ctx := .none
    vals := { d := [("stroke", "none"), ("fill", "black"), ("color", color)]
              tf := transform.map (fun t => [TfPiece.text t]), vt := none }
    w := w, h := h }

def initSt (f : Frame K) : St K :=
  { stack := [], cur := f, styles := [], out := [], status := .running }

/-- what `SVG.parse(...)` renders: the records of the shapes reachable from the returned root -/
def parseDoc (cfg : Cfg K) (f : Frame K) (roots : List Xml) : Except PyErr (List (Rec K)) :=
  let s := run cfg (initSt f) (events roots)
  match s.status with
  | .running => .ok (s.out.filter (·.attached))
  | .returned => .ok []
  | .raised e => .error e

end
end Svg.Doc
