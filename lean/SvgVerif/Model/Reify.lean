/-
  Model/Reify.lean — `reify()` of the basic shapes (svgelements.py: Rect.reify 6890, _RoundShape.reify
  7112, SimpleLine.reify 7462, _Polyshape.reify 7604) and the stroke width it leaves
  (GraphicObject.reify / implicit_stroke_width 3640-3669): the transform is folded into the
  shape's own numbers where the shape kind can express the result, and what cannot be folded
  stays in the residual matrix.
-/
import SvgVerif.Model.Geom
import SvgVerif.Model.Py
namespace Svg.Reify

section
variable {K : Type} [Add K] [Sub K] [Mul K] [Div K] [Neg K] [Zero K] [One K] [BEq K]
  [LT K] [DecidableLT K]

/-- `Rect.reify` / `_RoundShape.reify` fold the matrix in only when it is an axis-aligned scale
    with positive factors plus a translation: no negative scale on either axis, no skew terms,
    no zero scale -/
def foldable (m : Mat K) : Bool :=
  !(m.a < 0 || m.d < 0) && m.b == 0 && m.c == 0 && !(m.a == 0) && !(m.d == 0)

/-- `transform *= translate(-e, -f); transform *= scale(1/a, 1/d)` -/
def residual (m : Mat K) : Mat K :=
  Mat.mul (Mat.mul m (Mat.translate (-m.e) (-m.f))) (Mat.scale (1 / m.a) (1 / m.d))

/-- Rect: `[x, y, width, height, rx, ry]` (radii as validated) and the residual matrix -/
def rect (x y w h rx ry : K) (m : Mat K) : List K × Mat K :=
  if foldable m then
    ([x * m.a + m.e, y * m.d + m.f, m.a * w, m.d * h, m.a * rx, m.d * ry], residual m)
  else ([x, y, w, h, rx, ry], m)

/-- Circle/Ellipse: `[cx, cy, rx, ry]` -/
def round (cx cy rx ry : K) (m : Mat K) : List K × Mat K :=
  if foldable m then ([cx * m.a + m.e, cy * m.d + m.f, m.a * rx, m.d * ry], residual m)
  else ([cx, cy, rx, ry], m)

/-- SimpleLine and the poly shapes: every point is mapped, the matrix is reset -/
def points (ps : List (Pt K)) (m : Mat K) : List (Pt K) × Mat K := (ps.map (Mat.apply m), Mat.identity)

/-- did the shape's `reify` reach `GraphicObject.reify` (which rescales the stroke width)? -/
def strokeRescaled (kind : String) (m : Mat K) : Bool :=
  if kind = "rect" ∨ kind = "circle" ∨ kind = "ellipse" then foldable m else true

end

section
variable {K : Type} [Add K] [Sub K] [Mul K] [Div K] [Neg K] [Zero K] [One K] [BEq K]
  [LT K] [DecidableLT K] [Trig K]

def kabs (x : K) : K := if x < 0 then -x else x

/-- `implicit_stroke_width`: `width * sqrt(abs(det))` of the shape's matrix, or of the viewport
    matrix alone for a non-scaling stroke -/
def strokeWidth (sw : K) (m vt : Mat K) (nonScaling : Bool) : K :=
  sw * Trig.sqrt (kabs (Mat.det (if nonScaling then vt else m)))

end
end Svg.Reify
