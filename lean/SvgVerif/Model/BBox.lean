/-
  Model/BBox.lean — bounding boxes: `PathSegment.bbox`, `QuadraticBezier.bbox`,
  `CubicBezier._real_minmax`, `Arc.bbox`, unions and the stroke growth of `Shape.bbox`.
-/
import SvgVerif.Model.Seg
namespace Svg

structure BB (K : Type) where
  xmin : K
  ymin : K
  xmax : K
  ymax : K
deriving Repr

section
variable {K : Type} [Add K] [Sub K] [Mul K] [Div K] [Neg K] [Zero K] [One K] [BEq K]
  [LT K] [DecidableLT K] [LE K] [DecidableLE K]

def pmin (a b : K) : K := if b < a then b else a
def pmax (a b : K) : K := if a < b then b else a
def listMin (d : K) : List K → K
  | [] => d
  | x :: xs => xs.foldl pmin x
def listMax (d : K) : List K → K
  | [] => d
  | x :: xs => xs.foldl pmax x

/-- one coordinate of `QuadraticBezier.bbox` (svgelements.py:4621): the candidate values -/
def quadCandidates (a b c : K) : List K :=
  let n := a - b
  let d := a - two * b + c
  let t := if d != 0 then n / d else 1 / two
  if 0 < t ∧ t < 1 then
    let m := 1 - t
    [a, c, m * m * a + two * (m * t) * b + t * t * c]
  else [a, c]

def quadBBox (p0 p1 p2 : Pt K) : BB K :=
  let xs := quadCandidates p0.x p1.x p2.x
  let ys := quadCandidates p0.y p1.y p2.y
  ⟨listMin p0.x xs, listMin p0.y ys, listMax p0.x xs, listMax p0.y ys⟩

def lineBBox (s e : Pt K) : BB K := ⟨pmin s.x e.x, pmin s.y e.y, pmax s.x e.x, pmax s.y e.y⟩

/-- union of boxes: componentwise min / max (Shape.bbox over the segments' boxes, Group/Use over
    children, Subpath over its window) -/
def BB.union (a b : BB K) : BB K := ⟨pmin a.xmin b.xmin, pmin a.ymin b.ymin, pmax a.xmax b.xmax, pmax a.ymax b.ymax⟩

def bbUnion : List (BB K) → Option (BB K)
  | [] => none
  | b :: bs => some (bs.foldl BB.union b)

/-- `with_stroke`: grown on every side by `delta = stroke_width/2` (scaled by √|det| when
    transformed), only when a stroke is painted -/
def BB.grow (b : BB K) (delta : K) : BB K := ⟨b.xmin - delta, b.ymin - delta, b.xmax + delta, b.ymax + delta⟩

end

section
variable {K : Type} [Add K] [Sub K] [Mul K] [Div K] [Neg K] [Zero K] [One K] [BEq K]
  [LT K] [DecidableLT K] [LE K] [DecidableLE K] [NatCast K] [Trig K] [FMod K]

/-- one coordinate of `CubicBezier._real_minmax` (svgelements.py:4828): the local extremizers -/
def cubicExtremizers (a0 a1 a2 a3 : K) : List K :=
  let denom := a0 - three * a1 + three * a2 - a3
  let thr : K := ((1 : Nat) : K) / ((100000000 : Nat) : K)      -- 1e-8
  if ¬ (fabs denom < thr) then
    let delta := a1 * a1 - (a0 + a1) * a2 + a2 * a2 + (a0 - a1) * a3
    if ¬ (delta < 0) then
      let sq := Trig.sqrt delta
      let tau' := a0 - two * a1 + a2
      let r1 := (tau' + sq) / denom
      let r2 := (tau' - sq) / denom
      [0, 1] ++ (if 0 < r1 ∧ r1 < 1 then [r1] else []) ++ (if 0 < r2 ∧ r2 < 1 then [r2] else [])
    else [0, 1]
  else
    let c := a1 - a0
    let b := two * (a0 - two * a1 + a2)
    if b != 0 then
      let r0 := -c / b
      if 0 < r0 ∧ r0 < 1 then [0, 1, r0] else [0, 1]
    else [0, 1]

def cubicBBox (p0 p1 p2 p3 : Pt K) : BB K :=
  let xs := (cubicExtremizers p0.x p1.x p2.x p3.x).map fun t => (Seg.cubicPoint p0 p1 p2 p3 t).x
  let ys := (cubicExtremizers p0.y p1.y p2.y p3.y).map fun t => (Seg.cubicPoint p0 p1 p2 p3 t).y
  ⟨listMin p0.x xs, listMin p0.y ys, listMax p0.x xs, listMax p0.y ys⟩

/-- `Arc.bbox` (svgelements.py:5713) -/
def arcBBox (a : ArcData K) (atan : K → K) : BB K :=
  if a.sweep == 0 then lineBBox a.start a.end_
  else
    let phi := a.rotation
    let q : K := Trig.tau / (two * two)
    let (atanX, atanY) : K × K :=
      if Trig.cos phi == 0 then (q, 0)
      else if Trig.sin phi == 0 then (0, q)
      else (atan (-(a.ry / a.rx) * Trig.tan phi), atan ((a.ry / a.rx) / Trig.tan phi))
    let k360 : K := ((360 : Nat) : K)
    -- theta: start_t in positive degrees; delta: sweep in degrees
    let thetaDeg0 := a.startT * k360 / Trig.tau
    let theta := if thetaDeg0 < 0 then thetaDeg0 + k360 else thetaDeg0
    let delta := a.sweep * k360 / Trig.tau
    let angleInv (ang : K) (k : Int) : K :=
      let kk : K := if k < 0 then -((k.natAbs : Nat) : K) else ((k.natAbs : Nat) : K)
      ((ang + (Trig.tau / two) * kk) * (k360 / Trig.tau) - theta) / delta
    let ks : List Int := [-4, -3, -2, -1, 0, 1, 2, 3, 4]
    let xs := [a.start.x, a.end_.x] ++ ks.filterMap fun k =>
      let t := angleInv atanX k
      if 0 ≤ t ∧ t ≤ 1 then some (a.point t).x else none
    let ys := [a.start.y, a.end_.y] ++ ks.filterMap fun k =>
      let t := angleInv atanY k
      if 0 ≤ t ∧ t ≤ 1 then some (a.point t).y else none
    ⟨listMin a.start.x xs, listMin a.start.y ys, listMax a.start.x xs, listMax a.start.y ys⟩

/-- `seg.bbox()` -/
def Seg.bbox (atan : K → K) : Seg K → Option (BB K)
  | .move _ e => some ⟨e.x, e.y, e.x, e.y⟩
  | .line (some s) e => some (lineBBox s e)
  | .close (some s) e => some (lineBBox s e)
  | .line none e => some ⟨e.x, e.y, e.x, e.y⟩
  | .close none e => some ⟨e.x, e.y, e.x, e.y⟩
  | .quad s c e => some (quadBBox s c e)
  | .cubic s c1 c2 e => some (cubicBBox s c1 c2 e)
  | .arc a => some (arcBBox a atan)

end
end Svg
