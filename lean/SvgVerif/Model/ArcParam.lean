/-
  Model/ArcParam.lean — `Arc._svg_parameterize` (svgelements.py:5408-5503): conversion from the
  SVG endpoint parameterisation (start, rx, ry, x-axis-rotation, large-arc, sweep, end) to the
  native centre form, SVG 1.1 implementation note F.6.5/F.6.6.
-/
import SvgVerif.Model.Seg
namespace Svg

section
variable {K : Type} [Add K] [Sub K] [Mul K] [Div K] [Neg K] [Zero K] [One K] [BEq K]
  [LT K] [DecidableLT K] [LE K] [DecidableLE K] [NatCast K] [Trig K] [FMod K]

/-- the intermediate quantities of F.6.5, exposed for the theorems -/
structure ArcCenter (K : Type) where
  rx : K            -- corrected radii
  ry : K
  cosr : K
  sinr : K
  x1p : K
  y1p : K
  cxp : K
  cyp : K
  center : Pt K
deriving Repr

/-- F.6.5 steps 1–3 with the radius correction F.6.6, given `cosr = cos φ`, `sinr = sin φ` and a
    square-root function (svgelements.py:5430-5462). `rx`, `ry` are already absolute values. -/
def arcCenter (sqrt : K → K) (start end_ : Pt K) (rx ry cosr sinr : K) (fa fs : Bool) : ArcCenter K :=
  let dx := (start.x - end_.x) / two
  let dy := (start.y - end_.y) / two
  let x1p := cosr * dx + sinr * dy
  let x1p2 := x1p * x1p
  let y1p := -sinr * dx + cosr * dy
  let y1p2 := y1p * y1p
  let rx2 := rx * rx
  let ry2 := ry * ry
  let check := (x1p2 / rx2) + (y1p2 / ry2)
  let (rx, ry, rx2, ry2) :=
    if 1 < check then
      let rx' := rx * sqrt check
      let ry' := ry * sqrt check
      (rx', ry', rx' * rx', ry' * ry')
    else (rx, ry, rx2, ry2)
  let t1 := rx2 * y1p2
  let t2 := ry2 * x1p2
  let c := sqrt (fabs ((rx2 * ry2 - t1 - t2) / (t1 + t2)))
  let c := if fa == fs then -c else c
  let cxp := c * rx * y1p / ry
  let cyp := -c * ry * x1p / rx
  { rx := rx, ry := ry, cosr := cosr, sinr := sinr, x1p := x1p, y1p := y1p, cxp := cxp, cyp := cyp
    center := ⟨(cosr * cxp - sinr * cyp) + ((start.x + end_.x) / two),
               (sinr * cxp + cosr * cyp) + ((start.y + end_.y) / two)⟩ }

/-- F.6.5 step 4: the extent in degrees (svgelements.py:5464-5489) -/
def arcDeltaDeg (g : ArcCenter K) (fs : Bool) : K :=
  let ux := (g.x1p - g.cxp) / g.rx
  let uy := (g.y1p - g.cyp) / g.ry
  let vx := (-g.x1p - g.cxp) / g.rx
  let vy := (-g.y1p - g.cyp) / g.ry
  let n := Trig.sqrt ((ux * ux + uy * uy) * (vx * vx + vy * vy))
  let p := ux * vx + uy * vy
  let d := p / n
  let d := if 1 < d then 1 else if d < -1 then -1 else d
  let delta := Trig.acos d * (((360 : Nat) : K) / Trig.tau)     -- degrees()
  let delta := if (ux * vy - uy * vx) < 0 then -delta else delta
  let delta := FMod.fmod delta ((360 : Nat) : K)
  if !fs then delta - ((360 : Nat) : K) else delta

/-- `Arc(start, rx, ry, rotation_degrees, large_arc, sweep, end)` -/
def arcOfEndpoint (start end_ : Pt K) (rx ry rotDeg : K) (fa fs : Bool) : ArcData K :=
  let rx := fabs rx
  let ry := fabs ry
  if ptEq start end_ || rx == 0 || ry == 0 then
    { start := start, end_ := end_, center := start, prx := start, pry := start, sweep := 0 }
  else
    let phi := rotDeg * (Trig.tau / ((360 : Nat) : K))           -- radians()
    let cosr := Trig.cos phi
    let sinr := Trig.sin phi
    let g := arcCenter Trig.sqrt start end_ rx ry cosr sinr fa fs
    let delta := arcDeltaDeg g fs
    -- rotate_matrix.post_rotate(Angle.degrees(rotation), cx, cy) applied to (cx+rx, cy), (cx, cy+ry)
    let ang := Trig.tau * rotDeg / ((360 : Nat) : K)
    let ct := Trig.cos ang
    let st := Trig.sin ang
    let rm : Mat K := Mat.postRotate Mat.identity ct st g.center.x g.center.y
    { start := start, end_ := end_, center := g.center
      prx := rm.apply ⟨g.center.x + g.rx, g.center.y⟩
      pry := rm.apply ⟨g.center.x, g.center.y + g.ry⟩
      sweep := Trig.tau * delta / ((360 : Nat) : K) }

end
end Svg
