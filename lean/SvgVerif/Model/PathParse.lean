/-
  Model/PathParse.lean — `SVGLexicalParser` (svgelements.py:260-572): the four scanners
  `_command/_more/_number/_flag`, `_coord/_rcoord`, and the command dispatch loop, driving the
  builder callbacks of Model/PathBuild.lean.

  The parser state is the remaining input (a suffix of the string, instead of `pos`) and
  `inline_close`. The result keeps the partially built path together with the exception, if any
  (Python mutates the path in place, so what was appended before a raise stays).

  Every loop is written with the guard `if h : rest'.length < rest.length` so that termination is
  structural evidence; `Props/C09.lean` proves the guard never fails (the `recursion` marker is
  unreachable), i.e. every `while` of the code consumes input on every iteration.
-/
import SvgVerif.Model.Lex
import SvgVerif.Model.PathBuild
namespace Svg

def isCommandChar (c : Char) : Bool :=
  c = 'M' ∨ c = 'm' ∨ c = 'Z' ∨ c = 'z' ∨ c = 'L' ∨ c = 'l' ∨ c = 'H' ∨ c = 'h' ∨ c = 'V' ∨ c = 'v' ∨
  c = 'C' ∨ c = 'c' ∨ c = 'S' ∨ c = 's' ∨ c = 'Q' ∨ c = 'q' ∨ c = 'T' ∨ c = 't' ∨ c = 'A' ∨ c = 'a'

def isCloseChar (c : Char) : Bool := c = 'Z' ∨ c = 'z'

/-- `_command()`: skip COMMAWSP runs; a command letter is consumed and returned; anything else
    (or the end of the input) gives `None`. -/
def scanCommand (s : List Char) : Option (Char × List Char) :=
  match skipCommaWsp s with
  | [] => none
  | c :: rest => if isCommandChar c then some (c, rest) else none

/-- the three outcomes of looking for a number at the current position -/
inductive NumLook
  | float (n : NumLit) (rest : List Char)   -- FLOAT matched (not yet consumed by `_more`)
  | close (c : Char)                         -- CLOSE matched: `inline_close := c`, position unchanged
  | nothing                                  -- no match, or end of input
deriving Repr

/-- common core of `_more()` and `_number()`: skip COMMAWSP, then FLOAT | CLOSE | no match.
    Returns the outcome and the position after the skipped separators. -/
def lookNumber (s : List Char) : NumLook × List Char :=
  let s' := skipCommaWsp s
  match scanFloat s' with
  | some (n, rest) => (.float n rest, s')
  | none =>
    match s' with
    | c :: _ => if isCloseChar c then (.close c, s') else (.nothing, s')
    | [] => (.nothing, s')

/-- lexer state: remaining input and `inline_close` -/
structure LexSt where
  rest : List Char
  ic : Option Char
deriving Repr

/-- `_more()`: true iff a number follows; records an inline close -/
def lexMore (st : LexSt) : Bool × LexSt :=
  match lookNumber st.rest with
  | (.float _ _, s') => (true, { st with rest := s' })
  | (.close c, s') => (false, { rest := s', ic := some c })
  | (.nothing, s') => (false, { st with rest := s' })

/-- `_number()`: the next number (consumed), or `None` (recording an inline close) -/
def lexNumber (st : LexSt) : Option NumLit × LexSt :=
  match lookNumber st.rest with
  | (.float n rest, _) => (some n, { st with rest := rest })
  | (.close c, s') => (none, { rest := s', ic := some c })
  | (.nothing, s') => (none, { st with rest := s' })

/-- `_flag()`: skip COMMAWSP; `0`/`1` is consumed and returned -/
def lexFlag (st : LexSt) : Option Bool × LexSt :=
  match skipCommaWsp st.rest with
  | c :: rest =>
    if c = '0' then (some false, { st with rest := rest })
    else if c = '1' then (some true, { st with rest := rest })
    else (none, { st with rest := c :: rest })
  | [] => (none, { st with rest := [] })

section
variable {K : Type} [Add K]

/-- `_number()` including the conversion `float(text)`: `num` returns `none` for a literal that
    overflows a double, which `_number()` reports as ValueError -/
def lexNum (num : NumLit → Option K) (st : LexSt) : Py (Option K) × LexSt :=
  match lexNumber st with
  | (none, st1) => (pure none, st1)
  | (some n, st1) =>
    match num n with
    | none => (throw .valueError, st1)
    | some v => (pure (some v), st1)

/-- `_coord()`: a pair of numbers; `None` if no number follows; ValueError on an odd count -/
def lexCoord (num : NumLit → Option K) (st : LexSt) : Py (Option (Pt K)) × LexSt :=
  match lexNum num st with
  | (.error e, st1) => (.error e, st1)
  | (.ok none, st1) => (pure none, st1)
  | (.ok (some x), st1) =>
    match lexNum num st1 with
    | (.error e, st2) => (.error e, st2)
    | (.ok none, st2) => (throw .valueError, st2)
    | (.ok (some y), st2) => (pure (some ⟨x, y⟩), st2)

/-- `_rcoord()`: `_coord()` offset by the builder's current point (if there is one) -/
def lexRCoord (num : NumLit → Option K) (cur : Option (Pt K)) (st : LexSt) : Py (Option (Pt K)) × LexSt :=
  match lexCoord num st with
  | (.ok (some p), st1) =>
    (match cur with
     | none => (pure (some p), st1)
     | some c => (pure (some ⟨p.x + c.x, p.y + c.y⟩), st1))
  | r => r

/-- the result of (part of) a parse: the path built so far, the lexer state, and the exception -/
structure PR (K : Type) where
  segs : List (PSeg K)
  st : LexSt
  err : Option PyErr

/-- `coord = self.inline_close; if coord is None: raise ValueError` for a missing coordinate -/
def orInline (ic : Option Char) : Option (Pt K) → Py (Coord K)
  | some p => pure (.pt p)
  | none => match ic with
    | some _ => pure .z
    | none => throw .valueError

/-- read `n` coordinate pairs (all with the same current point), left to right, without checking -/
def readCoords (num : NumLit → Option K) (rel : Bool) (cur : Option (Pt K)) :
    Nat → LexSt → Py (List (Option (Pt K))) × LexSt
  | 0, st => (pure [], st)
  | n + 1, st =>
    match (if rel then lexRCoord num cur st else lexCoord num st) with
    | (.error e, st1) => (.error e, st1)
    | (.ok c, st1) =>
      match readCoords num rel cur n st1 with
      | (.error e, st2) => (.error e, st2)
      | (.ok cs, st2) => (.ok (c :: cs), st2)

/-- the missing-coordinate checks in order, after all reads -/
def fillCoords (ic : Option Char) : List (Option (Pt K)) → Py (List (Coord K))
  | [] => pure []
  | c :: cs => do
    let c' ← orInline ic c
    let cs' ← fillCoords ic cs
    pure (c' :: cs')

/-- The `while True: read n coords; check; callback; if not more: break` loop shared by
    l L t T q Q s S c C. -/
def coordLoop (num : NumLit → Option K) (n : Nat) (rel : Bool)
    (cb : List (PSeg K) → List (Coord K) → Py (List (PSeg K)))
    (segs : List (PSeg K)) (st : LexSt) : PR K :=
  match readCoords num rel (currentPoint segs) n st with
  | (.error e, st1) => ⟨segs, st1, some e⟩
  | (.ok cs, st1) =>
    match fillCoords st1.ic cs with
    | .error e => ⟨segs, st1, some e⟩
    | .ok args =>
      match cb segs args with
      | .error e => ⟨segs, st1, some e⟩
      | .ok segs' =>
        match lexMore st1 with
        | (false, st2) => ⟨segs', st2, none⟩
        | (true, st2) =>
          if _h : st2.rest.length < st.rest.length then coordLoop num n rel cb segs' st2
          else ⟨segs', st2, some .recursion⟩
termination_by st.rest.length

/-- `h H v`: `while True: value = number(); if None: raise ValueError; callback; if not more: break` -/
def numberLoop (num : NumLit → Option K) (cb : List (PSeg K) → K → Py (List (PSeg K)))
    (segs : List (PSeg K)) (st : LexSt) : PR K :=
  match lexNum num st with
  | (.error e, st1) => ⟨segs, st1, some e⟩
  | (.ok none, st1) => ⟨segs, st1, some .valueError⟩
  | (.ok (some v), st1) =>
    match cb segs v with
    | .error e => ⟨segs, st1, some e⟩
    | .ok segs' =>
      match lexMore st1 with
      | (false, st2) => ⟨segs', st2, none⟩
      | (true, st2) =>
        if _h : st2.rest.length < st.rest.length then numberLoop num cb segs' st2
        else ⟨segs', st2, some .recursion⟩
termination_by st.rest.length

/-- `V`: `while more(): value = number(); vertical(value)`; `number()` may return `None`, which
    the callback would add to a float (TypeError). -/
def vLoop (num : NumLit → Option K) (cb : List (PSeg K) → K → Py (List (PSeg K)))
    (segs : List (PSeg K)) (st : LexSt) : PR K :=
  match lexMore st with
  | (false, st1) => ⟨segs, st1, none⟩
  | (true, st1) =>
    match lexNum num st1 with
    | (.error e, st2) => ⟨segs, st2, some e⟩
    | (.ok none, st2) => ⟨segs, st2, some .typeError⟩
    | (.ok (some v), st2) =>
      match cb segs v with
      | .error e => ⟨segs, st2, some e⟩
      | .ok segs' =>
        if _h : st2.rest.length < st.rest.length then vLoop num cb segs' st2
        else ⟨segs', st2, some .recursion⟩
termination_by st.rest.length

/-- `M m` tail: `while more(): coord = (r)coord(); line(coord)` -/
def moveTail (num : NumLit → Option K) (rel : Bool) (segs : List (PSeg K)) (st : LexSt) : PR K :=
  match lexMore st with
  | (false, st1) => ⟨segs, st1, none⟩
  | (true, st1) =>
    match (if rel then lexRCoord num (currentPoint segs) st1 else lexCoord num st1) with
    | (.error e, st2) => ⟨segs, st2, some e⟩
    | (.ok none, st2) => ⟨segs, st2, some .typeError⟩   -- `None in ("z","Z")` is fine; Point(None) … unreachable
    | (.ok (some p), st2) =>
      match cbLine rel segs (.pt p) with
      | .error e => ⟨segs, st2, some e⟩
      | .ok segs' =>
        if _h : st2.rest.length < st.rest.length then moveTail num rel segs' st2
        else ⟨segs', st2, some .recursion⟩
termination_by st.rest.length

variable [Sub K] [Neg K] [Zero K] [LT K] [DecidableLT K]

/-- `a A`: `while more(): rx, ry, rotation, arc, sweep, coord = …; checks; arc(…)`.
    `checkSweep` is the `if sweep is None: raise ValueError` test. -/
def arcLoop (num : NumLit → Option K) (rel : Bool) (checkSweep : Bool) (segs : List (PSeg K)) (st : LexSt) : PR K :=
  match lexMore st with
  | (false, st0) => ⟨segs, st0, none⟩
  | (true, st0) =>
    match lexNum num st0 with
    | (.error e, st1) => ⟨segs, st1, some e⟩
    | (.ok rx, st1) =>
    match lexNum num st1 with
    | (.error e, st2) => ⟨segs, st2, some e⟩
    | (.ok ry, st2) =>
    match lexNum num st2 with
    | (.error e, st3) => ⟨segs, st3, some e⟩
    | (.ok rot, st3) =>
    let (fa, st4) := lexFlag st3
    let (fs, st5) := lexFlag st4
    match (if rel then lexRCoord num (currentPoint segs) st5 else lexCoord num st5) with
    | (.error e, st6) => ⟨segs, st6, some e⟩
    | (.ok c, st6) =>
      if checkSweep && fs.isNone then ⟨segs, st6, some .valueError⟩
      else
        match orInline st6.ic c with
        | .error e => ⟨segs, st6, some e⟩
        | .ok e =>
          match cbArc rel segs rx ry rot fa fs e with
          | .error er => ⟨segs, st6, some er⟩
          | .ok segs' =>
            if _h : st6.rest.length < st.rest.length then arcLoop num rel checkSweep segs' st6
            else ⟨segs', st6, some .recursion⟩
termination_by st.rest.length

def cb1 (f : List (PSeg K) → Coord K → Py (List (PSeg K))) (segs : List (PSeg K)) :
    List (Coord K) → Py (List (PSeg K))
  | [a] => f segs a
  | _ => throw .indexError

def cb2 (f : List (PSeg K) → Coord K → Coord K → Py (List (PSeg K))) (segs : List (PSeg K)) :
    List (Coord K) → Py (List (PSeg K))
  | [a, b] => f segs a b
  | _ => throw .indexError

def cb3 (f : List (PSeg K) → Coord K → Coord K → Coord K → Py (List (PSeg K))) (segs : List (PSeg K)) :
    List (Coord K) → Py (List (PSeg K))
  | [a, b, c] => f segs a b c
  | _ => throw .indexError

/-- does this tree's `A` branch test `sweep is None`? (the `a` branch always does) -/
def absArcChecksSweep : Bool := true

/-- one iteration of the dispatch loop after `_command()` returned `cmd` -/
def dispatch (num : NumLit → Option K) (cmd : Char) (segs : List (PSeg K)) (st : LexSt) : PR K :=
  if cmd = 'z' ∨ cmd = 'Z' then
    match lexMore st with
    | (true, st1) => ⟨segs, st1, some .valueError⟩
    | (false, st1) =>
      match cbClosed (cmd = 'z') segs with
      | .error e => ⟨segs, st1, some e⟩
      | .ok segs' => ⟨segs', { st1 with ic := none }, none⟩
  else if cmd = 'm' ∨ cmd = 'M' then
    let rel := decide (cmd = 'm')
    match lexMore st with
    | (false, st1) => ⟨segs, st1, some .valueError⟩
    | (true, st1) =>
      match (if rel then lexRCoord num (currentPoint segs) st1 else lexCoord num st1) with
      | (.error e, st2) => ⟨segs, st2, some e⟩
      | (.ok none, st2) => ⟨segs, st2, some .typeError⟩
      | (.ok (some p), st2) =>
        match cbMove rel segs (.pt p) with
        | .error e => ⟨segs, st2, some e⟩
        | .ok segs' => moveTail num rel segs' st2
  else if cmd = 'l' ∨ cmd = 'L' then coordLoop num 1 (cmd = 'l') (cb1 (cbLine (cmd = 'l'))) segs st
  else if cmd = 't' ∨ cmd = 'T' then coordLoop num 1 (cmd = 't') (cb1 (cbSmoothQuad (cmd = 't'))) segs st
  else if cmd = 'h' ∨ cmd = 'H' then numberLoop num (cbHorizontal (cmd = 'h')) segs st
  else if cmd = 'v' then numberLoop num (cbVertical true) segs st
  else if cmd = 'V' then
    match lexMore st with
    | (false, st1) => ⟨segs, st1, some .valueError⟩
    | (true, _) => vLoop num (cbVertical false) segs st
  else if cmd = 'c' ∨ cmd = 'C' then coordLoop num 3 (cmd = 'c') (cb3 (cbCubic (cmd = 'c'))) segs st
  else if cmd = 'q' ∨ cmd = 'Q' then coordLoop num 2 (cmd = 'q') (cb2 (cbQuad (cmd = 'q'))) segs st
  else if cmd = 's' ∨ cmd = 'S' then coordLoop num 2 (cmd = 's') (cb2 (cbSmoothCubic (cmd = 's'))) segs st
  else if cmd = 'a' then arcLoop num true true segs st
  else if cmd = 'A' then arcLoop num false absArcChecksSweep segs st
  else ⟨segs, st, none⟩

/-- `SVGLexicalParser.parse`: the command loop -/
def parseLoop (num : NumLit → Option K) (segs : List (PSeg K)) (st : LexSt) : PR K :=
  match scanCommand st.rest with
  | none => ⟨segs, st, none⟩
  | some (cmd, rest) =>
    let r := dispatch num cmd segs { st with rest := rest }
    match r.err with
    | some e => ⟨r.segs, r.st, some e⟩
    | none =>
      if _h : r.st.rest.length < st.rest.length then parseLoop num r.segs r.st
      else ⟨r.segs, r.st, some .recursion⟩
termination_by st.rest.length

/-- `path.parse(pathdef)` on an existing path (a fresh `SVGLexicalParser` per call) -/
def parsePath (num : NumLit → Option K) (segs : List (PSeg K)) (s : List Char) : List (PSeg K) × Option PyErr :=
  let r := parseLoop num segs ⟨s, none⟩
  (r.segs, r.err)

end
end Svg
