/-
  Model/DocShape.lean — stage B of `SVG.parse`: what a shape constructor makes of the compiled
  `values` of its element (svgelements.py: `Shape/GraphicObject/Transformable.property_by_values`
  3508-3625, `Rect` 6658/6925/6947, `_RoundShape` 6971/7142/7160, `SimpleLine` 7375/7484,
  `_Polyshape._init_points` 7522), followed by `render(ppi=, width=, height=)`.

  Output: the numbers of the shape in its own user space, its matrix (the accumulated transform
  pieces parsed left to right), paint (fill, stroke with opacity folded into alpha, declared
  stroke width, the non-scaling-stroke flag with the viewport matrix) and id. A value the library
  would keep symbolic (an unresolved `Length`) is reported as `deferred` and not compared.
-/
import SvgVerif.Model.Doc
import SvgVerif.Model.Color
namespace Svg.Doc

section
variable {K : Type} [Add K] [Sub K] [Mul K] [Div K] [Neg K] [Zero K] [One K] [BEq K]
  [LT K] [DecidableLT K] [LE K] [DecidableLE K] [NatCast K] [Trig K] [Color.PyRound K]

/-- `Matrix(values.get("transform", ""))`: the pieces are parsed left to right onto one matrix -/
def tfMatrix (cfg : Cfg K) (ps : List (TfPiece K)) : Py (Mat K) :=
  ps.foldlM (fun m p =>
    match p with
    | .text s => parseTokens cfg.num m (lexTransform s.toList)
    | .mat q => pure (Mat.preCat m q)) Mat.identity

/-- PATTERN_COMMA `(?:\s*,\s*|\s+|(?=-))` followed by FLOAT, alternatives in order -/
def sepThenFloat (s : List Char) : Option (NumLit × List Char) :=
  let ws := skipPySpace s
  let alt1 : Option (NumLit × List Char) :=
    match ws with
    | ',' :: r => scanFloat (skipPySpace r)
    | _ => none
  match alt1 with
  | some r => some r
  | none =>
    let alt2 : Option (NumLit × List Char) :=
      if ws.length < s.length then scanFloat ws else none
    match alt2 with
    | some r => some r
    | none =>
      match s with
      | '-' :: _ => scanFloat s
      | _ => none

/-- `REGEX_COORD_PAIR.findall(points)` -/
def findPairs (fuel : Nat) (s : List Char) : List (NumLit × NumLit) :=
  match fuel with
  | 0 => []
  | fuel + 1 =>
    match s with
    | [] => []
    | c :: cs =>
      match scanFloat (c :: cs) with
      | some (a, rest) =>
        (match sepThenFloat rest with
         | some (b, rest') => (a, b) :: findPairs fuel (if rest'.length < (c :: cs).length then rest' else cs)
         | none => findPairs fuel cs)
      | none => findPairs fuel cs

/-- `float(text)` for the opacity attributes: the decimal spellings PATTERN_FLOAT covers,
    surrounded by optional white space; anything else is Python's ValueError (`none`) -/
def pyFloat? (cfg : Cfg K) (s : String) : Option K :=
  match scanFloat (pyStrip s.toList) with
  | some (n, []) => some (cfg.num n)
  | _ => none

/-- `Color(text)` then `color.opacity = float(op)` when both make sense -/
def paintOf (cfg : Cfg K) (tau : K) (d : Dict) (key opKey opKey2 : String) : Option (Option Nat) :=
  match Dict.get d key with
  | none => none
  | some txt =>
    let c := Color.parse cfg.num tau txt.toList
    let op := match Dict.get d opKey with | some o => some o | none => Dict.get d opKey2
    match c, op with
    | some v, some o =>
      (match pyFloat? cfg o with
       | some x => some (some (Color.setAlpha v (Color.PyRound.round (x * ((255 : Nat) : K)))))
       | none => some (some v))
    | _, _ => some c

/-- a resolved length or `deferred` -/
def numOf (cfg : Cfg K) (d : Dict) (key : String) (dflt : K) (rel : Dim K) : Py K :=
  match lenOf cfg d key ⟨dflt, .none_⟩ rel none with
  | .num x => .ok x
  | .sym _ => .error .deferred

def optNumOf (cfg : Cfg K) (d : Dict) (key : String) (rel : Dim K) : Py (Option K) :=
  match Dict.get d key with
  | none => .ok none
  | some _ => (numOf cfg d key 0 rel).map some

structure ShapeOut (K : Type) where
  tag : String
  id : Option String
  fill : Option (Option Nat)
  stroke : Option (Option Nat)
  sw : K
  nonScaling : Bool
  m : Mat K
  vt : Mat K
  nums : List K
  opts : List (Option K)
  d : String

def hasInfix (p s : String) : Bool := isInfix p.toList s.toList

/-- a shape from its record; `ok none`: the element yields no shape (degenerate, or not a Shape) -/
def shapeOf (cfg : Cfg K) (tau : K) (r : Rec K) : Py (Option (ShapeOut K)) := do
  let d := r.vals.d
  let m ← tfMatrix cfg (r.vals.tf.getD [])
  let vt ← tfMatrix cfg (r.vals.vt.getD [])
  -- stroke width: "stroke-width" else "stroke_width" else 1.0; a percentage needs the diagonal
  let swKey := if Dict.has d "stroke-width" then "stroke-width" else "stroke_width"
  let sw ← (match lenOf cfg d swKey ⟨1, .none_⟩ none none with
            | .num x => (.ok x : Py K)
            | .sym _ => .error .deferred)
  let base (nums : List K) (opts : List (Option K)) (dd : String) : ShapeOut K :=
    { tag := r.tag, id := Dict.get d "id"
      fill := paintOf cfg tau d "fill" "fill-opacity" "fill_opacity"
      stroke := paintOf cfg tau d "stroke" "stroke-opacity" "stroke_opacity"
      sw := sw
      nonScaling := (match Dict.get d "vector-effect" with
                     | some v => hasInfix "non-scaling-stroke" v | none => false)
      m := m, vt := vt, nums := nums, opts := opts, d := dd }
  if r.tag = "rect" then
    let x ← numOf cfg d "x" 0 r.w
    let y ← numOf cfg d "y" 0 r.h
    let w ← numOf cfg d "width" 1 r.w
    let h ← numOf cfg d "height" 1 r.h
    let rx ← optNumOf cfg d "rx" r.w
    let ry ← optNumOf cfg d "ry" r.h
    if w == 0 || h == 0 then pure none
    else pure (some (base [x, y, w, h] [rx, ry] ""))
  else if r.tag = "circle" ∨ r.tag = "ellipse" then
    let cx ← numOf cfg d "cx" 0 r.w
    let cy ← numOf cfg d "cy" 0 r.h
    let rr ← optNumOf cfg d "r" r.w
    let rx ← optNumOf cfg d "rx" r.w
    let ry ← optNumOf cfg d "ry" r.h
    let (rx, ry) : K × K := match rr with
      | some q => (q, q)
      | none => (rx.getD 1, ry.getD 1)
    if rx == 0 || ry == 0 then pure none
    else pure (some (base [cx, cy, rx, ry] [] ""))
  else if r.tag = "line" then
    let x1 ← numOf cfg d "x1" 0 r.w
    let y1 ← numOf cfg d "y1" 0 r.h
    let x2 ← numOf cfg d "x2" 0 r.w
    let y2 ← numOf cfg d "y2" 0 r.h
    pure (some (base [x1, y1, x2, y2] [] ""))
  else if r.tag = "polyline" ∨ r.tag = "polygon" then
    let txt := (Dict.get d "points").getD ""
    let ps := findPairs (txt.length + 1) txt.toList
    if ps.isEmpty then pure none
    else pure (some (base (ps.flatMap fun p => [cfg.num p.1, cfg.num p.2]) [] ""))
  else if r.tag = "path" then
    pure (some (base [] [] ((Dict.get d "d").getD "")))
  else pure none

/-- stage B over a whole document: a constructor's ValueError drops the element (the `except
    ValueError` of the shape branch), any other exception leaves `SVG.parse` -/
def shapesOf (cfg : Cfg K) (tau : K) : List (Rec K) → Py (List (ShapeOut K))
  | [] => .ok []
  | r :: rs =>
    match shapeOf cfg tau r with
    | .ok (some s) => (shapesOf cfg tau rs).map (s :: ·)
    | .ok none => shapesOf cfg tau rs
    | .error .valueError => shapesOf cfg tau rs
    | .error e => .error e

/-- the configuration whose `tfErr` is stage B's own transform parser -/
def mkCfg (ppi : K) (num : NumLit → K) : Cfg K :=
  let c0 : Cfg K := { ppi := ppi, num := num }
  { c0 with tfErr := fun ps => match tfMatrix c0 ps with | .ok _ => none | .error e => some e }

/-- `SVG.parse(doc, reify=False, ppi=, width=, height=, color=, transform=)` as the list of
    rendered shapes. Every element is constructed, rendered shapes or not, so stage B runs over
    all records (an exception in a `defs` shape still leaves the parse) and the attached ones
    are kept. -/
def renderDoc (cfg : Cfg K) (tau : K) (f : Frame K) (roots : List Xml) : Py (List (ShapeOut K)) :=
  let s := run cfg (initSt f) (events roots)
  match s.status with
  | .raised e => (match shapesOf cfg tau s.out with | .error e' => .error e' | .ok _ => .error e)
  | .returned => (shapesOf cfg tau s.out).map (fun _ => [])
  | .running => do
    let _ ← shapesOf cfg tau s.out
    shapesOf cfg tau (s.out.filter (·.attached))

end
end Svg.Doc
