/-
  Model/Transform.lean — `Matrix.parse(transform_str)` (svgelements.py:2648-2752),
  `REGEX_TRANSFORM_TEMPLATE`, `REGEX_TRANSFORM_PARAMETER`, `Angle.parse`, and the part of
  `Length(...).value()` that `Matrix.parse` relies on.
-/
import SvgVerif.Model.Geom
import SvgVerif.Model.Lex
import SvgVerif.Model.Py
namespace Svg

inductive TName
  | matrix | translate | translateX | translateY | scale | scaleX | scaleY
  | rotate | skew | skewX | skewY
deriving Repr, BEq, DecidableEq

/-- PATTERN_TRANSFORM alternation in source order; the regex engine tries them in this order and
    keeps the first one after which `[\s\t\n]*\(([^)]+)\)` also matches. -/
def TName.table : List (String × TName) :=
  [("matrix", .matrix), ("translate", .translate), ("translatex", .translateX),
   ("translatey", .translateY), ("scale", .scale), ("scalex", .scaleX), ("scaley", .scaleY),
   ("rotate", .rotate), ("skew", .skew), ("skewx", .skewX), ("skewy", .skewY)]

def stripPrefix? (p : List Char) (s : List Char) : Option (List Char) :=
  match p, s with
  | [], s => some s
  | _ :: _, [] => none
  | a :: p', b :: s' => if a = b then stripPrefix? p' s' else none

theorem stripPrefix?_length {p s r : List Char} (h : stripPrefix? p s = some r) :
    r.length + p.length = s.length := by
  induction p generalizing s with
  | nil => simp [stripPrefix?] at h; subst h; simp
  | cons a p ih =>
    cases s with
    | nil => simp [stripPrefix?] at h
    | cons b s =>
      simp only [stripPrefix?] at h
      split at h
      · have := ih h; simp only [List.length_cons]; omega
      · simp at h

/-- `\(([^)]+)\)` : an opening parenthesis, a non-empty run of non-`)` characters, a `)`. -/
def scanArgs (s : List Char) : Option (List Char × List Char) :=
  match s with
  | '(' :: r =>
    let body := r.takeWhile (· ≠ ')')
    let rest := r.dropWhile (· ≠ ')')
    match rest with
    | ')' :: rest' => if body.isEmpty then none else some (body, rest')
    | _ => none
  | _ => none

/-- one attempt of REGEX_TRANSFORM_TEMPLATE anchored at the head of `s` -/
def matchTemplateHere (s : List Char) : Option (TName × List Char × List Char) :=
  TName.table.findSome? fun (nm, t) =>
    match stripPrefix? nm.toList s with
    | none => none
    | some r =>
      match scanArgs (skipPySpace r) with
      | none => none
      | some (body, rest) => some (t, body, rest)

/-- `REGEX_TRANSFORM_TEMPLATE.findall(s)`: leftmost non-overlapping matches. Fuel = length. -/
def findTemplates (fuel : Nat) (s : List Char) : List (TName × List Char) :=
  match fuel with
  | 0 => []
  | fuel + 1 =>
    match s with
    | [] => []
    | c :: cs =>
      match matchTemplateHere (c :: cs) with
      | some (t, body, rest) => (t, body) :: findTemplates fuel rest
      | none => findTemplates fuel cs

/-- PATTERN_TRANSFORM_UNITS alternation in source order (input is already lower-cased,
    so `Q` can never match). -/
def unitTable : List String :=
  ["cm", "mm", "Q", "in", "pt", "pc", "px", "em", "cx", "ch", "rem", "vw", "vh", "vmin", "vmax",
   "deg", "grad", "rad", "turn", "%"]

def scanUnit (s : List Char) : String × List Char :=
  match unitTable.findSome? (fun u => (stripPrefix? u.toList s).map (fun r => (u, r))) with
  | some r => r
  | none => ("", s)

/-- a parameter `mag + units` as the code re-assembles it -/
structure TParam where
  num : NumLit
  units : String
deriving Repr, BEq, DecidableEq

/-- `REGEX_TRANSFORM_PARAMETER.findall(body)`:  `(FLOAT)[\s\t\n]*(units)?` -/
def findParams (fuel : Nat) (s : List Char) : List TParam :=
  match fuel with
  | 0 => []
  | fuel + 1 =>
    match s with
    | [] => []
    | c :: cs =>
      match scanFloat (c :: cs) with
      | some (n, rest) =>
        -- `[\s\t\n]*` then the optional unit; when no unit follows, the skipped blanks are still
        -- part of the match (harmless: the next search skips them anyway)
        let (u, rest') := scanUnit (skipPySpace rest)
        ⟨n, u⟩ :: findParams fuel rest'
      | none => findParams fuel cs

def asciiLower (c : Char) : Char :=
  if 'A' ≤ c ∧ c ≤ 'Z' then Char.ofNat (c.toNat + 32) else c

/-- the token view of a transform string: function names with their parameter lists -/
def lexTransform (s : List Char) : List (TName × List TParam) :=
  let l := s.map asciiLower
  (findTemplates (l.length + 1) l).map fun (t, body) => (t, findParams (body.length + 1) body)

section
variable {K : Type} [Add K] [Sub K] [Mul K] [Div K] [Neg K] [Zero K] [One K] [BEq K]
  [NatCast K] [Trig K]

/-- `float(mag + units)`: fails unless the unit suffix is empty. -/
def TParam.asFloat (v : NumLit → K) (p : TParam) : Py K :=
  if p.units = "" then .ok (v p.num) else .error .valueError

/-- `Length(mag + units).value()` with no context (svgelements.py:945):
    px and unitless are user units, pt = 4/3, pc = 16; context-dependent units stay symbolic
    (`deferred`); anything else falls through to `float(self)` = amount. -/
def TParam.asLength (v : NumLit → K) (p : TParam) : Py K :=
  let a := v p.num
  let u := p.units
  if u = "px" ∨ u = "" then .ok a
  else if u = "pt" then .ok (a * ((4 : Nat) : K) / ((3 : Nat) : K))
  else if u = "pc" then .ok (a * ((16 : Nat) : K))
  else if u = "%" ∨ u = "mm" ∨ u = "cm" ∨ u = "in" ∨ u = "em" ∨ u = "vw" ∨ u = "vh"
        ∨ u = "vmin" ∨ u = "vmax" then .error .deferred
  else .ok a

/-- `Angle.parse(mag + units)` in radians (svgelements.py:2422). A length unit suffix makes
    `float()` raise ValueError. -/
def TParam.asAngle (v : NumLit → K) (p : TParam) : Py K :=
  let a := v p.num
  let u := p.units
  if u = "deg" then .ok (Trig.tau * a / ((360 : Nat) : K))
  else if u = "grad" then .ok (Trig.tau * a / ((400 : Nat) : K))
  else if u = "rad" then .ok a
  else if u = "turn" then .ok (Trig.tau * a)
  else if u = "%" then .ok (Trig.tau * (a / ((100 : Nat) : K)))
  else if u = "" then .ok (Trig.tau * a / ((360 : Nat) : K))
  else .error .valueError

def rotOf (self : Mat K) (ang x y : K) : Mat K :=
  Mat.preRotate self (Trig.cos ang) (Trig.sin ang) x y
def skewOf (self : Mat K) (a b x y : K) : Mat K :=
  Mat.preSkew self (Trig.tan a) (Trig.tan b) x y

/-- how `Matrix.parse` converts the parameter at each position -/
inductive PKind | float | length | angle
deriving Repr, BEq, DecidableEq

def TParam.conv (v : NumLit → K) (p : TParam) : PKind → Py K
  | .float => p.asFloat v
  | .length => p.asLength v
  | .angle => p.asAngle v

/-- Which parameters are converted, and how, in source order. `matrix` and `scale` pass
    `map(float, params)` through a star-call, which converts every parameter; the other
    functions index `params[k]` one by one and never look at surplus parameters. -/
def kindsOf (name : TName) (n : Nat) : List PKind :=
  match name with
  | .matrix => List.replicate n .float
  | .translate => [.length, .length]
  | .translateX => [.length]
  | .translateY => [.length]
  | .scale => List.replicate n .float
  | .scaleX => [.float]
  | .scaleY => [.float]
  | .rotate => [.angle, .length, .length]
  | .skew => [.angle, .angle, .length, .length]
  | .skewX => [.angle, .length, .length]
  | .skewY => [.angle, .length, .length]

def convertParams (v : NumLit → K) (name : TName) (ps : List TParam) : Py (List K) :=
  ((kindsOf name ps.length).zip ps).mapM fun (kp : PKind × TParam) => kp.2.conv v kp.1

/-- One function of the list applied to the accumulated matrix, on converted values (angles in
    radians): the body of the `for` loop of `Matrix.parse`. Parameter lists that are too short are
    skipped (`continue`), optional parameters are taken through the `IndexError` handlers,
    surplus parameters are ignored except by `scale`, whose `pre_scale(*params)` call raises
    TypeError on more than four. -/
def applyVals (self : Mat K) (name : TName) (vals : List K) : Py (Mat K) :=
  match name, vals with
  | _, [] => .ok self
  | .matrix, a :: b :: c :: d :: e :: f :: _ => .ok (Mat.preCat self ⟨a, b, c, d, e, f⟩)
  | .matrix, _ => .ok self
  | .translate, [x] => .ok (Mat.preTranslate self x 0)
  | .translate, x :: y :: _ => .ok (Mat.preTranslate self x y)
  | .translateX, x :: _ => .ok (Mat.preTranslate self x 0)
  | .translateY, y :: _ => .ok (Mat.preTranslate self 0 y)
  | .scale, [sx] => .ok (Mat.preScale self sx sx 0 0)
  | .scale, [sx, sy] => .ok (Mat.preScale self sx sy 0 0)
  | .scale, [sx, sy, x] => .ok (Mat.preScale self sx sy x 0)
  | .scale, [sx, sy, x, y] => .ok (Mat.preScale self sx sy x y)
  | .scale, _ => .error .typeError
  | .scaleX, sx :: _ => .ok (Mat.preScale self sx 1 0 0)
  | .scaleY, sy :: _ => .ok (Mat.preScale self 1 sy 0 0)
  | .rotate, [a] => .ok (rotOf self a 0 0)
  | .rotate, [a, x] => .ok (rotOf self a x 0)
  | .rotate, a :: x :: y :: _ => .ok (rotOf self a x y)
  | .skew, [a] => .ok (skewOf self a 0 0 0)
  | .skew, [a, b] => .ok (skewOf self a b 0 0)
  | .skew, [a, b, x] => .ok (skewOf self a b x 0)
  | .skew, a :: b :: x :: y :: _ => .ok (skewOf self a b x y)
  | .skewX, [a] => .ok (skewOf self a 0 0 0)
  | .skewX, [a, x] => .ok (skewOf self a 0 x 0)
  | .skewX, a :: x :: y :: _ => .ok (skewOf self a 0 x y)
  | .skewY, [b] => .ok (skewOf self 0 b 0 0)
  | .skewY, [b, x] => .ok (skewOf self 0 b x 0)
  | .skewY, b :: x :: y :: _ => .ok (skewOf self 0 b x y)

def applyFunc (v : NumLit → K) (self : Mat K) (name : TName) (ps : List TParam) : Py (Mat K) :=
  -- `if len(params) == 0 or (name == "matrix" and len(params) < 6): continue`
  if ps.length = 0 ∨ (name = .matrix ∧ ps.length < 6) then .ok self
  else do
    let vals ← convertParams v name ps
    applyVals self name vals

/-- the fold of `applyVals` over converted functions -/
def parseVals (self : Mat K) (l : List (TName × List K)) : Py (Mat K) :=
  l.foldlM (fun m (nt : TName × List K) => applyVals m nt.1 nt.2) self

/-- `Matrix.parse` at token level: a left fold of `applyFunc` over the function list. -/
def parseTokens (v : NumLit → K) (self : Mat K) (l : List (TName × List TParam)) : Py (Mat K) :=
  l.foldlM (fun m (nt : TName × List TParam) => applyFunc v m nt.1 nt.2) self

/-- `Matrix(transform_str)` -/
def parseTransform (v : NumLit → K) (s : List Char) : Py (Mat K) :=
  parseTokens v Mat.identity (lexTransform s)

end
end Svg
