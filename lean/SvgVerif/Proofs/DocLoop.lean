/-
  Proofs/DocLoop.lean — the event loop of `SVG.parse` refines the recursive renderer.

  `run_semi`: for every element tree, every id table, every `use` nesting and every loop state
  that is still running, feeding the loop the event stream `semiparse` produces for the tree
  appends exactly the shapes of `specNode`, ends in `specNode`'s status, and — when still
  running — leaves the stack, the current frame (context, inherited values, width, height)
  exactly as they were and the rule table as `specNode` says. Induction on (use fuel, tree size),
  the measure `semiparse` itself terminates by.
-/
import SvgVerif.Spec.DocSpec
namespace Svg.Doc
set_option linter.unusedSectionVars false

section
variable {K : Type} [Add K] [Sub K] [Mul K] [Div K] [Neg K] [Zero K] [One K] [BEq K]
  [LT K] [DecidableLT K] [LE K] [DecidableLE K] [NatCast K]

theorem run_append (cfg : Cfg K) (s : St K) (a b : List Ev) :
    run cfg s (a ++ b) = run cfg (run cfg s a) b := by
  simp [run, List.foldl_append]

theorem step_halted (cfg : Cfg K) (s : St K) (e : Ev) (h : s.status ≠ .running) : step cfg s e = s := by
  unfold step
  cases hs : s.status with
  | running => exact absurd hs h
  | returned => rfl
  | raised e => rfl

theorem run_halted (cfg : Cfg K) (s : St K) (evs : List Ev) (h : s.status ≠ .running) : run cfg s evs = s := by
  induction evs with
  | nil => rfl
  | cons e es ih =>
    show run cfg (step cfg s e) es = s
    rw [step_halted cfg s e h]; exact ih

theorem run_cons (cfg : Cfg K) (s : St K) (e : Ev) (es : List Ev) :
    run cfg s (e :: es) = run cfg (step cfg s e) es := rfl

theorem run_nil (cfg : Cfg K) (s : St K) : run cfg s [] = s := rfl

/-- the loop state `s'` reached from `s` agrees with the specification's result `r` -/
def Agrees (s s' : St K) (r : Res K) : Prop :=
  s'.out = s.out ++ r.out ∧ s'.status = r.status ∧
  (r.status = .running → s'.stack = s.stack ∧ s'.cur = s.cur ∧ s'.styles = r.styles)

theorem step_start (cfg : Cfg K) (s : St K) (tag : String) (attrs : List (String × String))
    (hs : s.status = .running) :
    step cfg s (.start tag attrs) =
      { s with stack := s.cur :: s.stack, cur := (enter cfg s.styles s.cur tag attrs).1,
               out := s.out ++ (enter cfg s.styles s.cur tag attrs).2.1,
               status := (enter cfg s.styles s.cur tag attrs).2.2 } := by
  unfold step
  rw [hs]

theorem step_stop (cfg : Cfg K) (s : St K) (tag text : String) (top : Frame K) (rest : List (Frame K))
    (hs : s.status = .running) (hst : s.stack = top :: rest) :
    step cfg s (.stop tag text) =
      { s with stack := rest, cur := top, styles := leaveStyles s.styles s.cur tag text } := by
  unfold step
  rw [hs]
  simp only [hst]

theorem step_overflow (cfg : Cfg K) (s : St K) (hs : s.status = .running) :
    step cfg s .overflow = { s with status := .raised .recursion } := by
  unfold step
  rw [hs]

mutual
theorem run_semi (cfg : Cfg K) (defs : List (String × Xml)) (fuel : Nat) (active : List String)
    (x : Xml) (s : St K) (hs : s.status = .running) :
    Agrees s (run cfg s (semi defs fuel active x)) (specNode cfg defs fuel active s.styles s.cur x) := by
  match x with
  | .node tag attrs text kids =>
    rw [semi, specNode, run_cons, step_start cfg s tag attrs hs]
    rcases he : enter cfg s.styles s.cur tag attrs with ⟨f', outs, st⟩
    simp only []
    cases st with
    | returned =>
      rw [run_halted _ _ _ (by simp)]
      exact ⟨rfl, rfl, by intro h; cases h⟩
    | raised e =>
      rw [run_halted _ _ _ (by simp)]
      exact ⟨rfl, rfl, by intro h; cases h⟩
    | running =>
      simp only []
      -- the children
      let s1 : St K := { s with stack := s.cur :: s.stack, cur := f', out := s.out ++ outs, status := .running }
      have ih1 := run_semiList cfg defs fuel active kids s1 rfl
      rw [run_append, run_append]
      generalize hs2 : run cfg s1 (semiList defs fuel active kids) = s2 at ih1 ⊢
      change Agrees s1 s2 (specList cfg defs fuel active s.styles f' kids) at ih1
      generalize hr1 : specList cfg defs fuel active s.styles f' kids = r1 at ih1 ⊢
      obtain ⟨ho1, hst1, hk1⟩ := ih1
      cases hr1s : r1.status with
      | returned =>
        have h2 : s2.status ≠ .running := by rw [hst1, hr1s]; simp
        rw [run_halted _ _ _ h2, run_halted _ _ _ h2]
        refine ⟨?_, ?_, ?_⟩
        · rw [ho1]; simp [s1, List.append_assoc]
        · rw [hst1, hr1s]
        · intro h; cases h
      | raised e =>
        have h2 : s2.status ≠ .running := by rw [hst1, hr1s]; simp
        rw [run_halted _ _ _ h2, run_halted _ _ _ h2]
        refine ⟨?_, ?_, ?_⟩
        · rw [ho1]; simp [s1, List.append_assoc]
        · rw [hst1, hr1s]
        · intro h; cases h
      | running =>
        obtain ⟨hstack2, hcur2, hsty2⟩ := hk1 hr1s
        have hrun2 : s2.status = .running := by rw [hst1, hr1s]
        simp only []
        -- the referenced element of a `use`
        have huse : ∀ (evs : List Ev) (r2 : Res K), Agrees s2 (run cfg s2 evs) r2 →
            Agrees s (run cfg (run cfg s2 evs) [Ev.stop tag text])
              (match r2.status with
               | .running => ⟨outs ++ r1.out ++ r2.out, leaveStyles r2.styles f' tag text, .running⟩
               | st => ⟨outs ++ r1.out ++ r2.out, r2.styles, st⟩) := by
          intro evs r2 hag
          generalize run cfg s2 evs = s3 at hag ⊢
          obtain ⟨ho3, hst3, hk3⟩ := hag
          cases hr2s : r2.status with
          | returned =>
            have h3 : s3.status ≠ .running := by rw [hst3, hr2s]; simp
            rw [run_halted _ _ _ h3]
            refine ⟨?_, ?_, ?_⟩
            · rw [ho3, ho1]; simp [s1, List.append_assoc]
            · rw [hst3, hr2s]
            · intro h; cases h
          | raised e =>
            have h3 : s3.status ≠ .running := by rw [hst3, hr2s]; simp
            rw [run_halted _ _ _ h3]
            refine ⟨?_, ?_, ?_⟩
            · rw [ho3, ho1]; simp [s1, List.append_assoc]
            · rw [hst3, hr2s]
            · intro h; cases h
          | running =>
            obtain ⟨hstack3, hcur3, hsty3⟩ := hk3 hr2s
            have hrun3 : s3.status = .running := by rw [hst3, hr2s]
            have hstk : s3.stack = s.cur :: s.stack := by rw [hstack3, hstack2]
            rw [run_cons, step_stop cfg s3 tag text s.cur s.stack hrun3 hstk, run_nil]
            refine ⟨?_, ?_, ?_⟩
            · simp only []; rw [ho3, ho1]; simp [s1, List.append_assoc]
            · simp only []; exact hrun3
            · intro _
              refine ⟨rfl, rfl, ?_⟩
              simp only []
              rw [hsty3, hcur3, hcur2]
        cases hut : useTarget defs active tag attrs with
        | none =>
          simp only []
          have := huse [] ⟨[], r1.styles, .running⟩ (by
            rw [run_nil]; exact ⟨by simp, hrun2, fun _ => ⟨rfl, rfl, hsty2⟩⟩)
          simpa [run_nil] using this
        | some it =>
          obtain ⟨i, target⟩ := it
          simp only []
          cases fuel with
          | zero =>
            simp only []
            have := huse [Ev.overflow] ⟨[], r1.styles, .raised .recursion⟩ (by
              rw [run_cons, step_overflow cfg s2 hrun2, run_nil]
              exact ⟨by simp, rfl, by intro h; cases h⟩)
            exact this
          | succ n =>
            simp only []
            have ih2 := run_semi cfg defs n (active ++ [i]) target s2 hrun2
            rw [hsty2, hcur2] at ih2
            exact huse _ _ ih2
termination_by (fuel, sizeOf x)

theorem run_semiList (cfg : Cfg K) (defs : List (String × Xml)) (fuel : Nat) (active : List String)
    (l : List Xml) (s : St K) (hs : s.status = .running) :
    Agrees s (run cfg s (semiList defs fuel active l)) (specList cfg defs fuel active s.styles s.cur l) := by
  match l with
  | [] =>
    rw [semiList, specList, run_nil]
    exact ⟨by simp, hs, fun _ => ⟨rfl, rfl, rfl⟩⟩
  | k :: ks =>
    rw [semiList, specList, run_append]
    have ih1 := run_semi cfg defs fuel active k s hs
    generalize run cfg s (semi defs fuel active k) = s2 at ih1 ⊢
    generalize specNode cfg defs fuel active s.styles s.cur k = r1 at ih1 ⊢
    obtain ⟨ho1, hst1, hk1⟩ := ih1
    simp only []
    cases hr1s : r1.status with
    | returned =>
      have h2 : s2.status ≠ .running := by rw [hst1, hr1s]; simp
      rw [run_halted _ _ _ h2]
      exact ⟨ho1, by rw [hst1, hr1s], by intro h; cases h⟩
    | raised e =>
      have h2 : s2.status ≠ .running := by rw [hst1, hr1s]; simp
      rw [run_halted _ _ _ h2]
      exact ⟨ho1, by rw [hst1, hr1s], by intro h; cases h⟩
    | running =>
      obtain ⟨hstack2, hcur2, hsty2⟩ := hk1 hr1s
      have hrun2 : s2.status = .running := by rw [hst1, hr1s]
      have ih2 := run_semiList cfg defs fuel active ks s2 hrun2
      rw [hsty2, hcur2] at ih2
      generalize run cfg s2 (semiList defs fuel active ks) = s3 at ih2 ⊢
      generalize specList cfg defs fuel active r1.styles s.cur ks = r2 at ih2 ⊢
      obtain ⟨ho3, hst3, hk3⟩ := ih2
      simp only []
      refine ⟨?_, hst3, ?_⟩
      · rw [ho3, ho1, List.append_assoc]
      · intro h
        obtain ⟨a, b, c⟩ := hk3 h
        exact ⟨by rw [a, hstack2], by rw [b, hcur2], c⟩
termination_by (fuel, sizeOf l)
end

end
end Svg.Doc
