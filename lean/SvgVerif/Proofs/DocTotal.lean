/-
  Proofs/DocTotal.lean — the transform parser's verdict on a piece does not depend on the matrix
  it is parsed onto, so "every piece of the accumulated transform is acceptable" is an invariant
  of the document recursion and makes the container constructors total.
-/
import SvgVerif.Model.DocShape
import SvgVerif.Spec.DocSpec
namespace Svg.Doc
set_option linter.unusedSectionVars false

section
variable {K : Type} [Add K] [Sub K] [Mul K] [Div K] [Neg K] [Zero K] [One K] [BEq K]
  [LT K] [DecidableLT K] [LE K] [DecidableLE K] [NatCast K] [Trig K] [Color.PyRound K]

/-- the exception of a computation, if any -/
def errOf {α : Type} : Py α → Option PyErr
  | .ok _ => none
  | .error e => some e

theorem applyVals_err_indep (m m' : Mat K) (n : TName) (vs : List K) :
    errOf (applyVals m n vs) = errOf (applyVals m' n vs) := by
  unfold applyVals
  split <;> rfl

theorem applyFunc_err_indep (v : NumLit → K) (m m' : Mat K) (n : TName) (ps : List TParam) :
    errOf (applyFunc v m n ps) = errOf (applyFunc v m' n ps) := by
  unfold applyFunc
  split
  · rfl
  · cases h : convertParams v n ps with
    | error e => rfl
    | ok vals => exact applyVals_err_indep m m' n vals

theorem parseTokens_err_indep (v : NumLit → K) (m m' : Mat K) (l : List (TName × List TParam)) :
    errOf (parseTokens v m l) = errOf (parseTokens v m' l) := by
  unfold parseTokens
  induction l generalizing m m' with
  | nil => rfl
  | cons f r ih =>
    simp only [List.foldlM_cons]
    have h := applyFunc_err_indep v m m' f.1 f.2
    cases h1 : applyFunc v m f.1 f.2 with
    | error e =>
      rw [h1] at h
      cases h2 : applyFunc v m' f.1 f.2 with
      | error e' => rw [h2] at h; simp only [errOf] at h; simp only [bind, Except.bind, errOf]; exact h
      | ok _ => rw [h2] at h; cases h
    | ok a =>
      rw [h1] at h
      cases h2 : applyFunc v m' f.1 f.2 with
      | error e' => rw [h2] at h; cases h
      | ok b => simp only [bind, Except.bind]; exact ih a b

/-- one piece parsed onto the running matrix (the body of `tfMatrix`'s fold) -/
def stepFn (cfg : Cfg K) (m : Mat K) (p : TfPiece K) : Py (Mat K) :=
  match p with
  | .text s => parseTokens cfg.num m (lexTransform s.toList)
  | .mat q => pure (Mat.preCat m q)

/-- the parser's verdict on one piece -/
def pieceErr (cfg : Cfg K) (p : TfPiece K) : Option PyErr := errOf (stepFn cfg Mat.identity p)

theorem stepFn_err (cfg : Cfg K) (m : Mat K) (p : TfPiece K) : errOf (stepFn cfg m p) = pieceErr cfg p := by
  unfold pieceErr stepFn
  cases p with
  | text s => exact parseTokens_err_indep cfg.num m Mat.identity _
  | mat q => rfl

theorem fold_err (cfg : Cfg K) (ps : List (TfPiece K)) (m : Mat K)
    (h : ∀ p ∈ ps, pieceErr cfg p = none) : errOf (ps.foldlM (stepFn cfg) m) = none := by
  induction ps generalizing m with
  | nil => rfl
  | cons p r ih =>
    simp only [List.foldlM_cons]
    have hp := stepFn_err cfg m p
    rw [h p List.mem_cons_self] at hp
    cases h1 : stepFn cfg m p with
    | error e => rw [h1] at hp; cases hp
    | ok a => simp only [bind, Except.bind]; exact ih a (fun q hq => h q (List.mem_cons_of_mem _ hq))

theorem fold_err_kinds (cfg : Cfg K) (ps : List (TfPiece K)) (m : Mat K) (e : PyErr)
    (h : ∀ p ∈ ps, pieceErr cfg p = none ∨ pieceErr cfg p = some .deferred)
    (he : errOf (ps.foldlM (stepFn cfg) m) = some e) : e = .deferred := by
  induction ps generalizing m with
  | nil => cases he
  | cons p r ih =>
    simp only [List.foldlM_cons] at he
    have hp := stepFn_err cfg m p
    cases h1 : stepFn cfg m p with
    | error e' =>
      rw [h1] at hp he
      simp only [bind, Except.bind, errOf] at he hp
      rcases h p List.mem_cons_self with h2 | h2
      · rw [h2] at hp; cases hp
      · rw [h2] at hp; injection hp with hp; injection he with he; rw [← he, hp]
    | ok a =>
      rw [h1] at he
      simp only [bind, Except.bind] at he
      exact ih a (fun q hq => h q (List.mem_cons_of_mem _ hq)) he

theorem tfMatrix_eq_fold (cfg : Cfg K) (ps : List (TfPiece K)) :
    tfMatrix cfg ps = ps.foldlM (stepFn cfg) Mat.identity := rfl

/-- a piece the parser accepts, or keeps symbolic -/
def PieceFine (cfg : Cfg K) (p : TfPiece K) : Prop := pieceErr cfg p = none ∨ pieceErr cfg p = some .deferred

/-- every piece of the accumulated transform is fine -/
def ScopeFine (cfg : Cfg K) (v : Vals K) : Prop := ∀ p ∈ v.tf.getD [], PieceFine cfg p

theorem mat_fine (cfg : Cfg K) (q : Mat K) : PieceFine cfg (.mat q) := Or.inl rfl

end
end Svg.Doc

namespace Svg.Doc
set_option linter.unusedSectionVars false
section
variable {K : Type} [Add K] [Sub K] [Mul K] [Div K] [Neg K] [Zero K] [One K] [BEq K]
  [LT K] [DecidableLT K] [LE K] [DecidableLE K] [NatCast K] [Trig K] [Color.PyRound K]

/-- a computation whose only failure is the marker of a symbolic length -/
def OD {α : Type} (c : Py α) : Prop := ∀ e, c = .error e → e = .deferred

theorem od_pure {α : Type} (x : α) : OD (pure x : Py α) := by intro e h; cases h
theorem od_ok {α : Type} (x : α) : OD (.ok x : Py α) := by intro e h; cases h
theorem od_err {α : Type} : OD (.error .deferred : Py α) := by intro e h; cases h; rfl

theorem od_bind {α β : Type} {c : Py α} {f : α → Py β} (hc : OD c) (hf : ∀ x, OD (f x)) : OD (c >>= f) := by
  intro e h
  cases hcv : c with
  | error e' =>
    rw [hcv] at h
    simp only [bind, Except.bind] at h
    cases h
    exact hc _ hcv
  | ok a =>
    rw [hcv] at h
    exact hf a e h

theorem od_ite {α : Type} {p : Prop} [Decidable p] {a b : Py α} (ha : OD a) (hb : OD b) :
    OD (if p then a else b) := by
  split
  · exact ha
  · exact hb

theorem od_numOf (cfg : Cfg K) (d : Dict) (key : String) (dflt : K) (rel : Dim K) : OD (numOf cfg d key dflt rel) := by
  unfold numOf
  split
  · exact od_ok _
  · exact od_err

theorem od_map {α β : Type} {c : Py α} (f : α → β) (hc : OD c) : OD (c.map f) := by
  intro e h
  cases hcv : c with
  | error e' => rw [hcv] at h; simp only [Except.map] at h; cases h; exact hc _ hcv
  | ok a => rw [hcv] at h; simp only [Except.map] at h; cases h

theorem od_optNumOf (cfg : Cfg K) (d : Dict) (key : String) (rel : Dim K) : OD (optNumOf cfg d key rel) := by
  unfold optNumOf
  split
  · exact od_ok _
  · exact od_map _ (od_numOf cfg d key 0 rel)

theorem od_tfMatrix (cfg : Cfg K) (ps : List (TfPiece K)) (h : ∀ p ∈ ps, PieceFine cfg p) : OD (tfMatrix cfg ps) := by
  intro e he
  rw [tfMatrix_eq_fold] at he
  exact fold_err_kinds cfg ps Mat.identity e h (by rw [he]; rfl)

/-- **Stage B raises nothing.** A shape constructor applied to a record whose transform pieces
    are all acceptable either yields a shape (or none) or reports a symbolic length. -/
theorem od_shapeOf (cfg : Cfg K) (tau : K) (r : Rec K)
    (hf : ∀ p ∈ r.vals.tf.getD [], PieceFine cfg p) (hv : ∀ p ∈ r.vals.vt.getD [], PieceFine cfg p) :
    OD (shapeOf cfg tau r) := by
  unfold shapeOf
  apply od_bind (od_tfMatrix cfg _ hf); intro m
  apply od_bind (od_tfMatrix cfg _ hv); intro vt
  apply od_bind
  · split
    · exact od_ok _
    · exact od_err
  intro sw
  repeat' first
    | exact od_pure _
    | exact od_ok _
    | exact od_err
    | (apply od_bind (od_numOf _ _ _ _ _); intro _)
    | (apply od_bind (od_optNumOf _ _ _ _); intro _)
    | apply od_ite
    | split

theorem od_shapesOf (cfg : Cfg K) (tau : K) (rs : List (Rec K))
    (h : ∀ r ∈ rs, (∀ p ∈ r.vals.tf.getD [], PieceFine cfg p) ∧ (∀ p ∈ r.vals.vt.getD [], PieceFine cfg p)) :
    OD (shapesOf cfg tau rs) := by
  induction rs with
  | nil => exact od_ok _
  | cons r rest ih =>
    have hr := h r List.mem_cons_self
    have ihr := ih (fun q hq => h q (List.mem_cons_of_mem _ hq))
    unfold shapesOf
    have hs := od_shapeOf cfg tau r hr.1 hr.2
    cases hsv : shapeOf cfg tau r with
    | ok o =>
      cases o with
      | none => exact ihr
      | some s => exact od_map _ ihr
    | error e =>
      have := hs e hsv
      subst this
      exact od_err

end
end Svg.Doc
