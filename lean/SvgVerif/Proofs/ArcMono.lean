/-
  Proofs/ArcMono.lean — the one piece of real analysis behind arc bounding boxes (C08): a coordinate
  A cos x + B sin x of an arc's denotation stays between its two end values on every parameter
  interval with no zero of its derivative strictly inside (intermediate value theorem for the sign
  of the derivative, mean value theorem for monotonicity). Over ℝ with Mathlib's cos/sin.
-/
import Mathlib.Analysis.SpecialFunctions.Trigonometric.Deriv
import Mathlib.Analysis.Calculus.Deriv.MeanValue
import Mathlib.Analysis.SpecialFunctions.Trigonometric.Basic
import Mathlib.Data.Finset.Max
import Mathlib.Data.List.Basic

open Real Set

namespace Svg.ArcMono

/-- one coordinate of an arc's denotation, centre removed -/
noncomputable def f (A B : ℝ) (x : ℝ) : ℝ := A * cos x + B * sin x
/-- its derivative -/
noncomputable def g (A B : ℝ) (x : ℝ) : ℝ := B * cos x - A * sin x

theorem hasDeriv (A B x : ℝ) : HasDerivAt (f A B) (g A B x) x := by
  have h := ((hasDerivAt_cos x).const_mul A).fun_add ((hasDerivAt_sin x).const_mul B)
  have e : A * -sin x + B * cos x = g A B x := by unfold g; ring
  rw [← e]
  exact h

theorem g_cont (A B : ℝ) : Continuous (g A B) := by
  unfold g; fun_prop

theorem deriv_f (A B x : ℝ) : deriv (f A B) x = g A B x := (hasDeriv A B x).deriv

theorem sign_const (A B s u : ℝ) (hne : ∀ x, s < x → x < u → g A B x ≠ 0) :
    (∀ x, s < x → x < u → 0 < g A B x) ∨ (∀ x, s < x → x < u → g A B x < 0) := by
  by_contra hcon
  rw [not_or] at hcon
  obtain ⟨h1, h2⟩ := hcon
  push Not at h1 h2
  obtain ⟨a, sa, au, ha⟩ := h1
  obtain ⟨b, sb, bu, hb⟩ := h2
  have ha' : g A B a < 0 := lt_of_le_of_ne ha (hne a sa au)
  have hb' : 0 < g A B b := lt_of_le_of_ne hb (Ne.symm (hne b sb bu))
  rcases le_total a b with hab | hba
  · have := intermediate_value_Icc hab (g_cont A B).continuousOn
    obtain ⟨c, ⟨c1, c2⟩, hc⟩ := this ⟨ha'.le, hb'.le⟩
    exact hne c (lt_of_lt_of_le sa c1) (lt_of_le_of_lt c2 bu) hc
  · have := intermediate_value_Icc' hba (g_cont A B).continuousOn
    obtain ⟨c, ⟨c1, c2⟩, hc⟩ := this ⟨ha'.le, hb'.le⟩
    exact hne c (lt_of_lt_of_le sb c1) (lt_of_le_of_lt c2 au) hc

/-- between two parameters with no critical parameter strictly inside, the coordinate stays between
    its two end values -/
theorem between (A B s u t : ℝ) (hs : s ≤ t) (hu : t ≤ u)
    (hne : ∀ x, s < x → x < u → g A B x ≠ 0) :
    min (f A B s) (f A B u) ≤ f A B t ∧ f A B t ≤ max (f A B s) (f A B u) := by
  have hsu : s ≤ u := le_trans hs hu
  have hc : ContinuousOn (f A B) (Icc s u) := fun x _ => (hasDeriv A B x).continuousAt.continuousWithinAt
  have hd : DifferentiableOn ℝ (f A B) (interior (Icc s u)) :=
    fun x _ => (hasDeriv A B x).differentiableAt.differentiableWithinAt
  have ms : s ∈ Icc s u := ⟨le_refl _, hsu⟩
  have mu : u ∈ Icc s u := ⟨hsu, le_refl _⟩
  have mt : t ∈ Icc s u := ⟨hs, hu⟩
  rcases sign_const A B s u hne with hp | hn
  · have mono : MonotoneOn (f A B) (Icc s u) := by
      apply monotoneOn_of_deriv_nonneg (convex_Icc s u) hc hd
      intro x hx
      rw [interior_Icc] at hx
      rw [deriv_f]; exact (hp x hx.1 hx.2).le
    exact ⟨le_trans (min_le_left _ _) (mono ms mt hs), le_trans (mono mt mu hu) (le_max_right _ _)⟩
  · have anti : AntitoneOn (f A B) (Icc s u) := by
      apply antitoneOn_of_deriv_nonpos (convex_Icc s u) hc hd
      intro x hx
      rw [interior_Icc] at hx
      rw [deriv_f]; exact (hn x hx.1 hx.2).le
    exact ⟨le_trans (min_le_right _ _) (anti mt mu hu), le_trans (anti ms mt hs) (le_max_left _ _)⟩

/-- a finite list of parameters that contains both ends of the sweep and every critical parameter
    strictly inside it brackets the coordinate: each value on the sweep lies between the values at
    two listed parameters of the sweep -/
theorem between_list (A B t0 t1 t : ℝ) (E : List ℝ) (h0 : t0 ∈ E) (h1 : t1 ∈ E)
    (ht0 : t0 ≤ t) (ht1 : t ≤ t1)
    (hE : ∀ x, t0 < x → x < t1 → g A B x = 0 → x ∈ E) :
    ∃ e1 ∈ E, ∃ e2 ∈ E, (t0 ≤ e1 ∧ e1 ≤ t1) ∧ (t0 ≤ e2 ∧ e2 ≤ t1) ∧
      f A B e1 ≤ f A B t ∧ f A B t ≤ f A B e2 := by
  classical
  let L := (E.filter (fun e => decide (e ≤ t))).toFinset
  let U := (E.filter (fun e => decide (t ≤ e))).toFinset
  have memL : ∀ e, e ∈ L ↔ e ∈ E ∧ e ≤ t := by intro e; simp [L]
  have memU : ∀ e, e ∈ U ↔ e ∈ E ∧ t ≤ e := by intro e; simp [U]
  have hL : L.Nonempty := ⟨t0, (memL t0).2 ⟨h0, ht0⟩⟩
  have hU : U.Nonempty := ⟨t1, (memU t1).2 ⟨h1, ht1⟩⟩
  obtain ⟨sE, st⟩ := (memL _).1 (L.max'_mem hL)
  obtain ⟨uE, ut⟩ := (memU _).1 (U.min'_mem hU)
  set s := L.max' hL with hsdef
  set u := U.min' hU with hudef
  have s0 : t0 ≤ s := L.le_max' t0 ((memL t0).2 ⟨h0, ht0⟩)
  have u1 : u ≤ t1 := U.min'_le t1 ((memU t1).2 ⟨h1, ht1⟩)
  have hne : ∀ x, s < x → x < u → g A B x ≠ 0 := by
    intro x hx1 hx2 hz
    have xE : x ∈ E := hE x (lt_of_le_of_lt s0 hx1) (lt_of_lt_of_le hx2 u1) hz
    rcases le_total x t with h | h
    · exact absurd (L.le_max' x ((memL x).2 ⟨xE, h⟩)) (not_le.mpr hx1)
    · exact absurd (U.min'_le x ((memU x).2 ⟨xE, h⟩)) (not_le.mpr hx2)
  obtain ⟨b1, b2⟩ := between A B s u t st ut hne
  have ss : t0 ≤ s ∧ s ≤ t1 := ⟨s0, le_trans st ht1⟩
  have uu : t0 ≤ u ∧ u ≤ t1 := ⟨le_trans ht0 ut, u1⟩
  rcases min_le_iff.1 b1 with l1 | l1 <;> rcases le_max_iff.1 b2 with l2 | l2
  · exact ⟨s, sE, s, sE, ss, ss, l1, l2⟩
  · exact ⟨s, sE, u, uE, ss, uu, l1, l2⟩
  · exact ⟨u, uE, s, sE, uu, ss, l1, l2⟩
  · exact ⟨u, uE, u, uE, uu, uu, l1, l2⟩

/-- the critical parameters of a non-constant coordinate are one of them plus the integer multiples
    of a half turn — the `(tau / 2) * k` shifts of `Arc.bbox` -/
theorem critical_spacing (A B x0 x : ℝ) (hAB : A ≠ 0 ∨ B ≠ 0) (h0 : g A B x0 = 0) :
    g A B x = 0 ↔ ∃ n : ℤ, x = x0 + n * π := by
  unfold g at *
  constructor
  · intro hx
    have eA : A * sin (x - x0) = 0 := by
      rw [sin_sub]; linear_combination (-cos x0) * hx + (cos x) * h0
    have eB : B * sin (x - x0) = 0 := by
      rw [sin_sub]; linear_combination (-sin x0) * hx + (sin x) * h0
    have hs : sin (x - x0) = 0 := by
      rcases hAB with h | h
      · exact (mul_eq_zero.mp eA).resolve_left h
      · exact (mul_eq_zero.mp eB).resolve_left h
    obtain ⟨n, hn⟩ := sin_eq_zero_iff.mp hs
    exact ⟨n, by linarith⟩
  · rintro ⟨n, rfl⟩
    rcases Int.even_or_odd n with hn | hn
    · obtain ⟨k, rfl⟩ := hn
      have c : cos (x0 + ((k + k : ℤ) : ℝ) * π) = cos x0 := by
        have : x0 + ((k + k : ℤ) : ℝ) * π = x0 + k * (2 * π) := by push_cast; ring
        rw [this, cos_add_int_mul_two_pi]
      have s : sin (x0 + ((k + k : ℤ) : ℝ) * π) = sin x0 := by
        have : x0 + ((k + k : ℤ) : ℝ) * π = x0 + k * (2 * π) := by push_cast; ring
        rw [this, sin_add_int_mul_two_pi]
      rw [c, s]; exact h0
    · obtain ⟨k, rfl⟩ := hn
      have c : cos (x0 + ((2 * k + 1 : ℤ) : ℝ) * π) = -cos x0 := by
        have : x0 + ((2 * k + 1 : ℤ) : ℝ) * π = (x0 + π) + k * (2 * π) := by push_cast; ring
        rw [this, cos_add_int_mul_two_pi, cos_add_pi]
      have s : sin (x0 + ((2 * k + 1 : ℤ) : ℝ) * π) = -sin x0 := by
        have : x0 + ((2 * k + 1 : ℤ) : ℝ) * π = (x0 + π) + k * (2 * π) := by push_cast; ring
        rw [this, sin_add_int_mul_two_pi, sin_add_pi]
      rw [c, s]; linear_combination -h0

end Svg.ArcMono
