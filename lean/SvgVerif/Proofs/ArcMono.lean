/-
  Proofs/ArcMono.lean — the one piece of real analysis behind arc bounding boxes (C08): a coordinate
  A cos x + B sin x of an arc's denotation stays between its two end values on every parameter
  interval with no zero of its derivative strictly inside (intermediate value theorem for the sign
  of the derivative, mean value theorem for monotonicity). Over ℝ with Mathlib's cos/sin.
-/
import Mathlib.Analysis.SpecialFunctions.Trigonometric.Deriv
import Mathlib.Analysis.Calculus.Deriv.MeanValue

open Real Set

namespace Svg.ArcMono

/-- one coordinate of an arc's denotation, centre removed -/
noncomputable def f (A B : ℝ) (x : ℝ) : ℝ := A * cos x + B * sin x
/-- its derivative -/
noncomputable def g (A B : ℝ) (x : ℝ) : ℝ := B * cos x - A * sin x

theorem hasDeriv (A B x : ℝ) : HasDerivAt (f A B) (g A B x) x := by
  have h := ((hasDerivAt_cos x).const_mul A).fun_add ((hasDerivAt_sin x).const_mul B)
  have e : A * -sin x + B * cos x = g A B x := by unfold g; ring
  rw [← e]
  exact h

theorem g_cont (A B : ℝ) : Continuous (g A B) := by
  unfold g; fun_prop

theorem deriv_f (A B x : ℝ) : deriv (f A B) x = g A B x := (hasDeriv A B x).deriv

theorem sign_const (A B s u : ℝ) (hne : ∀ x, s < x → x < u → g A B x ≠ 0) :
    (∀ x, s < x → x < u → 0 < g A B x) ∨ (∀ x, s < x → x < u → g A B x < 0) := by
  by_contra hcon
  rw [not_or] at hcon
  obtain ⟨h1, h2⟩ := hcon
  push Not at h1 h2
  obtain ⟨a, sa, au, ha⟩ := h1
  obtain ⟨b, sb, bu, hb⟩ := h2
  have ha' : g A B a < 0 := lt_of_le_of_ne ha (hne a sa au)
  have hb' : 0 < g A B b := lt_of_le_of_ne hb (Ne.symm (hne b sb bu))
  rcases le_total a b with hab | hba
  · have := intermediate_value_Icc hab (g_cont A B).continuousOn
    obtain ⟨c, ⟨c1, c2⟩, hc⟩ := this ⟨ha'.le, hb'.le⟩
    exact hne c (lt_of_lt_of_le sa c1) (lt_of_le_of_lt c2 bu) hc
  · have := intermediate_value_Icc' hba (g_cont A B).continuousOn
    obtain ⟨c, ⟨c1, c2⟩, hc⟩ := this ⟨ha'.le, hb'.le⟩
    exact hne c (lt_of_lt_of_le sb c1) (lt_of_le_of_lt c2 au) hc

/-- between two parameters with no critical parameter strictly inside, the coordinate stays between
    its two end values -/
theorem between (A B s u t : ℝ) (hs : s ≤ t) (hu : t ≤ u)
    (hne : ∀ x, s < x → x < u → g A B x ≠ 0) :
    min (f A B s) (f A B u) ≤ f A B t ∧ f A B t ≤ max (f A B s) (f A B u) := by
  have hsu : s ≤ u := le_trans hs hu
  have hc : ContinuousOn (f A B) (Icc s u) := fun x _ => (hasDeriv A B x).continuousAt.continuousWithinAt
  have hd : DifferentiableOn ℝ (f A B) (interior (Icc s u)) :=
    fun x _ => (hasDeriv A B x).differentiableAt.differentiableWithinAt
  have ms : s ∈ Icc s u := ⟨le_refl _, hsu⟩
  have mu : u ∈ Icc s u := ⟨hsu, le_refl _⟩
  have mt : t ∈ Icc s u := ⟨hs, hu⟩
  rcases sign_const A B s u hne with hp | hn
  · have mono : MonotoneOn (f A B) (Icc s u) := by
      apply monotoneOn_of_deriv_nonneg (convex_Icc s u) hc hd
      intro x hx
      rw [interior_Icc] at hx
      rw [deriv_f]; exact (hp x hx.1 hx.2).le
    exact ⟨le_trans (min_le_left _ _) (mono ms mt hs), le_trans (mono mt mu hu) (le_max_right _ _)⟩
  · have anti : AntitoneOn (f A B) (Icc s u) := by
      apply antitoneOn_of_deriv_nonpos (convex_Icc s u) hc hd
      intro x hx
      rw [interior_Icc] at hx
      rw [deriv_f]; exact (hn x hx.1 hx.2).le
    exact ⟨le_trans (min_le_right _ _) (anti mt mu hu), le_trans (anti ms mt hs) (le_max_left _ _)⟩

end Svg.ArcMono
