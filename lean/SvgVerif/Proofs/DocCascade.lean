/-
  Proofs/DocCascade.lean — helper lemmas about dictionaries, `split`, and "last assignment wins".
-/
import SvgVerif.Model.Doc
namespace Svg.Doc
set_option linter.unusedSectionVars false

/-! ### dictionaries -/

theorem Dict.get_set (d : Dict) (k v k' : String) :
    Dict.get (Dict.set d k v) k' = if k = k' then some v else Dict.get d k' := by
  simp [Dict.set, Dict.get]

theorem Dict.get_erase_self' (d : Dict) (k : String) : Dict.get (Dict.erase d k) k = none := by
  induction d with
  | nil => rfl
  | cons p r ih =>
    obtain ⟨k', v⟩ := p
    unfold Dict.erase
    by_cases h : k' = k
    · simp only [h, if_true]; exact ih
    · simp only [h, if_false, Dict.get]; exact ih

theorem Dict.get_erase_ne' (d : Dict) (k k' : String) (h : k' ≠ k) :
    Dict.get (Dict.erase d k) k' = Dict.get d k' := by
  induction d with
  | nil => rfl
  | cons p r ih =>
    obtain ⟨k0, v⟩ := p
    unfold Dict.erase
    by_cases h0 : k0 = k
    · subst h0
      have : k0 ≠ k' := fun e => h e.symm
      simp only [if_true, Dict.get, this, if_false]; exact ih
    · simp only [h0, if_false, Dict.get]
      by_cases h1 : k0 = k'
      · simp only [h1, if_true]
      · simp only [h1, if_false]; exact ih

theorem Dict.get_eraseAll_ne (ks : List String) (d : Dict) (k : String) (h : k ∉ ks) :
    Dict.get (ks.foldl Dict.erase d) k = Dict.get d k := by
  induction ks generalizing d with
  | nil => rfl
  | cons a r ih =>
    simp only [List.foldl_cons]
    rw [ih _ (fun hm => h (List.mem_cons_of_mem _ hm))]
    exact Dict.get_erase_ne' _ _ _ (fun e => h (e ▸ List.mem_cons_self))

/-- `values.update(attributes)`: the element's own binding, else the inherited one -/
theorem Dict.get_update_rev (d a : Dict) (k : String) :
    Dict.get (Dict.update d a.reverse) k =
      (match Dict.get a k with | some v => some v | none => Dict.get d k) := by
  induction a with
  | nil => rfl
  | cons p r ih =>
    obtain ⟨k0, v0⟩ := p
    simp only [List.reverse_cons, Dict.update, List.foldl_append, List.foldl_cons, List.foldl_nil]
    rw [Dict.get_set]
    by_cases h : k0 = k
    · simp [h, Dict.get]
    · simp only [h, if_false, Dict.get]
      exact ih

/-! ### last assignment wins -/

/-- the value the last declaration of `k` in `l` gives, `acc` when there is none -/
def lastFrom (acc : Option String) : List (String × String) → String → Option String
  | [], _ => acc
  | (k0, v0) :: r, k => lastFrom (if k0 = k then some v0 else acc) r k

theorem get_foldl_set (a : Dict) (l : List (String × String)) (k : String) :
    Dict.get (l.foldl (fun a kv => Dict.set a kv.1 kv.2) a) k = lastFrom (Dict.get a k) l k := by
  induction l generalizing a with
  | nil => rfl
  | cons p r ih =>
    obtain ⟨k0, v0⟩ := p
    simp only [List.foldl_cons, lastFrom]
    rw [ih, Dict.get_set]

theorem lastFrom_append (acc : Option String) (l1 l2 : List (String × String)) (k : String) :
    lastFrom acc (l1 ++ l2) k = lastFrom (lastFrom acc l1 k) l2 k := by
  induction l1 generalizing acc with
  | nil => rfl
  | cons p r ih => obtain ⟨k0, v0⟩ := p; simp only [List.cons_append, lastFrom]; exact ih _

/-- a list that declares `k` decides the value whatever came before -/
theorem lastFrom_indep (acc acc' : Option String) (l : List (String × String)) (k : String)
    (h : ∃ v, (k, v) ∈ l) : lastFrom acc l k = lastFrom acc' l k := by
  induction l generalizing acc acc' with
  | nil => obtain ⟨v, hv⟩ := h; cases hv
  | cons p r ih =>
    obtain ⟨k0, v0⟩ := p
    simp only [lastFrom]
    by_cases h0 : k0 = k
    · simp [h0]
    · simp only [h0, if_false]
      apply ih
      obtain ⟨v, hv⟩ := h
      cases hv with
      | head => exact absurd rfl h0
      | tail _ hm => exact ⟨v, hm⟩

/-- a list that does not declare `k` leaves the value alone -/
theorem lastFrom_none (acc : Option String) (l : List (String × String)) (k : String)
    (h : ∀ v, (k, v) ∉ l) : lastFrom acc l k = acc := by
  induction l generalizing acc with
  | nil => rfl
  | cons p r ih =>
    obtain ⟨k0, v0⟩ := p
    simp only [lastFrom]
    have h0 : k0 ≠ k := fun e => h v0 (e ▸ List.mem_cons_self)
    simp only [h0, if_false]
    exact ih _ (fun v hv => h v (List.mem_cons_of_mem _ hv))

/-! ### style text as a list of declarations -/

/-- the declarations of a style text, in order -/
def decls (style : String) : List (String × String) := (splitOn ';' style.toList).filterMap declOf

theorem applyStyle_eq (a : Dict) (style : String) :
    applyStyle a style = (decls style).foldl (fun a kv => Dict.set a kv.1 kv.2) a := by
  unfold applyStyle decls
  generalize splitOn ';' style.toList = items
  induction items generalizing a with
  | nil => rfl
  | cons it r ih =>
    simp only [List.foldl_cons, List.filterMap_cons]
    cases declOf it with
    | none => simp only []; exact ih _
    | some kv => simp only [List.foldl_cons]; exact ih _

theorem splitOn_ne_nil (c : Char) (s : List Char) : splitOn c s ≠ [] := by
  induction s with
  | nil => simp [splitOn]
  | cons x xs ih =>
    unfold splitOn
    split
    · simp
    · split <;> simp

theorem splitOn_append (c : Char) (s e : List Char) :
    splitOn c (s ++ c :: e) = splitOn c s ++ splitOn c e := by
  induction s with
  | nil =>
    simp only [List.nil_append]
    have hs : splitOn c [] = [[]] := rfl
    rw [hs, splitOn]
    split
    · rename_i h; exact absurd h (splitOn_ne_nil c e)
    · rename_i h; simp [h]
  | cons x xs ih =>
    simp only [List.cons_append]
    rw [splitOn, ih]
    cases h : splitOn c xs with
    | nil => exact absurd h (splitOn_ne_nil c xs)
    | cons hd tl =>
      simp only [List.cons_append]
      rw [splitOn, h]
      by_cases hx : x = c <;> simp [hx]

theorem decls_empty : decls "" = [] := by decide

theorem decls_join (s e : String) : decls (joinStyle s e) = decls s ++ decls e := by
  unfold joinStyle
  by_cases h : s = ""
  · simp [h, decls_empty]
  · simp only [h, if_false]
    unfold decls
    rw [String.toList_append, String.toList_append]
    have : (";" : String).toList = [';'] := rfl
    rw [this, List.append_assoc, List.singleton_append, splitOn_append, List.filterMap_append]

end Svg.Doc
