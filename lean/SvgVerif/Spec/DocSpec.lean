/-
  Spec/DocSpec.lean — the document semantics as a recursion over the element tree.

  Where the library flattens the tree into an event stream (with `use` targets inlined) and runs
  a loop with an explicit stack and loop-global variables (Model/Doc.lean), the specification is
  the obvious recursive renderer: an element is entered in the *scope* of its parent (inherited
  values, accumulated transform, nearest viewport size, attachment to the rendered tree), its
  children are rendered in the scope it establishes, a `use` then renders the referenced element
  in that same scope, and the next sibling is rendered in the parent's scope again — there is
  no stack to get wrong and nothing an element can leak to what follows it except the rules of a
  `style` element. The per-element step (`enter`: cascade, inheritance, transform accumulation,
  viewport) is shared with the model; Props/C03, C14 and C10 characterise it.
-/
import SvgVerif.Model.Doc
namespace Svg.Doc

section
variable {K : Type} [Add K] [Sub K] [Mul K] [Div K] [Neg K] [Zero K] [One K] [BEq K]
  [LT K] [DecidableLT K] [LE K] [DecidableLE K] [NatCast K]

/-- what rendering a subtree yields: the shapes in document order, the rule table afterwards
    (only `style` elements change it), and whether the parse is still running -/
structure Res (K : Type) where
  out : List (Rec K)
  styles : Dict
  status : Status

mutual
def specNode (cfg : Cfg K) (defs : List (String × Xml)) (fuel : Nat) (active : List String)
    (styles : Dict) (f : Frame K) : Xml → Res K
  | .node tag attrs text kids =>
    match enter cfg styles f tag attrs with
    | (f', outs, .running) =>
      let r1 := specList cfg defs fuel active styles f' kids
      (match r1.status with
       | .running =>
         let r2 : Res K :=
           match useTarget defs active tag attrs with
           | some (i, target) =>
             (match fuel with
              | 0 => ⟨[], r1.styles, .raised .recursion⟩
              | n + 1 => specNode cfg defs n (active ++ [i]) r1.styles f' target)
           | none => ⟨[], r1.styles, .running⟩
         (match r2.status with
          | .running => ⟨outs ++ r1.out ++ r2.out, leaveStyles r2.styles f' tag text, .running⟩
          | st => ⟨outs ++ r1.out ++ r2.out, r2.styles, st⟩)
       | st => ⟨outs ++ r1.out, r1.styles, st⟩)
    | (_, outs, st) => ⟨outs, styles, st⟩
termination_by x => (fuel, sizeOf x)
def specList (cfg : Cfg K) (defs : List (String × Xml)) (fuel : Nat) (active : List String)
    (styles : Dict) (f : Frame K) : List Xml → Res K
  | [] => ⟨[], styles, .running⟩
  | k :: ks =>
    let r1 := specNode cfg defs fuel active styles f k
    match r1.status with
    | .running =>
      let r2 := specList cfg defs fuel active r1.styles f ks
      ⟨r1.out ++ r2.out, r2.styles, r2.status⟩
    | st => ⟨r1.out, r1.styles, st⟩
termination_by l => (fuel, sizeOf l)
end

/-- the specification of `parseDoc` -/
def specDoc (cfg : Cfg K) (f : Frame K) (roots : List Xml) : Except PyErr (List (Rec K)) :=
  let defs := idTable roots
  let r := specList cfg defs (defs.length + 1) [] [] f roots
  match r.status with
  | .running => .ok (r.out.filter (·.attached))
  | .returned => .ok []
  | .raised e => .error e

end
end Svg.Doc
