/-
  Spec/PathSpec.lean — what SVG 2 §9.3–9.5 says a path-data command sequence draws.

  `Cmd` is one drawn command with exactly one argument group (the grammar's implicit repetition is
  already expanded: `L 1,2 3,4` is two `lineTo`, `M 1,2 3,4` is a `moveTo` and a `lineTo`).
  `interp` is the specification's interpreter with explicit state: current point, start of the
  current subpath, and the last control point together with the degree of the curve that set it.
  It is written from the specification text, not from the library.
-/
import SvgVerif.Model.PathBuild
namespace Svg

inductive Cmd (K : Type)
  | moveTo (rel : Bool) (p : Pt K)
  | lineTo (rel : Bool) (p : Pt K)
  | hTo (rel : Bool) (x : K)
  | vTo (rel : Bool) (y : K)
  | quadTo (rel : Bool) (c e : Pt K)
  | smoothQuadTo (rel : Bool) (e : Pt K)
  | cubicTo (rel : Bool) (c1 c2 e : Pt K)
  | smoothCubicTo (rel : Bool) (c2 e : Pt K)
  | arcTo (rel : Bool) (rx ry rot : K) (fa fs : Bool) (e : Pt K)
  | closePath (rel : Bool)
  -- SVG 2 segment-completing close: the final coordinate pair is replaced by `z`
  | lineToZ (rel : Bool)
  | quadToZ (rel : Bool) (c : Pt K)
  | smoothQuadToZ (rel : Bool)
  | cubicToZ (rel : Bool) (c1 c2 : Pt K)
  | smoothCubicToZ (rel : Bool) (c2 : Pt K)
  | arcToZ (rel : Bool) (rx ry rot : K) (fa fs : Bool)
deriving Repr, BEq, DecidableEq

/-- interpreter state of the specification -/
structure IState (K : Type) where
  cur : Pt K                       -- current point
  start : Pt K                     -- initial point of the current subpath
  ctrl : Option (Bool × Pt K)      -- last control point, tagged `true` for cubic, `false` for quadratic
deriving Repr

section
variable {K : Type} [Add K] [Sub K] [Neg K] [Zero K] [LT K] [DecidableLT K]

def offs (rel : Bool) (cur p : Pt K) : Pt K := if rel then ⟨p.x + cur.x, p.y + cur.y⟩ else p

/-- reflection of the previous control point about the current point (§9.3.6/9.3.7):
    only a control point of a curve of the *same degree* is reflected; otherwise the current point -/
def reflected (cubic : Bool) (st : IState K) : Pt K :=
  match st.ctrl with
  | some (deg, c) => if deg = cubic then ⟨st.cur.x + (st.cur.x - c.x), st.cur.y + (st.cur.y - c.y)⟩ else st.cur
  | none => st.cur

def absR (r : K) : K := if r < 0 then -r else r

/-- one command: the segment it draws and the new state -/
def specStep (st : IState K) : Cmd K → PSeg K × IState K
  | .moveTo rel p =>
    let e := offs rel st.cur p
    (.move rel (some st.cur) (some e), ⟨e, e, none⟩)
  | .lineTo rel p =>
    let e := offs rel st.cur p
    (.line rel (some st.cur) (some e), ⟨e, st.start, none⟩)
  | .hTo rel x =>
    let e : Pt K := if rel then ⟨st.cur.x + x, st.cur.y⟩ else ⟨x, st.cur.y⟩
    (.line rel (some st.cur) (some e), ⟨e, st.start, none⟩)
  | .vTo rel y =>
    let e : Pt K := if rel then ⟨st.cur.x, st.cur.y + y⟩ else ⟨st.cur.x, y⟩
    (.line rel (some st.cur) (some e), ⟨e, st.start, none⟩)
  | .quadTo rel c e =>
    let c := offs rel st.cur c
    let e := offs rel st.cur e
    (.quad rel false (some st.cur) (some c) (some e), ⟨e, st.start, some (false, c)⟩)
  | .smoothQuadTo rel e =>
    let c := reflected false st
    let e := offs rel st.cur e
    (.quad rel true (some st.cur) (some c) (some e), ⟨e, st.start, some (false, c)⟩)
  | .cubicTo rel c1 c2 e =>
    let c1 := offs rel st.cur c1
    let c2 := offs rel st.cur c2
    let e := offs rel st.cur e
    (.cubic rel false (some st.cur) (some c1) (some c2) (some e), ⟨e, st.start, some (true, c2)⟩)
  | .smoothCubicTo rel c2 e =>
    let c1 := reflected true st
    let c2 := offs rel st.cur c2
    let e := offs rel st.cur e
    (.cubic rel true (some st.cur) (some c1) (some c2) (some e), ⟨e, st.start, some (true, c2)⟩)
  | .arcTo rel rx ry rot fa fs e =>
    let e := offs rel st.cur e
    (.arc rel st.cur (absR rx) (absR ry) rot fa fs e, ⟨e, st.start, none⟩)
  | .closePath rel =>
    (.close rel (some st.cur) (some st.start), ⟨st.start, st.start, none⟩)
  | .lineToZ rel =>
    (.line rel (some st.cur) (some st.start), ⟨st.start, st.start, none⟩)
  | .quadToZ rel c =>
    let c := offs rel st.cur c
    (.quad rel false (some st.cur) (some c) (some st.start), ⟨st.start, st.start, some (false, c)⟩)
  | .smoothQuadToZ rel =>
    let c := reflected false st
    (.quad rel true (some st.cur) (some c) (some st.start), ⟨st.start, st.start, some (false, c)⟩)
  | .cubicToZ rel c1 c2 =>
    let c1 := offs rel st.cur c1
    let c2 := offs rel st.cur c2
    (.cubic rel false (some st.cur) (some c1) (some c2) (some st.start), ⟨st.start, st.start, some (true, c2)⟩)
  | .smoothCubicToZ rel c2 =>
    let c1 := reflected true st
    let c2 := offs rel st.cur c2
    (.cubic rel true (some st.cur) (some c1) (some c2) (some st.start), ⟨st.start, st.start, some (true, c2)⟩)
  | .arcToZ rel rx ry rot fa fs =>
    (.arc rel st.cur (absR rx) (absR ry) rot fa fs st.start, ⟨st.start, st.start, none⟩)

/-- the commands after the leading move -/
def specRun (st : IState K) : List (Cmd K) → List (PSeg K)
  | [] => []
  | c :: cs => let (s, st') := specStep st c; s :: specRun st' cs

/-- SVG 2 interpreter: path data must begin with a moveto (a leading relative moveto is absolute);
    anything else is in error and draws nothing -/
def interp : List (Cmd K) → Option (List (PSeg K))
  | .moveTo rel p :: cs => some (.move rel none (some p) :: specRun ⟨p, p, none⟩ cs)
  | _ => none

end
end Svg

namespace Svg
section
variable {K : Type} [Add K] [Sub K] [Neg K] [Zero K] [LT K] [DecidableLT K]

/-- Token-level model of the library: what the dispatch loop does with one argument group
    (`_coord/_rcoord`, then the builder callback). This is the *model* side of
    `C01_builder_refines_interp`; `interp` above is the specification side. -/
def runCmd (segs : List (PSeg K)) : Cmd K → Py (List (PSeg K))
  | .moveTo rel p => cbMove rel segs (.pt (rc rel segs p))
  | .lineTo rel p => cbLine rel segs (.pt (rc rel segs p))
  | .hTo rel x => cbHorizontal rel segs x
  | .vTo rel y => cbVertical rel segs y
  | .quadTo rel c e => cbQuad rel segs (.pt (rc rel segs c)) (.pt (rc rel segs e))
  | .smoothQuadTo rel e => cbSmoothQuad rel segs (.pt (rc rel segs e))
  | .cubicTo rel c1 c2 e => cbCubic rel segs (.pt (rc rel segs c1)) (.pt (rc rel segs c2)) (.pt (rc rel segs e))
  | .smoothCubicTo rel c2 e => cbSmoothCubic rel segs (.pt (rc rel segs c2)) (.pt (rc rel segs e))
  | .arcTo rel rx ry rot fa fs e => cbArc rel segs (some rx) (some ry) (some rot) (some fa) (some fs) (.pt (rc rel segs e))
  | .closePath rel => cbClosed rel segs
  | .lineToZ rel => cbLine rel segs .z
  | .quadToZ rel c => cbQuad rel segs (.pt (rc rel segs c)) .z
  | .smoothQuadToZ rel => cbSmoothQuad rel segs .z
  | .cubicToZ rel c1 c2 => cbCubic rel segs (.pt (rc rel segs c1)) (.pt (rc rel segs c2)) .z
  | .smoothCubicToZ rel c2 => cbSmoothCubic rel segs (.pt (rc rel segs c2)) .z
  | .arcToZ rel rx ry rot fa fs => cbArc rel segs (some rx) (some ry) (some rot) (some fa) (some fs) .z

/-- run a command list on an existing path -/
def runCmds (segs : List (PSeg K)) (cmds : List (Cmd K)) : Py (List (PSeg K)) := cmds.foldlM runCmd segs

end
end Svg
