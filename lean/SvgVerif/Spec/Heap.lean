/-
  Spec/Heap.lean — object graphs and heaps for the aliasing property (C18).

  * `Case`: an *observed* pair of object graphs (source `x`, derived object `y`) as extracted from
    the running library by introspection: every object reachable through instance dictionaries,
    slots, lists, tuples and dicts is a location, `edges` are the references, `mutable` the
    locations whose objects can be mutated in place. `cx`/`cy` are candidate closures; `Case.ok`
    checks (decidably) that they are closed, contain the roots, and meet in no mutable location.
  * `Heap`: locations holding objects (`data` = immutable payload, `refs` = references).
-/
namespace Svg.Heap

abbrev Loc := Nat

structure Case where
  name : String
  x : Loc
  y : Loc
  cx : List Loc
  cy : List Loc
  mutable : List Loc
  edges : List (Loc × List Loc)

/-- `c` is closed under the references -/
def closed (edges : List (Loc × List Loc)) (c : List Loc) : Bool :=
  edges.all fun e => !(c.contains e.1) || e.2.all c.contains

def Case.ok (k : Case) : Bool :=
  k.cx.contains k.x && k.cy.contains k.y && closed k.edges k.cx && closed k.edges k.cy &&
  k.mutable.all (fun l => !(k.cx.contains l && k.cy.contains l))

/-- reachability in an observed graph -/
inductive Reach (edges : List (Loc × List Loc)) (r : Loc) : Loc → Prop
  | root : Reach edges r r
  | step {a b : Loc} {s : List Loc} : Reach edges r a → (a, s) ∈ edges → b ∈ s → Reach edges r b

/-- an object: immutable payload and references to other objects -/
structure Obj where
  data : List Int
  refs : List Loc
deriving DecidableEq, Repr

abbrev Heap := Loc → Option Obj

inductive HReach (h : Heap) (r : Loc) : Loc → Prop
  | root : HReach h r r
  | step {a b : Loc} {o : Obj} : HReach h r a → h a = some o → b ∈ o.refs → HReach h r b

/-- overwrite (or allocate) the cell `l` -/
def put (h : Heap) (l : Loc) (o : Obj) : Heap := fun a => if a = l then some o else h a

end Svg.Heap
