/-
  Props/C05.lean — property C05: endpoint-form arcs are the arcs of SVG implementation note F.6.

  Over an ordered field; `sqrt` enters as "a number whose square is …", cos/sin of the rotation
  as a pair (cosr, sinr) with cosr² + sinr² = 1, the position on the arc as a pair (ct, st) on the
  unit circle. What no theorem carries: that `t_at_point` recovers the parameter of the start
  point (KL), and the value of `acos`; both are exercised by the correspondence stream.
-/
import SvgVerif.Model.ArcParam
import Mathlib.Tactic.Ring
import Mathlib.Tactic.FieldSimp
import Mathlib.Tactic.Linarith
import Mathlib.Tactic.LinearCombination
import Mathlib.Tactic.Positivity
import Mathlib.Tactic.NormNum
import Mathlib.Algebra.Order.Field.Basic

set_option linter.unusedSectionVars false
set_option linter.unusedVariables false

namespace Svg.C05
open Svg

variable {K : Type} [Field K] [LinearOrder K] [IsStrictOrderedRing K]

/-! ### F.6.5: the centre -/

/-- (a) Both endpoints lie on the ellipse about the computed centre: in the rotated frame, with
    `c² = (rx²ry² − rx²y1'² − ry²x1'²) / (rx²y1'² + ry²x1'²)` (F.6.5.2),
    `cx' = c·rx·y1'/ry`, `cy' = −c·ry·x1'/rx`, the points `±(x1', y1')` satisfy the ellipse equation. -/
theorem C05_endpoints_on_ellipse (rx ry x1 y1 c : K) (hrx : rx ≠ 0) (hry : ry ≠ 0)
    (hne : rx * rx * (y1 * y1) + ry * ry * (x1 * x1) ≠ 0)
    (hc : c * c = (rx * rx * (ry * ry) - rx * rx * (y1 * y1) - ry * ry * (x1 * x1))
                    / (rx * rx * (y1 * y1) + ry * ry * (x1 * x1))) :
    let cx := c * rx * y1 / ry
    let cy := -c * ry * x1 / rx
    ((x1 - cx) / rx) * ((x1 - cx) / rx) + ((y1 - cy) / ry) * ((y1 - cy) / ry) = 1 ∧
    ((-x1 - cx) / rx) * ((-x1 - cx) / rx) + ((-y1 - cy) / ry) * ((-y1 - cy) / ry) = 1 := by
  have hc' : c * c * (rx * rx * (y1 * y1) + ry * ry * (x1 * x1))
      = rx * rx * (ry * ry) - rx * rx * (y1 * y1) - ry * ry * (x1 * x1) := by
    rw [hc, div_mul_cancel₀ _ hne]
  constructor
  · field_simp
    linear_combination hc'
  · field_simp
    linear_combination hc'

/-- (b) F.6.6 radius correction: scaling both radii by `s` with `s² = Λ` brings the ellipse exactly
    through both endpoints (Λ' = 1), i.e. the centre term vanishes; and it is the least uniform
    scale that does: any smaller scale leaves Λ' > 1. -/
theorem C05_radius_scaling (rx ry x1 y1 s : K) (hrx : rx ≠ 0) (hry : ry ≠ 0) (hs0 : 0 < s)
    (hs : s * s = x1 * x1 / (rx * rx) + y1 * y1 / (ry * ry)) :
    x1 * x1 / ((rx * s) * (rx * s)) + y1 * y1 / ((ry * s) * (ry * s)) = 1 ∧
    (∀ r : K, 0 < r → r < s → 1 < x1 * x1 / ((rx * r) * (rx * r)) + y1 * y1 / ((ry * r) * (ry * r))) := by
  have hs' : s ≠ 0 := ne_of_gt hs0
  constructor
  · have : x1 * x1 / ((rx * s) * (rx * s)) + y1 * y1 / ((ry * s) * (ry * s))
        = (x1 * x1 / (rx * rx) + y1 * y1 / (ry * ry)) / (s * s) := by
      field_simp
    rw [this, ← hs]; field_simp
  · intro r hr hrs
    have hr' : r ≠ 0 := ne_of_gt hr
    have e : x1 * x1 / ((rx * r) * (rx * r)) + y1 * y1 / ((ry * r) * (ry * r))
        = (s * s) / (r * r) := by
      rw [hs]; field_simp
    rw [e, lt_div_iff₀ (by positivity)]
    nlinarith

/-- (c) Every point of the arc lies on the ellipse with the given rotation and the (corrected)
    radii: with `prx = c + rx(cos φ, sin φ)`, `pry = c + ry(−sin φ, cos φ)` the position
    `c + (prx−c) cos t + (pry−c) sin t`, rotated back by φ, satisfies `x'²/rx² + y'²/ry² = 1`. -/
theorem C05_on_ellipse_all_t (cx cy rx ry cosr sinr ct st : K) (hrx : rx ≠ 0) (hry : ry ≠ 0)
    (hr : cosr * cosr + sinr * sinr = 1) (ht : ct * ct + st * st = 1) :
    let a : ArcData K := ⟨⟨0, 0⟩, ⟨0, 0⟩, ⟨cx, cy⟩, ⟨cx + rx * cosr, cy + rx * sinr⟩,
                          ⟨cx - ry * sinr, cy + ry * cosr⟩, 0⟩
    let p := a.den ct st
    let x' := cosr * (p.x - cx) + sinr * (p.y - cy)
    let y' := -sinr * (p.x - cx) + cosr * (p.y - cy)
    x' * x' / (rx * rx) + y' * y' / (ry * ry) = 1 := by
  simp only [ArcData.den]
  have e1 : cosr * (cx + (cx + rx * cosr - cx) * ct + (cx - ry * sinr - cx) * st - cx)
      + sinr * (cy + (cy + rx * sinr - cy) * ct + (cy + ry * cosr - cy) * st - cy) = rx * ct := by
    linear_combination (rx * ct) * hr
  have e2 : -sinr * (cx + (cx + rx * cosr - cx) * ct + (cx - ry * sinr - cx) * st - cx)
      + cosr * (cy + (cy + rx * sinr - cy) * ct + (cy + ry * cosr - cy) * st - cy) = ry * st := by
    linear_combination (ry * st) * hr
  rw [e1, e2]
  field_simp
  linear_combination ht

/-- the stored `prx`, `pry` are exactly those rotated axis points: `Matrix.post_rotate(φ, cx, cy)`
    applied to `(cx + rx, cy)` and `(cx, cy + ry)`. -/
theorem C05_axis_points (cx cy rx ry cosr sinr : K) :
    let rm : Mat K := Mat.postRotate Mat.identity cosr sinr cx cy
    rm.apply ⟨cx + rx, cy⟩ = ⟨cx + rx * cosr, cy + rx * sinr⟩ ∧
    rm.apply ⟨cx, cy + ry⟩ = ⟨cx - ry * sinr, cy + ry * cosr⟩ := by
  simp only [Mat.postRotate]
  split_ifs with h
  · simp only [Bool.and_eq_true, beq_iff_eq] at h
    obtain ⟨rfl, rfl⟩ := h
    simp only [Mat.postCat, Mat.mul, Mat.identity, Mat.rotateCS, Mat.apply, Pt.mk.injEq]
    refine ⟨⟨?_, ?_⟩, ⟨?_, ?_⟩⟩ <;> ring
  · simp only [Mat.postCat, Mat.postTranslate, Mat.mul, Mat.identity, Mat.rotateCS, Mat.translate,
      Mat.apply, Pt.mk.injEq]
    refine ⟨⟨?_, ?_⟩, ⟨?_, ?_⟩⟩ <;> ring

/-! ### F.6.5 step 4: direction and size of the extent -/

/-- (d) The orientation test of the code: `ux·vy − uy·vx = 2c·(rx²y1'² + ry²x1'²)/(rx²ry²)`, so its
    sign is the sign of `c`, which is negative exactly when large-arc = sweep. -/
theorem C05_cross_sign (rx ry x1 y1 c : K) (hrx : rx ≠ 0) (hry : ry ≠ 0) :
    let cx := c * rx * y1 / ry
    let cy := -c * ry * x1 / rx
    let ux := (x1 - cx) / rx
    let uy := (y1 - cy) / ry
    let vx := (-x1 - cx) / rx
    let vy := (-y1 - cy) / ry
    ux * vy - uy * vx = 2 * c * (rx * rx * (y1 * y1) + ry * ry * (x1 * x1)) / (rx * rx * (ry * ry)) := by
  simp only
  field_simp
  ring

/-- the extent in degrees as the code derives it from the unsigned angle `θ = acos(…) ∈ [0, 180]`,
    the orientation test and the sweep flag (Python `% 360` on a value in (−360, 360)) -/
def deltaOf (θ : K) (crossNeg fs : Bool) : K :=
  let δ := if crossNeg then -θ else θ
  let δ := if δ < 0 then δ + 360 else δ
  if fs then δ else δ - 360

/-- (e) **Flags**: with `c < 0 ⇔ large-arc = sweep` (so `crossNeg = (fa == fs)`) and
    `0 < θ < 180`, the arc turns in the positive direction iff the sweep flag is set, never more
    than a full turn, and spans more than a half turn iff the large-arc flag is set. -/
theorem C05_flags (θ : K) (h0 : 0 < θ) (h1 : θ < 180) (fa fs : Bool) :
    let δ := deltaOf θ (fa == fs) fs
    (fs = true → 0 < δ ∧ δ < 360) ∧ (fs = false → -360 < δ ∧ δ < 0) ∧
    (fa = true ↔ 180 < |δ|) := by
  cases fa <;> cases fs <;> simp only [deltaOf, beq_self_eq_true, Bool.false_eq_true, if_true, if_false,
    Bool.true_eq_false, IsEmpty.forall_iff, forall_true_left, true_and, and_true, true_iff, false_iff,
    not_lt, reduceCtorEq, beq_iff_eq] <;>
    (try simp only [show (false == true) = false from rfl, show (true == false) = false from rfl,
      Bool.false_eq_true, if_false])
  · -- fa = 0, fs = 0: crossNeg, δ = −θ + 360 − 360
    have hn : -θ < 0 := by linarith
    rw [if_pos hn]
    refine ⟨⟨by linarith, by linarith⟩, ?_⟩
    rw [abs_le]; constructor <;> linarith
  · -- fa = 0, fs = 1: δ = θ
    have hn : ¬ θ < 0 := by linarith
    rw [if_neg hn]
    refine ⟨⟨by linarith, by linarith⟩, ?_⟩
    rw [abs_le]; constructor <;> linarith
  · -- fa = 1, fs = 0: δ = θ − 360
    have hn : ¬ θ < 0 := by linarith
    rw [if_neg hn]
    refine ⟨⟨by linarith, by linarith⟩, ?_⟩
    rw [lt_abs]; right; linarith
  · -- fa = 1, fs = 1: δ = 360 − θ
    have hn : -θ < 0 := by linarith
    rw [if_pos hn]
    refine ⟨⟨by linarith, by linarith⟩, ?_⟩
    rw [lt_abs]; left; linarith

/-! ### Negative radii, degenerate arcs -/

theorem fabs_eq_abs (x : K) : fabs x = |x| := by
  unfold fabs; split_ifs with h
  · rw [abs_of_neg h]
  · rw [abs_of_nonneg (not_lt.mp h)]

variable [Trig K] [FMod K]

/-- (f) Negative radii act as their absolute values. -/
theorem C05_neg_radii (s e : Pt K) (rx ry rot : K) (fa fs : Bool) :
    arcOfEndpoint s e rx ry rot fa fs = arcOfEndpoint s e |rx| |ry| rot fa fs := by
  unfold arcOfEndpoint
  simp only [fabs_eq_abs, abs_abs]

/-- (g) A zero radius draws the straight line between the endpoints, coincident endpoints draw
    nothing: the arc has zero extent and `point(t)` is the line's point (resp. the start point). -/
theorem C05_degenerate (s e : Pt K) (rx ry rot : K) (fa fs : Bool) (t : K)
    (h : ptEq s e = true ∨ rx = 0 ∨ ry = 0) :
    (arcOfEndpoint s e rx ry rot fa fs).sweep = 0 ∧
    (arcOfEndpoint s e rx ry rot fa fs).start = s ∧ (arcOfEndpoint s e rx ry rot fa fs).end_ = e ∧
    (arcOfEndpoint s e rx ry rot fa fs).point t = (if ptEq s e then s else Pt.towards s e t) := by
  have hc : (ptEq s e || fabs rx == 0 || fabs ry == 0) = true := by
    rcases h with h | h | h
    · simp [h]
    · subst h; simp [fabs]
    · subst h; simp [fabs]
  unfold arcOfEndpoint
  simp only [hc, if_true, ArcData.point, beq_self_eq_true, Bool.and_true]
  exact ⟨trivial, trivial, trivial, trivial⟩

/-! ### Non-vacuity -/
example : deltaOf (K := ℚ) 90 true false = -90 := by simp [deltaOf]
example : ∃ c : ℚ, c * c = ((5:ℚ) * 5 * (5 * 5) - 5 * 5 * (0 * 0) - 5 * 5 * (3 * 3)) / (5 * 5 * (0 * 0) + 5 * 5 * (3 * 3)) :=
  ⟨4 / 3, by norm_num⟩

end Svg.C05
