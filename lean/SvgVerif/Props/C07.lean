/-
  Props/C07.lean — Serialising a path to path data and re-parsing it reproduces the path.

  The logical content of the round trip, with an exact number printer: whatever `relative` and
  `smooth` options are chosen (each None/False/True), the command list `svg_d` emits for a valid
  path is interpreted back to the same segments — the writer's re-derived relative offsets
  re-accumulate to the same points, and a curve is written in smooth shorthand (S/T) exactly when
  the reader's reflection rule reconstructs its control point. Holds over every commutative
  additive group of scalars, for paths of every length, with any number of subpaths, closes, and
  subpaths begun without a move.
-/
import SvgVerif.Model.PathPrint
import SvgVerif.Props.C01
import Mathlib.Tactic.Abel
import Mathlib.Algebra.Order.Group.Defs
namespace Svg
namespace C07

variable {K : Type} [AddCommGroup K] [LinearOrder K] [IsOrderedAddMonoid K]

/-- geometry of a segment: the `relative`/`smooth` memory flags erased -/
def geom : PSeg K → PSeg K
  | .move _ s e => .move false s e
  | .line _ s e => .line false s e
  | .close _ s e => .close false s e
  | .quad _ _ s c e => .quad false false s c e
  | .cubic _ _ s c1 c2 e => .cubic false false s c1 c2 e
  | .arc _ s rx ry rot fa fs e => .arc false s rx ry rot fa fs e

theorem off_sub (cur e : Pt K) : offs true cur (ptSub e cur) = e := by
  cases e; cases cur; simp [offs, ptSub]

theorem off_abs (cur e : Pt K) : offs false cur e = e := rfl

/-- every control point is present; arc radii are stored non-negative -/
def FieldsOK : PSeg K → Prop
  | .quad _ _ _ c _ => c.isSome
  | .cubic _ _ _ c1 c2 _ => c1.isSome ∧ c2.isSome
  | .arc _ _ rx ry _ _ _ _ => ¬ rx < 0 ∧ ¬ ry < 0
  | _ => True

theorem absR_nonneg (x : K) : ¬ absR x < 0 := by
  unfold absR
  split
  · rename_i h; intro h2; have := neg_pos.mpr h; exact absurd (lt_trans this h2) (lt_irrefl _)
  · assumption

theorem absR_of_nonneg {x : K} (h : ¬ x < 0) : absR x = x := by
  unfold absR; simp [h]

/-- a segment the interpreter can have drawn from state `st`, leaving state `st'` -/
structure SegOK (st : IState K) (s : PSeg K) (st' : IState K) : Prop where
  start : s.start? = some st.cur
  end_ : s.end? = some st'.cur
  sub : st'.start = if s.isMove then st'.cur else st.start
  close : s.isClose = true → st'.cur = st.start
  ctrl : st'.ctrl = C01.ctrlOf s
  fields : FieldsOK s

theorem specStep_segOK (st : IState K) (c : Cmd K) : SegOK st (specStep st c).1 (specStep st c).2 := by
  cases c <;> exact ⟨rfl, rfl, rfl, by simp [specStep, PSeg.isClose], rfl, by simp [specStep, FieldsOK, absR_nonneg]⟩

/-- what `svg_d` knows about the previous segment agrees with the interpreter's state -/
structure PrevOK (prev : Option (PSeg K)) (st : IState K) : Prop where
  ctrl : st.ctrl = (match prev with | some p => C01.ctrlOf p | none => none)
  end_ : ∀ p, prev = some p → p.end? = some st.cur
  defined : ∀ p, prev = some p → C01.ctrlDefined p

theorem istate_ext {a b : IState K} (h1 : a.cur = b.cur) (h2 : a.start = b.start) (h3 : a.ctrl = b.ctrl) : a = b := by
  cases a; cases b; simp_all

/-- `eqv` is sound: what `Point.__eq__` accepts is equal (exact printer; the library's 1e-12 tolerance
    is part of the numeric bound handled outside the model) -/
def EqvSound (eqv : Pt K → Pt K → Bool) : Prop := ∀ a b, eqv a b = true → a = b

theorem refl_of_sub {cur c pc : Pt K} (h : ptSub c cur = ptSub cur pc) :
    c = ⟨cur.x + (cur.x - pc.x), cur.y + (cur.y - pc.y)⟩ := by
  cases c; cases cur; cases pc
  simp only [ptSub, Pt.mk.injEq] at h ⊢
  obtain ⟨h1, h2⟩ := h
  constructor
  · have : _ = _ := h1; rw [sub_eq_iff_eq_add] at h1; rw [h1]; abel
  · rw [sub_eq_iff_eq_add] at h2; rw [h2]; abel

/-- `is_smooth_from` (quadratic) accepts exactly when the reader's reflection rule gives this control -/
theorem quadSmooth_reflect (eqv : Pt K → Pt K → Bool) (he : EqvSound eqv) {prev : Option (PSeg K)} {st : IState K}
    (hp : PrevOK prev st) {c : Pt K} (h : quadSmoothFrom eqv prev st.cur c = true) : reflected false st = c := by
  unfold quadSmoothFrom at h
  split at h
  · rename_i r sm a pc pe
    have hctrl : st.ctrl = some (false, pc) := by have := hp.ctrl; simpa [C01.ctrlOf] using this
    have hend := hp.end_ _ rfl
    simp only [PSeg.end?, Option.some.injEq] at hend
    simp only [Bool.and_eq_true] at h
    have h2 := he _ _ h.2
    rw [hend] at h2
    have := refl_of_sub h2
    simp [reflected, hctrl, this]
  · rename_i hne
    have hc := he _ _ h
    subst hc
    unfold reflected
    cases hs : st.ctrl with
    | none => rfl
    | some dq =>
      obtain ⟨deg, q⟩ := dq
      cases deg with
      | true => simp
      | false =>
        exfalso
        have h0 := hp.ctrl
        rw [hs] at h0
        cases prev with
        | none => simp at h0
        | some p =>
          have hend := hp.end_ p rfl
          cases p <;> simp only [C01.ctrlOf] at h0 <;> try (simp at h0)
          case quad r sm a pc pe =>
            cases pc with
            | none => simp [C01.ctrlOf] at h0
            | some pc =>
              cases pe with
              | none => simp [PSeg.end?] at hend
              | some pe => exact hne r sm a pc pe rfl
          case cubic r sm a c1 c2 e =>
            cases c2 <;> simp [C01.ctrlOf] at h0

/-- `is_smooth_from` (cubic) accepts exactly when the reader's reflection rule gives this first control -/
theorem cubicSmooth_reflect (eqv : Pt K → Pt K → Bool) (he : EqvSound eqv) {prev : Option (PSeg K)} {st : IState K}
    (hp : PrevOK prev st) {c1 : Pt K} (h : cubicSmoothFrom eqv prev st.cur c1 = true) : reflected true st = c1 := by
  unfold cubicSmoothFrom at h
  split at h
  · rename_i r sm a pc1 pc2 pe
    have hctrl : st.ctrl = some (true, pc2) := by have := hp.ctrl; simpa [C01.ctrlOf] using this
    have hend := hp.end_ _ rfl
    simp only [PSeg.end?, Option.some.injEq] at hend
    simp only [Bool.and_eq_true] at h
    have h2 := he _ _ h.2
    rw [hend] at h2
    have := refl_of_sub h2
    simp [reflected, hctrl, this]
  · rename_i hne
    have hc := he _ _ h
    subst hc
    unfold reflected
    cases hs : st.ctrl with
    | none => rfl
    | some dq =>
      obtain ⟨deg, q⟩ := dq
      cases deg with
      | false => simp
      | true =>
        exfalso
        have h0 := hp.ctrl
        rw [hs] at h0
        cases prev with
        | none => simp at h0
        | some p =>
          have hend := hp.end_ p rfl
          cases p <;> simp only [C01.ctrlOf] at h0 <;> try (simp at h0)
          case cubic r sm a pc1 pc2 pe =>
            cases pc2 with
            | none => simp [C01.ctrlOf] at h0
            | some pc2 =>
              cases pe with
              | none => simp [PSeg.end?] at hend
              | some pe => exact hne r sm a pc1 pc2 pe rfl
          case quad r sm a c e =>
            cases c <;> simp [C01.ctrlOf] at h0

/-- **One segment.** Whatever options are chosen, the command `svg_d` writes for a segment the
    interpreter drew is interpreted back to the same geometry and the same interpreter state. -/
theorem print_step (eqv : Pt K → Pt K → Bool) (he : EqvSound eqv) (o : DOpts) {st st' : IState K} {s : PSeg K}
    {prev : Option (PSeg K)} (hs : SegOK st s st') (hp : PrevOK prev st) :
    ∃ c, dCmd eqv o prev st.cur s = some c ∧ geom (specStep st c).1 = geom s ∧ (specStep st c).2 = st' := by
  obtain ⟨h1, h2, h3, h4, h5, h6⟩ := hs
  cases s with
  | move r a e =>
    simp only [PSeg.start?, PSeg.end?] at h1 h2; subst h1 h2
    simp only [PSeg.isMove, if_true] at h3
    cases hr : o.relFor r with
    | false =>
      exact ⟨.moveTo false st'.cur, by simp [dCmd, hr], by simp [specStep, geom, off_abs],
             istate_ext (by simp [specStep, off_abs]) (by simp [specStep, off_abs, h3]) (by simp [specStep, h5, C01.ctrlOf])⟩
    | true =>
      exact ⟨.moveTo true (ptSub st'.cur st.cur), by simp [dCmd, hr], by simp [specStep, geom, off_sub],
             istate_ext (by simp [specStep, off_sub]) (by simp [specStep, off_sub, h3]) (by simp [specStep, h5, C01.ctrlOf])⟩
  | line r a e =>
    simp only [PSeg.start?, PSeg.end?] at h1 h2; subst h1 h2
    simp only [PSeg.isMove] at h3
    cases hr : o.relFor r with
    | false =>
      exact ⟨.lineTo false st'.cur, by simp [dCmd, hr], by simp [specStep, geom, off_abs],
             istate_ext (by simp [specStep, off_abs]) (by simp [specStep, h3]) (by simp [specStep, h5, C01.ctrlOf])⟩
    | true =>
      exact ⟨.lineTo true (ptSub st'.cur st.cur), by simp [dCmd, hr], by simp [specStep, geom, off_sub],
             istate_ext (by simp [specStep, off_sub]) (by simp [specStep, h3]) (by simp [specStep, h5, C01.ctrlOf])⟩
  | close r a e =>
    simp only [PSeg.start?, PSeg.end?] at h1 h2; subst h1 h2
    simp only [PSeg.isMove] at h3
    have hc := h4 rfl
    exact ⟨.closePath (o.relFor r), rfl, by simp [specStep, geom, hc],
           istate_ext (by simp [specStep, hc]) (by simp [specStep, h3]) (by simp [specStep, h5, C01.ctrlOf])⟩
  | arc r a rx ry rot fa fs e =>
    simp only [PSeg.start?, PSeg.end?, Option.some.injEq] at h1 h2; subst h1 h2
    simp only [PSeg.isMove] at h3
    obtain ⟨hrx, hry⟩ := h6
    cases hr : o.relFor r with
    | false =>
      exact ⟨.arcTo false rx ry rot fa fs st'.cur, by simp [dCmd, hr],
             by simp [specStep, geom, off_abs, absR_of_nonneg hrx, absR_of_nonneg hry],
             istate_ext (by simp [specStep, off_abs]) (by simp [specStep, h3]) (by simp [specStep, h5, C01.ctrlOf])⟩
    | true =>
      exact ⟨.arcTo true rx ry rot fa fs (ptSub st'.cur st.cur), by simp [dCmd, hr],
             by simp [specStep, geom, off_sub, absR_of_nonneg hrx, absR_of_nonneg hry],
             istate_ext (by simp [specStep, off_sub]) (by simp [specStep, h3]) (by simp [specStep, h5, C01.ctrlOf])⟩
  | quad r sm a c e =>
    simp only [PSeg.start?, PSeg.end?] at h1 h2; subst h1 h2
    simp only [PSeg.isMove] at h3
    obtain ⟨c, rfl⟩ := Option.isSome_iff_exists.mp h6
    cases hsm : (o.smoothFor sm && quadSmoothFrom eqv prev st.cur c) with
    | false =>
      cases hr : o.relFor r with
      | false =>
        exact ⟨.quadTo false c st'.cur, by simp [dCmd, hr, hsm], by simp [specStep, geom, off_abs],
               istate_ext (by simp [specStep, off_abs]) (by simp [specStep, h3]) (by simp [specStep, h5, C01.ctrlOf, off_abs])⟩
      | true =>
        exact ⟨.quadTo true (ptSub c st.cur) (ptSub st'.cur st.cur), by simp [dCmd, hr, hsm], by simp [specStep, geom, off_sub],
               istate_ext (by simp [specStep, off_sub]) (by simp [specStep, h3]) (by simp [specStep, h5, C01.ctrlOf, off_sub])⟩
    | true =>
      have hq : quadSmoothFrom eqv prev st.cur c = true := by
        simp only [Bool.and_eq_true] at hsm; exact hsm.2
      have hrefl := quadSmooth_reflect eqv he hp hq
      cases hr : o.relFor r with
      | false =>
        exact ⟨.smoothQuadTo false st'.cur, by simp [dCmd, hr, hsm], by simp [specStep, geom, off_abs, hrefl],
               istate_ext (by simp [specStep, off_abs]) (by simp [specStep, h3]) (by simp [specStep, h5, C01.ctrlOf, hrefl])⟩
      | true =>
        exact ⟨.smoothQuadTo true (ptSub st'.cur st.cur), by simp [dCmd, hr, hsm], by simp [specStep, geom, off_sub, hrefl],
               istate_ext (by simp [specStep, off_sub]) (by simp [specStep, h3]) (by simp [specStep, h5, C01.ctrlOf, hrefl])⟩
  | cubic r sm a c1 c2 e =>
    simp only [PSeg.start?, PSeg.end?] at h1 h2; subst h1 h2
    simp only [PSeg.isMove] at h3
    obtain ⟨hc1, hc2⟩ := h6
    obtain ⟨c1, rfl⟩ := Option.isSome_iff_exists.mp hc1
    obtain ⟨c2, rfl⟩ := Option.isSome_iff_exists.mp hc2
    cases hsm : (o.smoothFor sm && cubicSmoothFrom eqv prev st.cur c1) with
    | false =>
      cases hr : o.relFor r with
      | false =>
        exact ⟨.cubicTo false c1 c2 st'.cur, by simp [dCmd, hr, hsm], by simp [specStep, geom, off_abs],
               istate_ext (by simp [specStep, off_abs]) (by simp [specStep, h3]) (by simp [specStep, h5, C01.ctrlOf, off_abs])⟩
      | true =>
        exact ⟨.cubicTo true (ptSub c1 st.cur) (ptSub c2 st.cur) (ptSub st'.cur st.cur), by simp [dCmd, hr, hsm],
               by simp [specStep, geom, off_sub],
               istate_ext (by simp [specStep, off_sub]) (by simp [specStep, h3]) (by simp [specStep, h5, C01.ctrlOf, off_sub])⟩
    | true =>
      have hq : cubicSmoothFrom eqv prev st.cur c1 = true := by
        simp only [Bool.and_eq_true] at hsm; exact hsm.2
      have hrefl := cubicSmooth_reflect eqv he hp hq
      cases hr : o.relFor r with
      | false =>
        exact ⟨.smoothCubicTo false c2 st'.cur, by simp [dCmd, hr, hsm], by simp [specStep, geom, off_abs, hrefl],
               istate_ext (by simp [specStep, off_abs]) (by simp [specStep, h3]) (by simp [specStep, h5, C01.ctrlOf, off_abs])⟩
      | true =>
        exact ⟨.smoothCubicTo true (ptSub c2 st.cur) (ptSub st'.cur st.cur), by simp [dCmd, hr, hsm],
               by simp [specStep, geom, off_sub, hrefl],
               istate_ext (by simp [specStep, off_sub]) (by simp [specStep, h3]) (by simp [specStep, h5, C01.ctrlOf, off_sub])⟩

theorem prevOK_of_segOK {st st' : IState K} {s : PSeg K} (h : SegOK st s st') : PrevOK (some s) st' := by
  refine ⟨h.ctrl, fun p hp => by cases hp; exact h.end_, fun p hp => ?_⟩
  cases hp
  have := h.fields
  cases s <;> simp_all [FieldsOK, C01.ctrlDefined]

/-- every command list, from any interpreter state: what `svg_d` writes for the drawn segments is
    read back as the same geometry -/
theorem print_run (eqv : Pt K → Pt K → Bool) (he : EqvSound eqv) (o : DOpts) (cs : List (Cmd K)) :
    ∀ (st : IState K) (prev : Option (PSeg K)), PrevOK prev st →
      ∃ cs', dCmds eqv o prev st.cur (specRun st cs) = some cs' ∧ (specRun st cs').map geom = (specRun st cs).map geom := by
  induction cs with
  | nil => intro st prev _; exact ⟨[], rfl, rfl⟩
  | cons c cs ih =>
    intro st prev hp
    have hs := specStep_segOK st c
    obtain ⟨c', h1, h2, h3⟩ := print_step eqv he o hs hp
    obtain ⟨cs', h4, h5⟩ := ih (specStep st c).2 (some (specStep st c).1) (prevOK_of_segOK hs)
    refine ⟨c' :: cs', ?_, ?_⟩
    · simp only [specRun, dCmds, h1, hs.end_, h4]
    · simp only [specRun, List.map_cons, h2, h3, h5]

/-- **C07 (exact printer).** For every valid path (the interpretation of any conforming command
    list: any segment mix, several subpaths, closes, subpaths begun without their own move) and every
    choice of `relative ∈ {None, False, True}` and `smooth ∈ {None, False, True}`, the command list
    `d()` writes is conforming and its interpretation has the same number, kinds and coordinates of
    segments as the path. -/
theorem C07_exact_printer (eqv : Pt K → Pt K → Bool) (he : EqvSound eqv) (o : DOpts) (cmds : List (Cmd K))
    (path : List (PSeg K)) (h : interp cmds = some path) :
    ∃ written, pathD eqv o path = some written ∧
      ∃ reread, interp written = some reread ∧ reread.map geom = path.map geom := by
  cases cmds with
  | nil => simp [interp] at h
  | cons c cs =>
    cases c <;> simp only [interp, Option.some.injEq, reduceCtorEq] at h
    case moveTo rel p =>
      subst h
      have hp : PrevOK (some (PSeg.move rel none (some p))) (⟨p, p, none⟩ : IState K) :=
        ⟨rfl, fun q hq => by cases hq; rfl, fun q hq => by cases hq; trivial⟩
      obtain ⟨cs', h4, h5⟩ := print_run eqv he o cs ⟨p, p, none⟩ _ hp
      have hz : ptSub p (⟨0, 0⟩ : Pt K) = p := by cases p; simp [ptSub]
      cases hr : o.relFor rel with
      | false =>
        exact ⟨.moveTo false p :: cs', by simp [pathD, dCmds, dCmd, hr, PSeg.end?, h4],
               _, rfl, by simp [geom, h5]⟩
      | true =>
        exact ⟨.moveTo true (ptSub p ⟨0, 0⟩) :: cs', by simp [pathD, dCmds, dCmd, hr, PSeg.end?, h4],
               _, rfl, by simp [geom, hz, h5]⟩

/-- and the library's builder reads it back to exactly that (C01) -/
theorem C07_roundtrip_through_builder (eqv : Pt K → Pt K → Bool) (he : EqvSound eqv) (o : DOpts) (cmds : List (Cmd K))
    (path : List (PSeg K)) (h : interp cmds = some path) :
    ∃ written reread, pathD eqv o path = some written ∧ runCmds [] written = .ok reread ∧
      reread.map geom = path.map geom := by
  obtain ⟨w, h1, r, h2, h3⟩ := C07_exact_printer eqv he o cmds path h
  exact ⟨w, r, h1, C01.C01_builder_refines_interp _ _ h2, h3⟩

/-- `str(path)` and `Subpath.d()` are instances of the same function: `str` is `d()` with both
    options None; a subpath view prints its window with `svg_d`, whose running point starts at the
    origin for a window that begins with a move — the statement above with `o = ⟨none, none⟩`. -/
theorem C07_str (eqv : Pt K → Pt K → Bool) (he : EqvSound eqv) (cmds : List (Cmd K))
    (path : List (PSeg K)) (h : interp cmds = some path) :
    ∃ written reread, pathD eqv ⟨none, none⟩ path = some written ∧ interp written = some reread ∧
      reread.map geom = path.map geom := by
  obtain ⟨w, h1, r, h2, h3⟩ := C07_exact_printer eqv he ⟨none, none⟩ cmds path h
  exact ⟨w, r, h1, h2, h3⟩

end C07
end Svg
