/-
  Props/C14.lean — fill, stroke and stroke width follow the SVG/CSS cascade and inheritance.

  Property theorems (helpers: Proofs/DocCascade.lean). The library has no cascade data structure:
  it concatenates rule texts and the inline style into one string in a fixed order, splits it at
  `;` and `:`, and lets the last assignment win; inheritance is a wholesale copy of the parent's
  dictionary. The theorems say what that amounts to, for every style sheet, element and nesting.
-/
import SvgVerif.Proofs.DocCascade
import SvgVerif.Proofs.DocLoop
import SvgVerif.Model.DocShape
import SvgVerif.Props.C04
import Mathlib.Algebra.Order.AbsoluteValue.Basic
namespace Svg.Doc
set_option linter.unusedSectionVars false

/-! ### 1. the assembled style text is the list of sources in cascade order -/

/-- the declarations of the rules stored for one selector -/
def ruleDecls (styles : Dict) (sel : String) : List (String × String) :=
  match Dict.get styles sel with
  | some v => decls v
  | none => []

/-- per class, in class-attribute order: `.class` then `type.class` -/
def classDecls (styles : Dict) (tag : String) (classes : List (List Char)) : List (String × String) :=
  classes.flatMap fun c =>
    ruleDecls styles ("." ++ String.ofList c) ++ ruleDecls styles (tag ++ "." ++ String.ofList c)

/-- the sources of an element's style in the order the library applies them:
    universal, type, classes, id, inline -/
def sourceDecls (styles : Dict) (tag : String) (attrs : Dict) : List (String × String) :=
  ruleDecls styles "*" ++ ruleDecls styles tag ++
  (match Dict.get attrs "class" with
   | some cls => classDecls styles tag (splitOn ' ' cls.toList)
   | none => []) ++
  (match Dict.get attrs "id" with
   | some i => ruleDecls styles ("#" ++ i)
   | none => []) ++
  (match Dict.get attrs "style" with
   | some v => decls v
   | none => [])

theorem decls_addSel (styles : Dict) (s sel : String) :
    decls (addSel styles s sel) = decls s ++ ruleDecls styles sel := by
  unfold addSel ruleDecls
  cases Dict.get styles sel with
  | none => simp
  | some v => simp [decls_join]

theorem decls_classes (styles : Dict) (tag : String) (cs : List (List Char)) (s : String) :
    decls (cs.foldl (fun st c =>
        addSel styles (addSel styles st ("." ++ String.ofList c)) (tag ++ "." ++ String.ofList c)) s)
      = decls s ++ classDecls styles tag cs := by
  induction cs generalizing s with
  | nil => simp [classDecls]
  | cons c r ih =>
    simp only [List.foldl_cons]
    rw [ih, decls_addSel, decls_addSel]
    simp [classDecls, List.append_assoc]

/-- **Cascade order.** For every rule table, element type and attribute dictionary, the style text
    the library assembles is, declaration for declaration, the concatenation of the element's
    sources in the order universal < type < class / type.class < id < inline. -/
theorem C14_style_text_is_ordered_sources (styles : Dict) (tag : String) (attrs : Dict) :
    decls (styleText styles tag attrs) = sourceDecls styles tag attrs := by
  unfold styleText sourceDecls
  cases Dict.get attrs "style" <;> cases Dict.get attrs "id" <;> cases Dict.get attrs "class" <;>
    simp [decls_join, decls_addSel, decls_classes, decls_empty, List.append_assoc]

/-! ### 1b. a selector that occurs in several rule blocks accumulates them in sheet order -/

theorem decls_semicolon (a b : String) : decls (a ++ ";" ++ b) = decls a ++ decls b := by
  unfold decls
  rw [String.toList_append, String.toList_append]
  have : (";" : String).toList = [';'] := rfl
  rw [this, List.append_assoc, List.singleton_append, splitOn_append, List.filterMap_append]

/-- **Accumulation.** When a selector already has rule text `old` and another block for it brings
    `value`, the stored text becomes `old;value` — or `oldvalue` when `old` already ends in `;` —
    and in both cases its declarations are those of `old` followed by those of `value`: blocks of
    one selector apply in sheet order, whether or not they end with a semicolon. -/
theorem C14_repeated_selector_accumulates (old value : String) :
    decls ((if old.toList.getLast? = some ';' then old else old ++ ";") ++ value) = decls old ++ decls value := by
  split
  · rename_i h
    obtain ⟨ys, hys⟩ := List.getLast?_eq_some_iff.mp h
    have h1 : decls old = (splitOn ';' ys).filterMap declOf := by
      unfold decls
      rw [hys]
      have : ys ++ [';'] = ys ++ ';' :: [] := rfl
      rw [this, splitOn_append, List.filterMap_append]
      simp [splitOn, declOf]
    unfold decls at h1 ⊢
    rw [String.toList_append, hys]
    have : ys ++ [';'] ++ value.toList = ys ++ ';' :: value.toList := by simp
    rw [this, splitOn_append, List.filterMap_append]
    rw [hys] at h1
    rw [h1]
  · exact decls_semicolon old value

/-! ### 2. the specified value of a property: the last source that declares it -/

/-- the element's attribute dictionary before styles: XML attributes plus the `tag` entry -/
def ownAttrs (tag : String) (attrs : List (String × String)) : Dict := Dict.set (Dict.update [] attrs) "tag" tag

/-- the element's attributes after rules and inline style, before `currentColor` -/
def styled (styles : Dict) (tag : String) (attrs : List (String × String)) : Dict :=
  applyStyle (ownAttrs tag attrs) (styleText styles tag (ownAttrs tag attrs))

/-- **Specified value.** The value of any property `k` after rules and inline style is the one of
    the last declaration of `k` in the ordered sources, and the presentation attribute when no
    source declares it. -/
theorem C14_specified_value (styles : Dict) (tag : String) (attrs : List (String × String)) (k : String) :
    Dict.get (styled styles tag attrs) k =
      lastFrom (Dict.get (ownAttrs tag attrs) k) (sourceDecls styles tag (ownAttrs tag attrs)) k := by
  unfold styled
  rw [applyStyle_eq, get_foldl_set, C14_style_text_is_ordered_sources]

/-- **A later source overrides every earlier one**, and an absent one changes nothing. -/
theorem C14_later_source_overrides (acc : Option String) (early late : List (String × String)) (k : String) :
    ((∃ v, (k, v) ∈ late) → lastFrom acc (early ++ late) k = lastFrom none late k) ∧
    ((∀ v, (k, v) ∉ late) → lastFrom acc (early ++ late) k = lastFrom acc early k) := by
  constructor
  · intro h; rw [lastFrom_append]; exact lastFrom_indep _ _ _ _ h
  · intro h; rw [lastFrom_append]; exact lastFrom_none _ _ _ h

/-- **Inline style beats everything**: if the inline style declares `k`, no rule of any selector
    kind and no presentation attribute matters. -/
theorem C14_inline_overrides (styles : Dict) (tag : String) (attrs : List (String × String)) (k inline : String)
    (hs : Dict.get (ownAttrs tag attrs) "style" = some inline) (hk : ∃ v, (k, v) ∈ decls inline) :
    Dict.get (styled styles tag attrs) k = lastFrom none (decls inline) k := by
  rw [C14_specified_value]
  unfold sourceDecls
  rw [hs]
  exact (C14_later_source_overrides _ _ _ k).1 hk

/-- **An id rule beats class, type and universal rules and the attribute** when the inline style
    is silent on `k`. -/
theorem C14_id_overrides_class_type_universal (styles : Dict) (tag : String) (attrs : List (String × String))
    (k i : String) (hi : Dict.get (ownAttrs tag attrs) "id" = some i)
    (hinl : ∀ inline, Dict.get (ownAttrs tag attrs) "style" = some inline → ∀ v, (k, v) ∉ decls inline)
    (hk : ∃ v, (k, v) ∈ ruleDecls styles ("#" ++ i)) :
    Dict.get (styled styles tag attrs) k = lastFrom none (ruleDecls styles ("#" ++ i)) k := by
  rw [C14_specified_value]
  unfold sourceDecls
  rw [hi]
  have hlast : ∀ v, (k, v) ∉ (match Dict.get (ownAttrs tag attrs) "style" with | some v => decls v | none => []) := by
    cases hs : Dict.get (ownAttrs tag attrs) "style" with
    | none => simp
    | some inline => exact hinl inline hs
  rw [(C14_later_source_overrides _ _ _ k).2 hlast]
  exact (C14_later_source_overrides _ _ _ k).1 hk

/-- **The presentation attribute is the weakest source**: it shows exactly when nothing declares `k`. -/
theorem C14_attribute_when_unstyled (styles : Dict) (tag : String) (attrs : List (String × String)) (k : String)
    (h : ∀ v, (k, v) ∉ sourceDecls styles tag (ownAttrs tag attrs)) :
    Dict.get (styled styles tag attrs) k = Dict.get (ownAttrs tag attrs) k := by
  rw [C14_specified_value]; exact lastFrom_none _ _ _ h

/-- non-vacuity: an id rule, a class rule, a type rule and an attribute all set `fill`; the id
    rule wins, and with an inline declaration the inline style does -/
example : Dict.get (styled [("rect", "fill:green"), (".a", "fill:red"), ("#r", "fill:blue")] "rect"
    [("id", "r"), ("class", "a"), ("fill", "orange")]) "fill" = some "blue" := by decide
example : Dict.get (styled [("rect", "fill:green"), (".a", "fill:red"), ("#r", "fill:blue")] "rect"
    [("id", "r"), ("class", "a"), ("fill", "orange"), ("style", "stroke:red; fill : teal")]) "fill" = some "teal" := by decide

/-! ### 3. currentColor -/

/-- **currentColor** is replaced by the element's own `color` if it has one, else by the
    inherited `color` (which `parse(color=…)` seeds at the root). -/
theorem C14_current_color (a inh : Dict) (key : String) (h : Dict.get a key = some "currentColor") :
    Dict.get (currentColor a inh key) key =
      (match Dict.get a "color" with
       | some c => some c
       | none => match Dict.get inh "color" with | some c => some c | none => some "currentColor") := by
  unfold currentColor
  simp only [h, if_true]
  cases Dict.get a "color" with
  | some c => simp [Dict.get_set]
  | none =>
    cases Dict.get inh "color" with
    | some c => simp [Dict.get_set]
    | none => simp [h]

theorem C14_not_current_color (a inh : Dict) (key : String) (h : Dict.get a key ≠ some "currentColor") :
    currentColor a inh key = a := by
  unfold currentColor; simp [h]

/-! ### 4. inheritance -/

section
variable {K : Type} [Add K] [Sub K] [Mul K] [Div K] [Neg K] [Zero K] [One K] [BEq K]
  [LT K] [DecidableLT K] [LE K] [DecidableLE K] [NatCast K]

theorem get_inheritDict (d : Dict) (k : String) (h : k ∉ nonPropagating) : Dict.get (inheritDict d) k = Dict.get d k :=
  Dict.get_eraseAll_ne _ _ _ h

theorem get_validAttrs (cfg : Cfg K) (a : Dict) (k : String) (hk : k ≠ "transform") :
    Dict.get (validAttrs cfg a) k = Dict.get a k := by
  unfold validAttrs
  split
  · split
    · exact Dict.get_erase_ne' _ _ _ hk
    · rfl
  · rfl

/-- **Inheritance, one level.** For every property that propagates (everything but
    preserveAspectRatio, viewBox, id, class, clip-path; `transform` accumulates instead): the
    element's computed value is its own compiled value when it has one, else its parent's
    computed value — whatever the tag. -/
theorem C14_inheritance (cfg : Cfg K) (styles : Dict) (f : Frame K) (tag : String) (attrs : List (String × String))
    (k : String) (hk : k ∉ nonPropagating) (ht : k ≠ "transform") :
    Dict.get (compileVals cfg styles f tag attrs).d k =
      (match Dict.get (compileAttrs styles f.vals.d tag attrs) k with
       | some v => some v
       | none => Dict.get f.vals.d k) := by
  unfold compileVals
  simp only []
  rw [Dict.get_update_rev, get_inheritDict _ _ hk, get_validAttrs cfg _ k ht]
  rfl

/-- the scope an element passes to its children keeps every computed value except the geometry
    keys that `svg` and `use` strip (and `display`, which a zero-sized nested svg sets to none) -/
theorem dispatch_keeps (cfg : Cfg K) (f : Frame K) (vals : Vals K) (tag : String) (k : String)
    (hk : k ∉ ["x", "y", "width", "height"]) (hd : k ≠ "display") :
    Dict.get (dispatch cfg f vals tag).1.vals.d k = Dict.get vals.d k := by
  unfold dispatch
  repeat' split
  all_goals first
    | rfl
    | (simp only [Dict.get_set]; simp [Ne.symm hd]; done)
    | (rename_i e
       unfold svgEnter at e
       simp only [] at e
       repeat' split at e
       all_goals first
         | (cases e; done)
         | (injection e with e1 _ _; subst e1; exact Dict.get_eraseAll_ne _ _ _ hk))
    | (rename_i e
       unfold useEnter at e
       simp only [] at e
       repeat' split at e
       all_goals first
         | (cases e; done)
         | (injection e with e1; subst e1; exact Dict.get_eraseAll_ne _ _ _ hk))

/-- **Inheritance, through any container.** A paint property the element does not set is handed
    to its children exactly as the element received it — through g, svg, defs, use alike. -/
theorem C14_unset_property_passes_through (cfg : Cfg K) (styles : Dict) (f : Frame K) (tag : String)
    (attrs : List (String × String)) (k : String) (hk : k ∉ nonPropagating) (ht : k ≠ "transform")
    (hg : k ∉ ["x", "y", "width", "height"]) (hd : k ≠ "display")
    (hunset : Dict.get (compileAttrs styles f.vals.d tag attrs) k = none) :
    Dict.get (enter cfg styles f tag attrs).1.vals.d k = Dict.get f.vals.d k := by
  unfold enter
  split
  · rfl
  · rw [dispatch_keeps cfg f _ tag k hg hd, C14_inheritance cfg styles f tag attrs k hk ht, hunset]

end

/-! ### 5. reified stroke width -/

section Stroke
variable {K : Type} [Field K] [LinearOrder K] [IsStrictOrderedRing K]
open Svg.Mat Svg.C04

/-- **Stroke scale is multiplicative.** If a shape's accumulated transform is `R` after `S`
    (what reification absorbed, then the residual it kept), scale factors `s`, `r` with
    `s² = |det S|`, `r² = |det R|` multiply to a factor of the whole: `(s·r)² = |det (S·R)|`. Hence
    `reified width × √|det residual| = declared × √|det CTM|`, whatever part could be reified. -/
theorem C14_stroke_scale (S R : Mat K) (s r : K) (hs : s * s = |det S|) (hr : r * r = |det R|) :
    (s * r) * (s * r) = |det (mul S R)| := by
  rw [C04_det_mul, abs_mul, ← hs, ← hr]; ring

end Stroke

end Svg.Doc
