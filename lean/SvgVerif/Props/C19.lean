/-
  Props/C19.lean — property C19: arc-to-Bézier conversion keeps endpoints, continuity and a
  bounded error.

  Carried by theorems (every arc, every count, every path length — induction):
  * chain shape: `as_cubic_curves` / `as_quad_curves` return exactly `n` curves of the right kind, the
    first starts at the arc's start, each next one starts exactly where its predecessor ended, the
    last ends exactly at the arc's end; count 0 gives nothing; a zero-radius arc gives the one
    straight curve;
  * affine reduction: every slice is the image, under the affine map `L` taking the unit circle to
    the arc's ellipse, of the corresponding slice on the unit circle (cubic and quadratic), and `L`
    moves a point at distance δ from a unit-circle point to within `max(rx,ry)·δ` of the ellipse point —
    so the relative error on any ellipse is at most the error on the unit circle;
  * splice: in a path whose connections are exact, replacing every arc by its chain and
    re-validating (`self[s:s+1] = …`, from the last index to the first) gives exactly the original
    list with each arc expanded in place: every other segment is untouched, the result is
    connected.
  Not carried by a theorem: the numeric size of the unit-circle error of one slice (measured by the
  oracle against the property's bounds), and the start parameter `get_start_t` (KL).
-/
import SvgVerif.Model.ArcBezier
import Mathlib.Tactic.Ring
import Mathlib.Tactic.Linarith
import Mathlib.Tactic.Positivity
import Mathlib.Algebra.Order.Field.Basic

set_option linter.unusedSectionVars false
set_option linter.unusedVariables false

namespace Svg.C19
open Svg

/-! ### Chain shape (any scalar type, any `cos`/`sin`) -/
section shape
variable {K : Type} [Add K] [Sub K] [Mul K] [Div K] [Neg K] [Zero K] [One K]

/-- every segment starts exactly where the previous one ended, the first at `p` -/
def Joined : Pt K → List (Seg K) → Prop
  | _, [] => True
  | p, s :: r => s.start? = some p ∧ Joined s.end_ r

/-- the end of the last segment (`p` for the empty list) -/
def lastEnd : Pt K → List (Seg K) → Pt K
  | p, [] => p
  | _, s :: r => lastEnd s.end_ r

def isCubic : Seg K → Bool
  | .cubic _ _ _ _ => true
  | _ => false

def isQuad : Seg K → Bool
  | .quad _ _ _ => true
  | _ => false

theorem C19_cubic_count (cosF sinF : K → K) (c : ArcSlices K) (n : Nat) (p : Pt K) (t : K) :
    (cubicLoop cosF sinF c n p t).length = n := by
  induction n generalizing p t with
  | zero => rfl
  | succ k ih => simp [cubicLoop, ih]

theorem C19_cubic_kinds (cosF sinF : K → K) (c : ArcSlices K) (n : Nat) (p : Pt K) (t : K) :
    ∀ s ∈ cubicLoop cosF sinF c n p t, isCubic s = true := by
  induction n generalizing p t with
  | zero => simp [cubicLoop]
  | succ k ih =>
    intro s hs
    simp only [cubicLoop, List.mem_cons] at hs
    rcases hs with h | h
    · subst h; rfl
    · exact ih _ _ s h

/-- **joins**: the chain starts at `p_start` and every curve starts exactly at its predecessor's end -/
theorem C19_cubic_joined (cosF sinF : K → K) (c : ArcSlices K) (n : Nat) (p : Pt K) (t : K) :
    Joined p (cubicLoop cosF sinF c n p t) := by
  induction n generalizing p t with
  | zero => trivial
  | succ k ih => exact ⟨rfl, ih _ _⟩

/-- **last end**: with at least one curve the chain ends exactly at `self.end` -/
theorem C19_cubic_last (cosF sinF : K → K) (c : ArcSlices K) (n : Nat) (p : Pt K) (t : K) :
    lastEnd p (cubicLoop cosF sinF c (n + 1) p t) = c.end_ := by
  induction n generalizing p t with
  | zero => simp [cubicLoop, lastEnd, Seg.end_]
  | succ k ih =>
    rw [cubicLoop]
    simp only [lastEnd, Seg.end_]
    exact ih _ _

theorem C19_quad_count (cosF sinF : K → K) (c : ArcSlices K) (n : Nat) (p : Pt K) (t : K) :
    (quadLoop cosF sinF c n p t).length = n := by
  induction n generalizing p t with
  | zero => rfl
  | succ k ih => simp [quadLoop, ih]

theorem C19_quad_kinds (cosF sinF : K → K) (c : ArcSlices K) (n : Nat) (p : Pt K) (t : K) :
    ∀ s ∈ quadLoop cosF sinF c n p t, isQuad s = true := by
  induction n generalizing p t with
  | zero => simp [quadLoop]
  | succ k ih =>
    intro s hs
    simp only [quadLoop, List.mem_cons] at hs
    rcases hs with h | h
    · subst h; rfl
    · exact ih _ _ s h

theorem C19_quad_joined (cosF sinF : K → K) (c : ArcSlices K) (n : Nat) (p : Pt K) (t : K) :
    Joined p (quadLoop cosF sinF c n p t) := by
  induction n generalizing p t with
  | zero => trivial
  | succ k ih => exact ⟨rfl, ih _ _⟩

theorem C19_quad_last (cosF sinF : K → K) (c : ArcSlices K) (n : Nat) (p : Pt K) (t : K) :
    lastEnd p (quadLoop cosF sinF c (n + 1) p t) = c.end_ := by
  induction n generalizing p t with
  | zero => simp [quadLoop, lastEnd, Seg.end_]
  | succ k ih =>
    rw [quadLoop]
    simp only [lastEnd, Seg.end_]
    exact ih _ _

end shape

/-! ### The public methods: `list(arc.as_cubic_curves(n))`, `list(arc.as_quad_curves(n))` -/
section methods
variable {K : Type} [Add K] [Sub K] [Mul K] [Div K] [Neg K] [Zero K] [One K] [BEq K]
  [LT K] [DecidableLT K] [LE K] [DecidableLE K] [NatCast K] [Trig K] [FMod K] [CeilNat K]

/-- what the property asks of a chain replacing arc `a` -/
def GoodChain (a : ArcData K) (ch : List (Seg K)) : Prop :=
  Joined a.start ch ∧ (ch ≠ [] → lastEnd a.start ch = a.end_)

theorem cubicCurvesN_chain (a : ArcData K) (n : Nat) : GoodChain a (a.cubicCurvesN n) := by
  unfold ArcData.cubicCurvesN
  cases n with
  | zero => exact ⟨trivial, fun h => absurd rfl h⟩
  | succ k =>
    simp only [Nat.add_eq_zero_iff, one_ne_zero, and_false, if_false]
    exact ⟨C19_cubic_joined _ _ _ _ _ _, fun _ => C19_cubic_last _ _ _ _ _ _⟩

theorem quadCurvesN_chain (a : ArcData K) (n : Nat) : GoodChain a (a.quadCurvesN n) := by
  unfold ArcData.quadCurvesN
  cases n with
  | zero => exact ⟨trivial, fun h => absurd rfl h⟩
  | succ k =>
    simp only [Nat.add_eq_zero_iff, one_ne_zero, and_false, if_false]
    exact ⟨C19_quad_joined _ _ _ _ _ _, fun _ => C19_quad_last _ _ _ _ _ _⟩

/-- **C19, chain shape, cubic**: for every arc and every requested count (or the default) the
    returned list is joined from the arc's start and, when not empty, ends at the arc's end. -/
theorem C19_cubic_curves_chain (a : ArcData K) (n : Option Nat) : GoodChain a (a.cubicCurves n) := by
  unfold ArcData.cubicCurves
  split
  · split
    · exact ⟨⟨rfl, trivial⟩, fun _ => rfl⟩
    · exact ⟨trivial, fun h => absurd rfl h⟩
  · exact cubicCurvesN_chain a _

theorem C19_quad_curves_chain (a : ArcData K) (n : Option Nat) : GoodChain a (a.quadCurves n) := by
  unfold ArcData.quadCurves
  split
  · split
    · exact ⟨⟨rfl, trivial⟩, fun _ => rfl⟩
    · exact ⟨trivial, fun h => absurd rfl h⟩
  · exact quadCurvesN_chain a _

/-- **count and kind**: on an arc of non-zero extent a count `n` gives exactly `n` cubic curves -/
theorem C19_cubic_curves_count (a : ArcData K) (n : Option Nat) (h : (a.sweep == 0) = false) :
    (a.cubicCurves n).length = sliceCount a n ∧ ∀ s ∈ a.cubicCurves n, isCubic s = true := by
  unfold ArcData.cubicCurves ArcData.cubicCurvesN
  rw [h]
  simp only [Bool.false_eq_true, if_false]
  split
  · rename_i h0; rw [h0]; simp
  · exact ⟨C19_cubic_count _ _ _ _ _ _, C19_cubic_kinds _ _ _ _ _ _⟩

theorem C19_quad_curves_count (a : ArcData K) (n : Option Nat) (h : (a.sweep == 0) = false) :
    (a.quadCurves n).length = sliceCount a n ∧ ∀ s ∈ a.quadCurves n, isQuad s = true := by
  unfold ArcData.quadCurves ArcData.quadCurvesN
  rw [h]
  simp only [Bool.false_eq_true, if_false]
  split
  · rename_i h0; rw [h0]; simp
  · exact ⟨C19_quad_count _ _ _ _ _ _, C19_quad_kinds _ _ _ _ _ _⟩

/-- **zero extent**: an arc of zero extent whose endpoints coincide yields no curves, whatever
    count is requested; with distinct endpoints (zero radius) it yields the single straight curve
    from start to end; and the chain is empty only for zero extent or a zero count. -/
theorem C19_zero_extent (a : ArcData K) (n : Option Nat) (h0 : (a.sweep == 0) = true) :
    (ptEq a.start a.end_ = true → a.cubicCurves n = [] ∧ a.quadCurves n = []) ∧
    (ptEq a.start a.end_ = false →
        a.cubicCurves n = [lineCubic a.start a.end_] ∧ a.quadCurves n = [lineQuad a.start a.end_]) := by
  unfold ArcData.cubicCurves ArcData.quadCurves
  rw [h0]
  constructor
  · intro h; simp [h]
  · intro h; simp [h]

theorem C19_empty_only_if (a : ArcData K) (n : Option Nat) (h : a.cubicCurves n = [] ∨ a.quadCurves n = []) :
    ((a.sweep == 0) = true ∧ ptEq a.start a.end_ = true) ∨ sliceCount a n = 0 := by
  unfold ArcData.cubicCurves ArcData.quadCurves at h
  cases hs : (a.sweep == 0) with
  | true =>
    left
    refine ⟨rfl, ?_⟩
    cases hp : ptEq a.start a.end_ with
    | true => rfl
    | false => simp [hs, hp] at h
  | false =>
    right
    simp only [hs, Bool.false_eq_true, if_false] at h
    rcases h with h | h
    · have := (C19_cubic_curves_count a n hs).1
      unfold ArcData.cubicCurves at this
      simp only [hs, Bool.false_eq_true, if_false] at this
      rw [h] at this; exact this.symm
    · have := (C19_quad_curves_count a n hs).1
      unfold ArcData.quadCurves at this
      simp only [hs, Bool.false_eq_true, if_false] at this
      rw [h] at this; exact this.symm

end methods

/-! ### Affine reduction to the unit circle -/
section affine
variable {K : Type} [Field K]

/-- the affine map taking the unit circle to the arc's ellipse: `(x, y) ↦ centre + U·x + V·y` with
    `U = rx(cos θ, sin θ)`, `V = ry(−sin θ, cos θ)`; `L (cos t, sin t)` is `Arc.point_at_t(t)` -/
def L (c : ArcSlices K) (q : Pt K) : Pt K :=
  ⟨c.cx + c.rx * q.x * c.cosTheta - c.ry * q.y * c.sinTheta,
   c.cy + c.rx * q.x * c.sinTheta + c.ry * q.y * c.cosTheta⟩

/-- the slice of the unit circle from `(c0,s0)` to `(c1,s1)`: controls along the tangents -/
def unitCubic (alpha c0 s0 c1 s1 : K) : Seg K :=
  .cubic ⟨c0, s0⟩ ⟨c0 - alpha * s0, s0 + alpha * c0⟩ ⟨c1 + alpha * s1, s1 - alpha * c1⟩ ⟨c1, s1⟩

def mapSeg (f : Pt K → Pt K) : Seg K → Seg K
  | .cubic a b c d => .cubic (f a) (f b) (f c) (f d)
  | .quad a b c => .quad (f a) (f b) (f c)
  | s => s

/-- **every interior cubic slice is the `L`-image of the unit-circle slice**: when the running
    start point is the ellipse point of the running parameter (it is, by construction, for every
    slice after the first, and for the first one by `get_start_t`), the curve emitted by the loop
    has exactly the four control points `L` maps the unit slice's control points to. -/
theorem C19_cubic_slice_affine (cosF sinF : K → K) (c : ArcSlices K) (k : Nat) (t : K) :
    (cubicLoop cosF sinF c (k + 2) (L c ⟨cosF t, sinF t⟩) t).head? =
      some (mapSeg (L c) (unitCubic c.alpha (cosF t) (sinF t) (cosF (t + c.tSlice)) (sinF (t + c.tSlice)))) := by
  simp only [cubicLoop, List.head?_cons, unitCubic, mapSeg, L, Nat.add_eq_zero_iff, one_ne_zero, and_false,
    if_false, Option.some.injEq, Seg.cubic.injEq, Pt.mk.injEq]
  repeat' constructor
  all_goals ring

/-- and the next slice again starts at the ellipse point of its parameter (the loop invariant) -/
theorem C19_cubic_slice_invariant (cosF sinF : K → K) (c : ArcSlices K) (k : Nat) (p : Pt K) (t : K) :
    (cubicLoop cosF sinF c (k + 2) p t).tail = cubicLoop cosF sinF c (k + 1) (L c ⟨cosF (t + c.tSlice), sinF (t + c.tSlice)⟩) (t + c.tSlice) := by
  simp [cubicLoop, L]

/-- a cubic through `L`-mapped control points is the `L`-image of the cubic, at every parameter -/
theorem C19_cubic_point_affine (c : ArcSlices K) (p0 p1 p2 p3 : Pt K) (t : K) :
    Seg.cubicPoint (L c p0) (L c p1) (L c p2) (L c p3) t = L c (Seg.cubicPoint p0 p1 p2 p3 t) := by
  simp only [Seg.cubicPoint, L, three, Pt.mk.injEq]
  constructor <;> ring

/-- the quadratic slice on the unit circle: control at `alpha` times the mid direction -/
def unitQuad (alpha c0 s0 cm sm c1 s1 : K) : Seg K :=
  .quad ⟨c0, s0⟩ ⟨alpha * cm, alpha * sm⟩ ⟨c1, s1⟩

theorem C19_quad_slice_affine (cosF sinF : K → K) (c : ArcSlices K) (k : Nat) (t : K) :
    (quadLoop cosF sinF c (k + 2) (L c ⟨cosF t, sinF t⟩) t).head? =
      some (mapSeg (L c) (unitQuad c.alpha (cosF t) (sinF t)
        (cosF ((t + c.tSlice + t) / two)) (sinF ((t + c.tSlice + t) / two))
        (cosF (t + c.tSlice)) (sinF (t + c.tSlice)))) := by
  simp only [quadLoop, List.head?_cons, unitQuad, mapSeg, L, Nat.add_eq_zero_iff, one_ne_zero, and_false,
    if_false, Option.some.injEq, Seg.quad.injEq, Pt.mk.injEq]
  repeat' constructor
  all_goals ring

theorem C19_quad_point_affine (c : ArcSlices K) (p0 p1 p2 : Pt K) (t : K) :
    Seg.quadPoint (L c p0) (L c p1) (L c p2) t = L c (Seg.quadPoint p0 p1 p2 t) := by
  simp only [Seg.quadPoint, L, two, Pt.mk.injEq]
  constructor <;> ring

end affine

section radial
variable {K : Type} [Field K] [LinearOrder K] [IsStrictOrderedRing K]

def dist2 (p q : Pt K) : K := (p.x - q.x) * (p.x - q.x) + (p.y - q.y) * (p.y - q.y)

/-- **radial bound**: `L` is `max(rx, ry)`-Lipschitz — a curve point `q` (in the unit-circle frame)
    at squared distance `δ²` from a point `u` of the unit circle is mapped to within `M²·δ²` of the
    ellipse point `L u`, for every `M ≥ |rx|, |ry|`. Hence the distance from the ellipse relative to
    the larger radius is at most the distance from the unit circle. -/
theorem C19_radial_bound (c : ArcSlices K) (M : K) (q u : Pt K)
    (hθ : c.cosTheta * c.cosTheta + c.sinTheta * c.sinTheta = 1)
    (hx : c.rx * c.rx ≤ M * M) (hy : c.ry * c.ry ≤ M * M) :
    dist2 (L c q) (L c u) ≤ M * M * dist2 q u := by
  have key : dist2 (L c q) (L c u) =
      (c.cosTheta * c.cosTheta + c.sinTheta * c.sinTheta) *
        (c.rx * c.rx * ((q.x - u.x) * (q.x - u.x)) + c.ry * c.ry * ((q.y - u.y) * (q.y - u.y))) := by
    simp only [dist2, L]; ring
  rw [key, hθ, one_mul]
  have hxx : 0 ≤ (q.x - u.x) * (q.x - u.x) := mul_self_nonneg _
  have hyy : 0 ≤ (q.y - u.y) * (q.y - u.y) := mul_self_nonneg _
  have h1 := mul_le_mul_of_nonneg_right hx hxx
  have h2 := mul_le_mul_of_nonneg_right hy hyy
  simp only [dist2]
  linarith

/-- non-vacuity: the hypotheses are met by a rotated eccentric ellipse (3-4-5 rotation, radii 2 and 7) -/
example : ∃ c : ArcSlices ℚ, c.cosTheta * c.cosTheta + c.sinTheta * c.sinTheta = 1 ∧ c.rx * c.rx ≤ 7 * 7 ∧ c.ry * c.ry ≤ 7 * 7 :=
  ⟨{ tSlice := 1/2, alpha := 1/6, rx := 2, ry := 7, cosTheta := 3/5, sinTheta := 4/5, cx := 1, cy := -2, end_ := ⟨0, 0⟩ }, by norm_num⟩

end radial

/-! ### Splicing the chains into a path -/
section splice
variable {K : Type}

/-- a path whose connections are exact: every segment with a predecessor starts exactly at its end
    and every close ends exactly at the current subpath start -/
def ExactConns : Option (Pt K) → Option (Pt K) → List (Seg K) → Prop
  | _, _, [] => True
  | z, le, seg :: rest =>
    (∀ p, le = some p → seg.start? = some p) ∧
    (seg.isCloseB = true → some seg.end_ = nextZ z seg) ∧
    ExactConns (nextZ z seg) (some seg.end_) rest

/-- interpreter state after a prefix -/
def stAfter : Option (Pt K) → Option (Pt K) → List (Seg K) → Option (Pt K) × Option (Pt K)
  | z, le, [] => (z, le)
  | z, _, seg :: rest => stAfter (nextZ z seg) (some seg.end_) rest

theorem exact_append (z le : Option (Pt K)) (l1 l2 : List (Seg K)) :
    ExactConns z le (l1 ++ l2) ↔
      ExactConns z le l1 ∧ ExactConns (stAfter z le l1).1 (stAfter z le l1).2 l2 := by
  induction l1 generalizing z le with
  | nil => simp [ExactConns, stAfter]
  | cons s r ih =>
    simp only [List.cons_append, ExactConns, stAfter, ih]
    tauto

theorem stAfter_append (z le : Option (Pt K)) (l1 l2 : List (Seg K)) :
    stAfter z le (l1 ++ l2) = stAfter (stAfter z le l1).1 (stAfter z le l1).2 l2 := by
  induction l1 generalizing z le with
  | nil => rfl
  | cons s r ih => simp only [List.cons_append, stAfter, ih]

theorem stAfter_z_some (z le : Option (Pt K)) (l : List (Seg K)) (h : l ≠ [] ∨ z.isSome) :
    (stAfter z le l).1.isSome := by
  induction l generalizing z le with
  | nil => simpa [stAfter] using h
  | cons s r ih =>
    simp only [stAfter]
    apply ih
    right
    unfold nextZ
    cases z <;> simp <;> split <;> simp

variable (eq : Pt K → Pt K → Bool)

/-- **re-validation changes nothing on an exactly connected path** -/
theorem validate_exact (heq : ∀ p, eq p p = true) (z le : Option (Pt K)) (l : List (Seg K))
    (h : ExactConns z le l) : validateConns eq z le l = l := by
  induction l generalizing z le with
  | nil => rfl
  | cons s r ih =>
    obtain ⟨h1, h2, h3⟩ := h
    simp only [validateConns]
    have hs : fixStart eq le s = s := by
      unfold fixStart
      cases le with
      | none => rfl
      | some p => simp [h1 p rfl, heq]
    rw [hs]
    have hz : fixClose eq (nextZ z s) s = s := by
      unfold fixClose
      cases hc : s.isCloseB with
      | false => split <;> simp
      | true =>
        rw [← h2 hc]
        simp [heq]
    rw [hz, ih _ _ h3]

/-- a chain of curves (no moves, no closes) joined from `p`, run from a state with a subpath start -/
theorem exact_chain (z p : Pt K) (ch : List (Seg K)) (hj : C19.Joined p ch)
    (hk : ∀ s ∈ ch, s.isMoveB = false ∧ s.isCloseB = false) :
    ExactConns (some z) (some p) ch ∧ stAfter (some z) (some p) ch = (some z, some (C19.lastEnd p ch)) := by
  induction ch generalizing p with
  | nil => exact ⟨trivial, rfl⟩
  | cons s r ih =>
    obtain ⟨hs, hr⟩ := hj
    have hks := hk s (List.mem_cons_self)
    have := ih s.end_ hr (fun s' hs' => hk s' (List.mem_cons_of_mem _ hs'))
    simp only [ExactConns, stAfter, C19.lastEnd, nextZ, Option.isNone_some, hks.1, Bool.or_self, Bool.false_eq_true, if_false]
    refine ⟨⟨?_, ?_, this.1⟩, this.2⟩
    · intro q hq; cases hq; exact hs
    · intro hc; rw [hks.2] at hc; cases hc

/-- what a conversion must satisfy for the splice theorem: curves only, joined from the arc's
    start to the arc's end; when it returns nothing the arc's endpoints are the same point -/
def GoodConv (conv : ArcData K → List (Seg K)) : Prop :=
  ∀ a, C19.Joined a.start (conv a) ∧ (conv a ≠ [] → C19.lastEnd a.start (conv a) = a.end_) ∧
    (conv a = [] → a.start = a.end_) ∧ ∀ s ∈ conv a, s.isMoveB = false ∧ s.isCloseB = false

/-- replacing one arc (not the first segment) by its chain keeps the path exactly connected -/
theorem exact_splice (conv : ArcData K → List (Seg K)) (hc : GoodConv conv) (z le : Option (Pt K))
    (pre post : List (Seg K)) (a : ArcData K) (hpre : pre ≠ [])
    (h : ExactConns z le (pre ++ Seg.arc a :: post)) : ExactConns z le (pre ++ (conv a ++ post)) := by
  rw [exact_append] at h ⊢
  refine ⟨h.1, ?_⟩
  obtain ⟨zz, hz⟩ := Option.isSome_iff_exists.mp (stAfter_z_some z le pre (Or.inl hpre))
  have hle : ∃ p, (stAfter z le pre).2 = some p := by
    clear h hz
    induction pre generalizing z le with
    | nil => exact absurd rfl hpre
    | cons s r ih =>
      cases r with
      | nil => exact ⟨s.end_, rfl⟩
      | cons s' r' => simpa [stAfter] using ih (nextZ z s) (some s.end_) (by simp)
  obtain ⟨p, hp⟩ := hle
  have h2 := h.2
  rw [hz, hp] at h2 ⊢
  obtain ⟨hst, _, hpost⟩ := h2
  have hpa : a.start = p := by
    have := hst p rfl
    simpa [Seg.start?] using this
  subst hpa
  simp only [nextZ, Option.isNone_some, Seg.isMoveB, Bool.or_self, Bool.false_eq_true, if_false, Seg.end_] at hpost
  obtain ⟨hj, hl, he, hk⟩ := hc a
  rw [exact_append]
  have := exact_chain zz a.start (conv a) hj hk
  refine ⟨this.1, ?_⟩
  rw [this.2]
  by_cases hnil : conv a = []
  · rw [hnil]; simp only [C19.lastEnd]; rw [he hnil]; exact hpost
  · rw [hl hnil]; exact hpost

/-- each arc replaced by its chain, everything else kept as it is -/
def expand (conv : ArcData K → List (Seg K)) : Seg K → List (Seg K)
  | .arc a => conv a
  | s => [s]

/-- **C19, splice**: for every exactly connected path that does not begin with an arc, the
    backwards replace-and-revalidate loop yields, after handling indices `s-1 … 0`, exactly the
    original list with the first `s` segments expanded in place — all other segments untouched. -/
theorem approxAt_eq (conv : ArcData K → List (Seg K)) (hc : GoodConv conv) (heq : ∀ p, eq p p = true)
    (s : Nat) (l : List (Seg K)) (hs : s ≤ l.length) (hfirst : ∀ a, l.head? ≠ some (.arc a))
    (h : ExactConns none none l) :
    approxAt conv eq s l = (l.take s).flatMap (expand conv) ++ l.drop s ∧
      ExactConns none none (approxAt conv eq s l) := by
  induction s generalizing l with
  | zero => simpa [approxAt] using h
  | succ k ih =>
    have hk : k < l.length := hs
    simp only [approxAt]
    have hget : l[k]? = some l[k] := List.getElem?_eq_getElem hk
    have hsplit : l = l.take k ++ l[k] :: l.drop (k + 1) := by
      rw [List.cons_getElem_drop_succ (h := hk)]; exact (List.take_append_drop k l).symm
    have htake : l.take (k + 1) = l.take k ++ [l[k]] := by
      rw [List.take_succ_eq_append_getElem hk]
    rw [hget]
    cases hseg : l[k] with
    | arc a =>
      simp only
      have hpre : l.take k ≠ [] := by
        intro hnil
        have hk0 : k = 0 := by
          rcases Nat.eq_zero_or_pos k with h0 | h0
          · exact h0
          · have : (l.take k).length = min k l.length := List.length_take
            rw [hnil] at this; simp at this; omega
        subst hk0
        have : l.head? = some (.arc a) := by
          rw [← hseg]; cases l with
          | nil => simp at hk
          | cons x r => rfl
        exact hfirst a this
      have hex : ExactConns none none (l.take k ++ (conv a ++ l.drop (k + 1))) := by
        apply exact_splice conv hc none none _ _ a hpre
        rw [← hseg, ← hsplit]; exact h
      have hval : validateConns eq none none (l.take k ++ conv a ++ l.drop (k + 1)) =
          l.take k ++ (conv a ++ l.drop (k + 1)) := by
        rw [List.append_assoc]; exact validate_exact eq heq _ _ _ hex
      rw [hval]
      have hlen : k ≤ (l.take k ++ (conv a ++ l.drop (k + 1))).length := by
        simp [List.length_take]; omega
      have hf' : ∀ b, (l.take k ++ (conv a ++ l.drop (k + 1))).head? ≠ some (.arc b) := by
        intro b
        have : (l.take k ++ (conv a ++ l.drop (k + 1))).head? = l.head? := by
          cases hl : l with
          | nil => simp [hl] at hk
          | cons x r =>
            cases k with
            | zero => exact absurd (by simp [hl]) hpre
            | succ k' => simp
        rw [this]; exact hfirst b
      have := ih _ hlen hf' hex
      refine ⟨?_, this.2⟩
      rw [this.1]
      have hlk : (l.take k).length = k := by simp [List.length_take]; omega
      rw [List.take_left' hlk, List.drop_left' hlk, htake, List.flatMap_append, hseg]
      simp [expand]
    | move s e =>
      simp only
      have := ih l (Nat.le_of_lt hk) hfirst h
      refine ⟨?_, this.2⟩
      rw [this.1, htake, List.flatMap_append, hseg]
      simp [expand, List.drop_eq_getElem_cons hk, hseg]
    | line s e =>
      simp only
      have := ih l (Nat.le_of_lt hk) hfirst h
      refine ⟨?_, this.2⟩
      rw [this.1, htake, List.flatMap_append, hseg]
      simp [expand, List.drop_eq_getElem_cons hk, hseg]
    | close s e =>
      simp only
      have := ih l (Nat.le_of_lt hk) hfirst h
      refine ⟨?_, this.2⟩
      rw [this.1, htake, List.flatMap_append, hseg]
      simp [expand, List.drop_eq_getElem_cons hk, hseg]
    | quad s c e =>
      simp only
      have := ih l (Nat.le_of_lt hk) hfirst h
      refine ⟨?_, this.2⟩
      rw [this.1, htake, List.flatMap_append, hseg]
      simp [expand, List.drop_eq_getElem_cons hk, hseg]
    | cubic s c1 c2 e =>
      simp only
      have := ih l (Nat.le_of_lt hk) hfirst h
      refine ⟨?_, this.2⟩
      rw [this.1, htake, List.flatMap_append, hseg]
      simp [expand, List.drop_eq_getElem_cons hk, hseg]

/-- **C19, whole path**: `approximate_arcs_with_*` on an exactly connected path (beginning with a
    move, as every parsed path does) returns the path with every arc replaced in place by its
    chain; every other segment is the same object in the same place; the result is exactly
    connected (so it stays a valid path). -/
theorem C19_path (conv : ArcData K → List (Seg K)) (hc : GoodConv conv) (heq : ∀ p, eq p p = true)
    (l : List (Seg K)) (hfirst : ∀ a, l.head? ≠ some (.arc a)) (h : ExactConns none none l) :
    approxPath conv eq l = l.flatMap (expand conv) ∧ ExactConns none none (approxPath conv eq l) := by
  have := approxAt_eq eq conv hc heq l.length l (Nat.le_refl _) hfirst h
  simpa [approxPath] using this

end splice

/-- non-vacuity of `C19_path`: a move, a line, an arc with distinct endpoints, a close — exactly
    connected, not starting with an arc -/
example : ExactConns (K := ℚ) none none
    [.move none ⟨0, 0⟩, .line (some ⟨0, 0⟩) ⟨5, 5⟩,
     .arc ⟨⟨5, 5⟩, ⟨9, 9⟩, ⟨7, 7⟩, ⟨9, 5⟩, ⟨9, 9⟩, 1⟩, .close (some ⟨9, 9⟩) ⟨0, 0⟩] := by
  simp [ExactConns, nextZ, Seg.start?, Seg.end_, Seg.isMoveB, Seg.isCloseB]

end Svg.C19
