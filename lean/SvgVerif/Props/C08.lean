/-
  Props/C08.lean — property C08: bounding boxes contain the geometry and are tight.

  Proved over any linearly ordered field: lines and quadratic Béziers (containment for every
  t ∈ [0,1], tightness, ordering), unions of any number of boxes (containers, paths, subpaths),
  stroke growth. Cubic Béziers and arcs are *not* carried by a theorem (real-root and
  trigonometric arguments); they are decided by the correspondence stream and the dense-sampling
  + analytic-extrema oracle, and are named partial in MANIFEST.
-/
import SvgVerif.Model.BBox
import Mathlib.Tactic.Ring
import Mathlib.Tactic.FieldSimp
import Mathlib.Tactic.Linarith
import Mathlib.Tactic.Positivity
import Mathlib.Algebra.Order.Field.Basic

set_option linter.unusedSectionVars false
set_option linter.unusedVariables false

namespace Svg.C08
open Svg

variable {K : Type} [Field K] [LinearOrder K] [IsStrictOrderedRing K]

theorem pmin_eq (a b : K) : pmin a b = min a b := by
  unfold pmin; rcases lt_or_ge b a with h | h
  · rw [if_pos h, min_eq_right h.le]
  · rw [if_neg (not_lt.mpr h), min_eq_left h]

theorem pmax_eq (a b : K) : pmax a b = max a b := by
  unfold pmax; rcases lt_or_ge a b with h | h
  · rw [if_pos h, max_eq_right h.le]
  · rw [if_neg (not_lt.mpr h), max_eq_left h]

/-! ### Lines -/

/-- every point of a line lies in its box; the box is ordered; each side is attained at an
    endpoint (t = 0 or t = 1). -/
theorem C08_line (s e : Pt K) (t : K) (h0 : 0 ≤ t) (h1 : t ≤ 1) :
    let b := lineBBox s e
    let p := Seg.linePoint s e t
    (b.xmin ≤ p.x ∧ p.x ≤ b.xmax ∧ b.ymin ≤ p.y ∧ p.y ≤ b.ymax) ∧
    (b.xmin ≤ b.xmax ∧ b.ymin ≤ b.ymax) ∧
    ((b.xmin = s.x ∨ b.xmin = e.x) ∧ (b.xmax = s.x ∨ b.xmax = e.x) ∧
     (b.ymin = s.y ∨ b.ymin = e.y) ∧ (b.ymax = s.y ∨ b.ymax = e.y)) := by
  simp only [lineBBox, Seg.linePoint, Pt.towards, pmin_eq, pmax_eq]
  have key : ∀ a c : K, min a c ≤ t * (c - a) + a ∧ t * (c - a) + a ≤ max a c := by
    intro a c
    rcases le_total a c with h | h
    · rw [min_eq_left h, max_eq_right h]
      constructor <;> nlinarith
    · rw [min_eq_right h, max_eq_left h]
      constructor <;> nlinarith
  refine ⟨⟨(key _ _).1, (key _ _).2, (key _ _).1, (key _ _).2⟩,
    ⟨min_le_max, min_le_max⟩, ?_, ?_, ?_, ?_⟩
  · exact (min_choice _ _)
  · exact (max_choice _ _)
  · exact (min_choice _ _)
  · exact (max_choice _ _)

/-! ### Quadratic Béziers, one coordinate at a time -/

/-- the coordinate function of a quadratic Bézier -/
def q1 (a b c t : K) : K := (1 - t) * (1 - t) * a + two * ((1 - t) * t) * b + t * t * c

theorem q1_expand (a b c t : K) : q1 a b c t = a - 2 * (a - b) * t + (a - 2 * b + c) * (t * t) := by
  simp only [q1, two]; ring

/-- the parameter the code evaluates: the vertex `n/d` of the coordinate parabola, or 1/2 when d = 0 -/
def tstar (a b c : K) : K := if a - two * b + c ≠ 0 then (a - b) / (a - two * b + c) else 1 / two

theorem cand_eq (a b c : K) :
    quadCandidates a b c =
      if 0 < tstar a b c ∧ tstar a b c < 1 then [a, c, q1 a b c (tstar a b c)] else [a, c] := by
  simp only [quadCandidates, tstar, q1, bne_iff_ne, ne_eq, ite_not]

/-! ### min / max over candidate lists -/

theorem foldl_pmin_le_acc (acc : K) (zs : List K) : zs.foldl pmin acc ≤ acc := by
  induction zs generalizing acc with
  | nil => simp
  | cons z zs ih =>
    simp only [List.foldl_cons]
    exact le_trans (ih _) (by rw [pmin_eq]; exact min_le_left _ _)

theorem foldl_pmin_le_mem (acc : K) (zs : List K) (x : K) (hx : x ∈ zs) : zs.foldl pmin acc ≤ x := by
  induction zs generalizing acc with
  | nil => simp at hx
  | cons z zs ih =>
    simp only [List.foldl_cons]
    rcases List.mem_cons.mp hx with h | h
    · subst h
      exact le_trans (foldl_pmin_le_acc _ _) (by rw [pmin_eq]; exact min_le_right _ _)
    · exact ih _ h

theorem foldl_pmin_mem (acc : K) (zs : List K) : zs.foldl pmin acc = acc ∨ zs.foldl pmin acc ∈ zs := by
  induction zs generalizing acc with
  | nil => simp
  | cons z zs ih =>
    simp only [List.foldl_cons]
    rcases ih (pmin acc z) with h | h
    · rw [h, pmin_eq]
      rcases min_choice acc z with h' | h'
      · left; exact h'
      · right; rw [h']; exact List.mem_cons_self
    · right; exact List.mem_cons_of_mem _ h

theorem foldl_pmax_ge_acc (acc : K) (zs : List K) : acc ≤ zs.foldl pmax acc := by
  induction zs generalizing acc with
  | nil => simp
  | cons z zs ih =>
    simp only [List.foldl_cons]
    exact le_trans (by rw [pmax_eq]; exact le_max_left _ _) (ih _)

theorem foldl_pmax_ge_mem (acc : K) (zs : List K) (x : K) (hx : x ∈ zs) : x ≤ zs.foldl pmax acc := by
  induction zs generalizing acc with
  | nil => simp at hx
  | cons z zs ih =>
    simp only [List.foldl_cons]
    rcases List.mem_cons.mp hx with h | h
    · subst h
      exact le_trans (by rw [pmax_eq]; exact le_max_right _ _) (foldl_pmax_ge_acc _ _)
    · exact ih _ h

theorem foldl_pmax_mem (acc : K) (zs : List K) : zs.foldl pmax acc = acc ∨ zs.foldl pmax acc ∈ zs := by
  induction zs generalizing acc with
  | nil => simp
  | cons z zs ih =>
    simp only [List.foldl_cons]
    rcases ih (pmax acc z) with h | h
    · rw [h, pmax_eq]
      rcases max_choice acc z with h' | h'
      · left; exact h'
      · right; rw [h']; exact List.mem_cons_self
    · right; exact List.mem_cons_of_mem _ h

theorem listMin_le (d : K) (l : List K) (x : K) (hx : x ∈ l) : listMin d l ≤ x := by
  cases l with
  | nil => simp at hx
  | cons y ys =>
    simp only [listMin]
    rcases List.mem_cons.mp hx with h | h
    · subst h; exact foldl_pmin_le_acc _ _
    · exact foldl_pmin_le_mem _ _ _ h

theorem le_listMax (d : K) (l : List K) (x : K) (hx : x ∈ l) : x ≤ listMax d l := by
  cases l with
  | nil => simp at hx
  | cons y ys =>
    simp only [listMax]
    rcases List.mem_cons.mp hx with h | h
    · subst h; exact foldl_pmax_ge_acc _ _
    · exact foldl_pmax_ge_mem _ _ _ h

theorem listMin_mem (d : K) (l : List K) (hl : l ≠ []) : listMin d l ∈ l := by
  cases l with
  | nil => exact absurd rfl hl
  | cons y ys =>
    simp only [listMin]
    rcases foldl_pmin_mem y ys with h | h
    · rw [h]; exact List.mem_cons_self
    · exact List.mem_cons_of_mem _ h

theorem listMax_mem (d : K) (l : List K) (hl : l ≠ []) : listMax d l ∈ l := by
  cases l with
  | nil => exact absurd rfl hl
  | cons y ys =>
    simp only [listMax]
    rcases foldl_pmax_mem y ys with h | h
    · rw [h]; exact List.mem_cons_self
    · exact List.mem_cons_of_mem _ h

/-- **Containment, one coordinate**: for every t ∈ [0,1] the quadratic's value lies between the
    minimum and the maximum of the candidate values the code collects. -/
theorem quad1d_contains (a b c t : K) (h0 : 0 ≤ t) (h1 : t ≤ 1) (d0 : K) :
    listMin d0 (quadCandidates a b c) ≤ q1 a b c t ∧ q1 a b c t ≤ listMax d0 (quadCandidates a b c) := by
  -- notation
  set n := a - b with hn
  set d := a - two * b + c with hd
  have hd' : d = a - 2 * b + c := by simp only [hd, two]; ring
  have hq : q1 a b c t = a - 2 * n * t + d * (t * t) := by rw [q1_expand, hd']
  -- q(t) = lerp(a, c; t) − d·t(1−t)
  have hlerp : q1 a b c t = (1 - t) * a + t * c - d * (t * (1 - t)) := by
    rw [hq, hd', hn]; ring
  have ht1 : 0 ≤ t * (1 - t) := mul_nonneg h0 (by linarith)
  have hamem : a ∈ quadCandidates a b c := by
    rw [cand_eq]; split_ifs <;> simp
  have hcmem : c ∈ quadCandidates a b c := by
    rw [cand_eq]; split_ifs <;> simp
  have hts : d ≠ 0 → tstar a b c = n / d := by
    intro h; simp only [tstar, ← hd, ← hn, ne_eq, h, not_false_eq_true, if_true]
  have hmin_a := listMin_le d0 _ a hamem
  have hmin_c := listMin_le d0 _ c hcmem
  have hmax_a := le_listMax d0 _ a hamem
  have hmax_c := le_listMax d0 _ c hcmem
  -- bounds by the endpoints on the "flat" side
  have lerp_lo : min a c ≤ (1 - t) * a + t * c := by
    rcases le_total a c with h | h
    · rw [min_eq_left h]; nlinarith
    · rw [min_eq_right h]; nlinarith
  have lerp_hi : (1 - t) * a + t * c ≤ max a c := by
    rcases le_total a c with h | h
    · rw [max_eq_right h]; nlinarith
    · rw [max_eq_left h]; nlinarith
  have hminac : listMin d0 (quadCandidates a b c) ≤ min a c := le_min hmin_a hmin_c
  have hmaxac : max a c ≤ listMax d0 (quadCandidates a b c) := max_le hmax_a hmax_c
  rcases lt_trichotomy d 0 with hdneg | hdz | hdpos
  · -- concave: q ≥ lerp ≥ min(a,c); the maximum is at the vertex or an endpoint
    refine ⟨?_, ?_⟩
    · have : (1 - t) * a + t * c ≤ q1 a b c t := by rw [hlerp]; nlinarith
      linarith
    · -- upper bound
      have hdne : d ≠ 0 := ne_of_lt hdneg
      by_cases hv : 0 < n / d ∧ n / d < 1
      · -- vertex value is a candidate and q(t) ≤ q(t*)
        have hvm : q1 a b c (n / d) ∈ quadCandidates a b c := by
          rw [cand_eq, hts hdne, if_pos hv]; simp
        have hle := le_listMax d0 _ _ hvm
        have hvert : q1 a b c t ≤ q1 a b c (n / d) := by
          have e : q1 a b c (n / d) - q1 a b c t = -d * ((t - n / d) * (t - n / d)) := by
            rw [q1_expand, q1_expand, ← hd', ← hn]; field_simp; ring
          have : 0 ≤ -d * ((t - n / d) * (t - n / d)) := mul_nonneg (by linarith) (mul_self_nonneg _)
          linarith
        linarith
      · -- vertex outside (0,1): monotone on [0,1]
        rw [not_and_or, not_lt, not_lt] at hv
        rcases hv with hv | hv
        · -- n/d ≤ 0 with d < 0 ⇒ n ≥ 0 ⇒ q decreasing ⇒ q ≤ a
          have hn0 : 0 ≤ n := by
            by_contra hneg; rw [not_le] at hneg
            have : 0 < n / d := div_pos_of_neg_of_neg hneg hdneg
            linarith
          have : q1 a b c t ≤ a := by rw [hq]; nlinarith [mul_nonneg h0 h0]
          linarith
        · -- n/d ≥ 1 with d < 0 ⇒ n ≤ d ⇒ q increasing ⇒ q ≤ c
          have hnd : n ≤ d := by
            have := (le_div_iff_of_neg hdneg).mp hv
            linarith
          have : q1 a b c t ≤ c := by
            have e : c - q1 a b c t = (1 - t) * (d * (1 + t) - 2 * n) := by rw [hq, hd', hn]; ring
            have : 0 ≤ (1 - t) * (d * (1 + t) - 2 * n) := by
              apply mul_nonneg (by linarith); nlinarith
            linarith
          linarith
  · -- d = 0: the curve coordinate is the linear interpolation
    have : q1 a b c t = (1 - t) * a + t * c := by rw [hlerp, hdz]; ring
    rw [this]; exact ⟨by linarith, by linarith⟩
  · -- convex: q ≤ lerp ≤ max(a,c); the minimum is at the vertex or an endpoint
    refine ⟨?_, ?_⟩
    · have hdne : d ≠ 0 := ne_of_gt hdpos
      by_cases hv : 0 < n / d ∧ n / d < 1
      · have hvm : q1 a b c (n / d) ∈ quadCandidates a b c := by
          rw [cand_eq, hts hdne, if_pos hv]; simp
        have hle := listMin_le d0 _ _ hvm
        have hvert : q1 a b c (n / d) ≤ q1 a b c t := by
          have e : q1 a b c t - q1 a b c (n / d) = d * ((t - n / d) * (t - n / d)) := by
            rw [q1_expand, q1_expand, ← hd', ← hn]; field_simp; ring
          have : 0 ≤ d * ((t - n / d) * (t - n / d)) := mul_nonneg hdpos.le (mul_self_nonneg _)
          linarith
        linarith
      · rw [not_and_or, not_lt, not_lt] at hv
        rcases hv with hv | hv
        · have hn0 : n ≤ 0 := by
            by_contra hpos; rw [not_le] at hpos
            have : 0 < n / d := div_pos hpos hdpos
            linarith
          have : a ≤ q1 a b c t := by rw [hq]; nlinarith [mul_nonneg h0 h0]
          linarith
        · have hnd : d ≤ n := by
            have := (le_div_iff₀ hdpos).mp hv
            linarith
          have : c ≤ q1 a b c t := by
            have e : q1 a b c t - c = (1 - t) * (2 * n - d * (1 + t)) := by rw [hq, hd', hn]; ring
            have : 0 ≤ (1 - t) * (2 * n - d * (1 + t)) := by
              apply mul_nonneg (by linarith); nlinarith
            linarith
          linarith
    · have : q1 a b c t ≤ (1 - t) * a + t * c := by rw [hlerp]; nlinarith
      linarith

/-- **Tightness, one coordinate**: each bound is the curve's value at some parameter in [0,1]. -/
theorem quad1d_tight (a b c d0 : K) :
    (∃ t, 0 ≤ t ∧ t ≤ 1 ∧ q1 a b c t = listMin d0 (quadCandidates a b c)) ∧
    (∃ t, 0 ≤ t ∧ t ≤ 1 ∧ q1 a b c t = listMax d0 (quadCandidates a b c)) := by
  have hne : quadCandidates a b c ≠ [] := by rw [cand_eq]; split_ifs <;> simp
  have wit : ∀ x ∈ quadCandidates a b c, ∃ t, 0 ≤ t ∧ t ≤ 1 ∧ q1 a b c t = x := by
    intro x hx
    rw [cand_eq] at hx
    split_ifs at hx with h
    · simp only [List.mem_cons, List.mem_nil_iff, or_false] at hx
      rcases hx with rfl | rfl | rfl
      · exact ⟨0, le_rfl, zero_le_one, by simp [q1]⟩
      · exact ⟨1, zero_le_one, le_rfl, by simp [q1]⟩
      · exact ⟨_, h.1.le, h.2.le, rfl⟩
    · simp only [List.mem_cons, List.mem_nil_iff, or_false] at hx
      rcases hx with rfl | rfl
      · exact ⟨0, le_rfl, zero_le_one, by simp [q1]⟩
      · exact ⟨1, zero_le_one, le_rfl, by simp [q1]⟩
  exact ⟨wit _ (listMin_mem d0 _ hne), wit _ (listMax_mem d0 _ hne)⟩

/-- **C08 for quadratic Béziers**: the reported box contains `point(t)` for every t ∈ [0,1], is
    ordered, and each of its four sides is touched by the curve. -/
theorem C08_quad (p0 p1 p2 : Pt K) (t : K) (h0 : 0 ≤ t) (h1 : t ≤ 1) :
    let b := quadBBox p0 p1 p2
    let p := Seg.quadPoint p0 p1 p2 t
    (b.xmin ≤ p.x ∧ p.x ≤ b.xmax ∧ b.ymin ≤ p.y ∧ p.y ≤ b.ymax) ∧
    (b.xmin ≤ b.xmax ∧ b.ymin ≤ b.ymax) ∧
    ((∃ s, 0 ≤ s ∧ s ≤ 1 ∧ (Seg.quadPoint p0 p1 p2 s).x = b.xmin) ∧
     (∃ s, 0 ≤ s ∧ s ≤ 1 ∧ (Seg.quadPoint p0 p1 p2 s).x = b.xmax) ∧
     (∃ s, 0 ≤ s ∧ s ≤ 1 ∧ (Seg.quadPoint p0 p1 p2 s).y = b.ymin) ∧
     (∃ s, 0 ≤ s ∧ s ≤ 1 ∧ (Seg.quadPoint p0 p1 p2 s).y = b.ymax)) := by
  have ex : ∀ s, (Seg.quadPoint p0 p1 p2 s).x = q1 p0.x p1.x p2.x s := fun s => by simp [Seg.quadPoint, q1]
  have ey : ∀ s, (Seg.quadPoint p0 p1 p2 s).y = q1 p0.y p1.y p2.y s := fun s => by simp [Seg.quadPoint, q1]
  obtain ⟨cx1, cx2⟩ := quad1d_contains p0.x p1.x p2.x t h0 h1 p0.x
  obtain ⟨cy1, cy2⟩ := quad1d_contains p0.y p1.y p2.y t h0 h1 p0.y
  obtain ⟨tx1, tx2⟩ := quad1d_tight p0.x p1.x p2.x p0.x
  obtain ⟨ty1, ty2⟩ := quad1d_tight p0.y p1.y p2.y p0.y
  simp only [quadBBox, ex, ey]
  exact ⟨⟨cx1, cx2, cy1, cy2⟩, ⟨le_trans cx1 cx2, le_trans cy1 cy2⟩, tx1, tx2, ty1, ty2⟩

/-! ### Unions and stroke -/

/-- the union of two boxes contains both, and each of its sides is a side of one of them
    (so it is tight if they are, and ordered if they are) -/
theorem C08_union2 (a b : BB K) :
    let u := BB.union a b
    (u.xmin ≤ a.xmin ∧ u.xmin ≤ b.xmin ∧ a.xmax ≤ u.xmax ∧ b.xmax ≤ u.xmax ∧
     u.ymin ≤ a.ymin ∧ u.ymin ≤ b.ymin ∧ a.ymax ≤ u.ymax ∧ b.ymax ≤ u.ymax) ∧
    ((u.xmin = a.xmin ∨ u.xmin = b.xmin) ∧ (u.xmax = a.xmax ∨ u.xmax = b.xmax) ∧
     (u.ymin = a.ymin ∨ u.ymin = b.ymin) ∧ (u.ymax = a.ymax ∨ u.ymax = b.ymax)) := by
  simp only [BB.union, pmin_eq, pmax_eq]
  exact ⟨⟨min_le_left _ _, min_le_right _ _, le_max_left _ _, le_max_right _ _,
          min_le_left _ _, min_le_right _ _, le_max_left _ _, le_max_right _ _⟩,
         min_choice _ _, max_choice _ _, min_choice _ _, max_choice _ _⟩

def BB.le (inner outer : BB K) : Prop :=
  outer.xmin ≤ inner.xmin ∧ outer.ymin ≤ inner.ymin ∧ inner.xmax ≤ outer.xmax ∧ inner.ymax ≤ outer.ymax

theorem foldl_union_ge (acc : BB K) (bs : List (BB K)) :
    BB.le acc (bs.foldl BB.union acc) ∧ ∀ b ∈ bs, BB.le b (bs.foldl BB.union acc) := by
  induction bs generalizing acc with
  | nil => exact ⟨⟨le_rfl, le_rfl, le_rfl, le_rfl⟩, by simp⟩
  | cons b bs ih =>
    simp only [List.foldl_cons]
    obtain ⟨h1, h2⟩ := ih (BB.union acc b)
    obtain ⟨⟨u1, u2, u3, u4, u5, u6, u7, u8⟩, -⟩ := C08_union2 acc b
    obtain ⟨g1, g2, g3, g4⟩ := h1
    refine ⟨⟨le_trans g1 u1, le_trans g2 u5, le_trans u3 g3, le_trans u7 g4⟩, ?_⟩
    intro x hx
    rcases List.mem_cons.mp hx with h | h
    · subst h; exact ⟨le_trans g1 u2, le_trans g2 u6, le_trans u4 g3, le_trans u8 g4⟩
    · exact h2 x h

theorem foldl_union_side (acc : BB K) (bs : List (BB K)) :
    let u := bs.foldl BB.union acc
    (∃ b ∈ acc :: bs, u.xmin = b.xmin) ∧ (∃ b ∈ acc :: bs, u.xmax = b.xmax) ∧
    (∃ b ∈ acc :: bs, u.ymin = b.ymin) ∧ (∃ b ∈ acc :: bs, u.ymax = b.ymax) := by
  induction bs generalizing acc with
  | nil => simp
  | cons b bs ih =>
    simp only [List.foldl_cons]
    obtain ⟨i1, i2, i3, i4⟩ := ih (BB.union acc b)
    obtain ⟨-, c1, c2, c3, c4⟩ := C08_union2 acc b
    have lift : ∀ (f : BB K → K) (v : K), (f (BB.union acc b) = f acc ∨ f (BB.union acc b) = f b) →
        (∃ x ∈ BB.union acc b :: bs, v = f x) → ∃ x ∈ acc :: b :: bs, v = f x := by
      intro f v hc ⟨x, hx, hv⟩
      rcases List.mem_cons.mp hx with h | h
      · subst h
        rcases hc with h' | h'
        · exact ⟨acc, by simp, by rw [hv, h']⟩
        · exact ⟨b, by simp, by rw [hv, h']⟩
      · exact ⟨x, by simp [h], hv⟩
    exact ⟨lift BB.xmin _ c1 i1, lift BB.xmax _ c2 i2, lift BB.ymin _ c3 i3, lift BB.ymax _ c4 i4⟩

/-- **The box of a container (path, subpath, group, use — any number of members) is the union
    of its members' boxes**: it contains every member's box and each of its sides is a side of some
    member, hence it is tight whenever the members' boxes are. An empty container has no box. -/
theorem C08_union (bs : List (BB K)) :
    (bs = [] → bbUnion bs = none) ∧
    (∀ u, bbUnion bs = some u →
      (∀ b ∈ bs, BB.le b u) ∧
      (∃ b ∈ bs, u.xmin = b.xmin) ∧ (∃ b ∈ bs, u.xmax = b.xmax) ∧
      (∃ b ∈ bs, u.ymin = b.ymin) ∧ (∃ b ∈ bs, u.ymax = b.ymax)) := by
  constructor
  · intro h; subst h; rfl
  · intro u hu
    cases bs with
    | nil => simp [bbUnion] at hu
    | cons b bs =>
      simp only [bbUnion, Option.some.injEq] at hu
      subst hu
      obtain ⟨h1, h2⟩ := foldl_union_ge b bs
      refine ⟨?_, foldl_union_side b bs⟩
      intro x hx
      rcases List.mem_cons.mp hx with h | h
      · subst h; exact h1
      · exact h2 x h

/-- With a painted stroke the box is the geometric box grown by `delta` (half the effective stroke
    width) on every side; it stays ordered for `delta ≥ 0` and still contains the geometry. -/
theorem C08_stroke (b : BB K) (delta : K) (hd : 0 ≤ delta) (hx : b.xmin ≤ b.xmax) (hy : b.ymin ≤ b.ymax) :
    let g := b.grow delta
    g.xmin = b.xmin - delta ∧ g.xmax = b.xmax + delta ∧ g.ymin = b.ymin - delta ∧ g.ymax = b.ymax + delta ∧
    g.xmin ≤ g.xmax ∧ g.ymin ≤ g.ymax ∧ BB.le b g := by
  simp only [BB.grow, BB.le]
  exact ⟨trivial, trivial, trivial, trivial, by linarith, by linarith, by linarith, by linarith, by linarith, by linarith⟩

/-! ### Non-vacuity -/
example : quadCandidates (0 : ℚ) 10 0 = [0, 0, 5] := by
  simp only [quadCandidates, two]; norm_num

end Svg.C08
