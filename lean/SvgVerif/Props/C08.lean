/-
  Props/C08.lean — property C08: bounding boxes contain the geometry and are tight.

  Proved over any linearly ordered field: lines and quadratic Béziers (containment for every
  t ∈ [0,1], tightness, ordering), unions of any number of boxes (containers, paths, subpaths),
  stroke growth, and cubic Béziers (containment, tightness, ordering; for every cubic whose leading
  coefficient is at least the code's 1e-8 threshold in size or exactly zero, given a square root
  on the non-negatives). Arcs: the algebraic part is proved (section Arc: every point of the
  denotation lies in the whole ellipse's box, the box is touched exactly where a coordinate's
  derivative vanishes, and the angles `Arc.bbox` collects are those), and so is the analytic part
  over ℝ (section ArcReal: between parameters with no critical one strictly inside, a coordinate
  stays between its end values). That the `k`-shifted candidates converted by `angle_inv`
  enumerate every critical parameter inside a partial sweep is not carried by a theorem, so that,
  and cubics with a leading coefficient strictly inside the threshold, are decided by the
  correspondence stream and the dense-sampling + analytic-extrema oracle (partial in MANIFEST).
-/
import SvgVerif.Model.BBox
import SvgVerif.Proofs.ArcMono
import Mathlib.Tactic.Ring
import Mathlib.Tactic.NormNum
import Mathlib.Tactic.FieldSimp
import Mathlib.Tactic.Linarith
import Mathlib.Tactic.Positivity
import Mathlib.Tactic.LinearCombination
import Mathlib.Algebra.Order.Field.Basic

set_option linter.unusedSectionVars false
set_option linter.unusedVariables false

namespace Svg.C08
open Svg

variable {K : Type} [Field K] [LinearOrder K] [IsStrictOrderedRing K]

theorem pmin_eq (a b : K) : pmin a b = min a b := by
  unfold pmin; rcases lt_or_ge b a with h | h
  · rw [if_pos h, min_eq_right h.le]
  · rw [if_neg (not_lt.mpr h), min_eq_left h]

theorem pmax_eq (a b : K) : pmax a b = max a b := by
  unfold pmax; rcases lt_or_ge a b with h | h
  · rw [if_pos h, max_eq_right h.le]
  · rw [if_neg (not_lt.mpr h), max_eq_left h]

/-! ### Lines -/

/-- every point of a line lies in its box; the box is ordered; each side is attained at an
    endpoint (t = 0 or t = 1). -/
theorem C08_line (s e : Pt K) (t : K) (h0 : 0 ≤ t) (h1 : t ≤ 1) :
    let b := lineBBox s e
    let p := Seg.linePoint s e t
    (b.xmin ≤ p.x ∧ p.x ≤ b.xmax ∧ b.ymin ≤ p.y ∧ p.y ≤ b.ymax) ∧
    (b.xmin ≤ b.xmax ∧ b.ymin ≤ b.ymax) ∧
    ((b.xmin = s.x ∨ b.xmin = e.x) ∧ (b.xmax = s.x ∨ b.xmax = e.x) ∧
     (b.ymin = s.y ∨ b.ymin = e.y) ∧ (b.ymax = s.y ∨ b.ymax = e.y)) := by
  simp only [lineBBox, Seg.linePoint, Pt.towards, pmin_eq, pmax_eq]
  have key : ∀ a c : K, min a c ≤ t * (c - a) + a ∧ t * (c - a) + a ≤ max a c := by
    intro a c
    rcases le_total a c with h | h
    · rw [min_eq_left h, max_eq_right h]
      constructor <;> nlinarith
    · rw [min_eq_right h, max_eq_left h]
      constructor <;> nlinarith
  refine ⟨⟨(key _ _).1, (key _ _).2, (key _ _).1, (key _ _).2⟩,
    ⟨min_le_max, min_le_max⟩, ?_, ?_, ?_, ?_⟩
  · exact (min_choice _ _)
  · exact (max_choice _ _)
  · exact (min_choice _ _)
  · exact (max_choice _ _)

/-! ### Quadratic Béziers, one coordinate at a time -/

/-- the coordinate function of a quadratic Bézier -/
def q1 (a b c t : K) : K := (1 - t) * (1 - t) * a + two * ((1 - t) * t) * b + t * t * c

theorem q1_expand (a b c t : K) : q1 a b c t = a - 2 * (a - b) * t + (a - 2 * b + c) * (t * t) := by
  simp only [q1, two]; ring

/-- the parameter the code evaluates: the vertex `n/d` of the coordinate parabola, or 1/2 when d = 0 -/
def tstar (a b c : K) : K := if a - two * b + c ≠ 0 then (a - b) / (a - two * b + c) else 1 / two

theorem cand_eq (a b c : K) :
    quadCandidates a b c =
      if 0 < tstar a b c ∧ tstar a b c < 1 then [a, c, q1 a b c (tstar a b c)] else [a, c] := by
  simp only [quadCandidates, tstar, q1, bne_iff_ne, ne_eq, ite_not]

/-! ### min / max over candidate lists -/

theorem foldl_pmin_le_acc (acc : K) (zs : List K) : zs.foldl pmin acc ≤ acc := by
  induction zs generalizing acc with
  | nil => simp
  | cons z zs ih =>
    simp only [List.foldl_cons]
    exact le_trans (ih _) (by rw [pmin_eq]; exact min_le_left _ _)

theorem foldl_pmin_le_mem (acc : K) (zs : List K) (x : K) (hx : x ∈ zs) : zs.foldl pmin acc ≤ x := by
  induction zs generalizing acc with
  | nil => simp at hx
  | cons z zs ih =>
    simp only [List.foldl_cons]
    rcases List.mem_cons.mp hx with h | h
    · subst h
      exact le_trans (foldl_pmin_le_acc _ _) (by rw [pmin_eq]; exact min_le_right _ _)
    · exact ih _ h

theorem foldl_pmin_mem (acc : K) (zs : List K) : zs.foldl pmin acc = acc ∨ zs.foldl pmin acc ∈ zs := by
  induction zs generalizing acc with
  | nil => simp
  | cons z zs ih =>
    simp only [List.foldl_cons]
    rcases ih (pmin acc z) with h | h
    · rw [h, pmin_eq]
      rcases min_choice acc z with h' | h'
      · left; exact h'
      · right; rw [h']; exact List.mem_cons_self
    · right; exact List.mem_cons_of_mem _ h

theorem foldl_pmax_ge_acc (acc : K) (zs : List K) : acc ≤ zs.foldl pmax acc := by
  induction zs generalizing acc with
  | nil => simp
  | cons z zs ih =>
    simp only [List.foldl_cons]
    exact le_trans (by rw [pmax_eq]; exact le_max_left _ _) (ih _)

theorem foldl_pmax_ge_mem (acc : K) (zs : List K) (x : K) (hx : x ∈ zs) : x ≤ zs.foldl pmax acc := by
  induction zs generalizing acc with
  | nil => simp at hx
  | cons z zs ih =>
    simp only [List.foldl_cons]
    rcases List.mem_cons.mp hx with h | h
    · subst h
      exact le_trans (by rw [pmax_eq]; exact le_max_right _ _) (foldl_pmax_ge_acc _ _)
    · exact ih _ h

theorem foldl_pmax_mem (acc : K) (zs : List K) : zs.foldl pmax acc = acc ∨ zs.foldl pmax acc ∈ zs := by
  induction zs generalizing acc with
  | nil => simp
  | cons z zs ih =>
    simp only [List.foldl_cons]
    rcases ih (pmax acc z) with h | h
    · rw [h, pmax_eq]
      rcases max_choice acc z with h' | h'
      · left; exact h'
      · right; rw [h']; exact List.mem_cons_self
    · right; exact List.mem_cons_of_mem _ h

theorem listMin_le (d : K) (l : List K) (x : K) (hx : x ∈ l) : listMin d l ≤ x := by
  cases l with
  | nil => simp at hx
  | cons y ys =>
    simp only [listMin]
    rcases List.mem_cons.mp hx with h | h
    · subst h; exact foldl_pmin_le_acc _ _
    · exact foldl_pmin_le_mem _ _ _ h

theorem le_listMax (d : K) (l : List K) (x : K) (hx : x ∈ l) : x ≤ listMax d l := by
  cases l with
  | nil => simp at hx
  | cons y ys =>
    simp only [listMax]
    rcases List.mem_cons.mp hx with h | h
    · subst h; exact foldl_pmax_ge_acc _ _
    · exact foldl_pmax_ge_mem _ _ _ h

theorem listMin_mem (d : K) (l : List K) (hl : l ≠ []) : listMin d l ∈ l := by
  cases l with
  | nil => exact absurd rfl hl
  | cons y ys =>
    simp only [listMin]
    rcases foldl_pmin_mem y ys with h | h
    · rw [h]; exact List.mem_cons_self
    · exact List.mem_cons_of_mem _ h

theorem listMax_mem (d : K) (l : List K) (hl : l ≠ []) : listMax d l ∈ l := by
  cases l with
  | nil => exact absurd rfl hl
  | cons y ys =>
    simp only [listMax]
    rcases foldl_pmax_mem y ys with h | h
    · rw [h]; exact List.mem_cons_self
    · exact List.mem_cons_of_mem _ h

/-- **Containment, one coordinate**: for every t ∈ [0,1] the quadratic's value lies between the
    minimum and the maximum of the candidate values the code collects. -/
theorem quad1d_contains (a b c t : K) (h0 : 0 ≤ t) (h1 : t ≤ 1) (d0 : K) :
    listMin d0 (quadCandidates a b c) ≤ q1 a b c t ∧ q1 a b c t ≤ listMax d0 (quadCandidates a b c) := by
  -- notation
  set n := a - b with hn
  set d := a - two * b + c with hd
  have hd' : d = a - 2 * b + c := by simp only [hd, two]; ring
  have hq : q1 a b c t = a - 2 * n * t + d * (t * t) := by rw [q1_expand, hd']
  -- q(t) = lerp(a, c; t) − d·t(1−t)
  have hlerp : q1 a b c t = (1 - t) * a + t * c - d * (t * (1 - t)) := by
    rw [hq, hd', hn]; ring
  have ht1 : 0 ≤ t * (1 - t) := mul_nonneg h0 (by linarith)
  have hamem : a ∈ quadCandidates a b c := by
    rw [cand_eq]; split_ifs <;> simp
  have hcmem : c ∈ quadCandidates a b c := by
    rw [cand_eq]; split_ifs <;> simp
  have hts : d ≠ 0 → tstar a b c = n / d := by
    intro h; simp only [tstar, ← hd, ← hn, ne_eq, h, not_false_eq_true, if_true]
  have hmin_a := listMin_le d0 _ a hamem
  have hmin_c := listMin_le d0 _ c hcmem
  have hmax_a := le_listMax d0 _ a hamem
  have hmax_c := le_listMax d0 _ c hcmem
  -- bounds by the endpoints on the "flat" side
  have lerp_lo : min a c ≤ (1 - t) * a + t * c := by
    rcases le_total a c with h | h
    · rw [min_eq_left h]; nlinarith
    · rw [min_eq_right h]; nlinarith
  have lerp_hi : (1 - t) * a + t * c ≤ max a c := by
    rcases le_total a c with h | h
    · rw [max_eq_right h]; nlinarith
    · rw [max_eq_left h]; nlinarith
  have hminac : listMin d0 (quadCandidates a b c) ≤ min a c := le_min hmin_a hmin_c
  have hmaxac : max a c ≤ listMax d0 (quadCandidates a b c) := max_le hmax_a hmax_c
  rcases lt_trichotomy d 0 with hdneg | hdz | hdpos
  · -- concave: q ≥ lerp ≥ min(a,c); the maximum is at the vertex or an endpoint
    refine ⟨?_, ?_⟩
    · have : (1 - t) * a + t * c ≤ q1 a b c t := by rw [hlerp]; nlinarith
      linarith
    · -- upper bound
      have hdne : d ≠ 0 := ne_of_lt hdneg
      by_cases hv : 0 < n / d ∧ n / d < 1
      · -- vertex value is a candidate and q(t) ≤ q(t*)
        have hvm : q1 a b c (n / d) ∈ quadCandidates a b c := by
          rw [cand_eq, hts hdne, if_pos hv]; simp
        have hle := le_listMax d0 _ _ hvm
        have hvert : q1 a b c t ≤ q1 a b c (n / d) := by
          have e : q1 a b c (n / d) - q1 a b c t = -d * ((t - n / d) * (t - n / d)) := by
            rw [q1_expand, q1_expand, ← hd', ← hn]; field_simp; ring
          have : 0 ≤ -d * ((t - n / d) * (t - n / d)) := mul_nonneg (by linarith) (mul_self_nonneg _)
          linarith
        linarith
      · -- vertex outside (0,1): monotone on [0,1]
        rw [not_and_or, not_lt, not_lt] at hv
        rcases hv with hv | hv
        · -- n/d ≤ 0 with d < 0 ⇒ n ≥ 0 ⇒ q decreasing ⇒ q ≤ a
          have hn0 : 0 ≤ n := by
            by_contra hneg; rw [not_le] at hneg
            have : 0 < n / d := div_pos_of_neg_of_neg hneg hdneg
            linarith
          have : q1 a b c t ≤ a := by rw [hq]; nlinarith [mul_nonneg h0 h0]
          linarith
        · -- n/d ≥ 1 with d < 0 ⇒ n ≤ d ⇒ q increasing ⇒ q ≤ c
          have hnd : n ≤ d := by
            have := (le_div_iff_of_neg hdneg).mp hv
            linarith
          have : q1 a b c t ≤ c := by
            have e : c - q1 a b c t = (1 - t) * (d * (1 + t) - 2 * n) := by rw [hq, hd', hn]; ring
            have : 0 ≤ (1 - t) * (d * (1 + t) - 2 * n) := by
              apply mul_nonneg (by linarith); nlinarith
            linarith
          linarith
  · -- d = 0: the curve coordinate is the linear interpolation
    have : q1 a b c t = (1 - t) * a + t * c := by rw [hlerp, hdz]; ring
    rw [this]; exact ⟨by linarith, by linarith⟩
  · -- convex: q ≤ lerp ≤ max(a,c); the minimum is at the vertex or an endpoint
    refine ⟨?_, ?_⟩
    · have hdne : d ≠ 0 := ne_of_gt hdpos
      by_cases hv : 0 < n / d ∧ n / d < 1
      · have hvm : q1 a b c (n / d) ∈ quadCandidates a b c := by
          rw [cand_eq, hts hdne, if_pos hv]; simp
        have hle := listMin_le d0 _ _ hvm
        have hvert : q1 a b c (n / d) ≤ q1 a b c t := by
          have e : q1 a b c t - q1 a b c (n / d) = d * ((t - n / d) * (t - n / d)) := by
            rw [q1_expand, q1_expand, ← hd', ← hn]; field_simp; ring
          have : 0 ≤ d * ((t - n / d) * (t - n / d)) := mul_nonneg hdpos.le (mul_self_nonneg _)
          linarith
        linarith
      · rw [not_and_or, not_lt, not_lt] at hv
        rcases hv with hv | hv
        · have hn0 : n ≤ 0 := by
            by_contra hpos; rw [not_le] at hpos
            have : 0 < n / d := div_pos hpos hdpos
            linarith
          have : a ≤ q1 a b c t := by rw [hq]; nlinarith [mul_nonneg h0 h0]
          linarith
        · have hnd : d ≤ n := by
            have := (le_div_iff₀ hdpos).mp hv
            linarith
          have : c ≤ q1 a b c t := by
            have e : q1 a b c t - c = (1 - t) * (2 * n - d * (1 + t)) := by rw [hq, hd', hn]; ring
            have : 0 ≤ (1 - t) * (2 * n - d * (1 + t)) := by
              apply mul_nonneg (by linarith); nlinarith
            linarith
          linarith
    · have : q1 a b c t ≤ (1 - t) * a + t * c := by rw [hlerp]; nlinarith
      linarith

/-- **Tightness, one coordinate**: each bound is the curve's value at some parameter in [0,1]. -/
theorem quad1d_tight (a b c d0 : K) :
    (∃ t, 0 ≤ t ∧ t ≤ 1 ∧ q1 a b c t = listMin d0 (quadCandidates a b c)) ∧
    (∃ t, 0 ≤ t ∧ t ≤ 1 ∧ q1 a b c t = listMax d0 (quadCandidates a b c)) := by
  have hne : quadCandidates a b c ≠ [] := by rw [cand_eq]; split_ifs <;> simp
  have wit : ∀ x ∈ quadCandidates a b c, ∃ t, 0 ≤ t ∧ t ≤ 1 ∧ q1 a b c t = x := by
    intro x hx
    rw [cand_eq] at hx
    split_ifs at hx with h
    · simp only [List.mem_cons, List.mem_nil_iff, or_false] at hx
      rcases hx with rfl | rfl | rfl
      · exact ⟨0, le_rfl, zero_le_one, by simp [q1]⟩
      · exact ⟨1, zero_le_one, le_rfl, by simp [q1]⟩
      · exact ⟨_, h.1.le, h.2.le, rfl⟩
    · simp only [List.mem_cons, List.mem_nil_iff, or_false] at hx
      rcases hx with rfl | rfl
      · exact ⟨0, le_rfl, zero_le_one, by simp [q1]⟩
      · exact ⟨1, zero_le_one, le_rfl, by simp [q1]⟩
  exact ⟨wit _ (listMin_mem d0 _ hne), wit _ (listMax_mem d0 _ hne)⟩

/-- **C08 for quadratic Béziers**: the reported box contains `point(t)` for every t ∈ [0,1], is
    ordered, and each of its four sides is touched by the curve. -/
theorem C08_quad (p0 p1 p2 : Pt K) (t : K) (h0 : 0 ≤ t) (h1 : t ≤ 1) :
    let b := quadBBox p0 p1 p2
    let p := Seg.quadPoint p0 p1 p2 t
    (b.xmin ≤ p.x ∧ p.x ≤ b.xmax ∧ b.ymin ≤ p.y ∧ p.y ≤ b.ymax) ∧
    (b.xmin ≤ b.xmax ∧ b.ymin ≤ b.ymax) ∧
    ((∃ s, 0 ≤ s ∧ s ≤ 1 ∧ (Seg.quadPoint p0 p1 p2 s).x = b.xmin) ∧
     (∃ s, 0 ≤ s ∧ s ≤ 1 ∧ (Seg.quadPoint p0 p1 p2 s).x = b.xmax) ∧
     (∃ s, 0 ≤ s ∧ s ≤ 1 ∧ (Seg.quadPoint p0 p1 p2 s).y = b.ymin) ∧
     (∃ s, 0 ≤ s ∧ s ≤ 1 ∧ (Seg.quadPoint p0 p1 p2 s).y = b.ymax)) := by
  have ex : ∀ s, (Seg.quadPoint p0 p1 p2 s).x = q1 p0.x p1.x p2.x s := fun s => by simp [Seg.quadPoint, q1]
  have ey : ∀ s, (Seg.quadPoint p0 p1 p2 s).y = q1 p0.y p1.y p2.y s := fun s => by simp [Seg.quadPoint, q1]
  obtain ⟨cx1, cx2⟩ := quad1d_contains p0.x p1.x p2.x t h0 h1 p0.x
  obtain ⟨cy1, cy2⟩ := quad1d_contains p0.y p1.y p2.y t h0 h1 p0.y
  obtain ⟨tx1, tx2⟩ := quad1d_tight p0.x p1.x p2.x p0.x
  obtain ⟨ty1, ty2⟩ := quad1d_tight p0.y p1.y p2.y p0.y
  simp only [quadBBox, ex, ey]
  exact ⟨⟨cx1, cx2, cy1, cy2⟩, ⟨le_trans cx1 cx2, le_trans cy1 cy2⟩, tx1, tx2, ty1, ty2⟩

/-! ### Unions and stroke -/

/-- the union of two boxes contains both, and each of its sides is a side of one of them
    (so it is tight if they are, and ordered if they are) -/
theorem C08_union2 (a b : BB K) :
    let u := BB.union a b
    (u.xmin ≤ a.xmin ∧ u.xmin ≤ b.xmin ∧ a.xmax ≤ u.xmax ∧ b.xmax ≤ u.xmax ∧
     u.ymin ≤ a.ymin ∧ u.ymin ≤ b.ymin ∧ a.ymax ≤ u.ymax ∧ b.ymax ≤ u.ymax) ∧
    ((u.xmin = a.xmin ∨ u.xmin = b.xmin) ∧ (u.xmax = a.xmax ∨ u.xmax = b.xmax) ∧
     (u.ymin = a.ymin ∨ u.ymin = b.ymin) ∧ (u.ymax = a.ymax ∨ u.ymax = b.ymax)) := by
  simp only [BB.union, pmin_eq, pmax_eq]
  exact ⟨⟨min_le_left _ _, min_le_right _ _, le_max_left _ _, le_max_right _ _,
          min_le_left _ _, min_le_right _ _, le_max_left _ _, le_max_right _ _⟩,
         min_choice _ _, max_choice _ _, min_choice _ _, max_choice _ _⟩

def BB.le (inner outer : BB K) : Prop :=
  outer.xmin ≤ inner.xmin ∧ outer.ymin ≤ inner.ymin ∧ inner.xmax ≤ outer.xmax ∧ inner.ymax ≤ outer.ymax

theorem foldl_union_ge (acc : BB K) (bs : List (BB K)) :
    BB.le acc (bs.foldl BB.union acc) ∧ ∀ b ∈ bs, BB.le b (bs.foldl BB.union acc) := by
  induction bs generalizing acc with
  | nil => exact ⟨⟨le_rfl, le_rfl, le_rfl, le_rfl⟩, by simp⟩
  | cons b bs ih =>
    simp only [List.foldl_cons]
    obtain ⟨h1, h2⟩ := ih (BB.union acc b)
    obtain ⟨⟨u1, u2, u3, u4, u5, u6, u7, u8⟩, -⟩ := C08_union2 acc b
    obtain ⟨g1, g2, g3, g4⟩ := h1
    refine ⟨⟨le_trans g1 u1, le_trans g2 u5, le_trans u3 g3, le_trans u7 g4⟩, ?_⟩
    intro x hx
    rcases List.mem_cons.mp hx with h | h
    · subst h; exact ⟨le_trans g1 u2, le_trans g2 u6, le_trans u4 g3, le_trans u8 g4⟩
    · exact h2 x h

theorem foldl_union_side (acc : BB K) (bs : List (BB K)) :
    let u := bs.foldl BB.union acc
    (∃ b ∈ acc :: bs, u.xmin = b.xmin) ∧ (∃ b ∈ acc :: bs, u.xmax = b.xmax) ∧
    (∃ b ∈ acc :: bs, u.ymin = b.ymin) ∧ (∃ b ∈ acc :: bs, u.ymax = b.ymax) := by
  induction bs generalizing acc with
  | nil => simp
  | cons b bs ih =>
    simp only [List.foldl_cons]
    obtain ⟨i1, i2, i3, i4⟩ := ih (BB.union acc b)
    obtain ⟨-, c1, c2, c3, c4⟩ := C08_union2 acc b
    have lift : ∀ (f : BB K → K) (v : K), (f (BB.union acc b) = f acc ∨ f (BB.union acc b) = f b) →
        (∃ x ∈ BB.union acc b :: bs, v = f x) → ∃ x ∈ acc :: b :: bs, v = f x := by
      intro f v hc ⟨x, hx, hv⟩
      rcases List.mem_cons.mp hx with h | h
      · subst h
        rcases hc with h' | h'
        · exact ⟨acc, by simp, by rw [hv, h']⟩
        · exact ⟨b, by simp, by rw [hv, h']⟩
      · exact ⟨x, by simp [h], hv⟩
    exact ⟨lift BB.xmin _ c1 i1, lift BB.xmax _ c2 i2, lift BB.ymin _ c3 i3, lift BB.ymax _ c4 i4⟩

/-- **The box of a container (path, subpath, group, use — any number of members) is the union
    of its members' boxes**: it contains every member's box and each of its sides is a side of some
    member, hence it is tight whenever the members' boxes are. An empty container has no box. -/
theorem C08_union (bs : List (BB K)) :
    (bs = [] → bbUnion bs = none) ∧
    (∀ u, bbUnion bs = some u →
      (∀ b ∈ bs, BB.le b u) ∧
      (∃ b ∈ bs, u.xmin = b.xmin) ∧ (∃ b ∈ bs, u.xmax = b.xmax) ∧
      (∃ b ∈ bs, u.ymin = b.ymin) ∧ (∃ b ∈ bs, u.ymax = b.ymax)) := by
  constructor
  · intro h; subst h; rfl
  · intro u hu
    cases bs with
    | nil => simp [bbUnion] at hu
    | cons b bs =>
      simp only [bbUnion, Option.some.injEq] at hu
      subst hu
      obtain ⟨h1, h2⟩ := foldl_union_ge b bs
      refine ⟨?_, foldl_union_side b bs⟩
      intro x hx
      rcases List.mem_cons.mp hx with h | h
      · subst h; exact h1
      · exact h2 x h

/-- With a painted stroke the box is the geometric box grown by `delta` (half the effective stroke
    width) on every side; it stays ordered for `delta ≥ 0` and still contains the geometry. -/
theorem C08_stroke (b : BB K) (delta : K) (hd : 0 ≤ delta) (hx : b.xmin ≤ b.xmax) (hy : b.ymin ≤ b.ymax) :
    let g := b.grow delta
    g.xmin = b.xmin - delta ∧ g.xmax = b.xmax + delta ∧ g.ymin = b.ymin - delta ∧ g.ymax = b.ymax + delta ∧
    g.xmin ≤ g.xmax ∧ g.ymin ≤ g.ymax ∧ BB.le b g := by
  simp only [BB.grow, BB.le]
  exact ⟨trivial, trivial, trivial, trivial, by linarith, by linarith, by linarith, by linarith, by linarith, by linarith⟩

/-! ### Non-vacuity -/
example : quadCandidates (0 : ℚ) 10 0 = [0, 0, 5] := by
  simp only [quadCandidates, two]; norm_num

/-! ### Cubic Béziers, one coordinate at a time

  No calculus is needed: Simpson's rule is exact for cubics, so the increment of the coordinate
  over an interval is a positive combination of three values of its derivative; the derivative is
  a quadratic whose sign pattern follows from its factorisation over the roots the code computes. -/
section Cubic
variable [Trig K] [FMod K]

/-- the coordinate function of a cubic Bézier, as `Seg.cubicPoint` computes it -/
def c1 (a0 a1 a2 a3 t : K) : K :=
  (1 - t) * (1 - t) * (1 - t) * a0 + three * ((1 - t) * (1 - t) * t * a1 + t * t * (1 - t) * a2) + t * t * t * a3

/-- a third of its derivative -/
def dq (a0 a1 a2 a3 t : K) : K :=
  (a1 - a0) + 2 * (a0 - 2 * a1 + a2) * t - (a0 - 3 * a1 + 3 * a2 - a3) * (t * t)

/-- Simpson's rule is exact for cubics: the increment of the coordinate over [s, t] in terms of
    three values of the derivative — all the calculus the containment proof needs -/
theorem simpson (a0 a1 a2 a3 s t : K) :
    c1 a0 a1 a2 a3 t - c1 a0 a1 a2 a3 s =
      (t - s) / 2 * (dq a0 a1 a2 a3 s + 4 * dq a0 a1 a2 a3 ((s + t) / 2) + dq a0 a1 a2 a3 t) := by
  simp only [c1, dq, three]; ring

/-- `q` does not change sign on [s, u] -/
def SignConst (q : K → K) (s u : K) : Prop :=
  (∀ x, s ≤ x → x ≤ u → 0 ≤ q x) ∨ (∀ x, s ≤ x → x ≤ u → q x ≤ 0)

/-- where the derivative keeps its sign the coordinate is monotone: every value on [s, u] lies
    between the two end values -/
theorem between_of_signConst (a0 a1 a2 a3 s u t : K) (hs : s ≤ t) (hu : t ≤ u)
    (h : SignConst (dq a0 a1 a2 a3) s u) :
    (c1 a0 a1 a2 a3 s ≤ c1 a0 a1 a2 a3 t ∧ c1 a0 a1 a2 a3 t ≤ c1 a0 a1 a2 a3 u) ∨
    (c1 a0 a1 a2 a3 u ≤ c1 a0 a1 a2 a3 t ∧ c1 a0 a1 a2 a3 t ≤ c1 a0 a1 a2 a3 s) := by
  have e1 := simpson a0 a1 a2 a3 s t
  have e2 := simpson a0 a1 a2 a3 t u
  have m1 : s ≤ (s + t) / 2 ∧ (s + t) / 2 ≤ u := ⟨by linarith, by linarith⟩
  have m2 : s ≤ (t + u) / 2 ∧ (t + u) / 2 ≤ u := ⟨by linarith, by linarith⟩
  rcases h with h | h
  · left
    have a := h s le_rfl (le_trans hs hu)
    have b := h _ m1.1 m1.2
    have c := h t hs hu
    have d := h _ m2.1 m2.2
    have e := h u (le_trans hs hu) le_rfl
    constructor
    · have : 0 ≤ (t - s) / 2 * (dq a0 a1 a2 a3 s + 4 * dq a0 a1 a2 a3 ((s + t) / 2) + dq a0 a1 a2 a3 t) :=
        mul_nonneg (by linarith) (by linarith)
      linarith
    · have : 0 ≤ (u - t) / 2 * (dq a0 a1 a2 a3 t + 4 * dq a0 a1 a2 a3 ((t + u) / 2) + dq a0 a1 a2 a3 u) :=
        mul_nonneg (by linarith) (by linarith)
      linarith
  · right
    have a := h s le_rfl (le_trans hs hu)
    have b := h _ m1.1 m1.2
    have c := h t hs hu
    have d := h _ m2.1 m2.2
    have e := h u (le_trans hs hu) le_rfl
    constructor
    · have : (u - t) / 2 * (dq a0 a1 a2 a3 t + 4 * dq a0 a1 a2 a3 ((t + u) / 2) + dq a0 a1 a2 a3 u) ≤ 0 :=
        mul_nonpos_of_nonneg_of_nonpos (by linarith) (by linarith)
      linarith
    · have : (t - s) / 2 * (dq a0 a1 a2 a3 s + 4 * dq a0 a1 a2 a3 ((s + t) / 2) + dq a0 a1 a2 a3 t) ≤ 0 :=
        mul_nonpos_of_nonneg_of_nonpos (by linarith) (by linarith)
      linarith

theorem signConst_scale (p : K → K) (k s u : K) (h : SignConst p s u) : SignConst (fun x => k * p x) s u := by
  rcases le_total 0 k with hk | hk
  · rcases h with h | h
    · exact Or.inl fun x a b => mul_nonneg hk (h x a b)
    · exact Or.inr fun x a b => mul_nonpos_of_nonneg_of_nonpos hk (h x a b)
  · rcases h with h | h
    · exact Or.inr fun x a b => mul_nonpos_of_nonpos_of_nonneg hk (h x a b)
    · exact Or.inl fun x a b => mul_nonneg_of_nonpos_of_nonpos hk (h x a b)

theorem signConst_linear (r s u : K) (h : r ≤ s ∨ u ≤ r) : SignConst (fun x => x - r) s u := by
  rcases h with h | h
  · exact Or.inl fun x a b => by linarith
  · exact Or.inr fun x a b => by linarith

theorem signConst_mul (p q : K → K) (s u : K) (hp : SignConst p s u) (hq : SignConst q s u) :
    SignConst (fun x => p x * q x) s u := by
  rcases hp with hp | hp <;> rcases hq with hq | hq
  · exact Or.inl fun x a b => mul_nonneg (hp x a b) (hq x a b)
  · exact Or.inr fun x a b => mul_nonpos_of_nonneg_of_nonpos (hp x a b) (hq x a b)
  · exact Or.inr fun x a b => mul_nonpos_of_nonpos_of_nonneg (hp x a b) (hq x a b)
  · exact Or.inl fun x a b => mul_nonneg_of_nonpos_of_nonpos (hp x a b) (hq x a b)

theorem signConst_congr (p q : K → K) (s u : K) (h : ∀ x, p x = q x) (hq : SignConst q s u) : SignConst p s u := by
  rcases hq with hq | hq
  · exact Or.inl fun x a b => by rw [h]; exact hq x a b
  · exact Or.inr fun x a b => by rw [h]; exact hq x a b


/-- **Pieces.** Let every interior critical point of the coordinate be `r1` or `r2`, in the sense
    that the derivative keeps its sign on every interval that has neither strictly inside. If `E`
    holds 0, 1 and whichever of `r1`, `r2` lie strictly between, then every value on [0, 1] lies
    between two values taken on `E`. -/
theorem cubic_between (a0 a1 a2 a3 r1 r2 : K) (E : List K)
    (hsc : ∀ s u, (r1 ≤ s ∨ u ≤ r1) → (r2 ≤ s ∨ u ≤ r2) → SignConst (dq a0 a1 a2 a3) s u)
    (m0 : (0 : K) ∈ E) (m1 : (1 : K) ∈ E) (mr1 : 0 < r1 ∧ r1 < 1 → r1 ∈ E) (mr2 : 0 < r2 ∧ r2 < 1 → r2 ∈ E)
    (t : K) (h0 : 0 ≤ t) (h1 : t ≤ 1) :
    ∃ lo ∈ E, ∃ hi ∈ E, c1 a0 a1 a2 a3 lo ≤ c1 a0 a1 a2 a3 t ∧ c1 a0 a1 a2 a3 t ≤ c1 a0 a1 a2 a3 hi := by
  have pick : ∀ s u, s ∈ E → u ∈ E → s ≤ t → t ≤ u → (r1 ≤ s ∨ u ≤ r1) → (r2 ≤ s ∨ u ≤ r2) →
      ∃ lo ∈ E, ∃ hi ∈ E, c1 a0 a1 a2 a3 lo ≤ c1 a0 a1 a2 a3 t ∧ c1 a0 a1 a2 a3 t ≤ c1 a0 a1 a2 a3 hi := by
    intro s u hs hu hst htu o1 o2
    rcases between_of_signConst a0 a1 a2 a3 s u t hst htu (hsc s u o1 o2) with h | h
    · exact ⟨s, hs, u, hu, h.1, h.2⟩
    · exact ⟨u, hu, s, hs, h.1, h.2⟩
  have out : ∀ r : K, ¬ (0 < r ∧ r < 1) → r ≤ 0 ∨ 1 ≤ r := by
    intro r h
    rcases le_or_gt r 0 with a | a
    · exact Or.inl a
    · rcases le_or_gt 1 r with b | b
      · exact Or.inr b
      · exact absurd ⟨a, b⟩ h
  by_cases i1 : 0 < r1 ∧ r1 < 1 <;> by_cases i2 : 0 < r2 ∧ r2 < 1
  · -- both inside
    have e1 := mr1 i1
    have e2 := mr2 i2
    rcases le_total r1 r2 with o | o
    · rcases le_total t r1 with a | a
      · exact pick 0 r1 m0 e1 h0 a (Or.inr le_rfl) (Or.inr o)
      · rcases le_total t r2 with b | b
        · exact pick r1 r2 e1 e2 a b (Or.inl le_rfl) (Or.inr le_rfl)
        · exact pick r2 1 e2 m1 b h1 (Or.inl o) (Or.inl le_rfl)
    · rcases le_total t r2 with a | a
      · exact pick 0 r2 m0 e2 h0 a (Or.inr o) (Or.inr le_rfl)
      · rcases le_total t r1 with b | b
        · exact pick r2 r1 e2 e1 a b (Or.inr le_rfl) (Or.inl le_rfl)
        · exact pick r1 1 e1 m1 b h1 (Or.inl le_rfl) (Or.inl o)
  · have e1 := mr1 i1
    have o2 := out r2 i2
    rcases le_total t r1 with a | a
    · exact pick 0 r1 m0 e1 h0 a (Or.inr le_rfl) (o2.elim Or.inl (fun h => Or.inr (by linarith [i1.2])))
    · exact pick r1 1 e1 m1 a h1 (Or.inl le_rfl) (o2.elim (fun h => Or.inl (by linarith [i1.1])) Or.inr)
  · have e2 := mr2 i2
    have o1 := out r1 i1
    rcases le_total t r2 with a | a
    · exact pick 0 r2 m0 e2 h0 a (o1.elim Or.inl (fun h => Or.inr (by linarith [i2.2]))) (Or.inr le_rfl)
    · exact pick r2 1 e2 m1 a h1 (o1.elim (fun h => Or.inl (by linarith [i2.1])) Or.inr) (Or.inl le_rfl)
  · exact pick 0 1 m0 m1 h0 h1 (out r1 i1) (out r2 i2)



theorem thr_pos : (0 : K) < ((1 : Nat) : K) / ((100000000 : Nat) : K) := by
  simp only [Nat.cast_one, Nat.cast_ofNat]; positivity

theorem ext_quadratic (a0 a1 a2 a3 : K)
    (h : fabs (a0 - three * a1 + three * a2 - a3) < ((1 : Nat) : K) / ((100000000 : Nat) : K)) :
    cubicExtremizers a0 a1 a2 a3 =
      if two * (a0 - two * a1 + a2) ≠ 0 then
        (if 0 < -(a1 - a0) / (two * (a0 - two * a1 + a2)) ∧ -(a1 - a0) / (two * (a0 - two * a1 + a2)) < 1
         then [0, 1, -(a1 - a0) / (two * (a0 - two * a1 + a2))] else [0, 1])
      else [0, 1] := by
  unfold cubicExtremizers
  simp only []
  rw [if_neg (not_not.mpr h)]
  simp only [bne_iff_ne, ne_eq]

theorem ext_cubic (a0 a1 a2 a3 : K)
    (h : ¬ fabs (a0 - three * a1 + three * a2 - a3) < ((1 : Nat) : K) / ((100000000 : Nat) : K)) :
    cubicExtremizers a0 a1 a2 a3 =
      if ¬ (a1 * a1 - (a0 + a1) * a2 + a2 * a2 + (a0 - a1) * a3 < 0) then
        [0, 1] ++
        (if 0 < (a0 - two * a1 + a2 + Trig.sqrt (a1 * a1 - (a0 + a1) * a2 + a2 * a2 + (a0 - a1) * a3)) / (a0 - three * a1 + three * a2 - a3) ∧
            (a0 - two * a1 + a2 + Trig.sqrt (a1 * a1 - (a0 + a1) * a2 + a2 * a2 + (a0 - a1) * a3)) / (a0 - three * a1 + three * a2 - a3) < 1
         then [(a0 - two * a1 + a2 + Trig.sqrt (a1 * a1 - (a0 + a1) * a2 + a2 * a2 + (a0 - a1) * a3)) / (a0 - three * a1 + three * a2 - a3)] else []) ++
        (if 0 < (a0 - two * a1 + a2 - Trig.sqrt (a1 * a1 - (a0 + a1) * a2 + a2 * a2 + (a0 - a1) * a3)) / (a0 - three * a1 + three * a2 - a3) ∧
            (a0 - two * a1 + a2 - Trig.sqrt (a1 * a1 - (a0 + a1) * a2 + a2 * a2 + (a0 - a1) * a3)) / (a0 - three * a1 + three * a2 - a3) < 1
         then [(a0 - two * a1 + a2 - Trig.sqrt (a1 * a1 - (a0 + a1) * a2 + a2 * a2 + (a0 - a1) * a3)) / (a0 - three * a1 + three * a2 - a3)] else [])
      else [0, 1] := by
  unfold cubicExtremizers
  simp only []
  rw [if_pos h]

/-- **Containment, one coordinate.** For a genuine cubic (the leading coefficient is at least the
    code's threshold 1e-8 in size) and for an exactly degenerate one (leading coefficient 0), every
    value on [0, 1] lies between two values at the parameters `_real_minmax` collects. `sqrt` is
    any function that squares back on the non-negatives. -/
theorem cubic1d_between (a0 a1 a2 a3 t : K) (h0 : 0 ≤ t) (h1 : t ≤ 1)
    (hsqrt : ∀ x : K, 0 ≤ x → Trig.sqrt x * Trig.sqrt x = x)
    (hden : ¬ (fabs (a0 - three * a1 + three * a2 - a3) < ((1 : Nat) : K) / ((100000000 : Nat) : K)) ∨
            a0 - three * a1 + three * a2 - a3 = 0) :
    ∃ lo ∈ cubicExtremizers a0 a1 a2 a3, ∃ hi ∈ cubicExtremizers a0 a1 a2 a3,
      c1 a0 a1 a2 a3 lo ≤ c1 a0 a1 a2 a3 t ∧ c1 a0 a1 a2 a3 t ≤ c1 a0 a1 a2 a3 hi := by
  have h3 : (three : K) = 3 := by simp only [three]; norm_num
  have h2 : (two : K) = 2 := by simp only [two]; norm_num
  by_cases hb : fabs (a0 - three * a1 + three * a2 - a3) < ((1 : Nat) : K) / ((100000000 : Nat) : K)
  · -- the code takes the quadratic branch; the hypothesis makes the cubic term vanish
    have hd0 : a0 - three * a1 + three * a2 - a3 = 0 := hden.resolve_left (not_not.mpr hb)
    rw [h3] at hd0
    have hlin : ∀ x, dq a0 a1 a2 a3 x = (a1 - a0) + two * (a0 - two * a1 + a2) * x := by
      intro x; simp only [dq, hd0, h2]; ring
    by_cases hbz : two * (a0 - two * a1 + a2) = 0
    · -- constant derivative
      apply cubic_between a0 a1 a2 a3 0 0 _ _ _ _ _ _ t h0 h1
      · intro s u _ _
        apply signConst_congr _ (fun _ => a1 - a0) s u (fun x => by rw [hlin, hbz]; ring)
        rcases le_total 0 (a1 - a0) with h | h
        · exact Or.inl fun _ _ _ => h
        · exact Or.inr fun _ _ _ => h
      · rw [ext_quadratic _ _ _ _ hb, if_neg (not_not.mpr hbz)]; simp
      · rw [ext_quadratic _ _ _ _ hb, if_neg (not_not.mpr hbz)]; simp
      · intro h; exact absurd h.1 (lt_irrefl _)
      · intro h; exact absurd h.1 (lt_irrefl _)
    · -- one critical point r0 = -c / b
      apply cubic_between a0 a1 a2 a3 (-(a1 - a0) / (two * (a0 - two * a1 + a2))) 0 _ _ _ _ _ _ t h0 h1
      · intro s u o1 _
        apply signConst_congr _ (fun x => (two * (a0 - two * a1 + a2)) * (x - (-(a1 - a0) / (two * (a0 - two * a1 + a2))))) s u
        · intro x
          have e : (two * (a0 - two * a1 + a2)) * (-(a1 - a0) / (two * (a0 - two * a1 + a2))) = -(a1 - a0) :=
            mul_div_cancel₀ _ hbz
          rw [hlin, mul_sub, e]; ring
        · exact signConst_scale _ _ s u (signConst_linear _ s u o1)
      · rw [ext_quadratic _ _ _ _ hb, if_pos hbz]; split_ifs <;> simp
      · rw [ext_quadratic _ _ _ _ hb, if_pos hbz]; split_ifs <;> simp
      · intro h
        rw [ext_quadratic _ _ _ _ hb, if_pos hbz, if_pos h]; simp
      · intro h; exact absurd h.1 (lt_irrefl _)
  · -- a genuine cubic: the leading coefficient is not zero
    have hD : a0 - three * a1 + three * a2 - a3 ≠ 0 := by
      intro h
      apply hb
      rw [h]
      simp only [fabs, lt_irrefl, if_false]
      exact thr_pos
    have key : ∀ x, (a0 - three * a1 + three * a2 - a3) * dq a0 a1 a2 a3 x =
        (a1 * a1 - (a0 + a1) * a2 + a2 * a2 + (a0 - a1) * a3) -
          ((a0 - three * a1 + three * a2 - a3) * x - (a0 - two * a1 + a2)) *
            ((a0 - three * a1 + three * a2 - a3) * x - (a0 - two * a1 + a2)) := by
      intro x; simp only [dq, three, two]; ring
    by_cases hlt : a1 * a1 - (a0 + a1) * a2 + a2 * a2 + (a0 - a1) * a3 < 0
    · -- negative discriminant: the derivative has no root and keeps the sign opposite to the leading coefficient
      apply cubic_between a0 a1 a2 a3 0 0 _ _ _ _ _ _ t h0 h1
      · intro s u _ _
        have hneg : ∀ x, (a0 - three * a1 + three * a2 - a3) * dq a0 a1 a2 a3 x < 0 := by
          intro x
          rw [key]
          have := mul_self_nonneg ((a0 - three * a1 + three * a2 - a3) * x - (a0 - two * a1 + a2))
          linarith
        rcases lt_or_gt_of_ne hD with hd | hd
        · refine Or.inl fun x _ _ => ?_
          by_contra hc
          have := mul_pos_of_neg_of_neg hd (lt_of_not_ge hc)
          exact absurd (hneg x) (not_lt.mpr this.le)
        · refine Or.inr fun x _ _ => ?_
          by_contra hc
          have := mul_pos hd (lt_of_not_ge hc)
          exact absurd (hneg x) (not_lt.mpr this.le)
      · rw [ext_cubic _ _ _ _ hb, if_neg (not_not.mpr hlt)]; simp
      · rw [ext_cubic _ _ _ _ hb, if_neg (not_not.mpr hlt)]; simp
      · intro h; exact absurd h.1 (lt_irrefl _)
      · intro h; exact absurd h.1 (lt_irrefl _)
    · -- two real roots of the derivative
      have hs := hsqrt _ (not_lt.mp hlt)
      have m0 : (0 : K) ∈ cubicExtremizers a0 a1 a2 a3 := by
        rw [ext_cubic _ _ _ _ hb, if_pos hlt]; simp
      have m1 : (1 : K) ∈ cubicExtremizers a0 a1 a2 a3 := by
        rw [ext_cubic _ _ _ _ hb, if_pos hlt]; simp
      have mr1 : 0 < (a0 - two * a1 + a2 + Trig.sqrt (a1 * a1 - (a0 + a1) * a2 + a2 * a2 + (a0 - a1) * a3)) / (a0 - three * a1 + three * a2 - a3) ∧
          (a0 - two * a1 + a2 + Trig.sqrt (a1 * a1 - (a0 + a1) * a2 + a2 * a2 + (a0 - a1) * a3)) / (a0 - three * a1 + three * a2 - a3) < 1 →
          (a0 - two * a1 + a2 + Trig.sqrt (a1 * a1 - (a0 + a1) * a2 + a2 * a2 + (a0 - a1) * a3)) / (a0 - three * a1 + three * a2 - a3) ∈
            cubicExtremizers a0 a1 a2 a3 := by
        intro h
        rw [ext_cubic _ _ _ _ hb, if_pos hlt, if_pos h]; simp
      have mr2 : 0 < (a0 - two * a1 + a2 - Trig.sqrt (a1 * a1 - (a0 + a1) * a2 + a2 * a2 + (a0 - a1) * a3)) / (a0 - three * a1 + three * a2 - a3) ∧
          (a0 - two * a1 + a2 - Trig.sqrt (a1 * a1 - (a0 + a1) * a2 + a2 * a2 + (a0 - a1) * a3)) / (a0 - three * a1 + three * a2 - a3) < 1 →
          (a0 - two * a1 + a2 - Trig.sqrt (a1 * a1 - (a0 + a1) * a2 + a2 * a2 + (a0 - a1) * a3)) / (a0 - three * a1 + three * a2 - a3) ∈
            cubicExtremizers a0 a1 a2 a3 := by
        intro h
        rw [ext_cubic _ _ _ _ hb, if_pos hlt]
        simp only [List.mem_append, List.mem_cons, List.not_mem_nil, or_false]
        right
        rw [if_pos h]; simp
      set D := a0 - three * a1 + three * a2 - a3 with hDdef
      set sq := Trig.sqrt (a1 * a1 - (a0 + a1) * a2 + a2 * a2 + (a0 - a1) * a3) with hsq
      set tau' := a0 - two * a1 + a2 with htau
      refine cubic_between a0 a1 a2 a3 ((tau' + sq) / D) ((tau' - sq) / D) _ ?_ m0 m1 mr1 mr2 t h0 h1
      intro s u o1 o2
      apply signConst_congr _ (fun x => (-D) * ((x - (tau' + sq) / D) * (x - (tau' - sq) / D))) s u
      · intro x
        have e1 : D * ((tau' + sq) / D) = tau' + sq := mul_div_cancel₀ _ hD
        have e2 : D * ((tau' - sq) / D) = tau' - sq := mul_div_cancel₀ _ hD
        apply mul_left_cancel₀ hD
        have e3 : D * (-D * ((x - (tau' + sq) / D) * (x - (tau' - sq) / D))) =
            -((D * x - D * ((tau' + sq) / D)) * (D * x - D * ((tau' - sq) / D))) := by ring
        rw [e3, e1, e2, key]
        linear_combination (-1 : K) * hs
      · exact signConst_scale _ _ s u (signConst_mul _ _ s u (signConst_linear _ s u o1) (signConst_linear _ s u o2))

/-- every parameter `_real_minmax` evaluates lies in [0, 1] -/
theorem ext_unit (a0 a1 a2 a3 : K) : ∀ s ∈ cubicExtremizers a0 a1 a2 a3, 0 ≤ s ∧ s ≤ 1 := by
  have z : (0 : K) ≤ 0 ∧ (0 : K) ≤ 1 := ⟨le_rfl, zero_le_one⟩
  have o : (0 : K) ≤ 1 ∧ (1 : K) ≤ 1 := ⟨zero_le_one, le_rfl⟩
  by_cases hb : fabs (a0 - three * a1 + three * a2 - a3) < ((1 : Nat) : K) / ((100000000 : Nat) : K)
  · rw [ext_quadratic _ _ _ _ hb]
    intro s hs
    split_ifs at hs with h1 h2 <;>
      simp only [List.mem_cons, List.not_mem_nil, or_false] at hs
    · rcases hs with rfl | rfl | rfl
      · exact z
      · exact o
      · exact ⟨h2.1.le, h2.2.le⟩
    · rcases hs with rfl | rfl
      · exact z
      · exact o
    · rcases hs with rfl | rfl
      · exact z
      · exact o
  · rw [ext_cubic _ _ _ _ hb]
    intro s hs
    split_ifs at hs with h1 h2 h3 h3 <;>
      simp only [List.mem_append, List.mem_cons, List.not_mem_nil, or_false] at hs
    all_goals
      (rcases hs with ((rfl | rfl) | rfl) | rfl <;> first | exact z | exact o | exact ⟨h2.1.le, h2.2.le⟩ | exact ⟨h3.1.le, h3.2.le⟩)

theorem ext_zero_mem (a0 a1 a2 a3 : K) : (0 : K) ∈ cubicExtremizers a0 a1 a2 a3 := by
  by_cases hb : fabs (a0 - three * a1 + three * a2 - a3) < ((1 : Nat) : K) / ((100000000 : Nat) : K)
  · rw [ext_quadratic _ _ _ _ hb]; split_ifs <;> simp
  · rw [ext_cubic _ _ _ _ hb]; split_ifs <;> simp

/-- **Containment, one coordinate**, in terms of the minimum and maximum the code returns -/
theorem cubic1d_contains (a0 a1 a2 a3 t : K) (h0 : 0 ≤ t) (h1 : t ≤ 1)
    (hsqrt : ∀ x : K, 0 ≤ x → Trig.sqrt x * Trig.sqrt x = x)
    (hden : ¬ (fabs (a0 - three * a1 + three * a2 - a3) < ((1 : Nat) : K) / ((100000000 : Nat) : K)) ∨
            a0 - three * a1 + three * a2 - a3 = 0) (d0 : K) :
    listMin d0 ((cubicExtremizers a0 a1 a2 a3).map (c1 a0 a1 a2 a3)) ≤ c1 a0 a1 a2 a3 t ∧
    c1 a0 a1 a2 a3 t ≤ listMax d0 ((cubicExtremizers a0 a1 a2 a3).map (c1 a0 a1 a2 a3)) := by
  obtain ⟨lo, hlo, hi, hhi, b1, b2⟩ := cubic1d_between a0 a1 a2 a3 t h0 h1 hsqrt hden
  exact ⟨le_trans (listMin_le d0 _ _ (List.mem_map_of_mem hlo)) b1,
         le_trans b2 (le_listMax d0 _ _ (List.mem_map_of_mem hhi))⟩

/-- **Tightness, one coordinate**: each bound is the curve's value at some parameter in [0, 1] -/
theorem cubic1d_tight (a0 a1 a2 a3 d0 : K) :
    (∃ s, 0 ≤ s ∧ s ≤ 1 ∧ c1 a0 a1 a2 a3 s = listMin d0 ((cubicExtremizers a0 a1 a2 a3).map (c1 a0 a1 a2 a3))) ∧
    (∃ s, 0 ≤ s ∧ s ≤ 1 ∧ c1 a0 a1 a2 a3 s = listMax d0 ((cubicExtremizers a0 a1 a2 a3).map (c1 a0 a1 a2 a3))) := by
  have hne : (cubicExtremizers a0 a1 a2 a3).map (c1 a0 a1 a2 a3) ≠ [] := by
    intro h
    have := List.mem_map_of_mem (f := c1 a0 a1 a2 a3) (ext_zero_mem a0 a1 a2 a3)
    rw [h] at this; cases this
  have wit : ∀ v ∈ (cubicExtremizers a0 a1 a2 a3).map (c1 a0 a1 a2 a3), ∃ s, 0 ≤ s ∧ s ≤ 1 ∧ c1 a0 a1 a2 a3 s = v := by
    intro v hv
    obtain ⟨s, hs, rfl⟩ := List.mem_map.mp hv
    exact ⟨s, (ext_unit a0 a1 a2 a3 s hs).1, (ext_unit a0 a1 a2 a3 s hs).2, rfl⟩
  exact ⟨wit _ (listMin_mem d0 _ hne), wit _ (listMax_mem d0 _ hne)⟩

/-- the threshold guard of `_real_minmax` on one coordinate: a genuine cubic or an exactly degenerate one -/
def CubicGuard (a0 a1 a2 a3 : K) : Prop :=
  ¬ (fabs (a0 - three * a1 + three * a2 - a3) < ((1 : Nat) : K) / ((100000000 : Nat) : K)) ∨
    a0 - three * a1 + three * a2 - a3 = 0

/-- **C08 for cubic Béziers**: the reported box contains `point(t)` for every t ∈ [0,1], is ordered,
    and each of its four sides is touched by the curve — for every cubic whose leading coefficient
    (per coordinate) is either at least the code's threshold 1e-8 in size or exactly zero, over any
    ordered field with a square root on the non-negatives. (For a leading coefficient strictly
    between, the code drops the cubic term when it looks for the critical point: containment then
    holds only up to a slack of that order — decided by the oracle, not by this theorem.) -/
theorem C08_cubic (p0 p1 p2 p3 : Pt K) (t : K) (h0 : 0 ≤ t) (h1 : t ≤ 1)
    (hsqrt : ∀ x : K, 0 ≤ x → Trig.sqrt x * Trig.sqrt x = x)
    (gx : CubicGuard p0.x p1.x p2.x p3.x) (gy : CubicGuard p0.y p1.y p2.y p3.y) :
    let b := cubicBBox p0 p1 p2 p3
    let p := Seg.cubicPoint p0 p1 p2 p3 t
    (b.xmin ≤ p.x ∧ p.x ≤ b.xmax ∧ b.ymin ≤ p.y ∧ p.y ≤ b.ymax) ∧
    (b.xmin ≤ b.xmax ∧ b.ymin ≤ b.ymax) ∧
    ((∃ s, 0 ≤ s ∧ s ≤ 1 ∧ (Seg.cubicPoint p0 p1 p2 p3 s).x = b.xmin) ∧
     (∃ s, 0 ≤ s ∧ s ≤ 1 ∧ (Seg.cubicPoint p0 p1 p2 p3 s).x = b.xmax) ∧
     (∃ s, 0 ≤ s ∧ s ≤ 1 ∧ (Seg.cubicPoint p0 p1 p2 p3 s).y = b.ymin) ∧
     (∃ s, 0 ≤ s ∧ s ≤ 1 ∧ (Seg.cubicPoint p0 p1 p2 p3 s).y = b.ymax)) := by
  have ex : (fun s => (Seg.cubicPoint p0 p1 p2 p3 s).x) = c1 p0.x p1.x p2.x p3.x := by
    funext s; simp only [Seg.cubicPoint, c1]
  have ey : (fun s => (Seg.cubicPoint p0 p1 p2 p3 s).y) = c1 p0.y p1.y p2.y p3.y := by
    funext s; simp only [Seg.cubicPoint, c1]
  have ex' : ∀ s, (Seg.cubicPoint p0 p1 p2 p3 s).x = c1 p0.x p1.x p2.x p3.x s := fun s => congrFun ex s
  have ey' : ∀ s, (Seg.cubicPoint p0 p1 p2 p3 s).y = c1 p0.y p1.y p2.y p3.y s := fun s => congrFun ey s
  obtain ⟨cx1, cx2⟩ := cubic1d_contains p0.x p1.x p2.x p3.x t h0 h1 hsqrt gx p0.x
  obtain ⟨cy1, cy2⟩ := cubic1d_contains p0.y p1.y p2.y p3.y t h0 h1 hsqrt gy p0.y
  obtain ⟨tx1, tx2⟩ := cubic1d_tight p0.x p1.x p2.x p3.x p0.x
  obtain ⟨ty1, ty2⟩ := cubic1d_tight p0.y p1.y p2.y p3.y p0.y
  simp only [cubicBBox, ex', ey']
  exact ⟨⟨cx1, cx2, cy1, cy2⟩, ⟨le_trans cx1 cx2, le_trans cy1 cy2⟩, tx1, tx2, ty1, ty2⟩

/-- non-vacuity: a genuine cubic coordinate (0, 0, 0, 1) and an exactly degenerate one pass the guard -/
example : CubicGuard (0 : K) 0 0 1 ∧ CubicGuard (0 : K) 1 2 3 := by
  constructor
  · left
    have : fabs ((0 : K) - three * 0 + three * 0 - 1) = 1 := by
      simp only [fabs, three]; norm_num
    rw [this, not_lt]
    simp only [Nat.cast_one, Nat.cast_ofNat]
    norm_num
  · right; simp only [three]; ring

end Cubic
section Arc
variable {K : Type} [Field K] [LinearOrder K] [IsStrictOrderedRing K]

/-- Cauchy–Schwarz in the one form the arc box needs, with the defect made explicit -/
theorem sq_comb_add (u v c s : K) (h : c * c + s * s = 1) :
    (u * c + v * s) * (u * c + v * s) + (v * c - u * s) * (v * c - u * s) = u * u + v * v := by
  linear_combination (u * u + v * v) * h

theorem sq_comb_le (u v c s : K) (h : c * c + s * s = 1) :
    (u * c + v * s) * (u * c + v * s) ≤ u * u + v * v := by
  have e := sq_comb_add u v c s h
  have : 0 ≤ (v * c - u * s) * (v * c - u * s) := mul_self_nonneg _
  linarith

theorem abs_le_of_sq_le (z m : K) (hm : 0 ≤ m) (h : z * z ≤ m * m) : -m ≤ z ∧ z ≤ m := by
  constructor
  · by_contra hc
    rw [not_le] at hc
    have : m * m < z * z := by nlinarith
    exact absurd h (not_le.mpr this)
  · by_contra hc
    rw [not_le] at hc
    have : m * m < z * z := by nlinarith
    exact absurd h (not_le.mpr this)

/-- squared half-extent of the whole ellipse in x and in y, from the conjugate semi-diameters the arc stores -/
def halfX2 (a : ArcData K) : K :=
  (a.prx.x - a.center.x) * (a.prx.x - a.center.x) + (a.pry.x - a.center.x) * (a.pry.x - a.center.x)
def halfY2 (a : ArcData K) : K :=
  (a.prx.y - a.center.y) * (a.prx.y - a.center.y) + (a.pry.y - a.center.y) * (a.pry.y - a.center.y)

/-- the derivative of the arc's denotation with respect to the parameter angle, per coordinate -/
def denDx (a : ArcData K) (ct st : K) : K := (a.pry.x - a.center.x) * ct - (a.prx.x - a.center.x) * st
def denDy (a : ArcData K) (ct st : K) : K := (a.pry.y - a.center.y) * ct - (a.prx.y - a.center.y) * st

/-- **C08 for arcs, algebraic part (containment in the ellipse box)**: every point of the arc's
    denotation `c + (prx − c) cos t + (pry − c) sin t` lies in the box of half-extents
    `√((prx−c)ₓ² + (pry−c)ₓ²)`, `√((prx−c)ᵧ² + (pry−c)ᵧ²)` about the centre — for any pair
    (cos t, sin t) on the unit circle, in any ordered field with square roots of non-negatives. -/
theorem C08_arc_ellipse_box [Trig K] (a : ArcData K) (ct st : K) (h : ct * ct + st * st = 1)
    (hsqrt : ∀ x : K, 0 ≤ x → 0 ≤ Trig.sqrt x ∧ Trig.sqrt x * Trig.sqrt x = x) :
    let p := a.den ct st
    a.center.x - Trig.sqrt (halfX2 a) ≤ p.x ∧ p.x ≤ a.center.x + Trig.sqrt (halfX2 a) ∧
    a.center.y - Trig.sqrt (halfY2 a) ≤ p.y ∧ p.y ≤ a.center.y + Trig.sqrt (halfY2 a) := by
  have nx : 0 ≤ halfX2 a := add_nonneg (mul_self_nonneg _) (mul_self_nonneg _)
  have ny : 0 ≤ halfY2 a := add_nonneg (mul_self_nonneg _) (mul_self_nonneg _)
  obtain ⟨sx0, sx⟩ := hsqrt _ nx
  obtain ⟨sy0, sy⟩ := hsqrt _ ny
  have bx := abs_le_of_sq_le ((a.prx.x - a.center.x) * ct + (a.pry.x - a.center.x) * st) _ sx0 (by rw [sx]; exact sq_comb_le (a.prx.x - a.center.x) (a.pry.x - a.center.x) ct st h)
  have by' := abs_le_of_sq_le ((a.prx.y - a.center.y) * ct + (a.pry.y - a.center.y) * st) _ sy0 (by rw [sy]; exact sq_comb_le (a.prx.y - a.center.y) (a.pry.y - a.center.y) ct st h)
  simp only [ArcData.den]
  refine ⟨by linarith [bx.1], by linarith [bx.2], by linarith [by'.1], by linarith [by'.2]⟩

/-- **C08 for arcs, algebraic part (the candidates are where the box is touched)**: at a parameter
    where the x-derivative of the denotation vanishes the point lies on a vertical side of the
    ellipse box, and where the y-derivative vanishes on a horizontal side. -/
theorem C08_arc_critical_touches (a : ArcData K) (ct st : K) (h : ct * ct + st * st = 1) :
    (denDx a ct st = 0 →
      ((a.den ct st).x - a.center.x) * ((a.den ct st).x - a.center.x) = halfX2 a) ∧
    (denDy a ct st = 0 →
      ((a.den ct st).y - a.center.y) * ((a.den ct st).y - a.center.y) = halfY2 a) := by
  constructor
  · intro hd
    have e := sq_comb_add (a.prx.x - a.center.x) (a.pry.x - a.center.x) ct st h
    simp only [denDx] at hd
    simp only [ArcData.den, halfX2]
    rw [hd] at e
    linear_combination e
  · intro hd
    have e := sq_comb_add (a.prx.y - a.center.y) (a.pry.y - a.center.y) ct st h
    simp only [denDy] at hd
    simp only [ArcData.den, halfY2]
    rw [hd] at e
    linear_combination e

/-- conversely: a point of the denotation on a side of the ellipse box is a critical point -/
theorem C08_arc_touch_is_critical (a : ArcData K) (ct st : K) (h : ct * ct + st * st = 1)
    (ht : ((a.den ct st).x - a.center.x) * ((a.den ct st).x - a.center.x) = halfX2 a) :
    denDx a ct st = 0 := by
  have e := sq_comb_add (a.prx.x - a.center.x) (a.pry.x - a.center.x) ct st h
  simp only [ArcData.den, halfX2] at ht
  have z : denDx a ct st * denDx a ct st = 0 := by
    simp only [denDx]; linear_combination e - ht
  exact mul_self_eq_zero.mp z

/-- **the angles `Arc.bbox` collects are the critical ones** (svgelements.py:5755-5762): for an arc
    in orthogonal form — `prx − c = rx (cos φ, sin φ)`, `pry − c = ry (−sin φ, cos φ)` — a parameter
    whose tangent is `−(ry/rx) tan φ` (the code's `atan_x`, and every `+ kπ` shift of it, which
    leaves the tangent unchanged) annuls the x-derivative, and one whose tangent is
    `(ry/rx) / tan φ` (`atan_y`) annuls the y-derivative. -/
theorem C08_arc_candidate_angles (a : ArcData K) (rx ry cphi sphi ct st : K)
    (hpx : a.prx.x - a.center.x = rx * cphi) (hpy : a.prx.y - a.center.y = rx * sphi)
    (hqx : a.pry.x - a.center.x = -(ry * sphi)) (hqy : a.pry.y - a.center.y = ry * cphi)
    (hrx : rx ≠ 0) (hc : cphi ≠ 0) (hs : sphi ≠ 0) :
    (st = (-(ry / rx) * (sphi / cphi)) * ct → denDx a ct st = 0) ∧
    (st = ((ry / rx) / (sphi / cphi)) * ct → denDy a ct st = 0) := by
  constructor
  · intro e
    simp only [denDx, hpx, hqx, e]
    field_simp
    ring
  · intro e
    simp only [denDy, hpy, hqy, e]
    field_simp
    ring

/-- the two special cases of the code: `cos φ = 0` uses the quarter turn for x and 0 for y;
    `sin φ = 0` the other way round -/
theorem C08_arc_candidate_axis (a : ArcData K) (rx ry cphi sphi : K)
    (hpx : a.prx.x - a.center.x = rx * cphi) (hpy : a.prx.y - a.center.y = rx * sphi)
    (hqx : a.pry.x - a.center.x = -(ry * sphi)) (hqy : a.pry.y - a.center.y = ry * cphi) :
    (cphi = 0 → denDx a 0 1 = 0 ∧ denDx a 0 (-1) = 0 ∧ denDy a 1 0 = 0 ∧ denDy a (-1) 0 = 0) ∧
    (sphi = 0 → denDx a 1 0 = 0 ∧ denDx a (-1) 0 = 0 ∧ denDy a 0 1 = 0 ∧ denDy a 0 (-1) = 0) := by
  constructor
  · intro z
    simp only [denDx, denDy, hpx, hpy, hqx, hqy, z]
    refine ⟨by ring, by ring, by ring, by ring⟩
  · intro z
    simp only [denDx, denDy, hpx, hpy, hqx, hqy, z]
    refine ⟨by ring, by ring, by ring, by ring⟩


/-- the faithful evaluator `Arc.point_at_t` (what the driver runs and the correspondence ties to the
    code) computes exactly the denotation these theorems speak about, for an arc in orthogonal form
    whose radii and rotation the accessors report as such -/
theorem C08_arc_pointAtT_is_den [Trig K] (a : ArcData K) (t rx ry cphi sphi : K)
    (hpx : a.prx.x - a.center.x = rx * cphi) (hpy : a.prx.y - a.center.y = rx * sphi)
    (hqx : a.pry.x - a.center.x = -(ry * sphi)) (hqy : a.pry.y - a.center.y = ry * cphi)
    (hrx : a.rx = rx) (hry : a.ry = ry)
    (hc : Trig.cos a.rotation = cphi) (hs : Trig.sin a.rotation = sphi) :
    a.pointAtT t = a.den (Trig.cos t) (Trig.sin t) := by
  simp only [ArcData.pointAtT, ArcData.den, hpx, hpy, hqx, hqy, hrx, hry, hc, hs, Pt.mk.injEq]
  constructor <;> ring

/-- non-vacuity: the arc with centre (1,2), rx = 2 along (3/5, 4/5), ry = 1 meets the orthogonal-form
    hypotheses, and (cos t, sin t) = (3/5, 4/5) is on the unit circle -/
example : let a : ArcData ℚ := ⟨⟨0,0⟩, ⟨0,0⟩, ⟨1,2⟩, ⟨1 + 2 * (3/5), 2 + 2 * (4/5)⟩, ⟨1 - 4/5, 2 + 3/5⟩, 1⟩
    a.prx.x - a.center.x = 2 * (3/5) ∧ a.prx.y - a.center.y = 2 * (4/5) ∧
    a.pry.x - a.center.x = -(1 * (4/5)) ∧ a.pry.y - a.center.y = 1 * (3/5) ∧
    ((3:ℚ)/5) * (3/5) + (4/5) * (4/5) = 1 := by
  norm_num

end Arc

section ArcReal
open Real

/-- **C08 for arcs, analytic part**: between two parameters with no critical parameter of a
    coordinate strictly inside, that coordinate of the arc's denotation stays between its values
    at the two parameters (over ℝ, with the real cosine and sine). With `C08_arc_critical_touches`
    and `C08_arc_candidate_angles` this is why the box of a partial arc is the min/max over its
    endpoints and the collected critical parameters inside the sweep. -/
theorem C08_arc_between_candidates (a : ArcData ℝ) (s u t : ℝ) (hs : s ≤ t) (hu : t ≤ u) :
    ((∀ x, s < x → x < u → denDx a (cos x) (sin x) ≠ 0) →
      min (a.den (cos s) (sin s)).x (a.den (cos u) (sin u)).x ≤ (a.den (cos t) (sin t)).x ∧
      (a.den (cos t) (sin t)).x ≤ max (a.den (cos s) (sin s)).x (a.den (cos u) (sin u)).x) ∧
    ((∀ x, s < x → x < u → denDy a (cos x) (sin x) ≠ 0) →
      min (a.den (cos s) (sin s)).y (a.den (cos u) (sin u)).y ≤ (a.den (cos t) (sin t)).y ∧
      (a.den (cos t) (sin t)).y ≤ max (a.den (cos s) (sin s)).y (a.den (cos u) (sin u)).y) := by
  constructor
  · intro hne
    have h := ArcMono.between (a.prx.x - a.center.x) (a.pry.x - a.center.x) s u t hs hu
      (by intro x h1 h2; have := hne x h1 h2; simpa [denDx, ArcMono.g] using this)
    simp only [ArcMono.f] at h
    simp only [ArcData.den]
    obtain ⟨h1, h2⟩ := h
    constructor
    · rw [add_assoc, add_assoc, add_assoc, min_add_add_left]; linarith
    · rw [add_assoc, add_assoc, add_assoc, max_add_add_left]; linarith
  · intro hne
    have h := ArcMono.between (a.prx.y - a.center.y) (a.pry.y - a.center.y) s u t hs hu
      (by intro x h1 h2; have := hne x h1 h2; simpa [denDy, ArcMono.g] using this)
    simp only [ArcMono.f] at h
    simp only [ArcData.den]
    obtain ⟨h1, h2⟩ := h
    constructor
    · rw [add_assoc, add_assoc, add_assoc, min_add_add_left]; linarith
    · rw [add_assoc, add_assoc, add_assoc, max_add_add_left]; linarith

/-- **C08 for arcs, assembled**: let `[t0, t1]` be the parameter interval an arc sweeps and `Ex`,
    `Ey` finite lists of parameters containing both ends and every critical parameter of the x-
    resp. y-coordinate strictly inside the sweep (what `Arc.bbox` sets out to collect). Then the
    min/max over the points at the listed parameters — the box `Arc.bbox` reports — contains the
    point at every parameter of the sweep. (Tightness is immediate when the lists hold only
    parameters of the sweep: each side is the coordinate of a listed point, `listMin_mem`.) -/
theorem C08_arc_box_from_candidates (a : ArcData ℝ) (t0 t1 t d d' : ℝ) (Ex Ey : List ℝ)
    (ht0 : t0 ≤ t) (ht1 : t ≤ t1)
    (hx0 : t0 ∈ Ex) (hx1 : t1 ∈ Ex) (hy0 : t0 ∈ Ey) (hy1 : t1 ∈ Ey)
    (hEx : ∀ x, t0 < x → x < t1 → denDx a (cos x) (sin x) = 0 → x ∈ Ex)
    (hEy : ∀ x, t0 < x → x < t1 → denDy a (cos x) (sin x) = 0 → x ∈ Ey) :
    let X := fun e : ℝ => (a.den (cos e) (sin e)).x
    let Y := fun e : ℝ => (a.den (cos e) (sin e)).y
    listMin d (Ex.map X) ≤ X t ∧ X t ≤ listMax d (Ex.map X) ∧
    listMin d' (Ey.map Y) ≤ Y t ∧ Y t ≤ listMax d' (Ey.map Y) := by
  intro X Y
  obtain ⟨e1, m1, e2, m2, -, -, l1, l2⟩ :=
    ArcMono.between_list (a.prx.x - a.center.x) (a.pry.x - a.center.x) t0 t1 t Ex hx0 hx1 ht0 ht1
      (by intro x h1 h2 hz; exact hEx x h1 h2 (by simpa [denDx, ArcMono.g] using hz))
  obtain ⟨e3, m3, e4, m4, -, -, l3, l4⟩ :=
    ArcMono.between_list (a.prx.y - a.center.y) (a.pry.y - a.center.y) t0 t1 t Ey hy0 hy1 ht0 ht1
      (by intro x h1 h2 hz; exact hEy x h1 h2 (by simpa [denDy, ArcMono.g] using hz))
  have eX : ∀ e, X e = a.center.x + ArcMono.f (a.prx.x - a.center.x) (a.pry.x - a.center.x) e := by
    intro e; simp only [X, ArcData.den, ArcMono.f]; ring
  have eY : ∀ e, Y e = a.center.y + ArcMono.f (a.prx.y - a.center.y) (a.pry.y - a.center.y) e := by
    intro e; simp only [Y, ArcData.den, ArcMono.f]; ring
  refine ⟨le_trans (listMin_le d _ (X e1) (List.mem_map_of_mem m1)) ?_,
          le_trans ?_ (le_listMax d _ (X e2) (List.mem_map_of_mem m2)),
          le_trans (listMin_le d' _ (Y e3) (List.mem_map_of_mem m3)) ?_,
          le_trans ?_ (le_listMax d' _ (Y e4) (List.mem_map_of_mem m4))⟩
  · rw [eX, eX]; linarith
  · rw [eX, eX]; linarith
  · rw [eY, eY]; linarith
  · rw [eY, eY]; linarith

/-- **C08 for arcs, the half-turn shifts**: for a coordinate that is not constant, the critical
    parameters are exactly one of them plus the integer multiples of a half turn — why `Arc.bbox`
    enumerates `atan_x + (tau/2)·k` (svgelements.py:5764-5769). -/
theorem C08_arc_critical_spacing (a : ArcData ℝ) (x0 x : ℝ) :
    ((a.prx.x - a.center.x ≠ 0 ∨ a.pry.x - a.center.x ≠ 0) → denDx a (cos x0) (sin x0) = 0 →
      (denDx a (cos x) (sin x) = 0 ↔ ∃ n : ℤ, x = x0 + n * π)) ∧
    ((a.prx.y - a.center.y ≠ 0 ∨ a.pry.y - a.center.y ≠ 0) → denDy a (cos x0) (sin x0) = 0 →
      (denDy a (cos x) (sin x) = 0 ↔ ∃ n : ℤ, x = x0 + n * π)) := by
  constructor
  · intro hAB h0
    exact ArcMono.critical_spacing (a.prx.x - a.center.x) (a.pry.x - a.center.x) x0 x hAB
      (by simpa [denDx, ArcMono.g] using h0)
  · intro hAB h0
    exact ArcMono.critical_spacing (a.prx.y - a.center.y) (a.pry.y - a.center.y) x0 x hAB
      (by simpa [denDy, ArcMono.g] using h0)

end ArcReal
end Svg.C08
