/-
  Props/C13.lean — property C13: colour spellings denote their CSS/SVG RGBA values; accessors
  are consistent.
-/
import SvgVerif.Model.Color
import Generated.C13_Observed
import Mathlib.Tactic.Ring
import Mathlib.Tactic.Linarith
import Mathlib.Tactic.NormNum
import Mathlib.Tactic.FieldSimp
import Mathlib.Algebra.Order.Field.Basic

set_option linter.unusedSectionVars false
set_option linter.unusedVariables false

namespace Svg.C13
open Svg Svg.Color

/-! ### Keywords: the code's answers (regenerated from /repo on every run) against the specification table -/

def upper (s : String) : String :=
  String.ofList (s.toList.map fun c => if 'a' ≤ c ∧ c ≤ 'z' then Char.ofNat (c.toNat - 32) else c)
def title (s : String) : String :=
  match s.toList with
  | [] => ""
  | c :: cs => String.ofList ((if 'a' ≤ c ∧ c ≤ 'z' then Char.ofNat (c.toNat - 32) else c) :: cs)

/-- what the specification assigns: every keyword in lower, upper and title case is the opaque
    colour of the table; `transparent` is rgba(0,0,0,0); `none` is no colour. -/
def expected : List (String × Option Nat) :=
  (Svg.Spec.colorKeywords.flatMap fun e =>
    let v := some (e.2.1 * 16777216 + e.2.2.1 * 65536 + e.2.2.2 * 256 + 255)
    [(e.1, v), (upper e.1, v), (title e.1, v)])
  ++ [("transparent", some 0), ("TRANSPARENT", some 0), ("none", none)]

/-- **Every one of the 147 keywords × 3 letter cases, `transparent` and `none`**, as answered by the
    code in the working tree, equals the specification table. Re-checked by the kernel against a
    freshly generated `Generated/C13_Observed.lean` on every run. -/
theorem C13_keywords : Generated.C13.observed = expected := by decide +kernel

/-- The model's own lookup agrees with the same table (so the model is tied to the spec too). -/
theorem C13_model_lookup :
    ∀ e ∈ Svg.Spec.colorKeywords, lookupKeyword e.1 = some (pack e.2.1 e.2.2.1 e.2.2.2 255) := by
  decide +kernel

/-! ### Accessors and setters: writing one component changes only that component -/

theorem crimp_le (x : Int) : crimp x ≤ 255 := by
  unfold crimp; split_ifs <;> omega

theorem crimp_of_byte (x : Nat) (h : x ≤ 255) : crimp (x : Int) = x := by
  unfold crimp; split_ifs <;> omega

/-- `red/green/blue/alpha` setters: the written channel reads back as the clamped value and the
    other three channels are unchanged — for every 32-bit word and every integer argument. -/
theorem C13_setter_isolation (v : Nat) (x : Int) :
    (red (setRed v x) = crimp x ∧ green (setRed v x) = green v ∧ blue (setRed v x) = blue v ∧ alpha (setRed v x) = alpha v) ∧
    (green (setGreen v x) = crimp x ∧ red (setGreen v x) = red v ∧ blue (setGreen v x) = blue v ∧ alpha (setGreen v x) = alpha v) ∧
    (blue (setBlue v x) = crimp x ∧ red (setBlue v x) = red v ∧ green (setBlue v x) = green v ∧ alpha (setBlue v x) = alpha v) ∧
    (alpha (setAlpha v x) = crimp x ∧ red (setAlpha v x) = red v ∧ green (setAlpha v x) = green v ∧ blue (setAlpha v x) = blue v) := by
  have hc := crimp_le x
  simp only [red, green, blue, alpha, setRed, setGreen, setBlue, setAlpha]
  generalize crimp x = c at *
  refine ⟨⟨?_, ?_, ?_, ?_⟩, ⟨?_, ?_, ?_, ?_⟩, ⟨?_, ?_, ?_, ?_⟩, ⟨?_, ?_, ?_, ?_⟩⟩ <;> omega

/-- setters keep a 32-bit word 32-bit -/
theorem C13_setter_range (v : Nat) (x : Int) (hv : v < 4294967296) :
    setRed v x < 4294967296 ∧ setGreen v x < 4294967296 ∧ setBlue v x < 4294967296 ∧
    setAlpha v x < 4294967296 := by
  have hc := crimp_le x
  simp only [red, green, blue, alpha, setRed, setGreen, setBlue, setAlpha]
  generalize crimp x = c at *
  refine ⟨?_, ?_, ?_, ?_⟩ <;> omega

/-- `Color(r, g, b, a)` / `rgb_to_int`: each channel reads back clamped. -/
theorem C13_pack_channels (r g b a : Int) :
    red (pack r g b a) = crimp r ∧ green (pack r g b a) = crimp g ∧
    blue (pack r g b a) = crimp b ∧ alpha (pack r g b a) = crimp a ∧ pack r g b a < 4294967296 := by
  have h1 := crimp_le r; have h2 := crimp_le g; have h3 := crimp_le b; have h4 := crimp_le a
  simp only [red, green, blue, alpha, pack]
  generalize crimp r = cr at *; generalize crimp g = cg at *
  generalize crimp b = cb at *; generalize crimp a = ca at *
  refine ⟨?_, ?_, ?_, ?_, ?_⟩ <;> omega

/-- every 32-bit word is the packing of its four channels -/
theorem C13_unpack_pack (v : Nat) (hv : v < 4294967296) :
    pack (red v) (green v) (blue v) (alpha v) = v := by
  have e1 := crimp_of_byte (red v) (by unfold red; omega)
  have e2 := crimp_of_byte (green v) (by unfold green; omega)
  have e3 := crimp_of_byte (blue v) (by unfold blue; omega)
  have e4 := crimp_of_byte (alpha v) (by unfold alpha; omega)
  unfold pack
  rw [e1, e2, e3, e4]
  simp only [red, green, blue, alpha]
  omega

theorem word_channels (A B C D : Nat) (hA : A < 256) (hB : B < 256) (hC : C < 256) (hD : D < 256) :
    red (A * 16777216 + B * 65536 + C * 256 + D) = A ∧ green (A * 16777216 + B * 65536 + C * 256 + D) = B ∧
    blue (A * 16777216 + B * 65536 + C * 256 + D) = C ∧ alpha (A * 16777216 + B * 65536 + C * 256 + D) = D := by
  simp only [red, green, blue, alpha]
  refine ⟨?_, ?_, ?_, ?_⟩ <;> omega

/-- the `bgr` setter builds the word from the three bytes of its argument, alpha 0xFF -/
theorem setBgr_eq (x : Nat) :
    setBgr x = (x % 256) * 16777216 + (x / 256 % 256) * 65536 + (x / 65536 % 256) * 256 + 255 := by
  have c255 : crimp (255 : Int) = 255 := by decide
  have hA : x % 256 < 256 := by omega
  have hB : x / 256 % 256 < 256 := by omega
  have hC : x / 65536 % 256 < 256 := by omega
  simp only [setBgr]
  generalize x % 256 = A at *
  generalize x / 256 % 256 = B at *
  generalize x / 65536 % 256 = C at *
  have s0 : setAlpha 0 255 = 0 * 16777216 + 0 * 65536 + 0 * 256 + 255 := by
    simp only [setAlpha, alpha, c255]
  rw [s0]
  have s1 : setRed (0 * 16777216 + 0 * 65536 + 0 * 256 + 255) (A : Int) =
      A * 16777216 + 0 * 65536 + 0 * 256 + 255 := by
    unfold setRed
    rw [(word_channels 0 0 0 255 (by omega) (by omega) (by omega) (by omega)).1,
      crimp_of_byte A (by omega)]; omega
  rw [s1]
  have s2 : setGreen (A * 16777216 + 0 * 65536 + 0 * 256 + 255) (B : Int) =
      A * 16777216 + B * 65536 + 0 * 256 + 255 := by
    unfold setGreen
    rw [(word_channels A 0 0 255 hA (by omega) (by omega) (by omega)).2.1,
      crimp_of_byte B (by omega)]; omega
  rw [s2]
  unfold setBlue
  rw [(word_channels A B 0 255 hA hB (by omega) (by omega)).2.2.1, crimp_of_byte C (by omega)]; omega

/-- The `rgb`, `rgba`, `argb` and `bgr` packings: get ∘ set is the identity on their domain, and
    set ∘ get restores the word (rgb/bgr force alpha to 0xFF, as documented). -/
theorem C13_packings (v x : Nat) (hv : v < 4294967296) :
    (x < 16777216 → getRgb (setRgb x) = x) ∧
    (alpha (setRgb x) = 255) ∧
    (x < 4294967296 → getArgb (setArgb x) = x) ∧
    (setArgb (getArgb v) = v) ∧
    (x < 16777216 → getBgr (setBgr x) = x) ∧
    (alpha (setBgr x) = 255) ∧
    (red (setBgr (getBgr v)) = red v ∧ green (setBgr (getBgr v)) = green v ∧ blue (setBgr (getBgr v)) = blue v) := by
  have hA : ∀ y : Nat, y % 256 < 256 := fun y => by omega
  refine ⟨?_, ?_, ?_, ?_, ?_, ?_, ?_⟩
  · intro h; simp only [getRgb, setRgb]; omega
  · simp only [alpha, setRgb]; omega
  · intro h
    have h1 : x / 16777216 % 256 = x / 16777216 := by omega
    simp only [getArgb, setArgb, alpha, h1]
    have h2 : (x % 16777216 * 256 + x / 16777216) / 256 = x % 16777216 := by omega
    have h3 : (x % 16777216 * 256 + x / 16777216) % 256 = x / 16777216 := by omega
    rw [h2, h3]; omega
  · have h1 : v / 256 % 16777216 = v / 256 := by omega
    simp only [getArgb, setArgb, alpha, h1]
    have h2 : (v / 256 + v % 256 * 16777216) % 16777216 = v / 256 := by omega
    have h3 : (v / 256 + v % 256 * 16777216) / 16777216 = v % 256 := by omega
    rw [h2, h3]; omega
  · intro h
    rw [setBgr_eq]
    obtain ⟨a1, a2, a3, -⟩ := word_channels (x % 256) (x / 256 % 256) (x / 65536 % 256) 255
      (hA _) (hA _) (hA _) (by omega)
    simp only [getBgr, a1, a2, a3]; omega
  · rw [setBgr_eq]
    exact (word_channels _ _ _ 255 (hA _) (hA _) (hA _) (by omega)).2.2.2
  · rw [setBgr_eq]
    obtain ⟨a1, a2, a3, -⟩ := word_channels (getBgr v % 256) (getBgr v / 256 % 256)
      (getBgr v / 65536 % 256) 255 (hA _) (hA _) (hA _) (by omega)
    rw [a1, a2, a3]
    have hr : red v < 256 := by unfold red; omega
    have hg : green v < 256 := by unfold green; omega
    have hb : blue v < 256 := by unfold blue; omega
    unfold getBgr
    generalize red v = R at *
    generalize green v = G at *
    generalize blue v = B at *
    refine ⟨?_, ?_, ?_⟩ <;> omega

/-! ### Hex spellings -/

/-- `#rgb` and `#rgba`: each digit is doubled (×17); `#rgb` is opaque. All 4096 + 65536 strings,
    by a proof over the digits rather than enumeration. -/
theorem C13_hex3_hex4 (a b c d : Nat) (ha : a < 16) (hb : b < 16) (hc : c < 16) (hd : d < 16) :
    parseHexDigits [a, b, c] = 17 * a * 16777216 + 17 * b * 65536 + 17 * c * 256 + 255 ∧
    parseHexDigits [a, b, c, d] = 17 * a * 16777216 + 17 * b * 65536 + 17 * c * 256 + 17 * d := by
  simp only [parseHexDigits, ofDigits16, List.foldl]
  constructor <;> omega

/-- `#rrggbb` and `#rrggbbaa`: channel = 16·hi + lo. -/
theorem C13_hex6_hex8 (a b c d e f g h : Nat) :
    parseHexDigits [a, b, c, d, e, f] =
      (16 * a + b) * 16777216 + (16 * c + d) * 65536 + (16 * e + f) * 256 + 255 ∧
    parseHexDigits [a, b, c, d, e, f, g, h] =
      (16 * a + b) * 16777216 + (16 * c + d) * 65536 + (16 * e + f) * 256 + (16 * g + h) := by
  simp only [parseHexDigits, ofDigits16, List.foldl]
  constructor <;> omega

/-- `Color(c.hex) == c` for every 32-bit colour `c`: printing the channels as two hex digits each
    (alpha omitted when 0xFF) and parsing them back restores the word. -/
theorem C13_hex_roundtrip (v : Nat) (hv : v < 4294967296) : parseHexDigits (hexDigits v) = v := by
  unfold hexDigits
  split_ifs with h
  · simp only [byteDigits, List.cons_append, List.nil_append, parseHexDigits, ofDigits16, List.foldl,
      red, green, blue, alpha] at h ⊢
    omega
  · simp only [byteDigits, List.cons_append, List.nil_append, parseHexDigits, ofDigits16, List.foldl,
      red, green, blue, alpha] at h ⊢
    omega

/-! ### Functional notations -/

/-- integer rgb()/rgba() channels clamp to [0, 255] -/
theorem C13_rgb_clamp (x : Int) :
    (x < 0 → crimp x = 0) ∧ (255 < x → crimp x = 255) ∧ (0 ≤ x → x ≤ 255 → (crimp x : Int) = x) := by
  unfold crimp
  refine ⟨fun h => ?_, fun h => ?_, fun h1 h2 => ?_⟩ <;> split_ifs <;> omega

section hsl
variable {K : Type} [Field K] [LinearOrder K] [IsStrictOrderedRing K]

/-- CSS Color Module Level 3 §4.2.4, transcribed from the specification text:
    `HOW TO RETURN hue.to.rgb(m1, m2, h)` -/
def cssHueToRgb (m1 m2 h : K) : K :=
  let h := if h < 0 then h + 1 else h
  let h := if h > 1 then h - 1 else h
  if h * 6 < 1 then m1 + (m2 - m1) * h * 6
  else if h * 2 < 1 then m2
  else if h * 3 < 2 then m1 + (m2 - m1) * (2 / 3 - h) * 6
  else m1

/-- `HOW TO RETURN hsl.to.rgb(h, s, l)`: m2 = l ≤ 0.5 ? l(s+1) : l+s−ls; m1 = 2l − m2. -/
def cssHslToRgb (h s l : K) : K × K × K :=
  let m2 := if l ≤ 1 / 2 then l * (s + 1) else l + s - l * s
  let m1 := l * 2 - m2
  (cssHueToRgb m1 m2 (h + 1 / 3), cssHueToRgb m1 m2 h, cssHueToRgb m1 m2 (h - 1 / 3))

variable [PyRound K]

theorem hue2rgb_eq_css (m1 m2 h : K) : hue2rgb m1 m2 h = cssHueToRgb m1 m2 h := by
  simp only [hue2rgb, cssHueToRgb, Color.k, gt_iff_lt]
  push_cast
  have e6 : ∀ x : K, (6 * x < 1) = (x * 6 < 1) := fun x => by rw [mul_comm]
  have e2 : ∀ x : K, (2 * x < 1) = (x * 2 < 1) := fun x => by rw [mul_comm]
  have e3 : ∀ x : K, (3 * x < 2) = (x * 3 < 2) := fun x => by rw [mul_comm]
  simp only [e6, e2, e3]
  split_ifs <;> ring

/-- **The HSL conversion is the CSS algorithm** for every h, s, l (the code tests `l < 0.5` where
    CSS tests `l ≤ 0.5`; the two branches agree at l = 1/2), scaled to 0..255. The `s = 0`
    shortcut is the same grey. -/
theorem C13_hsl_is_css (h s l : K) :
    hslChannels h s l =
      (255 * (cssHslToRgb h s l).1, 255 * (cssHslToRgb h s l).2.1, 255 * (cssHslToRgb h s l).2.2) := by
  have css_same : ∀ m x : K, cssHueToRgb m m x = m := by
    intro m x; simp only [cssHueToRgb]; split_ifs <;> ring
  simp only [hslChannels, cssHslToRgb, hue2rgb_eq_css, Color.k, beq_iff_eq]
  push_cast
  by_cases hs : s = 0
  · subst hs
    rw [if_pos rfl]
    have m2 : (if l ≤ 1 / 2 then l * (0 + 1) else l + 0 - l * 0) = l := by split_ifs <;> ring
    have m1 : l * 2 - l = l := by ring
    simp only [m2, m1, css_same]
  · rw [if_neg hs]
    have e2 : (2 : K) * l = l * 2 := by ring
    rcases lt_trichotomy l (1 / 2) with hl | hl | hl
    · have e1 : l * (1 + s) = l * (s + 1) := by ring
      simp only [if_pos hl, if_pos hl.le, e1, e2]
    · have e1 : l + s - s * l = l * (s + 1) := by rw [hl]; ring
      have hn : ¬ l < 1 / 2 := by rw [hl]; exact lt_irrefl _
      simp only [if_neg hn, if_pos hl.le, e1, e2]
    · have e1 : l + s - s * l = l + s - l * s := by ring
      simp only [if_neg (not_lt.mpr hl.le), if_neg (not_le.mpr hl), e1, e2]

/-- With the hue reduced modulo one turn (0 ≤ h < 1), the three arguments handed to
    `hue.to.rgb` lie in (−1/3, 4/3), so its single ±1 normalisation step brings each into [0, 1]:
    the hue is genuinely taken modulo a full turn. -/
theorem C13_hue_normalised (h : K) (h0 : 0 ≤ h) (h1 : h < 1) :
    ∀ x ∈ [h + 1 / 3, h, h - 1 / 3],
      let x' := if x < 0 then x + 1 else x
      let x'' := if 1 < x' then x' - 1 else x'
      0 ≤ x'' ∧ x'' ≤ 1 := by
  intro x hx
  simp only [List.mem_cons, List.mem_nil_iff, or_false] at hx
  rcases hx with rfl | rfl | rfl <;> (dsimp only; split_ifs <;> constructor <;> linarith)

end hsl

/-! ### Non-vacuity -/
example : parseHexDigits (hexDigits 0x12345678) = 0x12345678 := by decide +kernel
example : red (setRed 0x12345678 300) = 255 ∧ green (setRed 0x12345678 300) = 0x34 := by decide +kernel
example : Generated.C13.observed.length = 444 := by decide +kernel

end Svg.C13
