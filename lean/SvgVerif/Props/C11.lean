/-
  Props/C11.lean — property C11: the viewport transform equals the SVG 2 §8.2 'equivalent
  transform' algorithm.
-/
import SvgVerif.Model.Viewbox
import Mathlib.Tactic.Ring
import Mathlib.Tactic.FieldSimp
import Mathlib.Tactic.Linarith
import Mathlib.Tactic.NormNum
import Mathlib.Tactic.Positivity
import Mathlib.Algebra.Order.Field.Basic

set_option linter.unusedSectionVars false
set_option linter.unusedVariables false

namespace Svg.C11
open Svg

/-! ### Specification (SVG 2 §8.2) -/

inductive Al | min | mid | max
deriving DecidableEq, Repr

inductive Mode | meet | slice
deriving DecidableEq, Repr

/-- the ten `align` values of preserveAspectRatio -/
def alignTable : List (String × Option (Al × Al)) :=
  [("none", none),
   ("xMinYMin", some (.min, .min)), ("xMidYMin", some (.mid, .min)), ("xMaxYMin", some (.max, .min)),
   ("xMinYMid", some (.min, .mid)), ("xMidYMid", some (.mid, .mid)), ("xMaxYMid", some (.max, .mid)),
   ("xMinYMax", some (.min, .max)), ("xMidYMax", some (.mid, .max)), ("xMaxYMax", some (.max, .max))]

/-- the three ways `meetOrSlice` can be given -/
def modeTable : List (String × Mode) := [("", .meet), (" meet", .meet), (" slice", .slice)]

/-- the flags the specification prescribes for an (align, meetOrSlice) pair -/
def specFlags (al : Option (Al × Al)) (m : Mode) : AspectFlags :=
  { isNone := al.isNone
    meet := m = .meet
    slice := m = .slice
    xmid := match al with | some (.mid, _) => true | _ => false
    xmax := match al with | some (.max, _) => true | _ => false
    ymid := match al with | some (_, .mid) => true | _ => false
    ymax := match al with | some (_, .max) => true | _ => false }

/-- **All 10 × 3 cells**: what the modelled code reads off the attribute text equals what the
    specification prescribes; an absent attribute is `xMidYMid meet`. -/
theorem C11_cells :
    (∀ a ∈ alignTable, ∀ m ∈ modeTable,
      (Aspect.ofAttr (some (a.1 ++ m.1).toList)).flags = specFlags a.2 m.2) ∧
    (Aspect.ofAttr none).flags = specFlags (some (.mid, .mid)) .meet := by
  decide +kernel

variable {K : Type} [Field K] [LinearOrder K] [IsStrictOrderedRing K]

def alFactor : Al → K
  | .min => 0
  | .mid => 1 / 2
  | .max => 1

/-- SVG 2 §8.2, steps 5–12, as equations: scale factors element-size / viewBox-size, both set to
    the smaller (meet) or larger (slice) unless align is none; the viewBox is then positioned at
    min / mid / max of the free space on each axis. -/
def specTransform (e vb : Box K) (al : Option (Al × Al)) (m : Mode) : K × K × K × K :=
  let sx0 := e.w / vb.w
  let sy0 := e.h / vb.h
  match al with
  | none => (sx0, sy0, e.x - vb.x * sx0, e.y - vb.y * sy0)
  | some (ax, ay) =>
    let s := match m with | .meet => min sx0 sy0 | .slice => max sx0 sy0
    (s, s, e.x - vb.x * s + alFactor ax * (e.w - vb.w * s), e.y - vb.y * s + alFactor ay * (e.h - vb.h * s))

theorem vmin_eq_min (a b : K) : vmin a b = min a b := by
  unfold vmin; rcases lt_or_ge b a with h | h
  · rw [if_pos h, min_eq_right h.le]
  · rw [if_neg (not_lt.mpr h), min_eq_left h]

theorem vmax_eq_max (a b : K) : vmax a b = max a b := by
  unfold vmax; rcases lt_or_ge a b with h | h
  · rw [if_pos h, max_eq_right h.le]
  · rw [if_neg (not_lt.mpr h), max_eq_left h]

/-- **The model is the §8.2 algorithm** for every element box, viewBox, align and mode. -/
theorem C11_algorithm (e vb : Box K) (al : Option (Al × Al)) (m : Mode) :
    viewboxCore e vb (specFlags al m) = specTransform e vb al m := by
  rcases al with _ | ⟨ax, ay⟩
  · cases m <;> simp [viewboxCore, specFlags, specTransform]
  · cases m <;> cases ax <;> cases ay <;>
      simp only [viewboxCore, specFlags, specTransform, alFactor, vmin_eq_min, vmax_eq_max,
        Option.isNone_some, Bool.not_false, Bool.true_and, decide_true, decide_false,
        Bool.false_eq_true, if_true, if_false, reduceCtorEq, Bool.and_false, Bool.and_true,
        Prod.mk.injEq, true_and] <;>
      refine ⟨?_, ?_⟩ <;> ring

/-! ### Geometric consequences (sizes > 0) -/

/-- image of the viewBox rectangle under `p ↦ s·p + t` on one axis -/
def lo (s t v : K) : K := s * v + t
def hi (s t v w : K) : K := s * (v + w) + t

/-- meet: the viewBox rectangle is mapped inside the viewport rectangle, and touches it in at
    least one dimension; slice: it covers the viewport, touching in at least one dimension. -/
theorem C11_meet_inside_slice_covers (e vb : Box K) (ax ay : Al)
    (hew : 0 < e.w) (heh : 0 < e.h) (hvw : 0 < vb.w) (hvh : 0 < vb.h) :
    (let r := specTransform e vb (some (ax, ay)) .meet
     e.x ≤ lo r.1 r.2.2.1 vb.x ∧ hi r.1 r.2.2.1 vb.x vb.w ≤ e.x + e.w ∧
     e.y ≤ lo r.2.1 r.2.2.2 vb.y ∧ hi r.2.1 r.2.2.2 vb.y vb.h ≤ e.y + e.h ∧
     (r.1 * vb.w = e.w ∨ r.2.1 * vb.h = e.h)) ∧
    (let r := specTransform e vb (some (ax, ay)) .slice
     lo r.1 r.2.2.1 vb.x ≤ e.x ∧ e.x + e.w ≤ hi r.1 r.2.2.1 vb.x vb.w ∧
     lo r.2.1 r.2.2.2 vb.y ≤ e.y ∧ e.y + e.h ≤ hi r.2.1 r.2.2.2 vb.y vb.h ∧
     (r.1 * vb.w = e.w ∨ r.2.1 * vb.h = e.h)) := by
  have hx : e.w / vb.w * vb.w = e.w := by field_simp
  have hy : e.h / vb.h * vb.h = e.h := by field_simp
  have f0 : ∀ a : Al, (0 : K) ≤ alFactor a ∧ (alFactor a : K) ≤ 1 := by
    intro a; cases a <;> simp [alFactor] <;> norm_num
  constructor
  · simp only [specTransform, lo, hi]
    set s := min (e.w / vb.w) (e.h / vb.h) with hs
    have s1 : s * vb.w ≤ e.w := by
      calc s * vb.w ≤ e.w / vb.w * vb.w := by
            exact mul_le_mul_of_nonneg_right (min_le_left _ _) hvw.le
        _ = e.w := hx
    have s2 : s * vb.h ≤ e.h := by
      calc s * vb.h ≤ e.h / vb.h * vb.h := by
            exact mul_le_mul_of_nonneg_right (min_le_right _ _) hvh.le
        _ = e.h := hy
    obtain ⟨a0, a1⟩ := f0 ax
    obtain ⟨b0, b1⟩ := f0 ay
    have dx : 0 ≤ e.w - vb.w * s := by linarith [mul_comm s vb.w]
    have dy : 0 ≤ e.h - vb.h * s := by linarith [mul_comm s vb.h]
    have px := mul_nonneg a0 dx
    have py := mul_nonneg b0 dy
    have qx : alFactor ax * (e.w - vb.w * s) ≤ e.w - vb.w * s := by
      calc alFactor ax * (e.w - vb.w * s) ≤ 1 * (e.w - vb.w * s) := mul_le_mul_of_nonneg_right a1 dx
        _ = _ := one_mul _
    have qy : alFactor ay * (e.h - vb.h * s) ≤ e.h - vb.h * s := by
      calc alFactor ay * (e.h - vb.h * s) ≤ 1 * (e.h - vb.h * s) := mul_le_mul_of_nonneg_right b1 dy
        _ = _ := one_mul _
    refine ⟨by nlinarith, by nlinarith, by nlinarith, by nlinarith, ?_⟩
    rcases le_total (e.w / vb.w) (e.h / vb.h) with h | h
    · left; rw [hs, min_eq_left h]; exact hx
    · right; rw [hs, min_eq_right h]; exact hy
  · simp only [specTransform, lo, hi]
    set s := max (e.w / vb.w) (e.h / vb.h) with hs
    have s1 : e.w ≤ s * vb.w := by
      calc e.w = e.w / vb.w * vb.w := hx.symm
        _ ≤ s * vb.w := mul_le_mul_of_nonneg_right (le_max_left _ _) hvw.le
    have s2 : e.h ≤ s * vb.h := by
      calc e.h = e.h / vb.h * vb.h := hy.symm
        _ ≤ s * vb.h := mul_le_mul_of_nonneg_right (le_max_right _ _) hvh.le
    obtain ⟨a0, a1⟩ := f0 ax
    obtain ⟨b0, b1⟩ := f0 ay
    have dx : e.w - vb.w * s ≤ 0 := by linarith [mul_comm s vb.w]
    have dy : e.h - vb.h * s ≤ 0 := by linarith [mul_comm s vb.h]
    have px : alFactor ax * (e.w - vb.w * s) ≤ 0 := mul_nonpos_of_nonneg_of_nonpos a0 dx
    have py : alFactor ay * (e.h - vb.h * s) ≤ 0 := mul_nonpos_of_nonneg_of_nonpos b0 dy
    have qx : e.w - vb.w * s ≤ alFactor ax * (e.w - vb.w * s) := by
      have := mul_le_mul_of_nonpos_right a1 dx
      linarith
    have qy : e.h - vb.h * s ≤ alFactor ay * (e.h - vb.h * s) := by
      have := mul_le_mul_of_nonpos_right b1 dy
      linarith
    refine ⟨by nlinarith, by nlinarith, by nlinarith, by nlinarith, ?_⟩
    rcases le_total (e.w / vb.w) (e.h / vb.h) with h | h
    · right; rw [hs, max_eq_right h]; exact hy
    · left; rw [hs, max_eq_left h]; exact hx

/-- Alignment on each axis independently: min ⇒ the low edges coincide, mid ⇒ the centres, max ⇒
    the high edges — for meet and slice alike. -/
theorem C11_alignment (e vb : Box K) (ax ay : Al) (m : Mode) :
    let r := specTransform e vb (some (ax, ay)) m
    (ax = .min → lo r.1 r.2.2.1 vb.x = e.x) ∧
    (ax = .mid → lo r.1 r.2.2.1 vb.x + hi r.1 r.2.2.1 vb.x vb.w = e.x + (e.x + e.w)) ∧
    (ax = .max → hi r.1 r.2.2.1 vb.x vb.w = e.x + e.w) ∧
    (ay = .min → lo r.2.1 r.2.2.2 vb.y = e.y) ∧
    (ay = .mid → lo r.2.1 r.2.2.2 vb.y + hi r.2.1 r.2.2.2 vb.y vb.h = e.y + (e.y + e.h)) ∧
    (ay = .max → hi r.2.1 r.2.2.2 vb.y vb.h = e.y + e.h) := by
  simp only [specTransform, lo, hi]
  refine ⟨?_, ?_, ?_, ?_, ?_, ?_⟩ <;> intro h <;> subst h <;> simp only [alFactor] <;> ring

/-- align = none: the viewBox rectangle is mapped exactly onto the viewport rectangle. -/
theorem C11_none_exact_fit (e vb : Box K) (m : Mode) (hvw : vb.w ≠ 0) (hvh : vb.h ≠ 0) :
    let r := specTransform e vb none m
    lo r.1 r.2.2.1 vb.x = e.x ∧ hi r.1 r.2.2.1 vb.x vb.w = e.x + e.w ∧
    lo r.2.1 r.2.2.2 vb.y = e.y ∧ hi r.2.1 r.2.2.2 vb.y vb.h = e.y + e.h := by
  simp only [specTransform, lo, hi]
  refine ⟨?_, ?_, ?_, ?_⟩ <;> field_simp <;> ring

/-- The emitted transform, in whichever of its four textual forms, is the matrix
    `[sx 0 0 sy tx ty]`: `p ↦ (sx·x + tx, sy·y + ty)`. -/
theorem C11_matrix (e vb : Box K) (a : Aspect) :
    let r := viewboxScaleTranslate e vb a
    viewboxMatrix e vb a = ⟨r.1, 0, 0, r.2.1, r.2.2.1, r.2.2.2⟩ := by
  simp only [viewboxMatrix]
  generalize viewboxScaleTranslate e vb a = r
  obtain ⟨sx, sy, tx, ty⟩ := r
  simp only [Bool.and_eq_true, beq_iff_eq]
  split_ifs with h1 h2 h3
  · obtain ⟨rfl, rfl⟩ := h1; obtain ⟨rfl, rfl⟩ := h2; rfl
  · obtain ⟨rfl, rfl⟩ := h1; rfl
  · obtain ⟨rfl, rfl⟩ := h3; rfl
  · simp only [Mat.mul, Mat.scale, Mat.translate, Mat.mk.injEq]
    refine ⟨?_, ?_, ?_, ?_, ?_, ?_⟩ <;> ring

/-- A missing viewBox gives the identity; a zero-sized element or viewBox disables rendering
    (`none`) — and in every other case a matrix is produced: no division by zero can escape. -/
theorem C11_missing_and_zero (e : Box K) (vb : Box K) (a : Aspect) :
    viewportTransform e none a = some Mat.identity ∧
    ((e.w = 0 ∨ e.h = 0 ∨ vb.w = 0 ∨ vb.h = 0) → viewportTransform e (some vb) a = none) ∧
    ((e.w ≠ 0 ∧ e.h ≠ 0 ∧ vb.w ≠ 0 ∧ vb.h ≠ 0) →
      viewportTransform e (some vb) a = some (viewboxMatrix e vb a)) := by
  refine ⟨rfl, ?_, ?_⟩
  · intro h
    simp only [viewportTransform, Bool.or_eq_true, beq_iff_eq]
    rcases h with h | h | h | h <;> simp [h]
  · rintro ⟨h1, h2, h3, h4⟩
    simp [viewportTransform, h1, h2, h3, h4]

/-! ### Non-vacuity -/
example : specTransform (K := ℚ) ⟨0, 0, 100, 50⟩ ⟨10, 10, 20, 20⟩ (some (.mid, .max)) .meet
    = (5 / 2, 5 / 2, 0, -25) := by
  simp only [specTransform, alFactor]; norm_num

end Svg.C11
