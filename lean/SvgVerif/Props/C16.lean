/-
  Props/C16.lean — reverse() traces the same geometry backwards and is an involution.

  Segment level (any commutative ring): the reversed line / quadratic / cubic satisfies
  q(t) = p(1 − t) for every t, an arc's reversed parameter runs the same ellipse backwards, and
  reversing twice is the identity for every kind. Subpath level (lists of any length): for a
  connected subpath that begins with its own move, `Subpath.reverse` keeps the kinds (closed stays
  closed, open stays open), loses no drawn segment, is connected again, and is an involution.
  The full statement (every valid path) is FALSE of the code for subpaths without their own move:
  known finding C16-subpath-without-move; the theorems carry that restriction as the explicit
  hypothesis that the model is defined (`splitOwn`) and the subpath is connected.
-/
import SvgVerif.Model.Reverse
import Mathlib.Tactic.Ring
namespace Svg
namespace C16

section segment
variable {K : Type} [CommRing K]

/-- a reversed line is traversed backwards -/
theorem C16_line (s e : Pt K) (t : K) : Seg.linePoint e s t = Seg.linePoint s e (1 - t) := by
  simp only [Seg.linePoint, Pt.towards, Pt.mk.injEq]; constructor <;> ring

/-- a reversed quadratic Bézier (same control, endpoints swapped) is traversed backwards -/
theorem C16_quad (s c e : Pt K) (t : K) : Seg.quadPoint e c s t = Seg.quadPoint s c e (1 - t) := by
  simp only [Seg.quadPoint, two, Pt.mk.injEq]; constructor <;> ring

/-- a reversed cubic Bézier (controls swapped, endpoints swapped) is traversed backwards -/
theorem C16_cubic (s c1 c2 e : Pt K) (t : K) : Seg.cubicPoint e c2 c1 s t = Seg.cubicPoint s c1 c2 e (1 - t) := by
  simp only [Seg.cubicPoint, three, Pt.mk.injEq]; constructor <;> ring

/-- a reversed arc starts at the old end angle and sweeps by the negated extent: its parameter at t
    is the original parameter at 1 − t, on the same ellipse (centre and semi-diameters untouched) -/
theorem C16_arc_parameter (theta0 delta t : K) : (theta0 + delta) + (-delta) * t = theta0 + delta * (1 - t) := by ring

theorem C16_arc_same_ellipse (a : ArcData K) :
    ∀ r, Seg.rev (.arc a) = some r → ∃ b, r = .arc b ∧ b.center = a.center ∧ b.prx = a.prx ∧ b.pry = a.pry ∧
      b.start = a.end_ ∧ b.end_ = a.start ∧ b.sweep = -a.sweep := by
  intro r h; simp only [Seg.rev, Option.some.injEq] at h; subst h; exact ⟨_, rfl, rfl, rfl, rfl, rfl, rfl, rfl⟩

/-- reversing a segment twice restores it (every kind) -/
theorem C16_segment_involution (s r : Seg K) (h : Seg.rev s = some r) : Seg.rev r = some s := by
  cases s with
  | move a e => cases a <;> simp [Seg.rev] at h ⊢; subst h; rfl
  | line a e => cases a <;> simp [Seg.rev] at h ⊢; subst h; rfl
  | close a e => cases a <;> simp [Seg.rev] at h ⊢; subst h; rfl
  | quad a c e => simp [Seg.rev] at h ⊢; subst h; rfl
  | cubic a c1 c2 e => simp [Seg.rev] at h ⊢; subst h; rfl
  | arc a => simp [Seg.rev] at h ⊢; subst h; cases a; simp

/-- a reversed segment starts where the original ended and ends where it started -/
theorem rev_ends (s r : Seg K) (h : Seg.rev s = some r) : r.start? = some s.end_ ∧ s.start? = some r.end_ := by
  cases s with
  | move a e => cases a <;> simp [Seg.rev] at h; subst h; simp [Seg.start?, Seg.end_]
  | line a e => cases a <;> simp [Seg.rev] at h; subst h; simp [Seg.start?, Seg.end_]
  | close a e => cases a <;> simp [Seg.rev] at h; subst h; simp [Seg.start?, Seg.end_]
  | quad a c e => simp [Seg.rev] at h; subst h; simp [Seg.start?, Seg.end_]
  | cubic a c1 c2 e => simp [Seg.rev] at h; subst h; simp [Seg.start?, Seg.end_]
  | arc a => simp [Seg.rev] at h; subst h; simp [Seg.start?, Seg.end_]

end segment

section subpath
variable {K : Type} [CommRing K]

theorem revAll_length : ∀ (l rl : List (Seg K)), revAll l = some rl → rl.length = l.length := by
  intro l
  induction l with
  | nil => intro rl h; simp [revAll] at h; subst h; rfl
  | cons s rest ih =>
    intro rl h
    unfold revAll at h
    cases h1 : Seg.rev s with
    | none => simp [h1] at h
    | some a =>
      cases h2 : revAll rest with
      | none => simp [h1, h2] at h
      | some b => simp [h1, h2] at h; subst h; simp [ih b h2]

/-- no drawn segment is lost: reversing every segment again gives the original list back -/
theorem revAll_involution : ∀ (l rl : List (Seg K)), revAll l = some rl → revAll rl = some l := by
  intro l
  induction l with
  | nil => intro rl h; simp [revAll] at h; subst h; rfl
  | cons s rest ih =>
    intro rl h
    unfold revAll at h
    cases h1 : Seg.rev s with
    | none => simp [h1] at h
    | some a =>
      cases h2 : revAll rest with
      | none => simp [h1, h2] at h
      | some b =>
        simp [h1, h2] at h; subst h
        simp [revAll, C16_segment_involution s a h1, ih b h2]

theorem revAll_append : ∀ (l1 l2 r1 r2 : List (Seg K)), revAll l1 = some r1 → revAll l2 = some r2 →
    revAll (l1 ++ l2) = some (r1 ++ r2) := by
  intro l1
  induction l1 with
  | nil => intro l2 r1 r2 h1 h2; simp [revAll] at h1; subst h1; simpa using h2
  | cons s rest ih =>
    intro l2 r1 r2 h1 h2
    unfold revAll at h1
    cases ha : Seg.rev s with
    | none => simp [ha] at h1
    | some a =>
      cases hb : revAll rest with
      | none => simp [ha, hb] at h1
      | some b =>
        simp [ha, hb] at h1; subst h1
        simp [revAll, ha, ih l2 b r2 hb h2]

theorem revAll_reverse : ∀ (l rl : List (Seg K)), revAll l = some rl → revAll l.reverse = some rl.reverse := by
  intro l
  induction l with
  | nil => intro rl h; simp [revAll] at h; subst h; rfl
  | cons s rest ih =>
    intro rl h
    unfold revAll at h
    cases ha : Seg.rev s with
    | none => simp [ha] at h
    | some a =>
      cases hb : revAll rest with
      | none => simp [ha, hb] at h
      | some b =>
        simp [ha, hb] at h; subst h
        simp only [List.reverse_cons]
        exact revAll_append _ _ _ _ (ih b hb) (by simp [revAll, ha])

/-- a chain of segments drawn from `p`: each starts where the previous ended -/
def ChainFrom : Pt K → List (Seg K) → Prop
  | _, [] => True
  | p, s :: r => s.start? = some p ∧ ChainFrom s.end_ r

/-- where a chain drawn from `p` ends -/
def endOf : Pt K → List (Seg K) → Pt K
  | p, [] => p
  | _, s :: r => endOf s.end_ r

theorem chain_append (p : Pt K) (l1 l2 : List (Seg K)) :
    ChainFrom p (l1 ++ l2) ↔ ChainFrom p l1 ∧ ChainFrom (endOf p l1) l2 := by
  induction l1 generalizing p with
  | nil => simp [ChainFrom, endOf]
  | cons s r ih => simp [ChainFrom, endOf, ih, and_assoc]

theorem endOf_append (p : Pt K) (l1 l2 : List (Seg K)) : endOf p (l1 ++ l2) = endOf (endOf p l1) l2 := by
  induction l1 generalizing p with
  | nil => rfl
  | cons s r ih => simp [endOf, ih]

/-- **connectivity is preserved**: the reversed drawn segments, in reverse order, form a chain from
    the old end back to the old start -/
theorem chain_reversed : ∀ (l rl : List (Seg K)) (p : Pt K), ChainFrom p l → revAll l = some rl →
    ChainFrom (endOf p l) rl.reverse ∧ endOf (endOf p l) rl.reverse = p := by
  intro l
  induction l with
  | nil => intro rl p _ h; simp [revAll] at h; subst h; simp [ChainFrom, endOf]
  | cons s rest ih =>
    intro rl p hc h
    unfold revAll at h
    cases ha : Seg.rev s with
    | none => simp [ha] at h
    | some a =>
      cases hb : revAll rest with
      | none => simp [ha, hb] at h
      | some b =>
        simp [ha, hb] at h; subst h
        obtain ⟨hs, hr⟩ := hc
        obtain ⟨i1, i2⟩ := ih b s.end_ hr hb
        obtain ⟨e1, e2⟩ := rev_ends s a ha
        rw [hs] at e2
        simp only [Option.some.injEq] at e2
        simp only [List.reverse_cons, endOf]
        refine ⟨(chain_append _ _ _).mpr ⟨i1, ?_⟩, ?_⟩
        · rw [i2]; exact ⟨e1, trivial⟩
        · rw [endOf_append, i2]; simp [endOf, e2]

theorem lastEnd_eq (s : Sub K) : s.lastEnd = endOf s.move.end_ s.drawn := by
  unfold Sub.lastEnd
  have : ∀ (p : Pt K) (l : List (Seg K)), (match l.getLast? with | some d => d.end_ | none => p) = endOf p l := by
    intro p l
    rcases List.eq_nil_or_concat l with rfl | ⟨L, b, rfl⟩
    · rfl
    · simp [endOf_append, endOf]
  exact this _ _

/-- a connected subpath with its own move -/
structure SubConnected (s : Sub K) : Prop where
  move : ∃ st e, s.move = .move st e
  chain : ChainFrom s.move.end_ s.drawn
  close : ∀ c, s.close = some c → c = .close (some s.lastEnd) s.move.end_

/-- **kinds are preserved**: same number of drawn segments, closed stays closed, open stays open -/
theorem C16_kinds (s r : Sub K) (h : s.rev = some r) :
    r.drawn.length = s.drawn.length ∧ r.close.isSome = s.close.isSome := by
  unfold Sub.rev at h
  cases hr : revAll s.drawn with
  | none => simp [hr] at h
  | some rd =>
    simp only [hr] at h
    split at h
    · cases h; exact ⟨rfl, rfl⟩
    · cases h; simp [revAll_length _ _ hr]

/-- **the reversed subpath is connected**, drawn from the old end, and its close returns to it -/
theorem C16_connected (s r : Sub K) (hc : SubConnected s) (h : s.rev = some r) : SubConnected r := by
  obtain ⟨⟨st, e, hm⟩, hch, hcl⟩ := hc
  unfold Sub.rev at h
  cases hr : revAll s.drawn with
  | none => simp [hr] at h
  | some rd =>
    simp only [hr] at h
    split at h
    · cases h; exact ⟨⟨st, e, hm⟩, hch, hcl⟩
    · cases h
      obtain ⟨c1, c2⟩ := chain_reversed _ _ _ hch hr
      refine ⟨⟨st, s.lastEnd, by simp [hm]⟩, ?_, ?_⟩
      · simpa [hm, lastEnd_eq, Seg.end_] using c1
      · intro c hcc
        cases hsc : s.close with
        | none => simp [hsc] at hcc
        | some c0 =>
          simp [hsc] at hcc
          subst hcc
          simp only [lastEnd_eq, hm, Seg.end_] at c2 ⊢
          simp [c2]

/-- **involution**: reversing a connected subpath twice restores it exactly -/
theorem C16_involution (s r : Sub K) (hc : SubConnected s) (h : s.rev = some r) : r.rev = some s := by
  obtain ⟨⟨st, e, hm⟩, hch, hcl⟩ := hc
  have h0 := h
  unfold Sub.rev at h
  cases hr : revAll s.drawn with
  | none => simp [hr] at h
  | some rd =>
    simp only [hr] at h
    split at h
    · cases h; exact h0
    · rename_i hne
      cases h
      obtain ⟨c1, c2⟩ := chain_reversed _ _ _ hch hr
      have hrr : revAll rd.reverse = some s.drawn.reverse := revAll_reverse _ _ (revAll_involution _ _ hr)
      have hlen := revAll_length _ _ hr
      have hne' : rd.reverse.isEmpty = false := by
        cases hd : s.drawn with
        | nil => simp [hd] at hne
        | cons a b => rw [hd] at hlen; cases rd with
          | nil => simp at hlen
          | cons x y => simp
      unfold Sub.rev
      simp only [hrr, hne', Bool.false_eq_true, if_false, List.reverse_reverse]
      cases s with
      | mk mv dr cl =>
        simp only at hm hch hcl hr c1 c2 hrr ⊢
        subst hm
        simp only [lastEnd_eq, Seg.end_] at c2 hcl ⊢
        simp only [c2]
        cases cl with
        | none => rfl
        | some c0 => simp [hcl c0 rfl, lastEnd_eq, Seg.end_]

end subpath

end C16
end Svg
