/-
  Props/C16.lean — reverse() traces the same geometry backwards and is an involution.

  Segment level (any commutative ring): the reversed line / quadratic / cubic satisfies
  q(t) = p(1 − t) for every t, an arc's reversed parameter runs the same ellipse backwards, and
  reversing twice is the identity for every kind. Subpath level (lists of any length): for a
  connected subpath that begins with its own move, `Subpath.reverse` keeps the kinds (closed stays
  closed, open stays open), loses no drawn segment, is connected again, and is an involution.
  The full statement (every valid path) is FALSE of the code for subpaths without their own move:
  known finding C16-subpath-without-move; the theorems carry that restriction as the explicit
  hypothesis that the model is defined (`splitOwn`) and the subpath is connected.
-/
import SvgVerif.Model.Reverse
import Mathlib.Tactic.Ring
import Mathlib.Data.List.Forall2
namespace Svg
namespace C16

section segment
variable {K : Type} [CommRing K]

/-- a reversed line is traversed backwards -/
theorem C16_line (s e : Pt K) (t : K) : Seg.linePoint e s t = Seg.linePoint s e (1 - t) := by
  simp only [Seg.linePoint, Pt.towards, Pt.mk.injEq]; constructor <;> ring

/-- a reversed quadratic Bézier (same control, endpoints swapped) is traversed backwards -/
theorem C16_quad (s c e : Pt K) (t : K) : Seg.quadPoint e c s t = Seg.quadPoint s c e (1 - t) := by
  simp only [Seg.quadPoint, two, Pt.mk.injEq]; constructor <;> ring

/-- a reversed cubic Bézier (controls swapped, endpoints swapped) is traversed backwards -/
theorem C16_cubic (s c1 c2 e : Pt K) (t : K) : Seg.cubicPoint e c2 c1 s t = Seg.cubicPoint s c1 c2 e (1 - t) := by
  simp only [Seg.cubicPoint, three, Pt.mk.injEq]; constructor <;> ring

/-- a reversed arc starts at the old end angle and sweeps by the negated extent: its parameter at t
    is the original parameter at 1 − t, on the same ellipse (centre and semi-diameters untouched) -/
theorem C16_arc_parameter (theta0 delta t : K) : (theta0 + delta) + (-delta) * t = theta0 + delta * (1 - t) := by ring

theorem C16_arc_same_ellipse (a : ArcData K) :
    ∀ r, Seg.rev (.arc a) = some r → ∃ b, r = .arc b ∧ b.center = a.center ∧ b.prx = a.prx ∧ b.pry = a.pry ∧
      b.start = a.end_ ∧ b.end_ = a.start ∧ b.sweep = -a.sweep := by
  intro r h; simp only [Seg.rev, Option.some.injEq] at h; subst h; exact ⟨_, rfl, rfl, rfl, rfl, rfl, rfl, rfl⟩

/-- reversing a segment twice restores it (every kind) -/
theorem C16_segment_involution (s r : Seg K) (h : Seg.rev s = some r) : Seg.rev r = some s := by
  cases s with
  | move a e => cases a <;> simp [Seg.rev] at h ⊢; subst h; rfl
  | line a e => cases a <;> simp [Seg.rev] at h ⊢; subst h; rfl
  | close a e => cases a <;> simp [Seg.rev] at h ⊢; subst h; rfl
  | quad a c e => simp [Seg.rev] at h ⊢; subst h; rfl
  | cubic a c1 c2 e => simp [Seg.rev] at h ⊢; subst h; rfl
  | arc a => simp [Seg.rev] at h ⊢; subst h; cases a; simp

/-- a reversed segment starts where the original ended and ends where it started -/
theorem rev_ends (s r : Seg K) (h : Seg.rev s = some r) : r.start? = some s.end_ ∧ s.start? = some r.end_ := by
  cases s with
  | move a e => cases a <;> simp [Seg.rev] at h; subst h; simp [Seg.start?, Seg.end_]
  | line a e => cases a <;> simp [Seg.rev] at h; subst h; simp [Seg.start?, Seg.end_]
  | close a e => cases a <;> simp [Seg.rev] at h; subst h; simp [Seg.start?, Seg.end_]
  | quad a c e => simp [Seg.rev] at h; subst h; simp [Seg.start?, Seg.end_]
  | cubic a c1 c2 e => simp [Seg.rev] at h; subst h; simp [Seg.start?, Seg.end_]
  | arc a => simp [Seg.rev] at h; subst h; simp [Seg.start?, Seg.end_]

end segment

section subpath
variable {K : Type} [CommRing K]

theorem revAll_length : ∀ (l rl : List (Seg K)), revAll l = some rl → rl.length = l.length := by
  intro l
  induction l with
  | nil => intro rl h; simp [revAll] at h; subst h; rfl
  | cons s rest ih =>
    intro rl h
    unfold revAll at h
    cases h1 : Seg.rev s with
    | none => simp [h1] at h
    | some a =>
      cases h2 : revAll rest with
      | none => simp [h1, h2] at h
      | some b => simp [h1, h2] at h; subst h; simp [ih b h2]

/-- no drawn segment is lost: reversing every segment again gives the original list back -/
theorem revAll_involution : ∀ (l rl : List (Seg K)), revAll l = some rl → revAll rl = some l := by
  intro l
  induction l with
  | nil => intro rl h; simp [revAll] at h; subst h; rfl
  | cons s rest ih =>
    intro rl h
    unfold revAll at h
    cases h1 : Seg.rev s with
    | none => simp [h1] at h
    | some a =>
      cases h2 : revAll rest with
      | none => simp [h1, h2] at h
      | some b =>
        simp [h1, h2] at h; subst h
        simp [revAll, C16_segment_involution s a h1, ih b h2]

theorem revAll_append : ∀ (l1 l2 r1 r2 : List (Seg K)), revAll l1 = some r1 → revAll l2 = some r2 →
    revAll (l1 ++ l2) = some (r1 ++ r2) := by
  intro l1
  induction l1 with
  | nil => intro l2 r1 r2 h1 h2; simp [revAll] at h1; subst h1; simpa using h2
  | cons s rest ih =>
    intro l2 r1 r2 h1 h2
    unfold revAll at h1
    cases ha : Seg.rev s with
    | none => simp [ha] at h1
    | some a =>
      cases hb : revAll rest with
      | none => simp [ha, hb] at h1
      | some b =>
        simp [ha, hb] at h1; subst h1
        simp [revAll, ha, ih l2 b r2 hb h2]

theorem revAll_reverse : ∀ (l rl : List (Seg K)), revAll l = some rl → revAll l.reverse = some rl.reverse := by
  intro l
  induction l with
  | nil => intro rl h; simp [revAll] at h; subst h; rfl
  | cons s rest ih =>
    intro rl h
    unfold revAll at h
    cases ha : Seg.rev s with
    | none => simp [ha] at h
    | some a =>
      cases hb : revAll rest with
      | none => simp [ha, hb] at h
      | some b =>
        simp [ha, hb] at h; subst h
        simp only [List.reverse_cons]
        exact revAll_append _ _ _ _ (ih b hb) (by simp [revAll, ha])

/-- a chain of segments drawn from `p`: each starts where the previous ended -/
def ChainFrom : Pt K → List (Seg K) → Prop
  | _, [] => True
  | p, s :: r => s.start? = some p ∧ ChainFrom s.end_ r

/-- where a chain drawn from `p` ends -/
def endOf : Pt K → List (Seg K) → Pt K
  | p, [] => p
  | _, s :: r => endOf s.end_ r

theorem chain_append (p : Pt K) (l1 l2 : List (Seg K)) :
    ChainFrom p (l1 ++ l2) ↔ ChainFrom p l1 ∧ ChainFrom (endOf p l1) l2 := by
  induction l1 generalizing p with
  | nil => simp [ChainFrom, endOf]
  | cons s r ih => simp [ChainFrom, endOf, ih, and_assoc]

theorem endOf_append (p : Pt K) (l1 l2 : List (Seg K)) : endOf p (l1 ++ l2) = endOf (endOf p l1) l2 := by
  induction l1 generalizing p with
  | nil => rfl
  | cons s r ih => simp [endOf, ih]

/-- **connectivity is preserved**: the reversed drawn segments, in reverse order, form a chain from
    the old end back to the old start -/
theorem chain_reversed : ∀ (l rl : List (Seg K)) (p : Pt K), ChainFrom p l → revAll l = some rl →
    ChainFrom (endOf p l) rl.reverse ∧ endOf (endOf p l) rl.reverse = p := by
  intro l
  induction l with
  | nil => intro rl p _ h; simp [revAll] at h; subst h; simp [ChainFrom, endOf]
  | cons s rest ih =>
    intro rl p hc h
    unfold revAll at h
    cases ha : Seg.rev s with
    | none => simp [ha] at h
    | some a =>
      cases hb : revAll rest with
      | none => simp [ha, hb] at h
      | some b =>
        simp [ha, hb] at h; subst h
        obtain ⟨hs, hr⟩ := hc
        obtain ⟨i1, i2⟩ := ih b s.end_ hr hb
        obtain ⟨e1, e2⟩ := rev_ends s a ha
        rw [hs] at e2
        simp only [Option.some.injEq] at e2
        simp only [List.reverse_cons, endOf]
        refine ⟨(chain_append _ _ _).mpr ⟨i1, ?_⟩, ?_⟩
        · rw [i2]; exact ⟨e1, trivial⟩
        · rw [endOf_append, i2]; simp [endOf, e2]

theorem lastEnd_eq (s : Sub K) : s.lastEnd = endOf s.move.end_ s.drawn := by
  unfold Sub.lastEnd
  have : ∀ (p : Pt K) (l : List (Seg K)), (match l.getLast? with | some d => d.end_ | none => p) = endOf p l := by
    intro p l
    rcases List.eq_nil_or_concat l with rfl | ⟨L, b, rfl⟩
    · rfl
    · simp [endOf_append, endOf]
  exact this _ _

/-- a connected subpath with its own move -/
structure SubConnected (s : Sub K) : Prop where
  move : ∃ st e, s.move = .move st e
  chain : ChainFrom s.move.end_ s.drawn
  close : ∀ c, s.close = some c → c = .close (some s.lastEnd) s.move.end_

/-- **kinds are preserved**: same number of drawn segments, closed stays closed, open stays open -/
theorem C16_kinds (s r : Sub K) (h : s.rev = some r) :
    r.drawn.length = s.drawn.length ∧ r.close.isSome = s.close.isSome := by
  unfold Sub.rev at h
  cases hr : revAll s.drawn with
  | none => simp [hr] at h
  | some rd =>
    simp only [hr] at h
    split at h
    · cases h; exact ⟨rfl, rfl⟩
    · cases h; simp [revAll_length _ _ hr]

/-- **the reversed subpath is connected**, drawn from the old end, and its close returns to it -/
theorem C16_connected (s r : Sub K) (hc : SubConnected s) (h : s.rev = some r) : SubConnected r := by
  obtain ⟨⟨st, e, hm⟩, hch, hcl⟩ := hc
  unfold Sub.rev at h
  cases hr : revAll s.drawn with
  | none => simp [hr] at h
  | some rd =>
    simp only [hr] at h
    split at h
    · cases h; exact ⟨⟨st, e, hm⟩, hch, hcl⟩
    · cases h
      obtain ⟨c1, c2⟩ := chain_reversed _ _ _ hch hr
      refine ⟨⟨st, s.lastEnd, by simp [hm]⟩, ?_, ?_⟩
      · simpa [hm, lastEnd_eq, Seg.end_] using c1
      · intro c hcc
        cases hsc : s.close with
        | none => simp [hsc] at hcc
        | some c0 =>
          simp [hsc] at hcc
          subst hcc
          simp only [lastEnd_eq, hm, Seg.end_] at c2 ⊢
          simp [c2]

/-- **involution**: reversing a connected subpath twice restores it exactly -/
theorem C16_involution (s r : Sub K) (hc : SubConnected s) (h : s.rev = some r) : r.rev = some s := by
  obtain ⟨⟨st, e, hm⟩, hch, hcl⟩ := hc
  have h0 := h
  unfold Sub.rev at h
  cases hr : revAll s.drawn with
  | none => simp [hr] at h
  | some rd =>
    simp only [hr] at h
    split at h
    · cases h; exact h0
    · rename_i hne
      cases h
      obtain ⟨c1, c2⟩ := chain_reversed _ _ _ hch hr
      have hrr : revAll rd.reverse = some s.drawn.reverse := revAll_reverse _ _ (revAll_involution _ _ hr)
      have hlen := revAll_length _ _ hr
      have hne' : rd.reverse.isEmpty = false := by
        cases hd : s.drawn with
        | nil => simp [hd] at hne
        | cons a b => rw [hd] at hlen; cases rd with
          | nil => simp at hlen
          | cons x y => simp
      unfold Sub.rev
      simp only [hrr, hne', Bool.false_eq_true, if_false, List.reverse_reverse]
      cases s with
      | mk mv dr cl =>
        simp only at hm hch hcl hr c1 c2 hrr ⊢
        subst hm
        simp only [lastEnd_eq, Seg.end_] at c2 hcl ⊢
        simp only [c2]
        cases cl with
        | none => rfl
        | some c0 => simp [hcl c0 rfl, lastEnd_eq, Seg.end_]

end subpath

/-! ### the two-index loop of `_reverse_segments` -/
section loop
variable {K : Type} [Neg K]

theorem revAll_append_eq (l1 l2 : List (Seg K)) :
    revAll (l1 ++ l2) = (match revAll l1, revAll l2 with | some a, some b => some (a ++ b) | _, _ => none) := by
  induction l1 with
  | nil => simp only [List.nil_append, revAll]; cases revAll l2 <;> rfl
  | cons s rest ih =>
    simp only [List.cons_append, revAll, ih]
    cases Seg.rev s <;> cases revAll rest <;> cases revAll l2 <;> rfl

theorem revAll_single (z : Seg K) : revAll [z] = (Seg.rev z).map fun z' => [z'] := by
  simp only [revAll]; cases Seg.rev z <;> rfl

/-- **the two-index loop computes the reversed list of reversed segments** -/
theorem C16_swap_loop_is_reversal : ∀ (n : Nat) (l : List (Seg K)), l.length ≤ n → swapLoop n l = (revAll l).map List.reverse := by
  intro n
  induction n with
  | zero =>
    intro l hl
    cases l with
    | nil => rfl
    | cons a t => simp at hl
  | succ fuel ih =>
    intro l hl
    match l, hl with
    | [], _ => rfl
    | [a], _ => simp only [swapLoop, revAll_single]; cases Seg.rev a <;> rfl
    | a :: b :: rest, hl =>
      have hsplit : b :: rest = (b :: rest).dropLast ++ [(b :: rest).getLast (by simp)] :=
        (List.dropLast_concat_getLast (by simp)).symm
      have hlen : ((b :: rest).dropLast).length ≤ fuel := by
        simp only [List.length_dropLast, List.length_cons] at hl ⊢; omega
      have := ih _ hlen
      simp only [swapLoop, this]
      conv => rhs; rw [hsplit]
      simp only [revAll, revAll_append_eq]
      cases Seg.rev a <;> cases Seg.rev ((b :: rest).getLast (by simp)) <;> cases revAll (b :: rest).dropLast <;> simp


/-- hence `Subpath.reverse()` as the code runs it is the window reversal the theorems above are about -/
theorem revLoop_eq (s : Sub K) : Sub.revLoop s = Sub.rev s := by
  unfold Sub.revLoop Sub.rev
  rw [C16_swap_loop_is_reversal _ _ (le_refl _)]
  cases revAll s.drawn <;> rfl

end loop

/-! ### whole paths: `Path.reverse()` over any number of subpaths -/
section whole
set_option linter.unusedSectionVars false
variable {K : Type} [CommRing K]

/-- the window with the `start` of its move replaced -/
def withStart (x : Option (Pt K)) (s : Sub K) : Sub K :=
  { s with move := match s.move with | .move _ e => .move x e | m => m }

/-- the point a window leaves the pen at: where its close returns to, else its last end -/
def lastOf (s : Sub K) : Pt K :=
  match s.close with
  | some c => c.end_
  | none => s.lastEnd

/-- the windows as `relink` lays them out: each move starts where the previous window left the pen -/
def relinkSubs : Option (Pt K) → List (Sub K) → List (Sub K)
  | _, [] => []
  | prev, s :: rest => withStart prev s :: relinkSubs (some (lastOf s)) rest

/-- a window as `as_subpaths` cuts it -/
structure Shape (s : Sub K) : Prop where
  move : ∃ st e, s.move = .move st e
  drawn : ∀ d ∈ s.drawn, d.isMove = false ∧ d.isClose = false
  close : ∀ c, s.close = some c → c.isClose = true

theorem relink_eq (prev : Option (Pt K)) (ss : List (Sub K)) (h : ∀ s ∈ ss, Shape s) :
    relink prev ss = (relinkSubs prev ss).flatMap Sub.toList := by
  induction ss generalizing prev with
  | nil => rfl
  | cons s rest ih =>
    obtain ⟨st, e, hm⟩ := (h s List.mem_cons_self).move
    simp only [relink, relinkSubs, List.flatMap_cons, Sub.toList, withStart, hm, lastOf]
    rw [ih _ (fun q hq => h q (List.mem_cons_of_mem _ hq))]
    cases prev <;> rfl

theorem takeDrawn_app (d : List (Seg K)) (hd : ∀ x ∈ d, x.isMove = false ∧ x.isClose = false)
    (c : Option (Seg K)) (hc : ∀ cc, c = some cc → cc.isClose = true) (T : List (Seg K))
    (hT : c = none → T = [] ∨ ∃ m r, T = m :: r ∧ m.isMove = true ∧ m.isClose = false) :
    takeDrawn (d ++ ((match c with | some cc => [cc] | none => []) ++ T)) = (d, c, T) := by
  induction d with
  | nil =>
    cases c with
    | some cc => simp [takeDrawn, hc cc rfl]
    | none =>
      rcases hT rfl with rfl | ⟨m, r, rfl, hm, hmc⟩
      · simp [takeDrawn]
      · simp [takeDrawn, hm, hmc]
  | cons x rest ih =>
    have hx := hd x List.mem_cons_self
    have := ih (fun y hy => hd y (List.mem_cons_of_mem _ hy))
    simp only [List.cons_append, takeDrawn, hx.1, hx.2, Bool.false_eq_true, if_false, this]

theorem head_flat (ss : List (Sub K)) (h : ∀ s ∈ ss, Shape s) :
    ss.flatMap Sub.toList = [] ∨ ∃ m r, ss.flatMap Sub.toList = m :: r ∧ m.isMove = true ∧ m.isClose = false := by
  cases ss with
  | nil => left; rfl
  | cons s rest =>
    right
    obtain ⟨st, e, hm⟩ := (h s List.mem_cons_self).move
    refine ⟨s.move, (s.drawn ++ (match s.close with | some c => [c] | none => [])) ++ rest.flatMap Sub.toList, ?_, by simp [hm, Seg.isMove], by simp [hm, Seg.isClose]⟩
    simp only [List.flatMap_cons, Sub.toList, List.cons_append]
    cases s.close <;> rfl

theorem splitOwn_flat (ss : List (Sub K)) (h : ∀ s ∈ ss, Shape s) : splitOwn (ss.flatMap Sub.toList) = some ss := by
  induction ss with
  | nil => simp [splitOwn]
  | cons s rest ih =>
    have hs := h s List.mem_cons_self
    have hr : ∀ q ∈ rest, Shape q := fun q hq => h q (List.mem_cons_of_mem _ hq)
    obtain ⟨st, e, hm⟩ := hs.move
    have htd := takeDrawn_app s.drawn hs.drawn s.close hs.close (rest.flatMap Sub.toList) (fun _ => head_flat rest hr)
    obtain ⟨mv, dr, cl⟩ := s
    simp only at hm htd
    subst hm
    cases cl with
    | none =>
      simp only [List.flatMap_cons, Sub.toList, List.cons_append, List.append_nil, List.nil_append] at htd ⊢
      rw [splitOwn]
      simp only [Seg.isMove, if_true, htd, ih hr]
    | some c =>
      simp only [List.flatMap_cons, Sub.toList, List.cons_append, List.append_assoc, List.nil_append] at htd ⊢
      rw [splitOwn]
      simp only [Seg.isMove, if_true, htd, ih hr]

theorem rev_kind (s r : Seg K) (h : Seg.rev s = some r) : r.isMove = s.isMove ∧ r.isClose = s.isClose := by
  cases s with
  | line st e => cases st <;> simp [Seg.rev] at h; subst h; simp [Seg.isMove, Seg.isClose]
  | close st e => cases st <;> simp [Seg.rev] at h; subst h; simp [Seg.isMove, Seg.isClose]
  | move st e => cases st <;> simp [Seg.rev] at h; subst h; simp [Seg.isMove, Seg.isClose]
  | quad a b c => simp [Seg.rev] at h; subst h; simp [Seg.isMove, Seg.isClose]
  | cubic a b c d => simp [Seg.rev] at h; subst h; simp [Seg.isMove, Seg.isClose]
  | arc a => simp [Seg.rev] at h; subst h; simp [Seg.isMove, Seg.isClose]

theorem revAll_kinds : ∀ (l rl : List (Seg K)), revAll l = some rl →
    (∀ x ∈ l, x.isMove = false ∧ x.isClose = false) → ∀ y ∈ rl, y.isMove = false ∧ y.isClose = false := by
  intro l
  induction l with
  | nil => intro rl h _ y hy; simp [revAll] at h; subst h; cases hy
  | cons s rest ih =>
    intro rl h hk y hy
    unfold revAll at h
    cases ha : Seg.rev s with
    | none => simp [ha] at h
    | some a =>
      cases hb : revAll rest with
      | none => simp [ha, hb] at h
      | some b =>
        simp [ha, hb] at h; subst h
        rcases List.mem_cons.mp hy with rfl | hy
        · have := rev_kind s y ha
          have hs := hk s List.mem_cons_self
          rw [this.1, this.2]; exact hs
        · exact ih b hb (fun x hx => hk x (List.mem_cons_of_mem _ hx)) y hy

theorem shape_rev (s r : Sub K) (hs : Shape s) (h : s.rev = some r) : Shape r := by
  obtain ⟨⟨st, e, hm⟩, hd, hc⟩ := hs
  unfold Sub.rev at h
  cases hr : revAll s.drawn with
  | none => simp [hr] at h
  | some rd =>
    simp only [hr] at h
    split at h
    · cases h; exact ⟨⟨st, e, hm⟩, hd, hc⟩
    · cases h
      refine ⟨⟨st, s.lastEnd, by simp [hm]⟩, ?_, ?_⟩
      · intro d hdm
        exact revAll_kinds _ _ hr hd d (List.mem_reverse.mp hdm)
      · intro c hcc
        cases hsc : s.close with
        | none => simp [hsc] at hcc
        | some c0 => simp [hsc] at hcc; subst hcc; rfl

theorem shape_withStart (x : Option (Pt K)) (s : Sub K) (hs : Shape s) : Shape (withStart x s) := by
  obtain ⟨⟨st, e, hm⟩, hd, hc⟩ := hs
  exact ⟨⟨x, e, by simp [withStart, hm]⟩, hd, hc⟩

theorem lastOf_withStart (x : Option (Pt K)) (s : Sub K) (hs : Shape s) : lastOf (withStart x s) = lastOf s := by
  obtain ⟨⟨st, e, hm⟩, hd, hc⟩ := hs
  simp [lastOf, withStart, hm, Sub.lastEnd, Seg.end_]

theorem rev_withStart (x : Option (Pt K)) (s : Sub K) (hs : Shape s) :
    (withStart x s).rev = (s.rev).map (withStart x) := by
  obtain ⟨⟨st, e, hm⟩, hd, hc⟩ := hs
  obtain ⟨mv, dr, cl⟩ := s
  simp only at hm
  subst hm
  unfold Sub.rev
  simp only [withStart]
  cases hr : revAll dr with
  | none => simp
  | some rd =>
    by_cases he : dr.isEmpty = true
    · simp [he, withStart]
    · simp [he, withStart, Sub.lastEnd, Seg.end_]

theorem connected_withStart (x : Option (Pt K)) (s : Sub K) (hs : SubConnected s) : SubConnected (withStart x s) := by
  obtain ⟨⟨st, e, hm⟩, hch, hcl⟩ := hs
  obtain ⟨mv, dr, cl⟩ := s
  simp only at hm
  subst hm
  exact ⟨⟨x, e, rfl⟩, hch, hcl⟩

/-- same window up to the `start` remembered by its move -/
def UpToStart (s' s : Sub K) : Prop := ∃ x, s' = withStart x s

theorem relink_upToStart (S' S : List (Sub K)) (h : List.Forall₂ UpToStart S' S) (hs : ∀ s ∈ S, Shape s) :
    ∀ prev, relink prev S' = relink prev S := by
  induction h with
  | nil => intro prev; rfl
  | @cons s' s R' R hx _ ih =>
    intro prev
    obtain ⟨x, rfl⟩ := hx
    have hsh := hs s List.mem_cons_self
    obtain ⟨st, e, hm⟩ := hsh.move
    have hl := lastOf_withStart x s hsh
    obtain ⟨mv, dr, cl⟩ := s
    simp only at hm
    subst hm
    simp only [lastOf, withStart] at hl
    simp only [relink, withStart]
    rw [ih (fun q hq => hs q (List.mem_cons_of_mem _ hq))]
    cases prev <;> cases cl <;> simp_all [Sub.lastEnd]

theorem relinkSubs_upToStart (prev : Option (Pt K)) (ss : List (Sub K)) :
    List.Forall₂ UpToStart (relinkSubs prev ss) ss := by
  induction ss generalizing prev with
  | nil => exact List.Forall₂.nil
  | cons s rest ih => exact List.Forall₂.cons ⟨prev, rfl⟩ (ih _)

theorem mapM_forall2 {α β : Type} (f : α → Option β) : ∀ (l : List α) (l' : List β), l.mapM f = some l' →
    List.Forall₂ (fun a b => f a = some b) l l' := by
  intro l
  induction l with
  | nil => intro l' h; simp at h; subst h; exact List.Forall₂.nil
  | cons a rest ih =>
    intro l' h
    rw [List.mapM_cons] at h
    cases ha : f a with
    | none => simp [ha] at h
    | some b =>
      cases hb : rest.mapM f with
      | none => simp [ha, hb] at h
      | some bs =>
        simp [ha, hb] at h
        subst h
        exact List.Forall₂.cons ha (ih bs hb)

theorem forall2_mapM {α β : Type} (f : α → Option β) : ∀ (l : List α) (l' : List β),
    List.Forall₂ (fun a b => f a = some b) l l' → l.mapM f = some l' := by
  intro l l' h
  induction h with
  | nil => rfl
  | cons ha _ ih => rw [List.mapM_cons, ha, ih]; rfl

/-- reversing the re-linked windows of reversed windows gives the originals back, up to the starts -/
theorem rev_relinkSubs (R S : List (Sub K)) (h : List.Forall₂ (fun r s => Sub.rev r = some s) R S)
    (hs : ∀ r ∈ R, Shape r) : ∀ prev, ∃ S', (relinkSubs prev R).mapM Sub.rev = some S' ∧ List.Forall₂ UpToStart S' S := by
  induction h with
  | nil => intro prev; exact ⟨[], rfl, List.Forall₂.nil⟩
  | @cons r s R' S0 hr _ ih =>
    intro prev
    obtain ⟨S', h1, h2⟩ := ih (fun q hq => hs q (List.mem_cons_of_mem _ hq)) (some (lastOf r))
    refine ⟨withStart prev s :: S', ?_, List.Forall₂.cons ⟨prev, rfl⟩ h2⟩
    simp only [relinkSubs]
    rw [List.mapM_cons, rev_withStart prev r (hs r List.mem_cons_self), hr, h1]
    rfl

theorem relink_first (R : List (Sub K)) (hne : R ≠ []) (hsh : ∀ r ∈ R, Shape r) (p0 : Option (Pt K)) :
    (match relink none R, p0 with
      | .move _ e :: rest, p => some (Seg.move p e :: rest)
      | o, _ => some o) = some (relink p0 R) := by
  cases R with
  | nil => exact absurd rfl hne
  | cons r R' =>
    obtain ⟨st, e, hm⟩ := (hsh r List.mem_cons_self).move
    simp only [relink, hm]
    cases p0 <;> rfl

theorem forall2_shape_rev (A B : List (Sub K)) (h : List.Forall₂ (fun a b => Sub.rev a = some b) A B)
    (hs : ∀ a ∈ A, Shape a) : ∀ b ∈ B, Shape b := by
  induction h with
  | nil => intro b hb; cases hb
  | @cons a b A' B' hab _ ih =>
    intro c hc
    rcases List.mem_cons.mp hc with rfl | hc
    · exact shape_rev a c (hs a List.mem_cons_self) hab
    · exact ih (fun q hq => hs q (List.mem_cons_of_mem _ hq)) c hc

theorem shapes_relinkSubs (p0 : Option (Pt K)) (ss : List (Sub K)) (hs : ∀ s ∈ ss, Shape s) :
    ∀ s ∈ relinkSubs p0 ss, Shape s := by
  induction ss generalizing p0 with
  | nil => intro s h; cases h
  | cons a rest ih =>
    intro s h
    simp only [relinkSubs] at h
    rcases List.mem_cons.mp h with rfl | h
    · exact shape_withStart _ _ (hs a List.mem_cons_self)
    · exact ih _ (fun q hq => hs q (List.mem_cons_of_mem _ hq)) s h

/-- `Path.reverse()` on a path in linked form, in terms of its windows -/
theorem pathReverse_relink (p0 : Option (Pt K)) (ss : List (Sub K)) (hs : ∀ s ∈ ss, Shape s) :
    pathReverse (relink p0 ss) = ((relinkSubs p0 ss).mapM Sub.rev).map (fun rs => relink p0 rs.reverse) := by
  cases ss with
  | nil => rfl
  | cons s rest =>
    obtain ⟨st, e, hm⟩ := (hs s List.mem_cons_self).move
    have hp : ∃ tail, relink p0 (s :: rest) = Seg.move p0 e :: tail := by
      refine ⟨(s.drawn ++ (match s.close with | some c => [c] | none => [])) ++ relink (some (lastOf s)) rest, ?_⟩
      simp only [relink, hm, lastOf, List.cons_append]
      cases p0 <;> rfl
    obtain ⟨tail, hp⟩ := hp
    have hsplit : splitOwn (Seg.move p0 e :: tail) = some (relinkSubs p0 (s :: rest)) := by
      rw [← hp, relink_eq _ _ hs]
      exact splitOwn_flat _ (shapes_relinkSubs p0 _ hs)
    rw [hp]
    unfold pathReverse
    have hfun : (Sub.revLoop : Sub K → Option (Sub K)) = Sub.rev := funext revLoop_eq
    simp only [hsplit, hfun]
    cases hm2 : (relinkSubs p0 (s :: rest)).mapM Sub.rev with
    | none => rfl
    | some rs =>
      have hf := mapM_forall2 _ _ _ hm2
      have hshape := forall2_shape_rev _ _ hf (shapes_relinkSubs p0 _ hs)
      have hne : rs.reverse ≠ [] := by
        cases hf with
        | cons _ _ => simp
      simp only [Option.map, Seg.start?]
      exact relink_first rs.reverse hne (fun r hr => hshape r (List.mem_reverse.mp hr)) p0

theorem forall2_involution (A B : List (Sub K)) (h : List.Forall₂ (fun a b => Sub.rev a = some b) A B)
    (hc : ∀ a ∈ A, SubConnected a) : List.Forall₂ (fun b a => Sub.rev b = some a) B A := by
  induction h with
  | nil => exact List.Forall₂.nil
  | @cons a b A' B' hab _ ih =>
    exact List.Forall₂.cons (C16_involution a b (hc a List.mem_cons_self) hab)
      (ih (fun q hq => hc q (List.mem_cons_of_mem _ hq)))

theorem connected_relinkSubs (p0 : Option (Pt K)) (ss : List (Sub K)) (hc : ∀ s ∈ ss, SubConnected s) :
    ∀ s ∈ relinkSubs p0 ss, SubConnected s := by
  induction ss generalizing p0 with
  | nil => intro s h; cases h
  | cons a rest ih =>
    intro s h
    simp only [relinkSubs] at h
    rcases List.mem_cons.mp h with rfl | h
    · exact connected_withStart _ _ (hc a List.mem_cons_self)
    · exact ih _ (fun q hq => hc q (List.mem_cons_of_mem _ hq)) s h

/-- **Whole-path involution.** For every path in linked form — any number of subpaths, each with
    its own move, drawn segments and optional close, each connected, every move remembering where
    the previous subpath left the pen (what the parser and `+=` build) — reversing the reversed
    path restores the path exactly: same segments, same order, same starts. -/
theorem C16_path_involution (p0 : Option (Pt K)) (ss : List (Sub K)) (hs : ∀ s ∈ ss, Shape s)
    (hc : ∀ s ∈ ss, SubConnected s) (q : List (Seg K)) (h : pathReverse (relink p0 ss) = some q) :
    pathReverse q = some (relink p0 ss) := by
  rw [pathReverse_relink p0 ss hs] at h
  cases hm : (relinkSubs p0 ss).mapM Sub.rev with
  | none => rw [hm] at h; cases h
  | some rs =>
    rw [hm] at h
    simp only [Option.map] at h
    injection h with h
    subst h
    have hf := mapM_forall2 _ _ _ hm
    have hsh_sub := shapes_relinkSubs p0 ss hs
    have hsh_rs := forall2_shape_rev _ _ hf hsh_sub
    have hinv := forall2_involution _ _ hf (connected_relinkSubs p0 ss hc)
    have hinv' : List.Forall₂ (fun r s => Sub.rev r = some s) rs.reverse (relinkSubs p0 ss).reverse :=
      List.rel_reverse hinv
    have hsh_rr : ∀ r ∈ rs.reverse, Shape r := fun r hr => hsh_rs r (List.mem_reverse.mp hr)
    rw [pathReverse_relink p0 rs.reverse hsh_rr]
    obtain ⟨S', h1, h2⟩ := rev_relinkSubs rs.reverse _ hinv' hsh_rr p0
    rw [h1]
    simp only [Option.map]
    have h3 : List.Forall₂ UpToStart S'.reverse (relinkSubs p0 ss) := by
      have := List.rel_reverse h2
      rwa [List.reverse_reverse] at this
    rw [relink_upToStart _ _ h3 hsh_sub p0, relink_upToStart _ _ (relinkSubs_upToStart p0 ss) hs p0]

/-- the reversed path is again in linked form with as many subpaths, in reverse order -/
theorem C16_path_reverse_windows (p0 : Option (Pt K)) (ss : List (Sub K)) (hs : ∀ s ∈ ss, Shape s)
    (q : List (Seg K)) (h : pathReverse (relink p0 ss) = some q) :
    ∃ rs, List.Forall₂ (fun s r => Sub.rev s = some r) (relinkSubs p0 ss) rs ∧ q = relink p0 rs.reverse := by
  rw [pathReverse_relink p0 ss hs] at h
  cases hm : (relinkSubs p0 ss).mapM Sub.rev with
  | none => rw [hm] at h; cases h
  | some rs =>
    rw [hm] at h
    simp only [Option.map] at h
    injection h with h
    exact ⟨rs, mapM_forall2 _ _ _ hm, h.symm⟩

end whole

/-- non-vacuity: a closed subpath with a curve followed by an open one meets every hypothesis of the
    whole-path theorems, and the model reverses it -/
def exSubs : List (Sub ℤ) :=
  [⟨.move none ⟨0, 0⟩, [.line (some ⟨0, 0⟩) ⟨1, 0⟩, .quad ⟨1, 0⟩ ⟨2, 2⟩ ⟨3, 0⟩], some (.close (some ⟨3, 0⟩) ⟨0, 0⟩)⟩,
   ⟨.move none ⟨5, 5⟩, [.line (some ⟨5, 5⟩) ⟨6, 5⟩], none⟩]

example : (∀ s ∈ exSubs, Shape s) ∧ (∀ s ∈ exSubs, SubConnected s) ∧ (pathReverse (relink none exSubs)).isSome = true := by
  refine ⟨?_, ?_, ?_⟩
  · intro s hs
    simp only [exSubs, List.mem_cons, List.not_mem_nil, or_false] at hs
    rcases hs with rfl | rfl
    · exact ⟨⟨_, _, rfl⟩, by simp [Seg.isMove, Seg.isClose], by simp [Seg.isClose]⟩
    · exact ⟨⟨_, _, rfl⟩, by simp [Seg.isMove, Seg.isClose], by simp⟩
  · intro s hs
    simp only [exSubs, List.mem_cons, List.not_mem_nil, or_false] at hs
    rcases hs with rfl | rfl
    · exact ⟨⟨_, _, rfl⟩, by simp [ChainFrom, Seg.start?, Seg.end_], by simp [Sub.lastEnd, Seg.end_]⟩
    · exact ⟨⟨_, _, rfl⟩, by simp [ChainFrom, Seg.start?, Seg.end_], by simp⟩
  · rw [pathReverse_relink none exSubs]
    · rfl
    · intro s hs
      simp only [exSubs, List.mem_cons, List.not_mem_nil, or_false] at hs
      rcases hs with rfl | rfl
      · exact ⟨⟨_, _, rfl⟩, by simp [Seg.isMove, Seg.isClose], by simp [Seg.isClose]⟩
      · exact ⟨⟨_, _, rfl⟩, by simp [Seg.isMove, Seg.isClose], by simp⟩

end C16
end Svg
