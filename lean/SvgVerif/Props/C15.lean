/-
  Props/C15.lean — property C15: lengths are true arc lengths, isometry-invariant, and drive point(t).

  Carried by theorems:
  * the chord recursion `segment_length` (any recursion budget, any error, any min_depth) depends on
    the curve only through the distances between sampled points, hence is unchanged by every
    isometry (rotation, translation, reflection); it is unchanged by reversal `t ↦ 1 − t`; under a
    uniform scaling by `c > 0` with the error scaled alike it scales by `c`; it never returns less
    than the chord (triangle inequality), and is 0 for a constant curve;
  * lines: `length = distance(start, end)`; moves contribute 0; a shape's length is the sum of its
    segments' lengths (Python's left-fold `sum` = the mathematical sum), zeros may be dropped;
  * `point(t)`: for non-negative lengths with non-zero total and `0 < t < 1`, the `for … else`
    loop selects the segment `i` whose cumulative-fraction interval `(c_i, c_{i+1}]` contains `t`,
    with local parameter `(t − c_i)/(c_{i+1} − c_i) ∈ (0, 1]`, never falls through, and the fractions
    sum to 1; `t ≤ 0` and `t ≥ 1` go to the first and last segment.
  Not carried by a theorem: the *accuracy* of the chord recursion against the true arc length
  (false of the code as stated: `error` is a per-interval threshold — known finding), the quadratic
  closed form (validated against a 60-digit evaluation), libm, IEEE rounding (over floats the
  cumulative sum may fall short of `t`: the fall-through branch, exercised by the correspondence).
-/
import SvgVerif.Model.ArcLen
import Mathlib.Tactic.Ring
import Mathlib.Tactic.Linarith
import Mathlib.Tactic.FieldSimp
import Mathlib.Tactic.Positivity
import Mathlib.Algebra.Order.Field.Basic

set_option linter.unusedSectionVars false
set_option linter.unusedVariables false

namespace Svg.C15
open Svg

/-! ### The chord recursion -/
section chord
variable {K : Type} [Add K] [Sub K] [Mul K] [Div K] [Neg K] [Zero K] [One K] [LT K] [DecidableLT K]

/-- **isometry invariance**: two curves with the same pairwise distances between their points
    (e.g. a curve and its image under any rotation, translation or reflection) have the same
    chord-recursion length — for every error, minimum depth, recursion budget and sub-interval. -/
theorem C15_chord_isometry (d : Pt K → Pt K → K) (f g : K → Pt K)
    (h : ∀ a b, d (f a) (f b) = d (g a) (g b)) (error : K) (minDepth fuel : Nat) (s e : K) (depth : Nat) :
    segLen d f error minDepth fuel s e (f s) (f e) depth = segLen d g error minDepth fuel s e (g s) (g e) depth := by
  induction fuel generalizing s e depth with
  | zero => simp only [segLen, h]
  | succ n ih => simp only [segLen, h, ih]

theorem C15_length_isometry (d : Pt K → Pt K → K) (f g : K → Pt K)
    (h : ∀ a b, d (f a) (f b) = d (g a) (g b)) (error : K) (minDepth fuel : Nat) :
    lineLength d f error minDepth fuel = lineLength d g error minDepth fuel :=
  C15_chord_isometry d f g h error minDepth fuel 0 1 0

/-- the number of accepted intervals is invariant too (same subdivision tree) -/
theorem C15_leaves_isometry (d : Pt K → Pt K → K) (f g : K → Pt K)
    (h : ∀ a b, d (f a) (f b) = d (g a) (g b)) (error : K) (minDepth fuel : Nat) (s e : K) (depth : Nat) :
    segLeaves d f error minDepth fuel s e (f s) (f e) depth = segLeaves d g error minDepth fuel s e (g s) (g e) depth := by
  induction fuel generalizing s e depth with
  | zero => simp only [segLeaves]
  | succ n ih => simp only [segLeaves, h, ih]

end chord

section chordField
variable {K : Type} [Field K] [LinearOrder K] [IsStrictOrderedRing K]

theorem mid_rev (s e : K) : 1 - (s + e) / two = ((1 - e) + (1 - s)) / two := by
  unfold two; ring

/-- **reversal**: the curve traversed backwards, `t ↦ f (1 − t)`, has the same chord-recursion
    length on the mirrored interval -/
theorem C15_chord_reverse (d : Pt K → Pt K → K) (hsym : ∀ p q, d p q = d q p) (f : K → Pt K)
    (error : K) (minDepth fuel : Nat) (s e : K) (depth : Nat) :
    segLen d (fun t => f (1 - t)) error minDepth fuel s e (f (1 - s)) (f (1 - e)) depth
      = segLen d f error minDepth fuel (1 - e) (1 - s) (f (1 - e)) (f (1 - s)) depth := by
  induction fuel generalizing s e depth with
  | zero =>
    simp only [segLen, mid_rev]
    rw [hsym (f (((1 - e) + (1 - s)) / two)) (f (1 - s)), hsym (f (1 - e)), add_comm]
  | succ n ih =>
    simp only [segLen]
    rw [mid_rev s e]
    have ih1 := ih s ((s + e) / two) (depth + 1)
    have ih2 := ih ((s + e) / two) e (depth + 1)
    simp only [mid_rev] at ih1 ih2
    rw [ih1, ih2]
    rw [hsym (f (((1 - e) + (1 - s)) / two)) (f (1 - s)), hsym (f (1 - e)) (f (((1 - e) + (1 - s)) / two)),
      hsym (f (1 - e)) (f (1 - s))]
    rw [add_comm (d (f (1 - s)) (f (((1 - e) + (1 - s)) / two)))]
    split
    · exact add_comm _ _
    · rfl

/-- `reverse()` does not change the length computed by the chord recursion -/
theorem C15_length_reverse (d : Pt K → Pt K → K) (hsym : ∀ p q, d p q = d q p) (f : K → Pt K)
    (error : K) (minDepth fuel : Nat) :
    lineLength d (fun t => f (1 - t)) error minDepth fuel = lineLength d f error minDepth fuel := by
  have := C15_chord_reverse d hsym f error minDepth fuel 0 1 0
  simpa [lineLength] using this

/-- **uniform scaling**: if all distances are multiplied by `c > 0` and the error threshold too,
    the result is multiplied by `c` -/
theorem C15_chord_scale (d : Pt K → Pt K → K) (f g : K → Pt K) (c : K) (hc : 0 < c)
    (h : ∀ a b, d (g a) (g b) = c * d (f a) (f b)) (error : K) (minDepth fuel : Nat) (s e : K) (depth : Nat) :
    segLen d g (c * error) minDepth fuel s e (g s) (g e) depth
      = c * segLen d f error minDepth fuel s e (f s) (f e) depth := by
  induction fuel generalizing s e depth with
  | zero => simp only [segLen, h]; ring
  | succ n ih =>
    simp only [segLen, h, ih]
    have hcond : (c * error < c * d (f ((s + e) / two)) (f s) + c * d (f e) (f ((s + e) / two)) - c * d (f e) (f s))
        ↔ (error < d (f ((s + e) / two)) (f s) + d (f e) (f ((s + e) / two)) - d (f e) (f s)) := by
      rw [← mul_add, ← mul_sub]
      exact mul_lt_mul_iff_right₀ hc
    by_cases hx : (error < d (f ((s + e) / two)) (f s) + d (f e) (f ((s + e) / two)) - d (f e) (f s)) ∨ depth < minDepth
    · rw [if_pos hx, if_pos (by rcases hx with h1 | h1; exact Or.inl (hcond.mpr h1); exact Or.inr h1)]; ring
    · rw [if_neg hx, if_neg (by
        intro hh; rcases hh with h1 | h1
        · exact hx (Or.inl (hcond.mp h1))
        · exact hx (Or.inr h1))]; ring

/-- **never shorter than the chord**: with the triangle inequality, the recursion returns at
    least the distance between the interval's end points, at every level -/
theorem C15_chord_lower (d : Pt K → Pt K → K) (htri : ∀ p q r, d r p ≤ d q p + d r q) (f : K → Pt K)
    (error : K) (minDepth fuel : Nat) (s e : K) (sp ep : Pt K) (depth : Nat) :
    d ep sp ≤ segLen d f error minDepth fuel s e sp ep depth := by
  induction fuel generalizing s e sp ep depth with
  | zero => simp only [segLen]; exact htri _ _ _
  | succ n ih =>
    simp only [segLen]
    split
    · have h1 := ih s ((s + e) / two) sp (f ((s + e) / two)) (depth + 1)
      have h2 := ih ((s + e) / two) e (f ((s + e) / two)) ep (depth + 1)
      have := htri sp (f ((s + e) / two)) ep
      linarith
    · exact htri _ _ _

/-- a constant curve (zero-length segment) has length 0 -/
theorem C15_chord_constant (d : Pt K → Pt K → K) (p : Pt K) (hd : d p p = 0)
    (error : K) (minDepth fuel : Nat) (s e : K) (depth : Nat) :
    segLen d (fun _ => p) error minDepth fuel s e p p depth = 0 := by
  induction fuel generalizing s e depth with
  | zero => simp [segLen, hd]
  | succ n ih => simp [segLen, hd, ih]

end chordField

/-! ### Segment kinds, sums -/
section sums
variable {K : Type} [Field K] [LinearOrder K] [IsStrictOrderedRing K]

/-- in exact arithmetic the compensation term of Neumaier's summation stays 0 -/
theorem neumaier_aux (l : List K) (a : K) : l.foldl neumaierStep (a, 0) = (a + sumK l, 0) := by
  induction l generalizing a with
  | nil => simp [sumK]
  | cons x r ih =>
    have hstep : neumaierStep (a, 0) x = (a + x, 0) := by
      unfold neumaierStep
      split <;> simp <;> ring
    simp only [List.foldl_cons, hstep, ih, sumK, Prod.mk.injEq, and_true]
    ring

theorem pySum_eq (l : List K) : pySum l = sumK l := by
  simp [pySum, neumaier_aux]

/-- Python's `sum(lengths)` (compensated since CPython 3.12) is the mathematical sum -/
theorem C15_sum (l : List K) : (calcLengths l).1 = sumK l := by
  unfold calcLengths
  simp only [pySum_eq]
  split <;> rfl

theorem sumK_append (a b : List K) : sumK (a ++ b) = sumK a + sumK b := by
  induction a with
  | nil => simp [sumK]
  | cons x r ih => simp only [List.cons_append, sumK, ih]; ring

/-- **moves contribute nothing**: dropping the zero entries does not change the sum -/
theorem C15_zeros_drop (l : List K) : sumK (l.filter (· ≠ 0)) = sumK l := by
  induction l with
  | nil => rfl
  | cons x r ih =>
    rw [List.filter_cons]
    by_cases hx : x = 0
    · simp only [hx, ne_eq, not_true_eq_false, decide_false, Bool.false_eq_true, if_false, sumK, zero_add]; exact ih
    · simp only [ne_eq, hx, not_false_eq_true, decide_true, if_true, sumK, ih]

theorem sumK_nonneg (l : List K) (h : ∀ x ∈ l, 0 ≤ x) : 0 ≤ sumK l := by
  induction l with
  | nil => simp [sumK]
  | cons x r ih =>
    simp only [sumK]
    have := h x (List.mem_cons_self)
    have := ih (fun y hy => h y (List.mem_cons_of_mem _ hy))
    linarith

theorem sumK_map_div (l : List K) (t : K) : sumK (l.map (· / t)) = sumK l / t := by
  induction l with
  | nil => simp [sumK]
  | cons x r ih => simp only [List.map_cons, sumK, ih]; ring

/-- the fractions of a non-zero total sum to 1 -/
theorem C15_fractions_sum (l : List K) (h : sumK l ≠ 0) : sumK (calcLengths l).2 = 1 := by
  unfold calcLengths
  simp only [pySum_eq]
  have : (sumK l == 0) = false := by simpa using h
  simp only [this, Bool.false_eq_true, if_false, sumK_map_div]
  exact div_self h

end sums

section kinds
variable {K : Type} [Add K] [Sub K] [Mul K] [Div K] [Neg K] [Zero K] [One K] [BEq K]
  [LT K] [DecidableLT K] [LE K] [DecidableLE K] [NatCast K] [Trig K] [FMod K] [LogK K]

/-- a move has length 0, a line or close the distance between its end points — whatever the error -/
theorem C15_move_line (s e : Pt K) (so : Option (Pt K)) (error : K) (minDepth fuel : Nat) :
    (Seg.move so e).length error minDepth fuel = 0 ∧
    (Seg.line (some s) e).length error minDepth fuel = dist e s ∧
    (Seg.close (some s) e).length error minDepth fuel = dist e s := ⟨rfl, rfl, rfl⟩

end kinds

/-! ### `point(t)`: selection of the segment -/
section select
variable {K : Type} [Field K] [LinearOrder K] [IsStrictOrderedRing K]

/-- **the selection loop**: started at cumulative position `start < position`, over non-negative
    fractions reaching `position`, the loop returns an index `idx + j` whose cumulative interval
    `(a, a + l]` contains `position` (`a = start + Σ_{k<j} fracs k`, `l = fracs j`) and the local
    parameter `(position − a)/((a + l) − a) ∈ (0, 1]`. -/
theorem select_spec (position : K) (fracs : List K) (start : K) (idx : Nat)
    (hpos : ∀ x ∈ fracs, 0 ≤ x) (hs : start < position) (hreach : position ≤ start + sumK fracs) :
    ∃ j l, fracs[j]? = some l ∧
      selectSeg position fracs start idx =
        some (idx + j, (position - (start + sumK (fracs.take j))) / ((start + sumK (fracs.take j) + l) - (start + sumK (fracs.take j)))) ∧
      start + sumK (fracs.take j) < position ∧ position ≤ start + sumK (fracs.take j) + l ∧
      0 < (position - (start + sumK (fracs.take j))) / ((start + sumK (fracs.take j) + l) - (start + sumK (fracs.take j))) ∧
      (position - (start + sumK (fracs.take j))) / ((start + sumK (fracs.take j) + l) - (start + sumK (fracs.take j))) ≤ 1 := by
  induction fracs generalizing start idx with
  | nil => simp [sumK] at hreach; exact absurd hreach (not_le.mpr hs)
  | cons x r ih =>
    by_cases hx : position ≤ start + x
    · refine ⟨0, x, rfl, ?_, ?_, ?_, ?_, ?_⟩
      · simp [selectSeg, hx, sumK]
      · simpa [sumK] using hs
      · simpa [sumK] using hx
      · simp only [List.take_zero, sumK, add_zero]
        have : 0 < position - start := sub_pos.mpr hs
        have hx0 : 0 < start + x - start := by linarith
        exact div_pos this hx0
      · simp only [List.take_zero, sumK, add_zero]
        have hx0 : 0 < start + x - start := by linarith
        rw [div_le_one hx0]; linarith
    · have hx' : start + x < position := not_le.mp hx
      have hreach' : position ≤ (start + x) + sumK r := by simp only [sumK] at hreach; linarith
      obtain ⟨j, l, hj, hsel, h1, h2, h3, h4⟩ := ih (start + x) (idx + 1) (fun y hy => hpos y (List.mem_cons_of_mem _ hy)) hx' hreach'
      refine ⟨j + 1, l, by simpa using hj, ?_, ?_, ?_, ?_, ?_⟩
      · simp only [selectSeg, hx, if_false, hsel, List.take_succ_cons, sumK]
        have e1 : start + (x + sumK (List.take j r)) = start + x + sumK (List.take j r) := by ring
        rw [e1]; congr 2; omega
      · simp only [List.take_succ_cons, sumK]; linarith
      · simp only [List.take_succ_cons, sumK]; linarith
      · simp only [List.take_succ_cons, sumK]
        have e1 : start + (x + sumK (List.take j r)) = start + x + sumK (List.take j r) := by ring
        rw [e1]; exact h3
      · simp only [List.take_succ_cons, sumK]
        have e1 : start + (x + sumK (List.take j r)) = start + x + sumK (List.take j r) := by ring
        rw [e1]; exact h4

/-- **C15, point(t)**: for non-negative segment lengths with non-zero total and `0 < t < 1`,
    `Shape.point(t)` evaluates segment `i` at local parameter `p` where, with cumulative fractions
    `c_i = (Σ_{k<i} len_k)/total`, `c_i < t ≤ c_i + frac_i`, `p = (t − c_i)/((c_i + frac_i) − c_i)` and
    `0 < p ≤ 1`; the loop never falls through. -/
theorem C15_point_selection (roundNat : K → Nat) (natCast : Nat → K) (lengths : List K) (t : K)
    (hpos : ∀ x ∈ lengths, 0 ≤ x) (htot : sumK lengths ≠ 0) (h0 : 0 < t) (h1 : t < 1) :
    ∃ i fr, (calcLengths lengths).2[i]? = some fr ∧ i < lengths.length ∧
      let c := sumK ((calcLengths lengths).2.take i)
      pointSelect roundNat natCast lengths t = (i, (t - c) / ((c + fr) - c)) ∧
      c < t ∧ t ≤ c + fr ∧ 0 < (t - c) / ((c + fr) - c) ∧ (t - c) / ((c + fr) - c) ≤ 1 := by
  have hsum := C15_fractions_sum lengths htot
  have htot' : (calcLengths lengths).1 = sumK lengths := C15_sum lengths
  have hfr : (calcLengths lengths).2 = lengths.map (· / sumK lengths) := by
    unfold calcLengths
    simp only [pySum_eq]
    have : (sumK lengths == 0) = false := by simpa using htot
    simp [this]
  have htotpos : 0 < sumK lengths := lt_of_le_of_ne (sumK_nonneg lengths hpos) (Ne.symm htot)
  have hfpos : ∀ x ∈ (calcLengths lengths).2, 0 ≤ x := by
    rw [hfr]; intro x hx
    obtain ⟨y, hy, rfl⟩ := List.mem_map.mp hx
    exact div_nonneg (hpos y hy) (le_of_lt htotpos)
  obtain ⟨j, l, hj, hsel, h2, h3, h4, h5⟩ :=
    select_spec t (calcLengths lengths).2 0 0 hfpos h0 (by rw [hsum]; linarith)
  refine ⟨j, l, hj, ?_, ?_⟩
  · have : j < (calcLengths lengths).2.length := by
      rcases Nat.lt_or_ge j (calcLengths lengths).2.length with h | h
      · exact h
      · rw [List.getElem?_eq_none_iff.mpr h] at hj; cases hj
    rw [hfr] at this; simpa using this
  · simp only [zero_add] at hsel h2 h3 h4 h5
    refine ⟨?_, h2, h3, h4, h5⟩
    unfold pointSelect
    rw [if_neg (not_le.mpr h0), if_neg (not_le.mpr h1)]
    have hne : ((calcLengths lengths).1 == 0) = false := by rw [htot']; simpa using htot
    simp only [hne, Bool.false_eq_true, if_false, hsel, Nat.zero_add]

/-- `point(t)` for `t ≤ 0` / `t ≥ 1`: first / last segment, parameter passed through -/
theorem C15_point_ends (roundNat : K → Nat) (natCast : Nat → K) (lengths : List K) (t : K) :
    (t ≤ 0 → pointSelect roundNat natCast lengths t = (0, t)) ∧
    (0 < t → 1 ≤ t → pointSelect roundNat natCast lengths t = (lengths.length - 1, t)) := by
  unfold pointSelect
  constructor
  · intro h; rw [if_pos h]
  · intro h0 h1; rw [if_neg (not_le.mpr h0), if_pos h1]

/-- non-vacuity: lengths `[0, 3, 0, 1]` (a move, a line, a zero-length close, a line), `t = 7/8` lies
    in the last segment at local parameter 1/2 -/
example : pointSelect (K := ℚ) (fun _ => 0) (fun n => n) [0, 3, 0, 1] (7 / 8) = (3, 1 / 2) := by
  decide +kernel

end select

end Svg.C15
