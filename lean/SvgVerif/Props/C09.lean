/-
  Props/C09.lean — Path-data parsing is total: any string returns or raises ValueError only.

  `parsePath` (Model/PathParse.lean) can, by construction, end with any `PyErr`: TypeError where
  Python would add `None` to a float, AttributeError for `None.reflected_across`, IndexError for
  a wrong operand count, and the marker `recursion` when a `while` of the code would iterate
  without consuming input. The theorems show that for **every** string (every list of
  characters, any length) and every well-formed existing path, only `valueError` is reachable,
  the loops always consume input, and every retained segment is well-formed.
-/
import SvgVerif.Model.PathParse
namespace Svg
namespace C09

/-! ### scanners consume input -/
theorem takeDigits_len (s : List Char) : (takeDigits s).2.length + (takeDigits s).1.length = s.length := by
  induction s with
  | nil => simp [takeDigits]
  | cons c cs ih =>
    unfold takeDigits
    split
    · simp only [List.length_cons]; omega
    · simp
theorem scanExp_le (s : List Char) : (scanExp s).2.length ≤ s.length := by
  unfold scanExp
  split
  · rename_i e rest
    split
    · dsimp only
      split
      · rename_i r
        have := takeDigits_length_le r
        cases h : takeDigits r with | mk ds r2 => simp only [h] at this ⊢; split <;> simp <;> omega
      · rename_i r
        have := takeDigits_length_le r
        cases h : takeDigits r with | mk ds r2 => simp only [h] at this ⊢; split <;> simp <;> omega
      · have := takeDigits_length_le rest
        cases h : takeDigits rest with | mk ds r2 => simp only [h] at this ⊢; split <;> simp <;> omega
    · simp
  · simp

theorem len_pos_of_ne {α} (l : List α) (h : l ≠ []) : 0 < l.length := by
  cases l with
  | nil => exact absurd rfl h
  | cons _ _ => simp

theorem scanFloat_lt_aux (s1 : List Char) (n : NumLit) (r : List Char) (neg : Bool)
   (h : scanFloatBody neg s1 = some (n, r)) : r.length < s1.length := by
  unfold scanFloatBody at h
  have h1 := takeDigits_len s1
  cases ht : takeDigits s1 with
  | mk ints s2 =>
    simp only [ht] at h h1
    split at h
    · rename_i r0
      have h2 := takeDigits_len r0
      cases ht2 : takeDigits r0 with
      | mk fs r' =>
        simp only [ht2] at h h2
        split at h
        · -- fs empty
          split at h
          · simp at h
          · rename_i hne
            have h3 := scanExp_le ('.' :: r0)
            simp only [Option.some.injEq, Prod.mk.injEq] at h
            obtain ⟨_, rfl⟩ := h
            have hi : ints ≠ [] := by
              intro hn; apply hne; simp [hn]
            have := len_pos_of_ne _ hi
            simp only [List.length_cons] at h3 h1 ⊢; omega
        · rename_i hfs
          split at h
          · simp at h
          · have h3 := scanExp_le r'
            simp only [Option.some.injEq, Prod.mk.injEq] at h
            obtain ⟨_, rfl⟩ := h
            have hf : fs ≠ [] := by
              intro hn; apply hfs; simp [hn]
            have := len_pos_of_ne _ hf
            simp only [List.length_cons] at h3 h1 h2 ⊢; omega
    · split at h
      · simp at h
      · rename_i hne
        have h3 := scanExp_le s2
        simp only [Option.some.injEq, Prod.mk.injEq] at h
        obtain ⟨_, rfl⟩ := h
        have hi : ints ≠ [] := by
          intro hn; apply hne; simp [hn]
        have := len_pos_of_ne _ hi
        omega

theorem scanFloat_lt (s : List Char) (n : NumLit) (r : List Char) (h : scanFloat s = some (n, r)) : r.length < s.length := by
  unfold scanFloat at h
  split at h
  · have := scanFloat_lt_aux _ n r true h
    simp; omega
  · have := scanFloat_lt_aux _ n r false h
    simp; omega
  · exact scanFloat_lt_aux s n r false h

theorem skip_length_le (s : List Char) : (skipCommaWsp s).length ≤ s.length := by
  induction s with
  | nil => simp [skipCommaWsp]
  | cons c cs ih => unfold skipCommaWsp; split <;> simp <;> omega

theorem skip_idem (s : List Char) : skipCommaWsp (skipCommaWsp s) = skipCommaWsp s := by
  induction s with
  | nil => simp [skipCommaWsp]
  | cons c cs ih =>
    by_cases h : isCommaWsp c = true
    · simp [skipCommaWsp, h, ih]
    · simp [skipCommaWsp, h]

theorem skip_head (s : List Char) (c : Char) (r : List Char) (h : skipCommaWsp s = c :: r) : isCommaWsp c = false := by
  induction s with
  | nil => simp [skipCommaWsp] at h
  | cons a as ih =>
    by_cases ha : isCommaWsp a = true
    · simp [skipCommaWsp, ha] at h; exact ih h
    · simp [skipCommaWsp, ha] at h; obtain ⟨rfl, _⟩ := h; simpa using ha

theorem scanFloat_zero (r : List Char) : scanFloat ('0' :: r) ≠ none := by
  simp [scanFloat, scanFloatBody, takeDigits, isDigit]

theorem scanFloat_one (r : List Char) : scanFloat ('1' :: r) ≠ none := by
  simp [scanFloat, scanFloatBody, takeDigits, isDigit]

/-- "no number starts here (after separators)" -/
def NF (r : List Char) : Prop := scanFloat (skipCommaWsp r) = none

theorem NF_skip (r : List Char) : NF (skipCommaWsp r) ↔ NF r := by simp [NF, skip_idem]

theorem lookNumber_cases (s : List Char) :
    (∃ n r, scanFloat (skipCommaWsp s) = some (n, r) ∧ lookNumber s = (.float n r, skipCommaWsp s)) ∨
    (scanFloat (skipCommaWsp s) = none ∧ ∃ c, lookNumber s = (.close c, skipCommaWsp s)) ∨
    (scanFloat (skipCommaWsp s) = none ∧ lookNumber s = (.nothing, skipCommaWsp s)) := by
  unfold lookNumber
  cases h : scanFloat (skipCommaWsp s) with
  | some p => obtain ⟨n, r⟩ := p; left; exact ⟨n, r, rfl, by simp [h]⟩
  | none =>
    right
    cases hs : skipCommaWsp s with
    | nil => right; rw [hs] at h; simp [h]
    | cons c cs =>
      by_cases hc : isCloseChar c = true
      · left; rw [hs] at h; exact ⟨rfl, c, by simp [hc, h]⟩
      · right; rw [hs] at h; simp [hc, h]

theorem more_rest (st : LexSt) : (lexMore st).2.rest = skipCommaWsp st.rest := by
  unfold lexMore
  rcases lookNumber_cases st.rest with ⟨n, r, _, h⟩ | ⟨_, c, h⟩ | ⟨_, h⟩ <;> simp [h]

theorem more_le (st : LexSt) : (lexMore st).2.rest.length ≤ st.rest.length := by
  rw [more_rest]; exact skip_length_le _

theorem more_of_NF (st : LexSt) (h : NF st.rest) : (lexMore st).1 = false := by
  unfold lexMore
  rcases lookNumber_cases st.rest with ⟨n, r, h1, _⟩ | ⟨_, c, h2⟩ | ⟨_, h2⟩
  · simp [NF] at h; simp [h] at h1
  · simp [h2]
  · simp [h2]

theorem more_true (st : LexSt) (h : (lexMore st).1 = true) : ¬ NF st.rest := by
  intro hn; rw [more_of_NF st hn] at h; exact Bool.noConfusion h

theorem number_cases (st : LexSt) :
    (∃ n, (lexNumber st).1 = some n ∧ (lexNumber st).2.rest.length < st.rest.length ∧ ¬ NF st.rest) ∨
    ((lexNumber st).1 = none ∧ (lexNumber st).2.rest = skipCommaWsp st.rest ∧ NF st.rest) := by
  unfold lexNumber
  rcases lookNumber_cases st.rest with ⟨n, r, h1, h2⟩ | ⟨h1, c, h2⟩ | ⟨h1, h2⟩
  · left
    refine ⟨n, by simp [h2], ?_, by simp [NF, h1]⟩
    have := scanFloat_lt _ _ _ h1
    have := skip_length_le st.rest
    simp [h2]; omega
  · right; simp [h2, NF, h1]
  · right; simp [h2, NF, h1]

theorem number_le (st : LexSt) : (lexNumber st).2.rest.length ≤ st.rest.length := by
  rcases number_cases st with ⟨n, _, h, _⟩ | ⟨_, h, _⟩
  · omega
  · rw [h]; exact skip_length_le _

theorem flag_le (st : LexSt) : (lexFlag st).2.rest.length ≤ st.rest.length := by
  unfold lexFlag
  have := skip_length_le st.rest
  split
  · rename_i c rest hs
    rw [hs] at this
    split
    · simp at this ⊢; omega
    · split
      · simp at this ⊢; omega
      · simpa using this
  · simp

/-- where no number starts, no flag starts either (`0` and `1` are numbers), and the position stays -/
theorem flag_of_NF (st : LexSt) (h : NF st.rest) : (lexFlag st).1 = none ∧ NF (lexFlag st).2.rest := by
  unfold lexFlag
  split
  · rename_i c rest hs
    have hc0 : c ≠ '0' := by
      intro hc; subst hc; simp [NF, hs] at h; exact scanFloat_zero _ h
    have hc1 : c ≠ '1' := by
      intro hc; subst hc; simp [NF, hs] at h; exact scanFloat_one _ h
    simp only [hc0, hc1, if_false]
    refine ⟨trivial, ?_⟩
    show NF (c :: rest)
    rw [← hs, NF_skip]; exact h
  · rename_i hs
    refine ⟨rfl, ?_⟩
    show NF []
    simp [NF, skipCommaWsp, scanFloat, scanFloatBody, takeDigits]

/-- a failed flag read leaves the lexer where the next flag read fails too -/
theorem flag_none_persist (st : LexSt) (h : (lexFlag st).1 = none) : (lexFlag (lexFlag st).2).1 = none := by
  unfold lexFlag at h ⊢
  split at h
  · rename_i c rest hs
    split at h
    · simp at h
    · split at h
      · simp at h
      · rename_i h0 h1
        have hw := skip_head _ _ _ hs
        simp only [h0, h1, if_false]
        have : skipCommaWsp (c :: rest) = c :: rest := by simp [skipCommaWsp, hw]
        simp [this, h0, h1]
  · rename_i hs
    simp [hs, skipCommaWsp]

/-! ### readers: what `_number/_coord/_rcoord` guarantee -/

/-- never lengthens the input; only ValueError; a missing operand means no number starts here
    (before and after); a value means input was consumed; where no number starts the answer is `None` -/
structure ReadOK {α : Type} (st : LexSt) (r : Py (Option α) × LexSt) : Prop where
  le : r.2.rest.length ≤ st.rest.length
  err : ∀ e, r.1 = .error e → e = .valueError
  none_nf : r.1 = .ok none → NF r.2.rest ∧ NF st.rest
  some_lt : ∀ v, r.1 = .ok (some v) → r.2.rest.length < st.rest.length
  nf : NF st.rest → r.1 = .ok none

section
variable {K : Type}

theorem lexNum_ok (num : NumLit → Option K) (st : LexSt) : ReadOK st (lexNum num st) := by
  unfold lexNum
  rcases number_cases st with ⟨n, h1, h2, h3⟩ | ⟨h1, h2, h3⟩
  · cases hn : lexNumber st with
    | mk a st1 =>
      simp only [hn] at h1 h2
      subst h1
      cases hv : num n with
      | none =>
        exact ⟨by simp [hv]; omega, by simp [hv, throw, throwThe, MonadExceptOf.throw],
               by simp [hv, throw, throwThe, MonadExceptOf.throw], by simp [hv, throw, throwThe, MonadExceptOf.throw],
               fun h => absurd h h3⟩
      | some v =>
        exact ⟨by simp [hv]; omega, by simp [hv, pure, Except.pure], by simp [hv, pure, Except.pure],
               by simp [hv, pure, Except.pure]; omega, fun h => absurd h h3⟩
  · cases hn : lexNumber st with
    | mk a st1 =>
      simp only [hn] at h1 h2
      subst h1
      refine ⟨by simp; rw [h2]; exact skip_length_le _, by simp [pure, Except.pure], ?_, by simp [pure, Except.pure], fun _ => by simp [pure, Except.pure]⟩
      intro _
      simp only
      rw [h2, NF_skip]; exact ⟨h3, h3⟩

variable [Add K]

theorem lexCoord_ok (num : NumLit → Option K) (st : LexSt) : ReadOK st (lexCoord num st) := by
  unfold lexCoord
  have A := lexNum_ok num st
  cases h1 : lexNum num st with
  | mk r1 st1 =>
    rw [h1] at A
    cases r1 with
    | error e => exact ⟨A.le, fun e' h => by cases h; exact A.err e rfl, by simp, by simp, fun h => by have := A.nf h; simp at this⟩
    | ok o =>
      cases o with
      | none => exact ⟨A.le, by simp [pure, Except.pure], fun _ => A.none_nf rfl, by simp [pure, Except.pure], fun _ => rfl⟩
      | some x =>
        have hlt := A.some_lt x rfl
        have hnn : ¬ NF st.rest := fun h => by have := A.nf h; simp at this
        simp only at hlt ⊢
        have B := lexNum_ok num st1
        cases h2 : lexNum num st1 with
        | mk r2 st2 =>
          rw [h2] at B
          have hle := B.le
          simp only at hle
          cases r2 with
          | error e => exact ⟨by simp; omega, fun e' h => by cases h; exact B.err e rfl, by simp, by simp, fun h => absurd h hnn⟩
          | ok o2 =>
            cases o2 with
            | none => exact ⟨by simp; omega, by simp [throw, throwThe, MonadExceptOf.throw], by simp [throw, throwThe, MonadExceptOf.throw],
                             by simp [throw, throwThe, MonadExceptOf.throw], fun h => absurd h hnn⟩
            | some y => exact ⟨by simp; omega, by simp [pure, Except.pure], by simp [pure, Except.pure],
                               by simp [pure, Except.pure]; omega, fun h => absurd h hnn⟩

theorem lexRCoord_ok (num : NumLit → Option K) (cur : Option (Pt K)) (st : LexSt) : ReadOK st (lexRCoord num cur st) := by
  unfold lexRCoord
  have A := lexCoord_ok num st
  cases h1 : lexCoord num st with
  | mk r1 st1 =>
    rw [h1] at A
    cases r1 with
    | error e => exact A
    | ok o =>
      cases o with
      | none => exact A
      | some p =>
        have hlt := A.some_lt p rfl
        have hnn : ¬ NF st.rest := fun h => by have := A.nf h; simp at this
        cases cur with
        | none => exact ⟨A.le, by simp [pure, Except.pure], by simp [pure, Except.pure], fun v _ => hlt, fun h => absurd h hnn⟩
        | some c => exact ⟨A.le, by simp [pure, Except.pure], by simp [pure, Except.pure], fun v _ => hlt, fun h => absurd h hnn⟩

theorem coordReader_ok (num : NumLit → Option K) (rel : Bool) (cur : Option (Pt K)) (st : LexSt) :
    ReadOK st (if rel then lexRCoord num cur st else lexCoord num st) := by
  cases rel
  · simpa using lexCoord_ok num st
  · simpa using lexRCoord_ok num cur st

/-- `n` coordinate reads in a row: only ValueError; the right number of results; and either input was
    consumed or no number starts at the final position -/
theorem readCoords_ok (num : NumLit → Option K) (rel : Bool) (cur : Option (Pt K)) (n : Nat) : ∀ st : LexSt,
    (readCoords num rel cur n st).2.rest.length ≤ st.rest.length ∧
    (∀ e, (readCoords num rel cur n st).1 = .error e → e = .valueError) ∧
    (∀ cs, (readCoords num rel cur n st).1 = .ok cs → cs.length = n ∧
       (0 < n → (readCoords num rel cur n st).2.rest.length < st.rest.length ∨ NF (readCoords num rel cur n st).2.rest)) ∧
    (NF st.rest → NF (readCoords num rel cur n st).2.rest) := by
  induction n with
  | zero => intro st; simp [readCoords, pure, Except.pure]
  | succ n ih =>
    intro st
    unfold readCoords
    have A := coordReader_ok num rel cur st
    cases h1 : (if rel then lexRCoord num cur st else lexCoord num st) with
    | mk r1 st1 =>
      rw [h1] at A
      cases r1 with
      | error e =>
        refine ⟨A.le, fun e' h => by cases h; exact A.err e rfl, by simp, fun h => ?_⟩
        have := A.nf h; simp at this
      | ok c =>
        have ⟨B1, B2, B3, B4⟩ := ih st1
        have hle := A.le
        simp only at hle ⊢
        cases h2 : readCoords num rel cur n st1 with
        | mk r2 st2 =>
          rw [h2] at B1 B2 B3 B4
          simp only at B1 B2 B3 B4 ⊢
          cases r2 with
          | error e =>
            dsimp only
            refine ⟨by omega, fun e' h => by cases h; exact B2 e rfl, by simp, fun h => ?_⟩
            have h0 := A.nf h
            simp only at h0
            cases h0
            exact B4 (A.none_nf rfl).1
          | ok cs =>
            dsimp only
            refine ⟨by omega, by simp, ?_, fun h => ?_⟩
            · intro cs' h
              cases h
              have ⟨hlen, hprog⟩ := B3 cs rfl
              refine ⟨by simp [hlen], fun _ => ?_⟩
              cases c with
              | some p => left; have := A.some_lt p rfl; simp only at this; omega
              | none => right; exact B4 (A.none_nf rfl).1
            · have h0 := A.nf h
              simp only at h0
              cases h0
              exact B4 (A.none_nf rfl).1

theorem fillCoords_ok (ic : Option Char) : ∀ (cs : List (Option (Pt K))),
    (∀ e, fillCoords ic cs = .error e → e = .valueError) ∧ (∀ as, fillCoords ic cs = .ok as → as.length = cs.length) := by
  intro cs
  induction cs with
  | nil => simp [fillCoords, pure, Except.pure]
  | cons c cs ih =>
    unfold fillCoords
    cases c with
    | some p =>
      simp only [orInline, pure, Except.pure, bind, Except.bind]
      cases h : fillCoords ic cs with
      | error e => simp; exact ih.1 e h
      | ok as => simp; exact ih.2 as h
    | none =>
      cases ic with
      | none => simp [orInline, throw, throwThe, MonadExceptOf.throw, bind, Except.bind]
      | some ch =>
        simp only [orInline, pure, Except.pure, bind, Except.bind]
        cases h : fillCoords (some ch) cs with
        | error e => simp; exact ih.1 e h
        | ok as => simp; exact ih.2 as h

/-! ### builder callbacks: only ValueError, and what they append is well-formed -/

/-- a stored curve whose (last) control point is `None` also has no end point — then it cannot be
    the base of a later smooth command, because that needs a current point -/
def WF : PSeg K → Prop
  | .quad _ _ _ c e => c = none → e = none
  | .cubic _ _ _ _ c2 e => c2 = none → e = none
  | _ => True

def AllWF (segs : List (PSeg K)) : Prop := ∀ s ∈ segs, WF s

omit [Add K] in
theorem AllWF_snoc {segs : List (PSeg K)} {s : PSeg K} (h : AllWF segs) (hs : WF s) : AllWF (segs ++ [s]) := by
  intro x hx
  simp at hx
  rcases hx with hx | rfl
  · exact h x hx
  · exact hs

/-- a callback result: ValueError, or exactly one well-formed segment appended -/
def Good (segs : List (PSeg K)) (r : Py (List (PSeg K))) : Prop :=
  r = .error .valueError ∨ ∃ s, r = .ok (segs ++ [s]) ∧ WF s

variable [Sub K]

theorem smoothPoint_ok {segs : List (PSeg K)} (h : AllWF segs) {p : Pt K} (hc : currentPoint segs = some p) :
    ∃ q, smoothPoint segs = .ok (some q) := by
  unfold smoothPoint
  unfold currentPoint at hc
  cases hl : segs.getLast? with
  | none => simp [hl] at hc
  | some last =>
    simp only [hl] at hc ⊢
    have hmem : last ∈ segs := by
      obtain ⟨ys, rfl⟩ := List.getLast?_eq_some_iff.mp hl
      simp
    have hw := h last hmem
    cases last with
    | quad r sm a c e =>
      cases c with
      | none => simp [WF] at hw; simp [PSeg.end?, hw] at hc
      | some c => simp [currentPoint, hl, hc, pure, Except.pure]
    | cubic r sm a c1 c2 e =>
      cases c2 with
      | none => simp [WF] at hw; simp [PSeg.end?, hw] at hc
      | some c => simp [currentPoint, hl, hc, pure, Except.pure]
    | move r a e => simp [currentPoint, hl, hc, pure, Except.pure]
    | line r a e => simp [currentPoint, hl, hc, pure, Except.pure]
    | close r a e => simp [currentPoint, hl, hc, pure, Except.pure]
    | arc r a rx ry rot fa fs e => simp [currentPoint, hl, hc, pure, Except.pure]

omit [Add K] [Sub K] in
theorem cbMove_good (rel : Bool) (segs : List (PSeg K)) (p : Coord K) : Good segs (cbMove rel segs p) :=
  .inr ⟨_, rfl, trivial⟩

omit [Add K] [Sub K] in
theorem cbLine_good (rel : Bool) (segs : List (PSeg K)) (p : Coord K) : Good segs (cbLine rel segs p) :=
  .inr ⟨_, rfl, trivial⟩

omit [Add K] [Sub K] in
theorem cbClosed_good (rel : Bool) (segs : List (PSeg K)) : Good segs (cbClosed rel segs) :=
  .inr ⟨_, rfl, trivial⟩

omit [Sub K] in
theorem cbVertical_good (rel : Bool) (segs : List (PSeg K)) (y : K) : Good segs (cbVertical rel segs y) := by
  unfold cbVertical
  cases currentPoint segs with
  | none => exact .inl rfl
  | some s => cases rel <;> exact .inr ⟨_, rfl, trivial⟩

omit [Sub K] in
theorem cbHorizontal_good (rel : Bool) (segs : List (PSeg K)) (x : K) : Good segs (cbHorizontal rel segs x) := by
  unfold cbHorizontal
  cases currentPoint segs with
  | none => exact .inl rfl
  | some s => cases rel <;> exact .inr ⟨_, rfl, trivial⟩

theorem cbSmoothQuad_good (rel : Bool) {segs : List (PSeg K)} (h : AllWF segs) (e : Coord K) :
    Good segs (cbSmoothQuad rel segs e) := by
  unfold cbSmoothQuad
  cases hc : currentPoint segs with
  | none => left; simp [throw, throwThe, MonadExceptOf.throw, bind, Except.bind]
  | some p =>
    obtain ⟨q, hq⟩ := smoothPoint_ok h hc
    right
    refine ⟨_, by simp [hq, bind, Except.bind, pure, Except.pure, pathAppend]; rfl, ?_⟩
    simp only [WF]
    split <;> simp

omit [Add K] [Sub K] in
theorem cbQuad_good (rel : Bool) (segs : List (PSeg K)) (c e : Coord K) : Good segs (cbQuad rel segs c e) := by
  unfold cbQuad
  cases c with
  | z => exact .inr ⟨_, rfl, fun h => h⟩
  | pt p => exact .inr ⟨_, rfl, by simp [WF]⟩

theorem cbSmoothCubic_good (rel : Bool) {segs : List (PSeg K)} (h : AllWF segs) (c2 e : Coord K) :
    Good segs (cbSmoothCubic rel segs c2 e) := by
  unfold cbSmoothCubic
  cases hc : currentPoint segs with
  | none => left; simp [throw, throwThe, MonadExceptOf.throw, bind, Except.bind]
  | some p =>
    obtain ⟨q, hq⟩ := smoothPoint_ok h hc
    right
    cases c2 with
    | z => exact ⟨.cubic rel true (some p) (if lastIsQuad segs then some p else some q) (zPoint segs) (zPoint segs),
        by simp [hq, bind, Except.bind, pure, Except.pure, pathAppend], fun h => h⟩
    | pt c => exact ⟨.cubic rel true (some p) (if lastIsQuad segs then some p else some q) (some c) (resolve segs e),
        by simp [hq, bind, Except.bind, pure, Except.pure, pathAppend], by simp [WF]⟩

omit [Add K] [Sub K] in
theorem cbCubic_good (rel : Bool) (segs : List (PSeg K)) (c1 c2 e : Coord K) : Good segs (cbCubic rel segs c1 c2 e) := by
  unfold cbCubic
  cases c1 with
  | z => exact .inr ⟨_, rfl, fun h => h⟩
  | pt p1 =>
    cases c2 with
    | z => exact .inr ⟨_, rfl, fun h => h⟩
    | pt p2 => exact .inr ⟨_, rfl, by simp [WF]⟩

variable [Neg K] [Zero K] [LT K] [DecidableLT K]

omit [Add K] [Sub K] in
/-- with all numeric arguments and both flags present, `arc` only raises ValueError -/
theorem cbArc_good (rel : Bool) (segs : List (PSeg K)) (rx ry rot : K) (fa fs : Bool) (e : Coord K) :
    Good segs (cbArc rel segs (some rx) (some ry) (some rot) (some fa) (some fs) e) := by
  unfold cbArc
  simp only
  cases currentPoint segs with
  | none => exact .inl rfl
  | some s =>
    cases resolve segs e with
    | none => exact .inl rfl
    | some en => exact .inr ⟨_, rfl, trivial⟩

/-! ### the loops of the dispatcher -/

/-- what every loop guarantees: retained segments well-formed, only ValueError (in particular never
    the `recursion` marker: the loop consumed input on every iteration), input never lengthened -/
structure LoopOK (st : LexSt) (r : PR K) : Prop where
  wf : AllWF r.segs
  err : r.err = none ∨ r.err = some .valueError
  le : r.st.rest.length ≤ st.rest.length

omit [Add K] [Sub K] [Neg K] [Zero K] [LT K] [DecidableLT K] in
theorem good_error {segs : List (PSeg K)} {r : Py (List (PSeg K))} (hg : Good segs r) {e : PyErr} (h : r = .error e) :
    e = .valueError := by
  rcases hg with hg | ⟨s, hg, _⟩
  · rw [hg] at h; cases h; rfl
  · rw [hg] at h; cases h

omit [Add K] [Sub K] [Neg K] [Zero K] [LT K] [DecidableLT K] in
theorem good_ok {segs segs' : List (PSeg K)} {r : Py (List (PSeg K))} (hg : Good segs r) (hw : AllWF segs) (h : r = .ok segs') :
    AllWF segs' := by
  rcases hg with hg | ⟨s, hg, hs⟩
  · rw [hg] at h; cases h
  · rw [hg] at h; cases h; exact AllWF_snoc hw hs

theorem more_eq {st st1 : LexSt} {b : Bool} (h : lexMore st = (b, st1)) : st1.rest = skipCommaWsp st.rest := by
  have := more_rest st; rw [h] at this; exact this

theorem more_eq_le {st st1 : LexSt} {b : Bool} (h : lexMore st = (b, st1)) : st1.rest.length ≤ st.rest.length := by
  rw [more_eq h]; exact skip_length_le _

theorem more_eq_true {st st1 : LexSt} (h : lexMore st = (true, st1)) : ¬ NF st1.rest := by
  rw [more_eq h, NF_skip]; exact more_true st (by rw [h])

omit [Sub K] [Neg K] [Zero K] [LT K] [DecidableLT K] in
theorem numberLoop_ok (num : NumLit → Option K) (cb : List (PSeg K) → K → Py (List (PSeg K)))
    (hcb : ∀ segs v, Good segs (cb segs v)) (segs : List (PSeg K)) (st : LexSt) (h : AllWF segs) :
    LoopOK st (numberLoop num cb segs st) := by
  fun_induction numberLoop num cb segs st
  case case1 =>
    rename_i segs st e st1 hx
    have A := lexNum_ok num st; rw [hx] at A
    exact ⟨h, .inr (by rw [A.err e rfl]), A.le⟩
  case case2 =>
    rename_i segs st st1 hx
    have A := lexNum_ok num st; rw [hx] at A
    exact ⟨h, .inr rfl, A.le⟩
  case case3 =>
    rename_i segs st v st1 hx e hc
    have A := lexNum_ok num st; rw [hx] at A
    exact ⟨h, .inr (by rw [good_error (hcb segs v) hc]), A.le⟩
  case case4 =>
    rename_i segs st v st1 hx segs' hc st2 hm
    have A := lexNum_ok num st; rw [hx] at A
    have := more_eq_le hm
    exact ⟨good_ok (hcb segs v) h hc, .inl rfl, by have := A.le; simp only at *; omega⟩
  case case5 =>
    rename_i segs st v st1 hx segs' hc st2 hm hlt ih
    have R := ih (good_ok (hcb segs v) h hc)
    exact ⟨R.wf, R.err, by have := R.le; omega⟩
  case case6 =>
    rename_i segs st v st1 hx segs' hc st2 hm hnlt
    exfalso
    have A := lexNum_ok num st; rw [hx] at A
    have := A.some_lt v rfl
    have := more_eq_le hm
    simp only at *; omega

omit [Sub K] [Neg K] [Zero K] [LT K] [DecidableLT K] in
theorem vLoop_ok (num : NumLit → Option K) (cb : List (PSeg K) → K → Py (List (PSeg K)))
    (hcb : ∀ segs v, Good segs (cb segs v)) (segs : List (PSeg K)) (st : LexSt) (h : AllWF segs) :
    LoopOK st (vLoop num cb segs st) := by
  fun_induction vLoop num cb segs st
  case case1 =>
    rename_i segs st st1 hm
    exact ⟨h, .inl rfl, more_eq_le hm⟩
  case case2 =>
    rename_i segs st st1 hm e st2 hx
    have A := lexNum_ok num st1; rw [hx] at A
    exact ⟨h, .inr (by rw [A.err e rfl]), by have := A.le; have := more_eq_le hm; simp only at *; omega⟩
  case case3 =>
    rename_i segs st st1 hm st2 hx
    exfalso
    have A := lexNum_ok num st1; rw [hx] at A
    exact more_eq_true hm (A.none_nf rfl).2
  case case4 =>
    rename_i segs st st1 hm v st2 hx e hc
    have A := lexNum_ok num st1; rw [hx] at A
    exact ⟨h, .inr (by rw [good_error (hcb segs v) hc]), by have := A.le; have := more_eq_le hm; simp only at *; omega⟩
  case case5 =>
    rename_i segs st st1 hm v st2 hx segs' hc hlt ih
    have R := ih (good_ok (hcb segs v) h hc)
    exact ⟨R.wf, R.err, by have := R.le; omega⟩
  case case6 =>
    rename_i segs st st1 hm v st2 hx segs' hc hnlt
    exfalso
    have A := lexNum_ok num st1; rw [hx] at A
    have := A.some_lt v rfl
    have := more_eq_le hm
    simp only at *; omega

omit [Sub K] [Neg K] [Zero K] [LT K] [DecidableLT K] in
theorem moveTail_ok (num : NumLit → Option K) (rel : Bool) (segs : List (PSeg K)) (st : LexSt) (h : AllWF segs) :
    LoopOK st (moveTail num rel segs st) := by
  fun_induction moveTail num rel segs st
  case case1 =>
    rename_i segs st st1 hm
    exact ⟨h, .inl rfl, more_eq_le hm⟩
  case case2 =>
    rename_i segs st st1 hm e st2 hx
    have A := coordReader_ok num rel (currentPoint segs) st1
    cases rel <;> simp only [Bool.false_eq_true, if_false, if_true, dite_false, dite_true] at hx A <;> rw [hx] at A <;>
      exact ⟨h, .inr (by rw [A.err e rfl]), by have := A.le; have := more_eq_le hm; simp only at *; omega⟩
  case case3 =>
    rename_i segs st st1 hm st2 hx
    exfalso
    have A := coordReader_ok num rel (currentPoint segs) st1
    cases rel <;> simp only [Bool.false_eq_true, if_false, if_true, dite_false, dite_true] at hx A <;> rw [hx] at A <;>
      exact more_eq_true hm (A.none_nf rfl).2
  case case4 =>
    rename_i segs st st1 hm p st2 hx e hc
    have A := coordReader_ok num rel (currentPoint segs) st1
    have he := good_error (cbLine_good rel segs (.pt p)) hc
    cases rel <;> simp only [Bool.false_eq_true, if_false, if_true, dite_false, dite_true] at hx A <;> rw [hx] at A <;>
      exact ⟨h, .inr (by rw [he]), by have := A.le; have := more_eq_le hm; simp only at *; omega⟩
  case case5 =>
    rename_i segs st st1 hm p st2 hx segs' hc hlt ih
    have R := ih (good_ok (cbLine_good rel segs (.pt p)) h hc)
    exact ⟨R.wf, R.err, by have := R.le; omega⟩
  case case6 =>
    rename_i segs st st1 hm p st2 hx segs' hc hnlt
    exfalso
    have A := coordReader_ok num rel (currentPoint segs) st1
    have := more_eq_le hm
    cases rel <;> simp only [Bool.false_eq_true, if_false, if_true, dite_false, dite_true] at hx A <;> rw [hx] at A <;>
      (have := A.some_lt p rfl; simp only at *; omega)

omit [Sub K] [Neg K] [Zero K] [LT K] [DecidableLT K] in
theorem coordLoop_ok (num : NumLit → Option K) (n : Nat) (hn : 0 < n) (rel : Bool)
    (cb : List (PSeg K) → List (Coord K) → Py (List (PSeg K)))
    (hcb : ∀ segs args, args.length = n → AllWF segs → Good segs (cb segs args))
    (segs : List (PSeg K)) (st : LexSt) (h : AllWF segs) :
    LoopOK st (coordLoop num n rel cb segs st) := by
  fun_induction coordLoop num n rel cb segs st
  case case1 =>
    rename_i segs st e st1 hx
    have ⟨A1, A2, A3, A4⟩ := readCoords_ok num rel (currentPoint segs) n st
    rw [hx] at A1 A2 A3 A4
    exact ⟨h, .inr (by rw [A2 e rfl]), A1⟩
  case case2 =>
    rename_i segs st cs st1 hx e hf
    have ⟨A1, A2, A3, A4⟩ := readCoords_ok num rel (currentPoint segs) n st
    rw [hx] at A1 A2 A3 A4
    exact ⟨h, .inr (by rw [(fillCoords_ok st1.ic cs).1 e hf]), A1⟩
  case case3 =>
    rename_i segs st cs st1 hx args hf e hc
    have ⟨A1, A2, A3, A4⟩ := readCoords_ok num rel (currentPoint segs) n st
    rw [hx] at A1 A2 A3 A4
    have hlen : args.length = n := by rw [(fillCoords_ok st1.ic cs).2 args hf]; exact (A3 cs rfl).1
    exact ⟨h, .inr (by rw [good_error (hcb segs args hlen h) hc]), A1⟩
  case case4 =>
    rename_i segs st cs st1 hx args hf segs' hc st2 hm
    have ⟨A1, A2, A3, A4⟩ := readCoords_ok num rel (currentPoint segs) n st
    rw [hx] at A1 A2 A3 A4
    have hlen : args.length = n := by rw [(fillCoords_ok st1.ic cs).2 args hf]; exact (A3 cs rfl).1
    exact ⟨good_ok (hcb segs args hlen h) h hc, .inl rfl, by have := more_eq_le hm; simp only at *; omega⟩
  case case5 =>
    rename_i segs st cs st1 hx args hf segs' hc st2 hm hlt ih
    have ⟨A1, A2, A3, A4⟩ := readCoords_ok num rel (currentPoint segs) n st
    rw [hx] at A1 A2 A3 A4
    have hlen : args.length = n := by rw [(fillCoords_ok st1.ic cs).2 args hf]; exact (A3 cs rfl).1
    have R := ih (good_ok (hcb segs args hlen h) h hc)
    exact ⟨R.wf, R.err, by have := R.le; omega⟩
  case case6 =>
    rename_i segs st cs st1 hx args hf segs' hc st2 hm hnlt
    exfalso
    have ⟨A1, A2, A3, A4⟩ := readCoords_ok num rel (currentPoint segs) n st
    rw [hx] at A1 A2 A3 A4
    rcases (A3 cs rfl).2 hn with hlt | hnf
    · have := more_eq_le hm; simp only at *; omega
    · have := more_of_NF st1 hnf; rw [hm] at this; exact Bool.noConfusion this

omit [Add K] [Sub K] [Neg K] [Zero K] [LT K] [DecidableLT K] in
/-- a missing number is followed by missing numbers -/
theorem num_none_chain (num : NumLit → Option K) {st st' : LexSt} {r : Option K} (hnf : NF st.rest)
    (h : lexNum num st = (.ok r, st')) : r = none ∧ NF st'.rest := by
  have A := lexNum_ok num st
  have h0 := A.nf hnf
  rw [h] at A h0
  simp only at h0
  cases h0
  exact ⟨rfl, (A.none_nf rfl).1⟩

omit [Add K] [Sub K] [Neg K] [Zero K] [LT K] [DecidableLT K] in
/-- If the second flag of an arc argument group was read, then so were the three numbers and the
    first flag: a reader that finds nothing leaves the lexer where every later reader finds nothing. -/
theorem arc_args_some (num : NumLit → Option K) {st0 st1 st2 st3 st4 st5 : LexSt} {rx ry rot : Option K} {fa fs : Option Bool}
    (h1 : lexNum num st0 = (.ok rx, st1)) (h2 : lexNum num st1 = (.ok ry, st2)) (h3 : lexNum num st2 = (.ok rot, st3))
    (h4 : lexFlag st3 = (fa, st4)) (h5 : lexFlag st4 = (fs, st5)) (hfs : fs.isSome) :
    rx.isSome ∧ ry.isSome ∧ rot.isSome ∧ fa.isSome := by
  have flagNF : NF st3.rest → False := by
    intro hnf
    have ⟨f1, f2⟩ := flag_of_NF st3 hnf
    rw [h4] at f1 f2
    have ⟨g1, _⟩ := flag_of_NF st4 f2
    rw [h5] at g1
    simp only at g1
    rw [g1] at hfs; exact Bool.noConfusion hfs
  have A1 := lexNum_ok num st0; rw [h1] at A1
  have A2 := lexNum_ok num st1; rw [h2] at A2
  have A3 := lexNum_ok num st2; rw [h3] at A3
  refine ⟨?_, ?_, ?_, ?_⟩
  · cases rx with
    | some _ => rfl
    | none =>
      exfalso
      have n1 := (A1.none_nf rfl).1
      have ⟨_, n2⟩ := num_none_chain num n1 h2
      have ⟨_, n3⟩ := num_none_chain num n2 h3
      exact flagNF n3
  · cases ry with
    | some _ => rfl
    | none =>
      exfalso
      have n2 := (A2.none_nf rfl).1
      have ⟨_, n3⟩ := num_none_chain num n2 h3
      exact flagNF n3
  · cases rot with
    | some _ => rfl
    | none => exact (flagNF (A3.none_nf rfl).1).elim
  · cases fa with
    | some _ => rfl
    | none =>
      exfalso
      have := flag_none_persist st3 (by rw [h4])
      rw [h4] at this
      simp only at this
      rw [h5] at this
      simp only at this
      rw [this] at hfs; exact Bool.noConfusion hfs

omit [Add K] [Sub K] [Neg K] [Zero K] [LT K] [DecidableLT K] in
theorem orInline_error {ic : Option Char} {c : Option (Pt K)} {e : PyErr} (h : orInline ic c = .error e) : e = .valueError := by
  unfold orInline at h
  cases c with
  | some p => cases h
  | none => cases ic with
    | some _ => cases h
    | none => cases h; rfl

omit [Add K] [Sub K] [Neg K] [Zero K] [LT K] [DecidableLT K] in
/-- an arc argument group that `_more()` announced consumes input before its coordinate pair is read -/
theorem arc_prelude (num : NumLit → Option K) {st st0 st1 st2 st3 st4 st5 : LexSt} {rx ry rot : Option K} {fa fs : Option Bool}
    (hm : lexMore st = (true, st0))
    (h1 : lexNum num st0 = (.ok rx, st1)) (h2 : lexNum num st1 = (.ok ry, st2)) (h3 : lexNum num st2 = (.ok rot, st3))
    (h4 : lexFlag st3 = (fa, st4)) (h5 : lexFlag st4 = (fs, st5)) : st5.rest.length < st.rest.length := by
  have A1 := lexNum_ok num st0; rw [h1] at A1
  have A2 := lexNum_ok num st1; rw [h2] at A2
  have A3 := lexNum_ok num st2; rw [h3] at A3
  have F4 := flag_le st3; rw [h4] at F4
  have F5 := flag_le st4; rw [h5] at F5
  have hm' := more_eq_le hm
  have hlt0 : st1.rest.length < st0.rest.length := by
    cases rx with
    | some v => exact A1.some_lt v rfl
    | none => exact absurd (A1.none_nf rfl).2 (more_eq_true hm)
  have L1 := A2.le
  have L2 := A3.le
  simp only at L1 L2 F4 F5 hlt0
  omega

omit [Sub K] in
theorem arcLoop_ok (num : NumLit → Option K) (rel : Bool) (segs : List (PSeg K)) (st : LexSt) (h : AllWF segs) :
    LoopOK st (arcLoop num rel true segs st) := by
  fun_induction arcLoop num rel true segs st
  case case1 =>
    rename_i segs st st1 hm
    exact ⟨h, .inl rfl, more_eq_le hm⟩
  case case2 =>
    rename_i segs st st0 hm e st1 h1
    have A := lexNum_ok num st0; rw [h1] at A
    exact ⟨h, .inr (by rw [A.err e rfl]), by have := A.le; have := more_eq_le hm; simp only at *; omega⟩
  case case3 =>
    rename_i segs st st0 hm rx st1 h1 e st2 h2
    have A1 := lexNum_ok num st0; rw [h1] at A1
    have A := lexNum_ok num st1; rw [h2] at A
    exact ⟨h, .inr (by rw [A.err e rfl]), by have := A.le; have := A1.le; have := more_eq_le hm; simp only at *; omega⟩
  case case4 =>
    rename_i segs st st0 hm rx st1 h1 ry st2 h2 e st3 h3
    have A1 := lexNum_ok num st0; rw [h1] at A1
    have A2 := lexNum_ok num st1; rw [h2] at A2
    have A := lexNum_ok num st2; rw [h3] at A
    exact ⟨h, .inr (by rw [A.err e rfl]),
      by have := A.le; have := A1.le; have := A2.le; have := more_eq_le hm; simp only at *; omega⟩
  case case5 =>
    rename_i segs st st0 hm rx st1 h1 ry st2 h2 rot st3 h3 fa st4 h4 fs st5 h5 e st6 hx
    have P := arc_prelude num hm h1 h2 h3 h4 h5
    have A := coordReader_ok num rel (currentPoint segs) st5
    cases rel <;> simp only [Bool.false_eq_true, if_false, if_true, dite_false, dite_true] at hx A <;> rw [hx] at A <;>
      exact ⟨h, .inr (by rw [A.err e rfl]), by have := A.le; simp only at *; omega⟩
  case case6 =>
    rename_i segs st st0 hm rx st1 h1 ry st2 h2 rot st3 h3 fa st4 h4 fs st5 h5 c st6 hx hchk
    have P := arc_prelude num hm h1 h2 h3 h4 h5
    have A := coordReader_ok num rel (currentPoint segs) st5
    cases rel <;> simp only [Bool.false_eq_true, if_false, if_true, dite_false, dite_true] at hx A <;> rw [hx] at A <;>
      exact ⟨h, .inr rfl, by have := A.le; simp only at *; omega⟩
  case case7 =>
    rename_i segs st st0 hm rx st1 h1 ry st2 h2 rot st3 h3 fa st4 h4 fs st5 h5 c st6 hx hchk e hi
    have P := arc_prelude num hm h1 h2 h3 h4 h5
    have A := coordReader_ok num rel (currentPoint segs) st5
    have he := orInline_error hi
    cases rel <;> simp only [Bool.false_eq_true, if_false, if_true, dite_false, dite_true] at hx A <;> rw [hx] at A <;>
      exact ⟨h, .inr (by rw [he]), by have := A.le; simp only at *; omega⟩
  case case8 =>
    rename_i segs st st0 hm rx st1 h1 ry st2 h2 rot st3 h3 fa st4 h4 fs st5 h5 c st6 hx hchk e hi er hc
    have P := arc_prelude num hm h1 h2 h3 h4 h5
    have A := coordReader_ok num rel (currentPoint segs) st5
    have hfs : fs.isSome = true := by
      cases fs with
      | some _ => rfl
      | none => simp at hchk
    obtain ⟨s1, s2, s3, s4⟩ := arc_args_some num h1 h2 h3 h4 h5 hfs
    obtain ⟨rx, rfl⟩ := Option.isSome_iff_exists.mp s1
    obtain ⟨ry, rfl⟩ := Option.isSome_iff_exists.mp s2
    obtain ⟨rot, rfl⟩ := Option.isSome_iff_exists.mp s3
    obtain ⟨fa, rfl⟩ := Option.isSome_iff_exists.mp s4
    obtain ⟨fs, rfl⟩ := Option.isSome_iff_exists.mp hfs
    have he := good_error (cbArc_good rel segs rx ry rot fa fs e) hc
    cases rel <;> simp only [Bool.false_eq_true, if_false, if_true, dite_false, dite_true] at hx A <;> rw [hx] at A <;>
      exact ⟨h, .inr (by rw [he]), by have := A.le; simp only at *; omega⟩
  case case9 =>
    rename_i segs st st0 hm rx st1 h1 ry st2 h2 rot st3 h3 fa st4 h4 fs st5 h5 c st6 hx hchk e hi segs' hc hlt ih
    have P := arc_prelude num hm h1 h2 h3 h4 h5
    have hfs : fs.isSome = true := by
      cases fs with
      | some _ => rfl
      | none => simp at hchk
    obtain ⟨s1, s2, s3, s4⟩ := arc_args_some num h1 h2 h3 h4 h5 hfs
    obtain ⟨rx, rfl⟩ := Option.isSome_iff_exists.mp s1
    obtain ⟨ry, rfl⟩ := Option.isSome_iff_exists.mp s2
    obtain ⟨rot, rfl⟩ := Option.isSome_iff_exists.mp s3
    obtain ⟨fa, rfl⟩ := Option.isSome_iff_exists.mp s4
    obtain ⟨fs, rfl⟩ := Option.isSome_iff_exists.mp hfs
    have R := ih (good_ok (cbArc_good rel segs rx ry rot fa fs e) h hc)
    exact ⟨R.wf, R.err, by have := R.le; omega⟩
  case case10 =>
    rename_i segs st st0 hm rx st1 h1 ry st2 h2 rot st3 h3 fa st4 h4 fs st5 h5 c st6 hx hchk e hi segs' hc hnlt
    have P := arc_prelude num hm h1 h2 h3 h4 h5
    exfalso
    have A := coordReader_ok num rel (currentPoint segs) st5
    cases rel <;> simp only [Bool.false_eq_true, if_false, if_true, dite_false, dite_true] at hx A <;> rw [hx] at A <;>
      (have := A.le; simp only at *; omega)

omit [Add K] [Sub K] [Neg K] [Zero K] [LT K] [DecidableLT K] in
theorem cb1_good (f : List (PSeg K) → Coord K → Py (List (PSeg K)))
    (hf : ∀ segs a, AllWF segs → Good segs (f segs a)) :
    ∀ segs args, args.length = 1 → AllWF segs → Good segs (cb1 f segs args) := by
  intro segs args hl hw
  match args, hl with
  | [a], _ => exact hf segs a hw

omit [Add K] [Sub K] [Neg K] [Zero K] [LT K] [DecidableLT K] in
theorem cb2_good (f : List (PSeg K) → Coord K → Coord K → Py (List (PSeg K)))
    (hf : ∀ segs a b, AllWF segs → Good segs (f segs a b)) :
    ∀ segs args, args.length = 2 → AllWF segs → Good segs (cb2 f segs args) := by
  intro segs args hl hw
  match args, hl with
  | [a, b], _ => exact hf segs a b hw

omit [Add K] [Sub K] [Neg K] [Zero K] [LT K] [DecidableLT K] in
theorem cb3_good (f : List (PSeg K) → Coord K → Coord K → Coord K → Py (List (PSeg K)))
    (hf : ∀ segs a b c, AllWF segs → Good segs (f segs a b c)) :
    ∀ segs args, args.length = 3 → AllWF segs → Good segs (cb3 f segs args) := by
  intro segs args hl hw
  match args, hl with
  | [a, b, c], _ => exact hf segs a b c hw

/-- one command: whatever the letter, whatever follows it -/
theorem dispatch_ok (num : NumLit → Option K) (cmd : Char) (segs : List (PSeg K)) (st : LexSt) (h : AllWF segs) :
    LoopOK st (dispatch num cmd segs st) := by
  unfold dispatch
  by_cases hc1 : cmd = 'z' ∨ cmd = 'Z'
  · rw [if_pos hc1]
    cases hm : lexMore st with
    | mk b st1 =>
      cases b with
      | true => exact ⟨h, .inr rfl, more_eq_le hm⟩
      | false =>
        dsimp only [cbClosed, pure, Except.pure]
        have hl : st1.rest.length ≤ st.rest.length := more_eq_le hm
        exact ⟨AllWF_snoc h trivial, .inl rfl, hl⟩
  rw [if_neg hc1]
  by_cases hc2 : cmd = 'm' ∨ cmd = 'M'
  · rw [if_pos hc2]
    cases hm : lexMore st with
    | mk b st1 =>
      cases b with
      | false => exact ⟨h, .inr rfl, more_eq_le hm⟩
      | true =>
        simp only
        have A := coordReader_ok num (decide (cmd = 'm')) (currentPoint segs) st1
        cases hx : (if decide (cmd = 'm') = true then lexRCoord num (currentPoint segs) st1 else lexCoord num st1) with
        | mk r st2 =>
          rw [hx] at A
          have hle := A.le
          have := more_eq_le hm
          cases r with
          | error e => exact ⟨h, .inr (by rw [A.err e rfl]), by simp only at *; omega⟩
          | ok o =>
            cases o with
            | none => exact absurd (A.none_nf rfl).2 (more_eq_true hm)
            | some p =>
              dsimp only [cbMove, pure, Except.pure]
              have R := moveTail_ok num (decide (cmd = 'm')) _ st2 (good_ok (cbMove_good (decide (cmd = 'm')) segs (.pt p)) h rfl)
              exact ⟨R.wf, R.err, by have := R.le; simp only at *; omega⟩
  rw [if_neg hc2]
  by_cases hc3 : cmd = 'l' ∨ cmd = 'L'
  · rw [if_pos hc3]
    exact coordLoop_ok num 1 (by omega) _ _ (cb1_good _ (fun s a _ => cbLine_good _ s a)) segs st h
  rw [if_neg hc3]
  by_cases hc4 : cmd = 't' ∨ cmd = 'T'
  · rw [if_pos hc4]
    exact coordLoop_ok num 1 (by omega) _ _ (cb1_good _ (fun s a hw => cbSmoothQuad_good _ hw a)) segs st h
  rw [if_neg hc4]
  by_cases hc5 : cmd = 'h' ∨ cmd = 'H'
  · rw [if_pos hc5]
    exact numberLoop_ok num _ (fun s v => cbHorizontal_good _ s v) segs st h
  rw [if_neg hc5]
  by_cases hc6 : cmd = 'v'
  · rw [if_pos hc6]
    exact numberLoop_ok num _ (fun s v => cbVertical_good _ s v) segs st h
  rw [if_neg hc6]
  by_cases hc7 : cmd = 'V'
  · rw [if_pos hc7]
    cases hm : lexMore st with
    | mk b st1 =>
      cases b with
      | false => exact ⟨h, .inr rfl, more_eq_le hm⟩
      | true => exact vLoop_ok num _ (fun s v => cbVertical_good _ s v) segs st h
  rw [if_neg hc7]
  by_cases hc8 : cmd = 'c' ∨ cmd = 'C'
  · rw [if_pos hc8]
    exact coordLoop_ok num 3 (by omega) _ _ (cb3_good _ (fun s a b c _ => cbCubic_good _ s a b c)) segs st h
  rw [if_neg hc8]
  by_cases hc9 : cmd = 'q' ∨ cmd = 'Q'
  · rw [if_pos hc9]
    exact coordLoop_ok num 2 (by omega) _ _ (cb2_good _ (fun s a b _ => cbQuad_good _ s a b)) segs st h
  rw [if_neg hc9]
  by_cases hc10 : cmd = 's' ∨ cmd = 'S'
  · rw [if_pos hc10]
    exact coordLoop_ok num 2 (by omega) _ _ (cb2_good _ (fun s a b hw => cbSmoothCubic_good _ hw a b)) segs st h
  rw [if_neg hc10]
  by_cases hc11 : cmd = 'a'
  · rw [if_pos hc11]
    exact arcLoop_ok num true segs st h
  rw [if_neg hc11]
  by_cases hc12 : cmd = 'A'
  · rw [if_pos hc12]
    exact arcLoop_ok num false segs st h
  rw [if_neg hc12]
  exact ⟨h, .inl rfl, Nat.le_refl _⟩


omit [Add K] [Sub K] [Neg K] [Zero K] [LT K] [DecidableLT K] in
theorem scanCommand_lt {s : List Char} {c : Char} {r : List Char} (h : scanCommand s = some (c, r)) : r.length < s.length := by
  unfold scanCommand at h
  have := skip_length_le s
  split at h
  · cases h
  · rename_i c' rest hs
    rw [hs] at this
    split at h
    · cases h; simp at this; omega
    · cases h

/-- the command loop: every `while` of `SVGLexicalParser.parse` consumes input, nothing but
    ValueError escapes, and the path built so far stays well-formed -/
theorem parseLoop_ok (num : NumLit → Option K) (segs : List (PSeg K)) (st : LexSt) (h : AllWF segs) :
    LoopOK st (parseLoop num segs st) := by
  fun_induction parseLoop num segs st
  case case1 => exact ⟨h, .inl rfl, Nat.le_refl _⟩
  case case2 =>
    rename_i segs st cmd rest hc r e he
    have R : LoopOK { st with rest := rest } r := dispatch_ok num cmd segs { st with rest := rest } h
    have := scanCommand_lt hc
    refine ⟨R.wf, ?_, by have := R.le; simp only at *; omega⟩
    rcases R.err with h0 | h0
    · rw [h0] at he; cases he
    · rw [h0] at he; cases he; exact .inr rfl
  case case3 =>
    rename_i segs st cmd rest hc r he hlt ih
    have R : LoopOK { st with rest := rest } r := dispatch_ok num cmd segs { st with rest := rest } h
    have R2 := ih R.wf
    exact ⟨R2.wf, R2.err, by have := R2.le; omega⟩
  case case4 =>
    rename_i segs st cmd rest hc r he hnlt
    exfalso
    have R : LoopOK { st with rest := rest } r := dispatch_ok num cmd segs { st with rest := rest } h
    have := scanCommand_lt hc
    have := R.le
    simp only at *
    omega

/-! ### the property -/

/-- **C09 (totality).** Parsing any string whatsoever as path data — `Path(s)`, i.e. starting from
    the empty path — either returns or raises ValueError: no TypeError, AttributeError, IndexError,
    KeyError, ZeroDivisionError, and no iteration of any loop without consuming input. -/
theorem C09_total (num : NumLit → Option K) (s : List Char) :
    (parsePath num ([] : List (PSeg K)) s).2 = none ∨ (parsePath num ([] : List (PSeg K)) s).2 = some .valueError :=
  (parseLoop_ok num [] ⟨s, none⟩ (fun _ h => by cases h)).err

/-- The same when the parse continues an existing path (`path.parse(s)`, `path += s`), provided the
    path is well-formed; and the path stays well-formed, so the statement holds for any history of
    appended strings. -/
theorem C09_total_continue (num : NumLit → Option K) (segs0 : List (PSeg K)) (h : AllWF segs0) (s : List Char) :
    ((parsePath num segs0 s).2 = none ∨ (parsePath num segs0 s).2 = some .valueError) ∧ AllWF (parsePath num segs0 s).1 :=
  ⟨(parseLoop_ok num segs0 ⟨s, none⟩ h).err, (parseLoop_ok num segs0 ⟨s, none⟩ h).wf⟩

/-- **C09 (termination).** Every loop of the lexical parser consumes at least one character per
    iteration: the model's `recursion` marker (an iteration that would not shorten the input) is
    unreachable, for every input. -/
theorem C09_terminates (num : NumLit → Option K) (segs0 : List (PSeg K)) (h : AllWF segs0) (s : List Char) :
    (parsePath num segs0 s).2 ≠ some .recursion := by
  rcases (C09_total_continue num segs0 h s).1 with h0 | h0 <;> rw [h0] <;> simp

/-- **C09 (retained curves are usable).** In what is retained — after a return and after a raise
    alike — a curve lacks a control point only if it also lacks its end point, so no later smooth
    command can meet a `None` control (the AttributeError of `'T 1 1 2 2'` cannot recur). -/
theorem C09_retained_wellformed (num : NumLit → Option K) (s : List Char) :
    AllWF (parsePath num ([] : List (PSeg K)) s).1 :=
  (parseLoop_ok num [] ⟨s, none⟩ (fun _ h => by cases h)).wf

end

/-! ### non-vacuity -/

def numI (n : NumLit) : Option Int := some (natOfDigits n.intDigits)

/-- the model *can* raise the wrong exception: without the `sweep is None` test (the state of the
    `A` branch before the fix) the arc loop answers `A 1 z` with TypeError — the totality theorem is
    about a model in which such outcomes are expressible, and rules them out for the current code -/
example : (arcLoop numI false false [PSeg.move false none (some ⟨1, 1⟩)] ⟨" 1 z".toList, none⟩).err = some .typeError := by
  unfold arcLoop
  decide

/-- and with the test it is ValueError -/
example : (arcLoop numI false true [PSeg.move false none (some ⟨1, 1⟩)] ⟨" 1 z".toList, none⟩).err = some .valueError := by
  unfold arcLoop
  decide

end C09
end Svg
