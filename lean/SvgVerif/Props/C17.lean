/-
  Props/C17.lean — Appending path data continues the parse: Path(a) + b equals Path(a b).

  The library's interpreter keeps no state outside the segment list (`current_point`, `z_point`,
  `smooth_point` are recomputed from it, Model/PathBuild.lean), so running a command list is a left
  fold whose accumulator *is* the path. Splitting the list anywhere — into any number of pieces, a
  whole history of `+=` — therefore cannot change the result; and by C01 the result is the SVG 2
  interpretation of the joined list, so relative offsets, closes and smooth controls of a later
  piece resolve against the state the earlier pieces left.
-/
import SvgVerif.Props.C01
namespace Svg
namespace C17

variable {K : Type} [Add K] [Sub K] [Neg K] [Zero K] [LT K] [DecidableLT K]

/-- **C17 (two pieces).** `Path(a) += b`: running `b` on the path built from `a` is running `a b`;
    if `a` raises, so does `a b`, with the same exception. -/
theorem C17_fold_append (segs : List (PSeg K)) (a b : List (Cmd K)) :
    runCmds segs (a ++ b) = (runCmds segs a >>= fun s => runCmds s b) := by
  simp [runCmds, List.foldlM_append]

/-- **C17 (histories).** Any number of pieces appended in sequence — a history of `+=`, `+`,
    `.parse()` — equals one parse of the concatenation. -/
theorem C17_history (pieces : List (List (Cmd K))) : ∀ segs : List (PSeg K),
    pieces.foldlM (fun s p => runCmds s p) segs = runCmds segs pieces.flatten := by
  induction pieces with
  | nil => intro segs; simp [runCmds, pure, Except.pure]
  | cons p ps ih =>
    intro segs
    rw [List.foldlM_cons, List.flatten_cons, C17_fold_append]
    cases h : runCmds segs p with
    | error e => simp [bind, Except.bind]
    | ok s => simp only [bind, Except.bind]; exact ih s

/-- **C17 (against the specification).** For a command list that begins with a moveto, split
    anywhere: continuing the path built from `a` with `b` yields exactly the SVG 2 interpretation of
    `a b` (so `b`'s relative offsets, closes and smooth controls resolve against the state left by `a`). -/
theorem C17_continue_is_spec (a b : List (Cmd K)) (out : List (PSeg K)) (h : interp (a ++ b) = some out) :
    (runCmds [] a >>= fun s => runCmds s b) = .ok out := by
  rw [← C17_fold_append]; exact C01.C01_builder_refines_interp _ _ h

/-- the prefix alone is the prefix of the whole: what `Path(a)` holds is kept unchanged by `+= b` -/
theorem C17_prefix_kept (a b : List (Cmd K)) (sa : List (PSeg K)) (ha : runCmds [] a = .ok sa)
    (out : List (PSeg K)) (h : runCmds [] (a ++ b) = .ok out) : ∃ rest, out = sa ++ rest := by
  rw [C17_fold_append, ha] at h
  simp only [bind, Except.bind] at h
  clear ha
  induction b generalizing sa with
  | nil => simp [runCmds, pure, Except.pure] at h; exact ⟨[], by simp [h]⟩
  | cons c cs ih =>
    simp only [runCmds, List.foldlM_cons, bind, Except.bind] at h
    cases hc : runCmd sa c with
    | error e => simp [hc] at h
    | ok s1 =>
      simp only [hc] at h
      obtain ⟨rest, hr⟩ := ih s1 h
      have : ∃ s, s1 = sa ++ [s] := by
        cases c <;> simp only [runCmd, cbMove, cbLine, cbHorizontal, cbVertical, cbQuad, cbSmoothQuad, cbCubic, cbSmoothCubic,
          cbArc, cbClosed, pathAppend, pure, Except.pure, bind, Except.bind] at hc <;>
          (repeat' split at hc) <;> first | (cases hc; exact ⟨_, rfl⟩) | cases hc | skip
      obtain ⟨s, rfl⟩ := this
      exact ⟨s :: rest, by simp [hr]⟩

/-- non-vacuity: `M0,0 Q10,0 10,10` then `T20,20` then `t5,5` -/
example : ([[.moveTo false ⟨0, 0⟩, .quadTo false ⟨10, 0⟩ ⟨10, 10⟩], [.smoothQuadTo false ⟨20, 20⟩], [.smoothQuadTo true ⟨5, 5⟩]]
      : List (List (Cmd Int))).foldlM (fun s p => runCmds s p) []
    = .ok [.move false none (some ⟨0, 0⟩), .quad false false (some ⟨0, 0⟩) (some ⟨10, 0⟩) (some ⟨10, 10⟩),
           .quad false true (some ⟨10, 10⟩) (some ⟨10, 20⟩) (some ⟨20, 20⟩),
           .quad true true (some ⟨20, 20⟩) (some ⟨30, 20⟩) (some ⟨25, 25⟩)] := by rfl

end C17
end Svg
