/-
  Props/C20.lean — writing a document and parsing it back preserves shapes and paint.
  (The reader is the C03 model; these theorems are about what the writer adds.)
-/
import SvgVerif.Model.Write
import SvgVerif.Props.C04
import SvgVerif.Props.C13
import SvgVerif.Model.DocShape
import Mathlib.Algebra.Order.AbsoluteValue.Basic
import Mathlib.Tactic.Linarith
import Mathlib.Tactic.IntervalCases
namespace Svg.Write
open Svg Svg.Mat Svg.C04

section Exact
variable {K : Type} [Field K] [DecidableEq K]

/-- **Transform round trip.** Whatever the shape's accumulated transform `t` and the root's
    viewBox transform `vt` (non-singular): the matrix the writer emits, `t * vt⁻¹`, read back under
    the re-parsed viewport transform `vt`, is `t` again. -/
theorem C20_transform_roundtrip (t vt : Mat K) (h : det vt ≠ 0) :
    rereadMatrix (writtenMatrix t (some (inverse vt))) (some vt) = t := by
  simp only [rereadMatrix, writtenMatrix]
  rw [C04_mul_assoc, (C04_inverse vt h).2]
  exact (C04_identity_neutral t ⟨0, 0⟩).2.1

/-- **Second generation.** Let `q` be what the number format does to the written matrix (`%f`: six
    decimals), idempotent as every rounding to a fixed grid is. The matrix written for the tree that
    was read back from the first text is the matrix in the first text: from the second generation on
    the written transform is stable. (Exact arithmetic for the products; the float products are
    within the bound below.) -/
theorem C20_second_generation_transform (q : Mat K → Mat K) (hq : ∀ m, q (q m) = q m) (t vt : Mat K)
    (h : det vt ≠ 0) :
    q (writtenMatrix (rereadMatrix (q (writtenMatrix t (some (inverse vt)))) (some vt)) (some (inverse vt))) =
      q (writtenMatrix t (some (inverse vt))) := by
  simp only [rereadMatrix, writtenMatrix]
  rw [C04_mul_assoc, (C04_inverse vt h).1, (C04_identity_neutral _ ⟨0, 0⟩).2.1, hq]

/-- without a viewBox nothing is multiplied in and nothing is needed -/
theorem C20_transform_roundtrip_no_viewbox (t : Mat K) :
    rereadMatrix (writtenMatrix t none) (none : Option (Mat K)) = t := rfl

/-- **Dimensions.** A non-zero dimension is written and read back unchanged; a zero one is omitted
    and comes back as the reader's default — harmless where that default is 0 (x, y, cx, cy, x1…) -/
theorem C20_dim_roundtrip (v dflt : K) (h : v ≠ 0) : readDim dflt (writeDim v) = v := by
  simp [writeDim, readDim, h]

theorem C20_dim_roundtrip_default_zero (v : K) : readDim 0 (writeDim v) = v := by
  by_cases h : v = 0
  · simp [writeDim, readDim, h]
  · simp [writeDim, readDim, h]

/-- … and NOT harmless where the default is 1 (width, height, r, rx, ry): a zero-sized shape,
    which is not rendered, is read back with size 1 (known finding C20-zero-dimension). -/
theorem C20_zero_dim_not_preserved : readDim (1 : K) (writeDim 0) ≠ 0 := by
  simp [writeDim, readDim]

end Exact

section Bound
variable {K : Type} [Field K] [LinearOrder K] [IsStrictOrderedRing K]

/-- **Six-decimal bound.** If every entry of the matrix read back is within `ε` of the entry the
    writer meant (`%f`: ε = 5·10⁻⁷), every point of the shape moves by at most `ε (|x| + |y| + 1)`
    in each coordinate of the written user space. -/
theorem C20_six_decimal_bound (W W' : Mat K) (ε : K) (p : Pt K)
    (ha : |W'.a - W.a| ≤ ε) (hb : |W'.b - W.b| ≤ ε) (hc : |W'.c - W.c| ≤ ε)
    (hd : |W'.d - W.d| ≤ ε) (he : |W'.e - W.e| ≤ ε) (hf : |W'.f - W.f| ≤ ε) :
    |(apply W' p).x - (apply W p).x| ≤ ε * (|p.x| + |p.y| + 1) ∧
    |(apply W' p).y - (apply W p).y| ≤ ε * (|p.x| + |p.y| + 1) := by
  have key : ∀ (da dc de x y : K), |da| ≤ ε → |dc| ≤ ε → |de| ≤ ε →
      |x * da + y * dc + de| ≤ ε * (|x| + |y| + 1) := by
    intro da dc de x y h1 h2 h3
    have hx := abs_nonneg x
    have hy := abs_nonneg y
    calc |x * da + y * dc + de| ≤ |x * da + y * dc| + |de| := abs_add_le _ _
      _ ≤ |x * da| + |y * dc| + |de| := by linarith [abs_add_le (x * da) (y * dc)]
      _ = |x| * |da| + |y| * |dc| + |de| := by rw [abs_mul, abs_mul]
      _ ≤ |x| * ε + |y| * ε + ε := by
          have := mul_le_mul_of_nonneg_left h1 hx
          have := mul_le_mul_of_nonneg_left h2 hy
          linarith
      _ = ε * (|x| + |y| + 1) := by ring
  constructor
  · have : (apply W' p).x - (apply W p).x = p.x * (W'.a - W.a) + p.y * (W'.c - W.c) + (W'.e - W.e) := by
      simp only [apply]; ring
    rw [this]; exact key _ _ _ _ _ ha hc he
  · have : (apply W' p).y - (apply W p).y = p.x * (W'.b - W.b) + p.y * (W'.d - W.d) + (W'.f - W.f) := by
      simp only [apply]; ring
    rw [this]; exact key _ _ _ _ _ hb hd hf

end Bound

/-! ### paint -/
section Paint
open Svg.Color Svg.Doc
set_option linter.unusedSectionVars false

theorem hexChar_ok (d : Nat) (h : d < 16) : isHexDigit (hexChar d) = true ∧ hexDigitVal (hexChar d) = d := by
  interval_cases d <;> decide

theorem matchHex_written (ds : List Nat) (hd : ∀ d ∈ ds, d < 16) (hl : 3 ≤ ds.length ∧ ds.length ≤ 8) :
    matchHex ('#' :: ds.map hexChar) = some ds := by
  unfold matchHex
  have hall : (ds.map hexChar).all isHexDigit = true := by
    simp only [List.all_map, List.all_eq_true, Function.comp]
    intro d hdm; exact (hexChar_ok d (hd d hdm)).1
  have hval : (ds.map hexChar).map hexDigitVal = ds := by
    rw [List.map_map]
    conv => rhs; rw [← List.map_id ds]
    apply List.map_congr_left
    intro d hdm; exact (hexChar_ok d (hd d hdm)).2
  simp only [List.length_map, hall, hl.1, hl.2, and_self, if_true, hval]

theorem digits_opaque (v : Nat) :
    (∀ d ∈ hexDigits (setAlpha v 255), d < 16) ∧ (hexDigits (setAlpha v 255)).length = 6 := by
  have ha : alpha (setAlpha v 255) = 255 := by
    have hc : crimp 255 = 255 := by decide
    simp only [alpha, setAlpha, hc]; omega
  unfold hexDigits
  rw [if_pos ha]
  constructor
  · intro d hd
    simp only [byteDigits, List.cons_append, List.nil_append, List.mem_cons, List.not_mem_nil, or_false] at hd
    omega
  · rfl

variable {K : Type} [Field K] [LinearOrder K] [Trig K] [Color.PyRound K]

/-- the colour text the writer emits is read as the opaque colour -/
theorem parse_written (num : NumLit → K) (tau : K) (v : Nat) (hv : v < 4294967296) :
    Color.parse num tau ('#' :: (hexDigits (setAlpha v 255)).map hexChar) = some (setAlpha v 255) := by
  obtain ⟨hd, hl⟩ := digits_opaque v
  unfold Color.parse
  rw [if_neg (by intro h; cases h)]
  rw [matchHex_written _ hd (by omega)]
  simp only
  rw [C13.C13_hex_roundtrip _ (C13.C13_setter_range v 255 hv).2.2.2]

theorem setAlpha_restore (v : Nat) (n : Int) (hn : crimp n = alpha v) : setAlpha (setAlpha v 255) n = v := by
  have hc : crimp 255 = 255 := by decide
  simp only [setAlpha, alpha, hc] at hn ⊢
  rw [hn]
  omega

/-- what the reader makes of the opacity text it finds, against the alpha it has to restore: no
    text, or text `float()` rejects, leaves the colour opaque; a number `x` sets
    `int(round(x * 255))` clamped to a byte -/
def OpacityOK (cfg : Cfg K) (a : Nat) : Option String → Prop
  | none => a = 255
  | some t =>
    match pyFloat? cfg t with
    | none => a = 255
    | some x => crimp (PyRound.round (x * ((255 : Nat) : K))) = a

/-- **Paint round trip.** An element that carries the colour text the writer emits for the packed
    RGBA value `v` (`str(abs(colour))`), and an opacity text the reader resolves to `v`'s alpha, is
    read back by the shape constructor with exactly the fill/stroke `v`: same red, green, blue and
    alpha. -/
theorem C20_paint_roundtrip (cfg : Cfg K) (tau : K) (d : Dict) (key opKey opKey2 : String) (v : Nat)
    (hv : v < 4294967296)
    (htext : Dict.get d key = (writtenPaint (K := K) (some (some v))).text)
    (hop : OpacityOK cfg (alpha v) (match Dict.get d opKey with | some o => some o | none => Dict.get d opKey2)) :
    paintOf cfg tau d key opKey opKey2 = some (some v) := by
  unfold paintOf
  simp only [writtenPaint] at htext
  rw [htext]
  simp only [String.toList_ofList]
  rw [parse_written cfg.num tau v hv]
  have hfull : alpha v = 255 → setAlpha v 255 = v := by
    intro h; simp only [setAlpha, alpha] at h ⊢
    have hc : crimp 255 = 255 := by decide
    rw [hc]; omega
  have key2 : ∀ ot : Option String, OpacityOK cfg (alpha v) ot →
      (match some (setAlpha v 255), ot with
        | some w, some o =>
          (match pyFloat? cfg o with
           | some x => some (some (setAlpha w (PyRound.round (x * ((255 : Nat) : K)))))
           | none => some (some w))
        | c, _ => some c) = some (some v) := by
    intro ot hot
    cases ot with
    | none => simp only [OpacityOK] at hot; simp only [hfull hot]
    | some t =>
      simp only [OpacityOK] at hot
      cases hf : pyFloat? cfg t with
      | none => simp only [hf] at hot ⊢; rw [hfull hot]
      | some x => simp only [hf] at hot ⊢; rw [setAlpha_restore v _ hot]
  cases h1 : Dict.get d opKey with
  | some o => rw [h1] at hop; exact key2 (some o) hop
  | none =>
    rw [h1] at hop
    have := key2 (Dict.get d opKey2) hop
    cases h2 : Dict.get d opKey2 with
    | none => rw [h2] at this; simpa using this
    | some o =>
      rw [h2] at this
      cases hf : pyFloat? cfg o with
      | none => simp only [hf] at this ⊢; exact this
      | some x => simp only [hf] at this ⊢; exact this

/-- … hence what is written for the paint read back is what was written before -/
theorem C20_second_generation_paint (cfg : Cfg K) (tau : K) (d : Dict) (key opKey opKey2 : String) (v : Nat)
    (hv : v < 4294967296)
    (htext : Dict.get d key = (writtenPaint (K := K) (some (some v))).text)
    (hop : OpacityOK cfg (alpha v) (match Dict.get d opKey with | some o => some o | none => Dict.get d opKey2)) :
    (writtenPaint (paintOf cfg tau d key opKey opKey2) : PaintOut K) = writtenPaint (some (some v)) := by
  rw [C20_paint_roundtrip cfg tau d key opKey opKey2 v hv htext hop]

/-- the opacity number the writer emits for a translucent colour, `alpha / 255`, restores that
    alpha (exact arithmetic; `round` fixes the integers) -/
theorem C20_written_opacity_restores (v : Nat) (h255 : ((255 : Nat) : K) ≠ 0)
    (hround : ∀ n : Nat, PyRound.round ((n : Nat) : K) = (n : Int)) (x : K)
    (hx : (writtenPaint (K := K) (some (some v))).opacity = some x) :
    crimp (PyRound.round (x * ((255 : Nat) : K))) = alpha v := by
  simp only [writtenPaint] at hx
  split at hx
  · cases hx
  · injection hx with hx
    subst hx
    rw [div_mul_cancel₀ _ h255, hround]
    apply C13.crimp_of_byte
    simp only [alpha]; omega

/-- and an opaque colour is written without an opacity attribute -/
theorem C20_opaque_writes_no_opacity (v : Nat) (h : alpha v = 255) :
    (writtenPaint (K := K) (some (some v))).opacity = none := by
  simp only [writtenPaint, h, if_true]

/-- a colour without value is written as `none` and read back as no paint; a paint that is not set
    is not written and not read -/
theorem C20_paint_none (cfg : Cfg K) (tau : K) (d : Dict) (key opKey opKey2 : String)
    (htext : Dict.get d key = (writtenPaint (K := K) (some none)).text) :
    paintOf cfg tau d key opKey opKey2 = some none := by
  unfold paintOf
  simp only [writtenPaint] at htext
  rw [htext]
  have : Color.parse cfg.num tau "none".toList = none := by
    unfold Color.parse; rw [if_pos rfl]
  simp only [this]

theorem C20_paint_unset (cfg : Cfg K) (tau : K) (d : Dict) (key opKey opKey2 : String)
    (htext : Dict.get d key = (writtenPaint (K := K) none).text) :
    paintOf cfg tau d key opKey opKey2 = none := by
  unfold paintOf
  simp only [writtenPaint] at htext
  rw [htext]

/-- non-vacuity: a translucent colour, its written digits, and the alpha restored from 128 -/
example : hexDigits (setAlpha 0x11223380 255) = [1, 1, 2, 2, 3, 3] ∧
    setAlpha (setAlpha 0x11223380 255) 128 = 0x11223380 ∧ crimp 128 = alpha 0x11223380 := by decide

end Paint
end Svg.Write
