/-
  Props/C20.lean — writing a document and parsing it back preserves shapes and paint.
  (The reader is the C03 model; these theorems are about what the writer adds.)
-/
import SvgVerif.Model.Write
import SvgVerif.Props.C04
import Mathlib.Algebra.Order.AbsoluteValue.Basic
import Mathlib.Tactic.Linarith
namespace Svg.Write
open Svg Svg.Mat Svg.C04

section Exact
variable {K : Type} [Field K] [DecidableEq K]

/-- **Transform round trip.** Whatever the shape's accumulated transform `t` and the root's
    viewBox transform `vt` (non-singular): the matrix the writer emits, `t * vt⁻¹`, read back under
    the re-parsed viewport transform `vt`, is `t` again. -/
theorem C20_transform_roundtrip (t vt : Mat K) (h : det vt ≠ 0) :
    rereadMatrix (writtenMatrix t (some (inverse vt))) (some vt) = t := by
  simp only [rereadMatrix, writtenMatrix]
  rw [C04_mul_assoc, (C04_inverse vt h).2]
  exact (C04_identity_neutral t ⟨0, 0⟩).2.1

/-- without a viewBox nothing is multiplied in and nothing is needed -/
theorem C20_transform_roundtrip_no_viewbox (t : Mat K) :
    rereadMatrix (writtenMatrix t none) (none : Option (Mat K)) = t := rfl

/-- **Dimensions.** A non-zero dimension is written and read back unchanged; a zero one is omitted
    and comes back as the reader's default — harmless where that default is 0 (x, y, cx, cy, x1…) -/
theorem C20_dim_roundtrip (v dflt : K) (h : v ≠ 0) : readDim dflt (writeDim v) = v := by
  simp [writeDim, readDim, h]

theorem C20_dim_roundtrip_default_zero (v : K) : readDim 0 (writeDim v) = v := by
  by_cases h : v = 0
  · simp [writeDim, readDim, h]
  · simp [writeDim, readDim, h]

/-- … and NOT harmless where the default is 1 (width, height, r, rx, ry): a zero-sized shape,
    which is not rendered, is read back with size 1 (known finding C20-zero-dimension). -/
theorem C20_zero_dim_not_preserved : readDim (1 : K) (writeDim 0) ≠ 0 := by
  simp [writeDim, readDim]

end Exact

section Bound
variable {K : Type} [Field K] [LinearOrder K] [IsStrictOrderedRing K]

/-- **Six-decimal bound.** If every entry of the matrix read back is within `ε` of the entry the
    writer meant (`%f`: ε = 5·10⁻⁷), every point of the shape moves by at most `ε (|x| + |y| + 1)`
    in each coordinate of the written user space. -/
theorem C20_six_decimal_bound (W W' : Mat K) (ε : K) (p : Pt K)
    (ha : |W'.a - W.a| ≤ ε) (hb : |W'.b - W.b| ≤ ε) (hc : |W'.c - W.c| ≤ ε)
    (hd : |W'.d - W.d| ≤ ε) (he : |W'.e - W.e| ≤ ε) (hf : |W'.f - W.f| ≤ ε) :
    |(apply W' p).x - (apply W p).x| ≤ ε * (|p.x| + |p.y| + 1) ∧
    |(apply W' p).y - (apply W p).y| ≤ ε * (|p.x| + |p.y| + 1) := by
  have key : ∀ (da dc de x y : K), |da| ≤ ε → |dc| ≤ ε → |de| ≤ ε →
      |x * da + y * dc + de| ≤ ε * (|x| + |y| + 1) := by
    intro da dc de x y h1 h2 h3
    have hx := abs_nonneg x
    have hy := abs_nonneg y
    calc |x * da + y * dc + de| ≤ |x * da + y * dc| + |de| := abs_add_le _ _
      _ ≤ |x * da| + |y * dc| + |de| := by linarith [abs_add_le (x * da) (y * dc)]
      _ = |x| * |da| + |y| * |dc| + |de| := by rw [abs_mul, abs_mul]
      _ ≤ |x| * ε + |y| * ε + ε := by
          have := mul_le_mul_of_nonneg_left h1 hx
          have := mul_le_mul_of_nonneg_left h2 hy
          linarith
      _ = ε * (|x| + |y| + 1) := by ring
  constructor
  · have : (apply W' p).x - (apply W p).x = p.x * (W'.a - W.a) + p.y * (W'.c - W.c) + (W'.e - W.e) := by
      simp only [apply]; ring
    rw [this]; exact key _ _ _ _ _ ha hc he
  · have : (apply W' p).y - (apply W p).y = p.x * (W'.b - W.b) + p.y * (W'.d - W.d) + (W'.f - W.f) := by
      simp only [apply]; ring
    rw [this]; exact key _ _ _ _ _ hb hd hf

end Bound
end Svg.Write
