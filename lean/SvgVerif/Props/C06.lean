/-
  Props/C06.lean — property C06: basic shapes are interchangeable with their SVG 2 equivalent paths.
-/
import SvgVerif.Model.Shapes
import Mathlib.Tactic.Ring
import Mathlib.Tactic.Linarith
import Mathlib.Tactic.FieldSimp
import Mathlib.Tactic.Positivity
import Mathlib.Algebra.Order.Field.Basic

set_option linter.unusedSectionVars false
set_option linter.unusedVariables false

namespace Svg.C06
open Svg

variable {K : Type} [Field K] [LinearOrder K] [IsStrictOrderedRing K]

/-! ### Corner radii: SVG 2 §10.2 used values -/

/-- SVG 2 §10.2: an `auto` radius takes the other's value (0 if both auto); a zero radius disables
    rounding; otherwise rx is clamped to half the width and ry to half the height. -/
def specRadii (rx ry : Option K) (w h : K) : K × K :=
  let rx0 := rx.getD (ry.getD 0)
  let ry0 := ry.getD (rx.getD 0)
  if rx0 = 0 ∨ ry0 = 0 then (0, 0) else (min rx0 (w / 2), min ry0 (h / 2))

theorem smin_eq (a b : K) : smin a b = min a b := by
  unfold smin; rcases lt_or_ge b a with h | h
  · rw [if_pos h, min_eq_right h.le]
  · rw [if_neg (not_lt.mpr h), min_eq_left h]

/-- the decision table of `_validate_rect` is the specification's, for every combination of
    given / omitted / zero / over-large radii -/
theorem C06_rect_radii_table (rx ry : Option K) (w h : K) : rectRadii rx ry w h = specRadii rx ry w h := by
  have h2 : (two : K) = 2 := by simp [two]; norm_num
  cases rx <;> cases ry <;>
    simp only [rectRadii, specRadii, Option.getD, smin_eq, h2, Bool.or_eq_true, beq_iff_eq, or_self,
      if_true] <;> split_ifs <;> simp_all

/-- clamped radii never exceed half the side, and over-large radii are exactly half the side -/
theorem C06_radii_clamped (a b w h : K) (ha : a ≠ 0) (hb : b ≠ 0) :
    (specRadii (some a) (some b) w h).1 ≤ w / 2 ∧ (specRadii (some a) (some b) w h).2 ≤ h / 2 ∧
    (w / 2 ≤ a → (specRadii (some a) (some b) w h).1 = w / 2) := by
  simp only [specRadii, Option.getD, ha, hb, or_self, if_false]
  exact ⟨min_le_right _ _, min_le_right _ _, fun h => min_eq_right h⟩

/-! ### Connectivity of the decompositions -/

/-- every segment starts where its predecessor ended (a missing start is allowed only on a move) -/
def connectedFrom : Option (Pt K) → List (Seg K) → Prop
  | _, [] => True
  | prev, s :: rest =>
    (match s, prev with
     | .move _ _, _ => True
     | s, some p => s.start? = some p
     | _, none => False) ∧ connectedFrom (some s.end_) rest

def firstPoint : List (Seg K) → Option (Pt K)
  | [] => none
  | s :: _ => some s.end_

/-- the last segment is a close returning to the first point of the list -/
def closesToStart (l : List (Seg K)) : Prop :=
  match l.getLast?, firstPoint l with
  | some (.close _ e), some p => e = p
  | _, _ => False

theorem C06_rect_connected (x y w h rx ry q : K) (hw : w ≠ 0) (hh : h ≠ 0) :
    connectedFrom none (rectSegs x y w h rx ry q) ∧ closesToStart (rectSegs x y w h rx ry q) := by
  simp only [rectSegs, Bool.or_eq_true, beq_iff_eq, hw, hh, or_self, if_false, Bool.and_eq_true]
  split_ifs <;> simp [connectedFrom, closesToStart, firstPoint, Seg.start?, Seg.end_, cornerArc]

theorem C06_round_connected (cx cy rx ry q : K) (hx : rx ≠ 0) (hy : ry ≠ 0) :
    connectedFrom none (roundSegs cx cy rx ry q) ∧ closesToStart (roundSegs cx cy rx ry q) := by
  simp [roundSegs, hx, hy, connectedFrom, closesToStart, firstPoint, Seg.start?, Seg.end_]

/-- polyline / polygon: n points give a move, n−1 lines in order (zero-length ones included) and,
    for polygons, a close back to the first point; everything connected. -/
theorem poly_tail (p0 : Pt K) (closed : Bool) (last : Pt K) (ps : List (Pt K)) :
    (polyTail p0 closed last ps).length = ps.length + (if closed then 1 else 0) ∧
    connectedFrom (some last) (polyTail p0 closed last ps) ∧
    (closed = true → ∃ s, (polyTail p0 closed last ps).getLast? = some (.close s p0)) := by
  induction ps generalizing last with
  | nil => cases closed <;> simp [polyTail, connectedFrom, Seg.start?]
  | cons p ps ih =>
    obtain ⟨h1, h2, h3⟩ := ih p
    refine ⟨by simp only [polyTail, List.length_cons, h1]; omega, ?_, ?_⟩
    · simp only [polyTail, connectedFrom, Seg.start?, Seg.end_, true_and]; exact h2
    · intro hc
      obtain ⟨s, hs⟩ := h3 hc
      refine ⟨s, ?_⟩
      simp only [polyTail]
      rw [List.getLast?_cons_of_ne_nil (by intro hnil; rw [hnil] at hs; simp at hs)]
      exact hs

theorem C06_poly (p0 : Pt K) (rest : List (Pt K)) (closed : Bool) :
    (polySegs (p0 :: rest) closed).length = 1 + rest.length + (if closed then 1 else 0) ∧
    connectedFrom none (polySegs (p0 :: rest) closed) ∧
    (closed = true → closesToStart (polySegs (p0 :: rest) closed)) := by
  obtain ⟨h1, h2, h3⟩ := poly_tail p0 closed p0 rest
  refine ⟨by simp only [polySegs, List.length_cons, h1]; omega, ?_, ?_⟩
  · simp only [polySegs, connectedFrom, Seg.end_, true_and]; exact h2
  · intro hc
    obtain ⟨s, hs⟩ := h3 hc
    simp only [closesToStart, polySegs, firstPoint, Seg.end_]
    rw [List.getLast?_cons_of_ne_nil (by intro hnil; rw [hnil] at hs; simp at hs), hs]

/-! ### Curved edges lie on the specified ellipse and turn in the positive direction -/

/-- Each rounded corner `Arc(start, end, rx=, ry=)` of the rect decomposition: its centre is the
    inner corner centre, start and end are the axis points of the quarter ellipse with radii
    (rx, ry) and rotation 0, and the end is the start advanced by a positive quarter turn. -/
theorem C06_corner_arcs (x y w h rx ry q : K) (hrx : 0 < rx) (hry : 0 < ry) :
    let tr := cornerArc (⟨x + w - rx, y⟩ : Pt K) ⟨x + w, y + ry⟩ rx ry q
    let br := cornerArc (⟨x + w, y + h - ry⟩ : Pt K) ⟨x + w - rx, y + h⟩ rx ry q
    let bl := cornerArc (⟨x + rx, y + h⟩ : Pt K) ⟨x, y + h - ry⟩ rx ry q
    let tl := cornerArc (⟨x, y + ry⟩ : Pt K) ⟨x + rx, y⟩ rx ry q
    (tr.center = ⟨x + w - rx, y + ry⟩ ∧ tr.den 0 (-1) = tr.start ∧ tr.den 1 0 = tr.end_) ∧
    (br.center = ⟨x + w - rx, y + h - ry⟩ ∧ br.den 1 0 = br.start ∧ br.den 0 1 = br.end_) ∧
    (bl.center = ⟨x + rx, y + h - ry⟩ ∧ bl.den 0 1 = bl.start ∧ bl.den (-1) 0 = bl.end_) ∧
    (tl.center = ⟨x + rx, y + ry⟩ ∧ tl.den (-1) 0 = tl.start ∧ tl.den 0 (-1) = tl.end_) := by
  have hp : 0 < rx * ry := mul_pos hrx hry
  have e1 : (y + ry - y) * (x + w - (x + w - rx)) - (x + w - rx - (x + w - rx)) * (y + ry - (y + ry)) = rx * ry := by ring
  have e2 : (y + h - (y + h - ry)) * (x + w - rx - (x + w)) - (x + w - (x + w)) * (y + h - (y + h)) = -(rx * ry) := by ring
  have e3 : (y + h - ry - (y + h)) * (x - (x + rx)) - (x + rx - (x + rx)) * (y + h - ry - (y + h - ry)) = rx * ry := by ring
  have e4 : (y - (y + ry)) * (x + rx - x) - (x - x) * (y - y) = -(rx * ry) := by ring
  have n2 : ¬ (0 < -(rx * ry)) := by linarith
  simp only [cornerArc, e1, e2, e3, e4, hp, n2, if_true, if_false, ArcData.den, Pt.mk.injEq]
  refine ⟨⟨trivial, ⟨?_, ?_⟩, ⟨?_, ?_⟩⟩, ⟨trivial, ⟨?_, ?_⟩, ⟨?_, ?_⟩⟩,
          ⟨trivial, ⟨?_, ?_⟩, ⟨?_, ?_⟩⟩, ⟨trivial, ⟨?_, ?_⟩, ⟨?_, ?_⟩⟩⟩ <;> ring

/-- circle / ellipse: the four arcs start at (cx+rx, cy) and pass through (cx, cy+ry), (cx−rx, cy),
    (cx, cy−ry) in this order — the positive-angle direction — each a quarter of the ellipse with
    the shape's radii about its centre. -/
theorem C06_round_quadrants (cx cy rx ry q : K) (hx : rx ≠ 0) (hy : ry ≠ 0) :
    ∃ a0 a1 a2 a3 : ArcData K,
      roundSegs cx cy rx ry q =
        [.move none ⟨cx + rx, cy⟩, .arc a0, .arc a1, .arc a2, .arc a3, .close (some ⟨cx + rx, cy⟩) ⟨cx + rx, cy⟩] ∧
      (a0.den 1 0 = a0.start ∧ a0.den 0 1 = a0.end_ ∧ a1.den 0 1 = a1.start ∧ a1.den (-1) 0 = a1.end_ ∧
       a2.den (-1) 0 = a2.start ∧ a2.den 0 (-1) = a2.end_ ∧ a3.den 0 (-1) = a3.start ∧ a3.den 1 0 = a3.end_) ∧
      (a0.sweep = q ∧ a1.sweep = q ∧ a2.sweep = q ∧ a3.sweep = q) ∧
      a0.start = ⟨cx + rx, cy⟩ ∧ a0.end_ = ⟨cx, cy + ry⟩ ∧ a1.end_ = ⟨cx - rx, cy⟩ ∧ a2.end_ = ⟨cx, cy - ry⟩ := by
  simp only [roundSegs, Bool.or_eq_true, beq_iff_eq, hx, hy, or_self, if_false]
  refine ⟨_, _, _, _, rfl, ?_, ⟨rfl, rfl, rfl, rfl⟩, rfl, rfl, rfl, rfl⟩
  simp only [ArcData.den, Pt.mk.injEq]
  refine ⟨⟨?_, ?_⟩, ⟨?_, ?_⟩, ⟨?_, ?_⟩, ⟨?_, ?_⟩, ⟨?_, ?_⟩, ⟨?_, ?_⟩, ⟨?_, ?_⟩, ⟨?_, ?_⟩⟩ <;> ring

/-! ### Degenerate shapes produce no segments -/
theorem C06_degenerate (x y w h rx ry q cx cy : K) :
    (w = 0 ∨ h = 0 → rectSegs x y w h rx ry q = []) ∧
    (rx = 0 ∨ ry = 0 → roundSegs cx cy rx ry q = []) ∧
    polySegs ([] : List (Pt K)) true = [] ∧ polySegs ([] : List (Pt K)) false = [] := by
  refine ⟨?_, ?_, rfl, rfl⟩
  · intro hz; rcases hz with hz | hz <;> simp [rectSegs, hz]
  · intro hz; rcases hz with hz | hz <;> simp [roundSegs, hz]

/-! ### Non-vacuity -/
example : specRadii (K := ℚ) (some 30) none 40 100 = (20, 30) := by
  simp only [specRadii, Option.getD]; norm_num

end Svg.C06
